#!/bin/bash
# tools/seed_regress.sh [dir...] : re-runs the quick check of every kept seeded change (seeded/<dir>/patch.diff)
# against a scratch worktree carrying the change (VERIF_MUTANT_DIR, /repo itself is not touched) and
# reports whether it is still detected. Evidence files are overwritten by these runs: regenerate them
# on the unchanged tree afterwards.
cd /verif
dirs=("$@"); [ ${#dirs[@]} -gt 0 ] || dirs=($(ls seeded))
V=/tmp/seedv-regress
for d in "${dirs[@]}"; do
  [ -f seeded/$d/patch.diff ] || continue
  id=${d%%-*}
  git -C /repo worktree remove --force $V 2>/dev/null
  git -C /repo worktree add -q $V HEAD || exit 2
  (cd $V && git apply /verif/seeded/$d/patch.diff) || { echo "$d: patch does not apply"; continue; }
  raw=$(mktemp); VERIF_MUTANT_DIR=$V timeout 3000 ./vcheck $id quick >$raw 2>&1; code=$?
  echo "$d: exit $code $(grep -E "^C[0-9]+ quick" $raw | cut -c1-160)"
  [ $code = 1 ] || grep -E "^(INFRA|violation)" $raw | head -3
  rm -f $raw
done
git -C /repo worktree remove --force $V 2>/dev/null
