#!/bin/bash
# tools/seed_official.sh <Cxx>... : applies the kept seeded change to /repo itself (git apply), runs the
# property's quick check, undoes the change straight afterwards, and files everything under seeded/<id>/.
export GOFLAGS=-mod=mod GOPROXY=off GOSUMDB=off GOTOOLCHAIN=local
for id in "$@"; do
  S=${SEEDPREFIX:-/tmp/seed}-$id; D=/verif/seeded/$id${SEEDSUFFIX:-}
  [ -f $S/patch.diff ] || { echo "$id: no patch"; continue; }
  [ -z "$(git -C /repo status --short)" ] || { echo "/repo not clean"; exit 2; }
  mkdir -p $D
  demo=$(cd $S && find . -name seed_demo_test.go | head -1)
  cp $S/patch.diff $D/patch.diff; cp $S/$demo $D/seed_demo_test.go; cp $S/meta.json $D/meta.orig.json
  git -C /repo apply $S/patch.diff || { echo "$id: patch does not apply"; continue; }
  base=$( (cd /repo && go test -vet=off -count=1 ./... 2>&1 | grep -v "no test files" | tr '\n' ';') )
  cp $S/$demo /repo/$demo
  demow=$( (cd /repo && go test -vet=off -count=1 -run TestSeedDemo ./$(dirname $demo)/ 2>&1 | tail -1) )
  rm /repo/$demo
  raw=$(mktemp); (cd /verif && timeout 3000 ./vcheck $id quick >$raw 2>&1); code=$?
  out=$(grep -E "^(C[0-9]+ quick|INFRA|violation of|VIOLATION)" $raw | head -12); rm -f $raw
  git -C /repo checkout -- . ; git -C /repo status --short
  cp $S/$demo /repo/$demo
  demoo=$( (cd /repo && go test -vet=off -count=1 -run TestSeedDemo ./$(dirname $demo)/ 2>&1 | tail -1) )
  rm /repo/$demo
  python3 - "$id" "$D" "$demo" "$base" "$demow" "$demoo" "$out" "$code" <<'PY'
import json,sys
id,D,demo,base,demow,demoo,out,code=sys.argv[1:9]
m=json.load(open(D+'/meta.orig.json'))
meta={"property":id,"breaks":m.get("what_it_breaks"),"needs_to_manifest":m.get("needs_to_manifest"),"files_changed":m.get("files_changed"),
 "demo_file_in_repo":demo,
 "what_i_ran":{"1_apply":"git -C /repo apply %s/patch.diff"%D,
   "2_baseline_suite_with_change":"cd /repo && go test -vet=off -count=1 ./...  ->  "+base,
   "3_demo_with_change":"go test -run TestSeedDemo  ->  "+demow,
   "4_check":"./vcheck %s quick  (exit %s)"%(id,code), "4_check_output":out.split("\n"),
   "5_undo":"git -C /repo checkout -- .",
   "6_demo_without_change":"go test -run TestSeedDemo  ->  "+demoo},
 "detected": code=="1", "seeded_by":"independent sub-agent given only the property text and a scratch worktree","agent_notes":m.get("notes")}
json.dump(meta,open(D+'/meta.json','w'),indent=1)
import os; os.remove(D+'/meta.orig.json')
print(id,"detected" if code=="1" else "NOT DETECTED (exit %s)"%code, "| demo with:",demow.split()[0],"| without:",demoo.split()[0], "| baseline:", base[:40])
PY
done
