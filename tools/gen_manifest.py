#!/usr/bin/env python3
"""Generates /verif/MANIFEST.json from the table below (single source of truth for claims)."""
import json, sys

ALL = ["C%02d" % i for i in range(1, 21)]

ENGINES = [
    {"name": "seqx", "path": "checks/plain", "kind_free_text": "E2: exhaustive enumeration of finite input alphabets and breadth-first explicit-state exploration of operation histories replayed on fresh real objects (white-box state dump as state key), against reference oracles"},
    {"name": "vsched", "path": "vsched + vinstr + checks/sched", "kind_free_text": "E1: source instrumenter (go build -overlay) + cooperative scheduler owning every channel/select/mutex/go/cancel operation of the real code; stateless DFS over schedules with preemption bounding and happens-before state caching; deterministic replay"},
    {"name": "wsx", "path": "checks/ws", "kind_free_text": "E3: real Relay.ServeHTTP + coder/websocket over net.Pipe inside a testing/synctest bubble (virtual time, exact quiescence); enumerates frame sequences and configurations"},
    {"name": "faultsql", "path": "faultsql", "kind_free_text": "E4: fault-injecting database/sql driver wrapping go-sqlite3; enumerates every driver-call index of a batch as a failure point"},
]

# id -> dict(engine, category, text, note, technique, design)
CLAIMS = {
    "C02": dict(engine="seqx", category="exploration",
        text="Small-scope exhaustive enumeration: every (filter, event) pair and every filter list up to length 3 over a colliding alphabet, and every event sequence up to length 5 for the limit-counting matcher, each compared with a reference predicate written from the property text. Exhaustive over the stated alphabet, silent beyond it.",
        note="Trusted: the reference predicate in refmodel/filter.go; values outside the alphabet are not covered.",
        technique="bounded exhaustive enumeration of inputs and input sequences against a reference model (explicit-state, no sampling)",
        design="DESIGN.md §4 C02"),
}

PENDING_REASON = "check under construction in this round (see DESIGN.md §4 for the planned model-checking design); not claimed until its check passes on the unchanged tree"

def main():
    serves = {}
    for pid, c in CLAIMS.items():
        serves.setdefault(c["engine"], []).append(pid)
    engines = []
    for e in ENGINES:
        if e["name"] in serves:
            d = dict(e); d["serves_properties"] = sorted(serves[e["name"]]); engines.append(d)
    checks = []
    for pid in ALL:
        if pid not in CLAIMS: continue
        c = CLAIMS[pid]
        checks.append({
            "property_id": pid,
            "quick_cmd": "./vcheck %s quick" % pid,
            "thorough_cmd": "./vcheck %s thorough" % pid,
            "evidence_file": "/verif/evidence/%s.json" % pid,
            "replay_cmd_template": "./vcheck %s --replay {path}" % pid,
            "engine": c["engine"],
            "level_claimed": {"category": c["category"], "text": c["text"], "design_ref": c["design"]},
            "level_note": c["note"],
            "technique": c["technique"],
        })
    na = [{"property_id": p, "reason": PENDING_REASON} for p in ALL if p not in CLAIMS]
    m = {
        "version": 1,
        "setup_cmd": "./setup.sh",
        "hooks": {
            "guard": "verif",
            "enable": "go1.26.8 build -tags verif -overlay <generated overlay.json>: instrumented copies of /repo sources and //go:build verif accessor files are injected by go's -overlay; /repo itself carries no hooks",
            "baseline_off_cmd": "cd /repo && GOFLAGS=-mod=mod GOPROXY=off GOSUMDB=off go test -vet=off -count=1 ./...",
            "source_commits": [],
            "add_only": True,
        },
        "engines": engines,
        "checks": checks,
        "not_applicable": na,
        "notes": "All checks rebuild from /repo's working tree on every invocation (vcheck -> go build -overlay). Exit 0 = held on everything explored (KNOWN-FINDING lines for listed findings), 1 = VIOLATION line, 2 = infrastructure failure.",
    }
    json.dump(m, open("/verif/MANIFEST.json", "w"), indent=1)
    print("MANIFEST.json: %d checks, %d not_applicable" % (len(checks), len(na)))

if __name__ == "__main__":
    main()
