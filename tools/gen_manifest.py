#!/usr/bin/env python3
"""Generates /verif/MANIFEST.json from the table below (single source of truth for claims)."""
import json, sys

ALL = ["C%02d" % i for i in range(1, 21)]

ENGINES = [
    {"name": "seqx", "path": "checks/plain", "kind_free_text": "E2: exhaustive enumeration of finite input alphabets and breadth-first explicit-state exploration of operation histories replayed on fresh real objects (white-box state dump as state key), against reference oracles"},
    {"name": "vsched", "path": "vsched + vinstr + checks/sched", "kind_free_text": "E1: source instrumenter (go build -overlay) + cooperative scheduler owning every channel/select/mutex/go/cancel operation of the real code; stateless DFS over schedules with preemption bounding and happens-before state caching; deterministic replay"},
    {"name": "wsx", "path": "checks/ws", "kind_free_text": "E3: real Relay.ServeHTTP + coder/websocket over net.Pipe inside a testing/synctest bubble (virtual time, exact quiescence); enumerates frame sequences and configurations"},
    {"name": "faultsql", "path": "faultsql", "kind_free_text": "E4: fault-injecting database/sql driver wrapping go-sqlite3; enumerates every driver-call index of a batch as a failure point"},
]

# id -> dict(engine, category, text, note, technique, design)
ENUM_TECH = "bounded exhaustive enumeration of a finite input alphabet on the real code against a reference model (explicit enumeration, no sampling)"
E1_TECH = "stateless model checking of the implementation: cooperative scheduler over instrumented sources, DFS over all schedules with happens-before state caching (unbounded) or preemption bounding, deterministic replay"

CLAIMS = {
    "C01": dict(engine="seqx", category="exploration",
        text="Every Unicode scalar value (1,112,064) in four positions is serialized by Event.Serialize and compared byte-for-byte with an independent NIP-01 serializer; a product of keys x kinds x timestamps x tag shapes x contents is signed with BIP-340 over the reference id and must verify; every single-bit flip of id/pubkey/sig and every single-field change of signed events must not verify. Exhaustive over these stated spaces. Call history: every sequence of up to 3/4 Serialize/Verify calls over 6 events (verdicts and returned forms must not depend on earlier calls; a returned form must not change later). Concurrency (E1, scheduling point before every statement of Serialize/Verify): 2-3 tasks verifying/serializing different events under every schedule up to a preemption bound.",
        note="Trusted: refmodel/nip01ser.go (written from the NIP text, no encoding/json), btcec's schnorr signer as BIP-340 reference, SHA-256. The relay's admission gate (relay.go) is exercised by the ws-gate part (E3).",
        technique=ENUM_TECH + "; exhaustive call sequences up to a depth; stateless model checking of concurrent callers with statement-level scheduling points", design="DESIGN.md §4 C01"),
    "C03": dict(engine="seqx", category="model_checking",
        text="Explicit-state BFS over every insertion history (depth 3 quick / 5 thorough, capacities 1,2,3,(4),100; capacities <= 4 reach a fixpoint) over a 31-event colliding alphabet and a 14-event focus alphabet, each state rebuilt on a fresh real EventCache and keyed on a dump of the complete internal state; in every state 841 filter lists are answered by Find and compared with a tie-tolerant specification over the retained set (both access paths). Plus big caches (70-1025 retained events, 1-65 per timestamp): queries vs the specification over the cache's own listing vs the Dump->Restore twin.",
        note="Trusted: refmodel.MatchFilter and the limit-newest union oracle. Alphabet- and depth-bounded. Ties at a limit cut accept any choice.",
        technique="explicit-state model checking of the implementation: BFS over operation histories replayed on fresh real objects, full internal state as state key, reference-model oracle in every state", design="DESIGN.md §4 C03-C05"),
    "C04": dict(engine="seqx", category="model_checking",
        text="Same exploration as C03; on every transition (listing before, event, flag, listing after) a specification relation written from the property decides whether the step is allowed: capacity, unique ids, one version per address, newest wins, flag iff-rule, who may leave. The concurrent cache part of C15 (all schedules of 2-3 tasks on one cache at lock granularity, final state part of the history) also runs here: capacity, one version per address and suppression must hold under concurrent insertions.",
        note="Equal created_at at one address and the relation between a d-less addressable event and the d=\"\" event of the same author are unclaimed; flag of ephemeral events unclaimed.",
        technique="explicit-state model checking with step-wise refinement check against a specification relation", design="DESIGN.md §4 C03-C05"),
    "C05": dict(engine="seqx", category="model_checking",
        text="Same exploration as C03; step oracle for deletion requests (exactly the author's referenced events leave, re-insertion blocked while the request is retained, request itself listed) (deletion requests before/after their targets, backdated ones older than their target and than everything retained) plus an author-projection differential check: no event of one author is removed, replaced or refused because of another author's event, except by eviction. The concurrent cache part of C15 also runs here (an event must never be served together with a retained deletion request of its author referencing it, whatever the interleaving of the two insertions).",
        note="a references to plain replaceable kinds are unclaimed (negative claims only), as the property states.",
        technique="explicit-state model checking with step-wise refinement check and differential (author projection) oracle", design="DESIGN.md §4 C03-C05"),
    "C06": dict(engine="seqx", category="model_checking",
        text="BFS over batch histories (single events and ordered pairs as batches, depth 2 quick / 3 thorough) on fresh in-memory SQLite databases keyed on a dump of all five tables; after every batch 353 filter lists are queried and compared with the specification over stored live events (all seven fields, tie-tolerant limit-newest union).",
        note="Hash seed fixed (12345) with a no-collision check of the alphabet; addressable events without d, deleted deletion requests, a references to plain replaceable kinds unclaimed.",
        technique="explicit-state model checking of the implementation: BFS over batch histories on fresh real databases, full table dump as state key", design="DESIGN.md §4 C06"),
    "C07": dict(engine="vsched", category="model_checking",
        text="All schedules of one real RouterHandler with 2-3 client connections in 15 scenarios (matching/non-matching publication, replacement, CLOSE, CLOSE of ids that are not open, REQ/CLOSE/REQ or a first REQ racing a publication followed by a publication after quiescence, two publishers against a stalled subscriber, same id on two connections, two publishers, disconnect by cancel or inbound close at every cut point, stalled subscriber with buflen+2 publications, self-delivery) x buflen 1,2, map iteration order in Publish explored as a choice; unbounded within a per-job budget, else complete up to a delay bound; three-valued oracle on call/return stamps (EOSE received before the EVENT was sent => must deliver once; REQ after the OK, closed/replaced/finished before => must not; otherwise may), per-publisher order, every REQ an EOSE, every EVENT an accepting OK, publishers never blocked by a stalled subscriber.",
        note="A delivery may be missing only if >= buflen other deliveries to that connection were unread; connections ended by the environment may lose queued deliveries (unclaimed).",
        technique=E1_TECH, design="DESIGN.md §4 C07"),
    "C08": dict(engine="vsched", category="model_checking",
        text="All schedules of one real MergeHandler session over scripted REQ children (7 behaviours: stored+EOSE, EOSE+live, unsorted, non-matching, duplicate-of-sibling, EOSE-only, late-EOSE) for every pair of behaviours x 5 client scripts x filter sets; unbounded (complete up to state caching) within a per-job budget, otherwise complete up to a delay bound; oracle on the client stream: one EOSE after all children, ordered de-duplicated matching limited stream before, live events forwarded unchanged in child order after. Two sessions on ONE merge handler using the same subscription id at once (7 behaviour pairs x 2 scripts x 2 filter sets, delay-bounded): each session is judged by the single-session oracle.",
        note="Events a child sends between its own EOSE and the merged EOSE are unclaimed; histories do not re-issue an id before its EOSE (the property's quantifier).",
        technique=E1_TECH, design="DESIGN.md §4 C08"),
    "C09": dict(engine="vsched", category="model_checking",
        text="All schedules (unbounded, complete up to happens-before state caching) of one real MergeHandler session over 2-3 scripted children, for every verdict table (accept with and without a text / three kinds of rejection / reject-only-the-first / accept-only-the-first per child), count table and 7 client scripts including repeated ids in flight; oracle: one OK per EVENT with the right id, verdict and leading reason, one COUNT reply with the maximum.",
        note="Scheduling points are synchronisation operations; sound for data-race-free code. Children are scripted stubs that honour the property's premise (one reply per request). Harness sizes: one session (two sessions for the same-id-in-flight jobs), <= 3 children, <= 3 requests.",
        technique=E1_TECH, design="DESIGN.md §4 C09"),
    "C12": dict(engine="wsx", category="exploration",
        text="Every frame sequence up to length 2 (quick) / 3 (thorough) over 20 frame classes x 3 handler scripts through the real Relay.ServeHTTP + coder/websocket on net.Pipe inside a synctest bubble (exact quiescence after every frame): the handler gets exactly the valid authentic frames in order, every other frame gets exactly one rejection, the connection stays usable; every handler-output sequence up to length 3/4 over 10 server messages arrives as equal text frames in order; a sweep of every free-text field of the seven server message types x 19 strings of special characters (one message per session).",
        note="Enumerates frames/outputs/configurations, not interleavings inside net/http and coder/websocket; net.Pipe instead of TCP. Frames above the size limit (library closes) are unclaimed.",
        technique="bounded exhaustive enumeration of frame and output sequences on the real WebSocket stack under virtual time with exact quiescence detection", design="DESIGN.md §4 C12"),
    "C13": dict(engine="vsched", category="model_checking",
        text="Handlers (E1): 10 real compositions (Default, Cache, Router, merges, SQLite in memory, the composition of cmd/mocrelay, SQLite whose bulk-insert goroutine has stopped, a merge with two default handlers) x 6 wrappers plus every provided middleware singly plus four wrappers configured to refuse parts of the history (the middleware's own rejection in flight, peer stalling after 0-3 reads), serving [REQ, EVENT, COUNT, CLOSE, REQ] while a second connection publishes; the session is ended by an environment task enabled from the start (every cut point) - cancel with draining or stalled peer, or inbound close; all schedules up to a delay or deviation bound per job (steps of the environment task cost nothing, so every cut point of every explored schedule is reached); at quiescence ServeNostr has returned, no task spawned under the session is alive, router registry and Prometheus gauges are back. WebSocket (E3): SendTimeout x PingDuration (incl. disabled) x handler x stall point in virtual time: the stalled peer is dropped by T0+SendTimeout(+allowance), ServeHTTP returns, no goroutine left; every cut point of a 4-frame history for client close / connection cut.",
        note="Goroutines inside database/sql, go-sqlite3, net/http and coder/websocket are not scheduled by E1; E3 enumerates configurations and cut points, not interleavings of the network stack.",
        technique=E1_TECH + "; plus exhaustive enumeration of configurations and cut points on the real WebSocket stack under virtual time", design="DESIGN.md §4 C13"),
    "C15": dict(engine="vsched", category="model_checking",
        text="2-3 tasks x 1-2 operations on one shared EventCache (and two CacheHandler sessions on one cache): all schedules at lock granularity, and - with a scheduling point before every statement of event_cache.go and data_structure.go - all schedules up to a preemption bound, so that a changed lock scope becomes an observable atomicity violation; oracle: brute-force linearizability against the cache run sequentially plus per-result invariants. The 'no data races' clause is checked by a separate free-running -race pass of the same harness bodies (sampling, stated as such).",
        note="Sequentially consistent interleavings only; the race pass samples. exhaustive=false in the evidence because of the sampled part.",
        technique=E1_TECH + " with statement-level scheduling points; brute-force linearizability checking; free-running -race pass as complement", design="DESIGN.md §4 C15"),
    "C16": dict(engine="vsched", category="model_checking",
        text="Every client message sequence up to length 3/4 over 13 messages (incl. a REQ for which the SQLite query fails) through the real CacheHandler (canonical schedule, all schedules for length 2 and a core at length 3) and up to length 2/3 through the real SQLite handler (stepwise with quiescence, pipelined with a delay bound): the reply stream is the in-order concatenation of per-request replies. Dump/restore: in every state of the C03 exploration, and for big caches (70-1025 events with ties across every power-of-two boundary), a dumped and restored cache answers the filter battery identically.",
        note="Cache: 'newly stored' and stored matches are taken from the cache run sequentially (decided against the spec by C03-C05).",
        technique=E1_TECH + "; explicit-state BFS for dump/restore", design="DESIGN.md §4 C16"),
    "C14": dict(engine="faultsql", category="fault_enumeration",
        text="For 14 batches x 3 pre-states every driver call (begin, each prepare, each exec, commit) is failed in modes error and connection-drop (thorough: process kill in a child process, and second faults during the retry): answers after the failure equal answers before; retry and re-insertion equal one successful insertion. Close/reopen at every subset of batch boundaries of all histories of <= 3 batches over an 8-batch alphabet: answers equal the never-reopened run, seed stable.",
        note="Crash points are driver-call boundaries; torn pages inside SQLite's pager are trusted to SQLite. The handler's retry loop is covered by the sqlite-retry part under virtual time; a batch of the handler's default size (1000 events) is covered at a stride of fault points by sqlite-bigbatch; in every state of the C06 exploration every batch of the history is delivered once more and no answer may change (sqlite-bfs part).",
        technique="exhaustive fault-point enumeration with a fault-injecting database/sql driver plus exhaustive enumeration of reopen placements", design="DESIGN.md §4 C14"),
    "C10": dict(engine="seqx", category="exploration",
        text="All token strings up to length 3/4 over a 34-token JSON alphabet (bare and inside 37 message frames), the complete single-point mutation neighbourhood of every valid test-data line and generated message, and a product of protocol values for all 14 message types, events and filters, through all 29 decoder entry points under recover(): no panic, completely filled values, decode-encode-decode stability, value round trip.",
        note="Top-level/nested JSON null, duplicate keys' winner, non-integer number spellings are unclaimed. Validation (C11) is out of scope here.",
        technique=ENUM_TECH, design="DESIGN.md §4 C10"),
    "C11": dict(engine="seqx", category="exploration",
        text="Generated well-formed client messages of every type with every optional part present/absent and insignificant whitespace at every structural position must pass the relay's admission composition (utf8/json valid, ParseClientMsg, ValidClientMsg); every single-point corruption that is admitted must decode to a value satisfying all NIP-01 constraints, checked on the value. Exhaustive over the generator's product. Behind the gate (E3): 5 well-formed and 20 constraint-breaking messages that still parse are sent through the real relay; the handler must receive exactly the well-formed ones.",
        note="Trusted: the independent well-formedness predicate in checks/c11/wf.go. Unclaimed: JSON null for objects, exponent spellings, since>until, subscription-id length, U+000C.",
        technique=ENUM_TECH, design="DESIGN.md §4 C11"),
    "C17": dict(engine="vsched", category="model_checking",
        text="Each of 10 limit middlewares x limit L x probe message (kind x size 0..L+2, including 'absent' and 'only the second filter offends') between bystander messages, around a recording stub that also emits all seven server message types: all schedules; all ordered pairs of two middlewares on a 7-message script: all schedules; the NIP-11 chain for all 128 subsets of the seven limits plus nil document and a document without limitation block on a 14-message script (unbounded for chains of depth <= 1, delay-bounded for deeper ones). Oracle: forwarded unchanged (pointer-identical) iff within the limit, else exactly one rejection of the right type and nothing forwarded; bystanders and server messages unchanged and in order; identity when nothing is set.",
        note="created_at windows are judged against a virtual clock and claimed only at >= 2 s from the boundary; an over-long CLOSE id is unclaimed; a subscription id that is within the limit counted in characters and over it counted in bytes is unclaimed (the statement does not fix the unit): it must be cleanly forwarded or cleanly rejected.",
        technique=E1_TECH, design="DESIGN.md §4 C17"),
    "C18": dict(engine="vsched", category="model_checking",
        text="All client histories up to length 5/6 over {REQ a,b,c; CLOSE a,b} through the real MaxSubscriptions wrapper for N=1,2(,3), all EVENT-id histories up to length 5/6 over 3 ids through the real receive- and send-side unique filters for window 1,2, each on all schedules (unbounded with state caching), against a set model and a last-size-distinct model (three-valued); two sessions on one middleware value with colliding ids - concurrently, and one after the other has ended: all schedules, each session's outcome equals its outcome alone.",
        note="A repeated id that has left the window is unclaimed. Stubs downstream answer every REQ with EOSE / every EVENT with OK.",
        technique=E1_TECH, design="DESIGN.md §4 C18"),
    "C19": dict(engine="vsched", category="model_checking",
        text="All single-session client histories up to length 3/4 over 9 symbols (REQ a/b/x/live, CLOSE a/x, EVENT kind 1/7, COUNT) through the real Prometheus middleware including teardown by an environment canceller at every cut point (unbounded), and 10 two-session script pairs x 4 endings within delay bounds; at every quiescence: both streams unaltered and in order, connection gauge = live sessions, subscription gauge explained by some merge of the REQ/CLOSE and CLOSED sequences and released at session end, per-type and per-kind counters = messages that crossed.",
        note="Metrics are read with Registry.Gather() at quiescence only; messages a session takes after its context is cancelled are held to 'in-order subsequence'. Every harness session carries an HTTP upgrade request in its context as a session served by Relay does; all sessions carry an equal one (same peer address, proxy headers, request id).",
        technique=E1_TECH, design="DESIGN.md §4 C19"),
    "C20": dict(engine="seqx", category="exploration",
        text="Product of Upgrade/Accept/method/path/mux configurations through ServeMux.ServeHTTP on a ResponseRecorder (relay path recognised by equality with Relay.ServeHTTP's own answer), and NIP-11 documents (2^16 present/absent product plus targeted structured values; kind ranges as numbers and pairs) through Marshal/Unmarshal and the HTTP handlers.",
        note="For Accept values that merely contain the media type or differ in case it is unclaimed which of the two answers is due, but the response must be one of them in full; headers are claimed only when a document is configured.",
        technique=ENUM_TECH, design="DESIGN.md §4 C20"),
    "C02": dict(engine="seqx", category="exploration",
        text="Small-scope exhaustive enumeration: every (filter, event) pair and every filter list up to length 3 over a colliding alphabet, and every event sequence up to length 5 for the limit-counting matcher, each compared with a reference predicate written from the property text. Exhaustive over the stated alphabet, silent beyond it.",
        note="Trusted: the reference predicate in refmodel/filter.go; values outside the alphabet are not covered.",
        technique="bounded exhaustive enumeration of inputs and input sequences against a reference model (explicit-state, no sampling)",
        design="DESIGN.md §4 C02"),
}

PENDING_REASON = "check under construction in this round (see DESIGN.md §4 for the planned model-checking design); not claimed until its check passes on the unchanged tree"

def main():
    serves = {}
    for pid, c in CLAIMS.items():
        serves.setdefault(c["engine"], []).append(pid)
    engines = []
    for e in ENGINES:
        if e["name"] in serves:
            d = dict(e); d["serves_properties"] = sorted(serves[e["name"]]); engines.append(d)
    checks = []
    for pid in ALL:
        if pid not in CLAIMS: continue
        c = CLAIMS[pid]
        checks.append({
            "property_id": pid,
            "quick_cmd": "./vcheck %s quick" % pid,
            "thorough_cmd": "./vcheck %s thorough" % pid,
            "evidence_file": "/verif/evidence/%s.json" % pid,
            "replay_cmd_template": "./vcheck %s --replay {path}" % pid,
            "engine": c["engine"],
            "level_claimed": {"category": c["category"], "text": c["text"], "design_ref": c["design"]},
            "level_note": c["note"],
            "technique": c["technique"],
        })
    na = [{"property_id": p, "reason": PENDING_REASON} for p in ALL if p not in CLAIMS]
    m = {
        "version": 1,
        "setup_cmd": "./setup.sh",
        "hooks": {
            "guard": "verif",
            "enable": "go1.26.8 build -tags verif -overlay <generated overlay.json>: instrumented copies of /repo sources and //go:build verif accessor files are injected by go's -overlay; /repo itself carries no hooks",
            "baseline_off_cmd": "cd /repo && GOFLAGS=-mod=mod GOPROXY=off GOSUMDB=off GOTOOLCHAIN=local go test -vet=off -count=1 ./...",
            "source_commits": [],
            "add_only": True,
        },
        "engines": engines,
        "checks": checks,
        "not_applicable": na,
        "notes": "All checks rebuild from /repo's working tree on every invocation (vcheck -> go build -overlay). Exit 0 = held on everything explored (KNOWN-FINDING lines for listed findings), 1 = VIOLATION line, 2 = infrastructure failure.",
    }
    json.dump(m, open("/verif/MANIFEST.json", "w"), indent=1)
    print("MANIFEST.json: %d checks, %d not_applicable" % (len(checks), len(na)))

if __name__ == "__main__":
    main()
