#!/bin/bash
# tools/seedcheck.sh <Cxx> : validates the seeded change in /tmp/seed-<Cxx> (demo fails with it, passes
# without it, baseline suite passes with it) in a fresh scratch worktree, then runs the check against it.
id=$1; tier=${2:-quick}
export GOFLAGS=-mod=mod GOPROXY=off GOSUMDB=off GOTOOLCHAIN=local
S=${SEEDPREFIX:-/tmp/seed}-$id; V=/tmp/seedv-$id
[ -f $S/patch.diff ] || { echo "no patch"; exit 2; }
git -C /repo worktree remove --force $V 2>/dev/null; git -C /repo worktree add -q $V HEAD || exit 2
demo=$(cd $S && git status --short | grep seed_demo_test.go | awk '{print $2}')
[ -n "$demo" ] || demo=$(cd $S && find . -name seed_demo_test.go | head -1)
pkg=$(dirname $demo)
cp $S/$demo $V/$demo
echo "== demo WITHOUT change"; (cd $V && go test -vet=off -count=1 -run TestSeedDemo ./$pkg/ 2>&1 | tail -2)
(cd $V && git apply $S/patch.diff) || { echo "patch does not apply"; }
echo "== demo WITH change"; (cd $V && go test -vet=off -count=1 -run TestSeedDemo ./$pkg/ 2>&1 | tail -3)
rm $V/$demo
echo "== baseline WITH change"; (cd $V && go test -vet=off -count=1 ./... 2>&1 | grep -v "no test files")
echo "== check $id $tier against the change"
(cd /verif && VERIF_MUTANT_DIR=$V timeout 3000 ./vcheck $id $tier 2>&1 | grep -E "^(C[0-9]+ (quick|thorough)|INFRA|violation of|KNOWN)" | head -8)
git -C /repo worktree remove --force $V
