package main

// table maps each property to its evidence level and the sub-checks that decide it.
var table = map[string]propSpec{
	"C02": {Level: "exploration", Parts: []partSpec{{Name: "c02-match", Bin: "plain"}, {Name: "c02-limit", Bin: "plain"}}},
	"C01": {Level: "exploration", Parts: []partSpec{{Name: "c01-serialize", Bin: "p:c01"}, {Name: "c01-sign", Bin: "p:c01"}, {Name: "c01-tamper", Bin: "p:c01"}, {Name: "c01-calls", Bin: "p:c01"}, {Name: "c01-concurrent", Bin: "stmt"}, {Name: "ws-gate", Bin: "p:ws"}}},
	"C10": {Level: "exploration", Parts: []partSpec{{Name: "c10-tokens", Bin: "p:c10"}, {Name: "c10-mutate", Bin: "p:c10"}, {Name: "c10-roundtrip", Bin: "p:c10"}, {Name: "c10-calls", Bin: "p:c10"}}},
	"C11": {Level: "exploration", Parts: []partSpec{{Name: "c11-complete", Bin: "p:c11"}, {Name: "c11-sound", Bin: "p:c11"}, {Name: "ws-gate", Bin: "p:ws"}}},
	"C15": {Level: "model_checking", Parts: []partSpec{{Name: "c15-cache", Bin: "inst"}, {Name: "c15-cache-stmt", Bin: "stmt"}, {Name: "c15-race", Bin: "race"}}},
	"C16": {Level: "model_checking", Parts: []partSpec{{Name: "c16-replies", Bin: "inst"}, {Name: "cache-bfs", Bin: "p:cache"}, {Name: "cache-big", Bin: "p:cache"}}},
	"C17": {Level: "model_checking", Parts: []partSpec{{Name: "c17-limits", Bin: "inst"}}},
	"C18": {Level: "model_checking", Parts: []partSpec{{Name: "c18-stateful", Bin: "inst"}}},
	"C19": {Level: "model_checking", Parts: []partSpec{{Name: "c19-prom", Bin: "inst"}}},
	"C20": {Level: "exploration", Parts: []partSpec{{Name: "c20-routing", Bin: "p:c20"}, {Name: "c20-roundtrip", Bin: "p:c20"}, {Name: "c20-concurrent", Bin: "stmt"}}},
	"C03": {Level: "model_checking", Parts: []partSpec{{Name: "cache-bfs", Bin: "p:cache"}, {Name: "cache-big", Bin: "p:cache"}}},
	"C04": {Level: "model_checking", Parts: []partSpec{{Name: "cache-bfs", Bin: "p:cache"}, {Name: "c15-cache", Bin: "inst"}}},
	"C05": {Level: "model_checking", Parts: []partSpec{{Name: "cache-bfs", Bin: "p:cache"}, {Name: "c15-cache", Bin: "inst"}}},
	"C06": {Level: "model_checking", Parts: []partSpec{{Name: "sqlite-bfs", Bin: "p:sqlite"}}},
	"C12": {Level: "exploration", Parts: []partSpec{{Name: "ws-gate", Bin: "p:ws"}, {Name: "ws-output", Bin: "p:ws"}}},
	"C13": {Level: "model_checking", Parts: []partSpec{{Name: "c13-handlers", Bin: "inst"}, {Name: "ws-stall", Bin: "p:ws"}}},
	"C14": {Level: "fault_enumeration", Parts: []partSpec{{Name: "sqlite-fault", Bin: "p:sqlite"}, {Name: "sqlite-reopen", Bin: "p:sqlite"}, {Name: "sqlite-retry", Bin: "p:sqlite"}, {Name: "sqlite-bigbatch", Bin: "p:sqlite"}, {Name: "sqlite-bfs", Bin: "p:sqlite"}}},
	"C07": {Level: "model_checking", Parts: []partSpec{{Name: "c07-router", Bin: "inst"}}},
	"C08": {Level: "model_checking", Parts: []partSpec{{Name: "c08-merge", Bin: "inst"}}},
	"C09": {Level: "model_checking", Parts: []partSpec{{Name: "c09-merge", Bin: "inst"}, {Name: "engine-selfcheck", Bin: "inst"}}},
}
