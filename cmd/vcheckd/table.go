package main

// table maps each property to its evidence level and the sub-checks that decide it.
var table = map[string]propSpec{
	"C02": {Level: "exploration", Parts: []partSpec{{Name: "c02-match", Bin: "plain"}, {Name: "c02-limit", Bin: "plain"}}},
}
