// vcheckd is the driver behind ./vcheck: it rebuilds the sub-check binaries from /repo's
// current working tree (instrumented through `go build -overlay`, /repo itself untouched),
// runs the parts of a property, merges their reports into evidence/<ID>.json, matches
// violations against known_findings.json and sets the exit code (0 held, 1 VIOLATION, 2 infra).
package main

import (
	"encoding/json"
	"fmt"
	"os"
	"os/exec"
	"path/filepath"
	"sort"
	"strconv"
	"strings"
	"sync"
	"syscall"
	"time"

	"verifkit/vinstr"
	"verifkit/vk"
)

type partSpec struct {
	Name string   // part name understood by the binary
	Bin  string   // build kind
	Args []string // extra k=v arguments
}

type propSpec struct {
	Level string
	Parts []partSpec
}

var tempWork string // removed on every exit path

func infra(format string, a ...any) {
	fmt.Fprintf(os.Stderr, "INFRA: "+format+"\n", a...)
	if tempWork != "" {
		os.RemoveAll(tempWork)
	}
	os.Exit(2)
}

const goBin = "go1.26.8"

func goEnv() []string {
	env := os.Environ()
	env = append(env, "GOFLAGS=-mod=mod", "GOPROXY=off", "GOSUMDB=off", "GOTOOLCHAIN=local", "CGO_ENABLED=1")
	return env
}

// accessor overlay: /verif/overlay/<dir>/*.go are added to the package living in /repo/<target>.
var overlayDirs = map[string]string{
	"mocrelay": "/repo",
	"sqlite":   "/repo/handler/sqlite",
	"prom":     "/repo/middleware/prometheus",
}

func accessorOverlay() map[string]string {
	m := map[string]string{}
	for d, target := range overlayDirs {
		files, _ := filepath.Glob(filepath.Join(vk.Root, "overlay", d, "*.go"))
		for _, f := range files {
			m[filepath.Join(target, "zz_verif_"+filepath.Base(f))] = f
		}
	}
	return m
}

// mutantOverlay supports trying a modified copy of the repository without touching /repo:
// with VERIF_MUTANT_DIR=<dir> (a worktree or partial copy), every non-test .go file under <dir>
// that differs from (or is missing in) /repo replaces /repo's file for this build only.
func mutantOverlay() map[string]string {
	m := map[string]string{}
	dir := os.Getenv("VERIF_MUTANT_DIR")
	if dir == "" {
		return m
	}
	filepath.Walk(dir, func(p string, info os.FileInfo, err error) error {
		if err != nil {
			return nil
		}
		if info.IsDir() {
			if info.Name() == ".git" {
				return filepath.SkipDir
			}
			return nil
		}
		if !strings.HasSuffix(p, ".go") || strings.HasSuffix(p, "_test.go") {
			return nil
		}
		rel, _ := filepath.Rel(dir, p)
		orig := filepath.Join("/repo", rel)
		a, _ := os.ReadFile(p)
		b, err2 := os.ReadFile(orig)
		if err2 != nil || string(a) != string(b) {
			m[orig] = p
		}
		return nil
	})
	fmt.Fprintf(os.Stderr, "note: VERIF_MUTANT_DIR=%s overrides %d file(s)\n", dir, len(m))
	return m
}

type builder struct {
	work string
	mu   sync.Mutex
	done map[string]string
}

// build produces the binary of a build kind. Kinds:
//
//	plain  — checks/plain, accessor overlay only
//	inst   — checks/sched with E1 instrumentation of the concurrency files
//	stmt   — as inst plus statement points in event_cache.go / data_structure.go
//	race   — checks/sched un-instrumented, passthrough scheduler, -race
//	ws     — checks/ws (synctest + real websocket), accessor overlay only
func (b *builder) build(kind string) string {
	b.mu.Lock()
	if p, ok := b.done[kind]; ok {
		b.mu.Unlock()
		return p
	}
	b.mu.Unlock()
	origKind := kind

	ov := accessorOverlay()
	mut := mutantOverlay()
	for k, v := range mut {
		ov[k] = v
	}
	tags := "verif"
	pkg := ""
	var extra []string
	switch {
	case strings.HasPrefix(kind, "p:"): // plain build of ./checks/<dir>
		pkg = "./checks/" + kind[2:]
		kind = "p-" + kind[2:]
	}
	switch kind {
	case "plain":
		pkg = "./checks/plain"
	case "ws":
		pkg = "./checks/ws"
	case "inst", "stmt":
		pkg = "./checks/sched"
		gen := filepath.Join(b.work, "gen-"+kind)
		cfg := vinstr.DefaultConfig(gen)
		cfg.StmtPoints = kind == "stmt"
		cfg.SourceOverride = map[string]string{}
		for k, v := range ov { // accessor files and mutant overrides must be visible to the type checker
			cfg.SourceOverride[k] = v
		}
		repl, err := vinstr.Run(cfg)
		if err != nil {
			infra("instrumentation failed: %v", err)
		}
		for k, v := range repl {
			ov[k] = v
		}
	case "race":
		pkg = "./checks/race"
		tags = "verif,vpass"
		extra = []string{"-race"}
	default:
		if pkg == "" {
			infra("unknown build kind %q", kind)
		}
	}
	ovPath := filepath.Join(b.work, "overlay-"+kind+".json")
	ob, _ := json.Marshal(map[string]any{"Replace": ov})
	if err := os.WriteFile(ovPath, ob, 0o644); err != nil {
		infra("%v", err)
	}
	out := filepath.Join(b.work, "bin-"+kind)
	args := []string{"build", "-tags", tags, "-overlay", ovPath, "-o", out}
	args = append(args, extra...)
	args = append(args, pkg)
	cmd := exec.Command(goBin, args...)
	cmd.Dir = vk.Root
	cmd.Env = goEnv()
	outb, err := cmd.CombinedOutput()
	if err != nil {
		infra("build of %s failed: %v\n%s", kind, err, outb)
	}
	b.mu.Lock()
	b.done[origKind] = out
	b.mu.Unlock()
	return out
}

type replayFile struct {
	Property  string   `json:"property"`
	Part      string   `json:"part"`
	Bin       string   `json:"bin"`
	Args      []string `json:"args"`
	Tier      string   `json:"tier"`
	Signature string   `json:"signature"`
	Detail    string   `json:"detail"`
	Replay    any      `json:"replay"`
}

func main() {
	if len(os.Args) < 3 {
		fmt.Fprintln(os.Stderr, "usage: vcheck <ID> quick|thorough | vcheck <ID> --replay <file> | vcheck build <kind>...")
		os.Exit(2)
	}
	if w := os.Getenv("VERIF_WORK"); w != "" { // development: keep binaries and generated sources
		os.MkdirAll(w, 0o755)
		os.Exit(run(w))
	}
	work, err := os.MkdirTemp("", "vcheck-")
	if err != nil {
		infra("%v", err)
	}
	tempWork = work
	code := run(work)
	os.RemoveAll(work)
	os.Exit(code)
}

func run(work string) int {
	b := &builder{work: work, done: map[string]string{}}
	if os.Args[1] == "build" { // warm the build cache (setup)
		var wg sync.WaitGroup
		for _, k := range os.Args[2:] {
			wg.Add(1)
			go func() { defer wg.Done(); b.build(k) }()
		}
		wg.Wait()
		return 0
	}
	id := os.Args[1]
	spec, ok := table[id]
	if !ok {
		infra("unknown property %q", id)
	}
	tier := os.Args[2]
	var replay *replayFile
	if tier == "--replay" {
		if len(os.Args) < 4 {
			infra("--replay needs a file")
		}
		rb, err := os.ReadFile(os.Args[3])
		if err != nil {
			infra("%v", err)
		}
		replay = &replayFile{}
		if err := json.Unmarshal(rb, replay); err != nil {
			infra("bad replay file: %v", err)
		}
		tier = replay.Tier
		spec = propSpec{Level: spec.Level, Parts: []partSpec{{Name: replay.Part, Bin: replay.Bin, Args: append(append([]string{}, replay.Args...), "replay="+os.Args[3])}}}
	}
	if tier != "quick" && tier != "thorough" {
		infra("tier must be quick or thorough")
	}
	seed, _ := strconv.ParseInt(os.Getenv("VERIF_SEED"), 10, 64)
	start := time.Now()

	// build all needed binaries in parallel
	kinds := map[string]bool{}
	for _, p := range spec.Parts {
		kinds[p.Bin] = true
	}
	var wg sync.WaitGroup
	for k := range kinds {
		wg.Add(1)
		go func() { defer wg.Done(); b.build(k) }()
	}
	wg.Wait()

	var parts []vk.Part
	// a part that ends as an infrastructure error does not hide what the other parts found: its
	// error is kept, the remaining parts run, violations (if any) are reported with exit 1, and only
	// a run without violations ends as INFRA (exit 2)
	var partInfra []string
	var okSpecs []partSpec
	for i, p := range spec.Parts {
		out := filepath.Join(work, fmt.Sprintf("part-%d.json", i))
		cmd := exec.Command(b.build(p.Bin), append([]string{p.Name}, p.Args...)...)
		cmd.Dir = vk.Root
		cmd.Env = append(os.Environ(), "VK_PART_OUT="+out, "VK_PROP="+id, "VERIF_TIER="+tier, "VERIF_SEED="+strconv.FormatInt(seed, 10), "VK_WORK="+work)
		cmd.Stdout = os.Stderr // sub-check chatter goes to stderr; stdout is reserved for verdict lines
		cmd.Stderr = os.Stderr
		cmd.SysProcAttr = &syscall.SysProcAttr{Setpgid: true}
		// a part that hangs (e.g. the code under test deadlocks outside every scheduler) must not
		// hang the check: it ends as an infrastructure error after a generous limit
		limit := 40 * time.Minute
		if tier == "thorough" {
			limit = 6 * time.Hour
		}
		if v, perr := time.ParseDuration(os.Getenv("VERIF_PART_TIMEOUT")); perr == nil && v > 0 {
			limit = v
		}
		if serr := cmd.Start(); serr != nil {
			infra("cannot start part %s: %v", p.Name, serr)
		}
		done := make(chan error, 1)
		go func() { done <- cmd.Wait() }()
		var err error
		select {
		case err = <-done:
		case <-time.After(limit):
			syscall.Kill(-cmd.Process.Pid, syscall.SIGKILL)
			<-done
			partInfra = append(partInfra, fmt.Sprintf("part %s did not finish within %v (hung?) and was killed", p.Name, limit))
			continue
		}
		pb, rerr := os.ReadFile(out)
		if rerr != nil {
			partInfra = append(partInfra, fmt.Sprintf("part %s produced no report (run error: %v)", p.Name, err))
			continue
		}
		var part vk.Part
		if jerr := json.Unmarshal(pb, &part); jerr != nil {
			partInfra = append(partInfra, fmt.Sprintf("part %s report unreadable: %v", p.Name, jerr))
			continue
		}
		if part.Infra != "" || err != nil {
			partInfra = append(partInfra, fmt.Sprintf("part %s failed: %v %s", p.Name, err, part.Infra))
			continue
		}
		parts = append(parts, part)
		okSpecs = append(okSpecs, p)
	}
	if replay != nil && len(partInfra) > 0 {
		infra("%s", partInfra[0])
	}
	if replay != nil {
		for _, p := range parts {
			for _, v := range p.Violations {
				fmt.Printf("REPLAY property=%s signature=%q\n%s\n", v.Property, v.Signature, v.Detail)
			}
			if len(p.Violations) == 0 {
				fmt.Println("REPLAY: no violation reproduced")
			}
		}
		return 0
	}
	if len(partInfra) == 0 {
		return report(id, spec, tier, seed, parts, start, nil)
	}
	spec.Parts = okSpecs
	code := report(id, spec, tier, seed, parts, start, partInfra)
	for _, m := range partInfra {
		fmt.Fprintf(os.Stderr, "INFRA: %s\n", m)
	}
	if code == 1 {
		return 1
	}
	infra("%d part(s) ended as infrastructure error and the others found no violation", len(partInfra))
	return 2
}

func report(id string, spec propSpec, tier string, seed int64, parts []vk.Part, start time.Time, partInfra []string) int {
	findings := vk.LoadFindings()
	cov := map[string]any{}
	var evals, dist, states, trans, traces, outcomes, unclaimed int64
	exhaustive := true
	var rules, caps, assumptions, known []string
	var samples []any
	partInfo := []any{}
	seenAssume := map[string]bool{}
	nviol := 0
	exit := 0
	os.MkdirAll(filepath.Join(vk.Root, "evidence", "replay"), 0o755)
	if old, _ := filepath.Glob(filepath.Join(vk.Root, "evidence", "replay", id+"-*.json")); len(old) > 0 {
		for _, f := range old { // replay artefacts of an earlier run of this property would be mistaken for this run's
			os.Remove(f)
		}
	}
	for i, p := range parts {
		evals += p.Evaluations
		dist += p.DistinctNontrivial
		states += p.States
		trans += p.Transitions
		traces += p.TracesValidated
		outcomes += p.DistinctOutcomes
		unclaimed += p.UnclaimedHits
		exhaustive = exhaustive && p.Exhaustive
		if p.Rule != "" {
			rules = append(rules, p.Name+": "+p.Rule)
		}
		for _, c := range p.Caps {
			caps = append(caps, p.Name+": "+c)
		}
		for _, a := range p.Assumptions {
			if !seenAssume[a] {
				seenAssume[a] = true
				assumptions = append(assumptions, a)
			}
		}
		for _, s := range p.Samples {
			if len(samples) < 12 {
				samples = append(samples, map[string]any{"part": p.Name, "case": s})
			}
		}
		partInfo = append(partInfo, map[string]any{
			"name": p.Name, "evaluations": p.Evaluations, "distinct_nontrivial": p.DistinctNontrivial,
			"states": p.States, "transitions": p.Transitions, "executions_on_impl": p.TracesValidated,
			"exhaustive": p.Exhaustive, "bound_completed": p.Bound, "distinct_outcomes": p.DistinctOutcomes,
			"unclaimed_hits": p.UnclaimedHits, "wall_s": p.WallS, "extra": p.Extra,
		})
		for _, v := range p.Violations {
			if v.Property != id {
				continue // a shared exploration also evaluates sibling properties' oracles
			}
			matched := false
			for _, f := range findings {
				if f.Property == id && f.Status == "known" && f.Signature == v.Signature {
					matched = true
					msg := fmt.Sprintf("KNOWN-FINDING: property=%s %s [%s]", id, f.What, v.Signature)
					fmt.Println(msg)
					known = append(known, v.Signature)
				}
			}
			if matched {
				continue
			}
			nviol++
			exit = 1
			if nviol > 8 { // keep the report readable; every signature is still counted in the evidence
				continue
			}
			rp := filepath.Join(vk.Root, "evidence", "replay", fmt.Sprintf("%s-%d.json", id, nviol))
			rf := replayFile{Property: id, Part: p.Name, Bin: spec.Parts[i].Bin, Args: spec.Parts[i].Args, Tier: tier, Signature: v.Signature, Detail: v.Detail, Replay: v.Replay}
			rb, _ := json.MarshalIndent(&rf, "", " ")
			os.WriteFile(rp, rb, 0o644)
			fmt.Fprintf(os.Stderr, "violation of %s: %s\n  %s\n", id, v.Signature, strings.ReplaceAll(v.Detail, "\n", "\n  "))
			fmt.Printf("VIOLATION property=%s replay=%s\n", id, rp)
		}
	}
	sort.Strings(known)
	cov["evaluations"] = evals
	cov["distinct_nontrivial"] = dist
	cov["rule"] = strings.Join(rules, " || ")
	if len(samples) == 0 {
		samples = append(samples, "no sample recorded")
	}
	cov["samples"] = samples
	for _, m := range partInfra {
		exhaustive = false
		caps = append(caps, "INFRASTRUCTURE ERROR, part not counted: "+m)
	}
	if len(partInfra) > 0 && exit == 0 {
		return 2 // nothing is written for a run that is neither a verdict nor a finding
	}
	cov["exhaustive"] = exhaustive
	if states > 0 {
		cov["states"] = states
		cov["transitions"] = trans
		cov["traces_validated_against_impl"] = traces
	}
	cov["distinct_outcomes"] = outcomes
	cov["unclaimed_hits"] = unclaimed
	cov["caps"] = caps
	cov["known_findings_seen"] = known
	cov["parts"] = partInfo
	ev := map[string]any{
		"property_id": id,
		"tier":        tier,
		"seed":        seed,
		"level":       spec.Level,
		"coverage":    cov,
		"assumptions": assumptions,
		"wall_s":      time.Since(start).Seconds(),
		"violations":  nviol,
	}
	eb, _ := json.MarshalIndent(ev, "", " ")
	if err := os.WriteFile(filepath.Join(vk.Root, "evidence", id+".json"), append(eb, '\n'), 0o644); err != nil {
		infra("cannot write evidence: %v", err)
	}
	fmt.Fprintf(os.Stderr, "%s %s: evaluations=%d distinct=%d states=%d transitions=%d exhaustive=%v violations=%d known=%d wall=%.1fs\n",
		id, tier, evals, dist, states, trans, exhaustive, nviol, len(known), time.Since(start).Seconds())
	return exit
}
