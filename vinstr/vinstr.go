// Package vinstr is the E1 source instrumenter (see DESIGN.md §2.1).
package vinstr

type Config struct {
	OutDir     string
	StmtPoints bool
	// SourceOverride maps an original path under /repo to the file to read instead.
	SourceOverride map[string]string
}

func DefaultConfig(out string) Config { return Config{OutDir: out} }

// Run instruments the configured files of /repo into cfg.OutDir and returns the overlay map
// (original path -> generated path).
func Run(cfg Config) (map[string]string, error) { return map[string]string{}, nil }
