// Package vinstr is the E1 source instrumenter (DESIGN.md §2.1): it rewrites every
// synchronisation construct of the configured files into calls of package vsched, using go/ast
// with type information from go/packages. The rewritten copies are injected with
// `go build -overlay`; /repo is never modified. Anything it cannot handle is a hard error
// (the check then exits 2 — infrastructure — and never prints VIOLATION).
package vinstr

import (
	"bytes"
	"fmt"
	"go/ast"
	"go/printer"
	"go/token"
	"go/types"
	"os"
	"path/filepath"
	"strconv"
	"strings"

	"golang.org/x/tools/go/ast/astutil"
	"golang.org/x/tools/go/packages"
)

type Config struct {
	OutDir     string
	StmtPoints bool
	// SourceOverride maps an original path under /repo to the file to read instead.
	SourceOverride map[string]string
	// Packages to instrument and, per package, base names of files to leave alone.
	Packages map[string][]string
	// StmtPointFiles: base names of files that get a scheduling point before every statement.
	StmtPointFiles []string
	// StmtPointFuncs: base name -> function names; files listed here get statement points in
	// these functions only.
	StmtPointFuncs map[string][]string
	Dir            string
	Tags           string
}

const (
	pkgRepo     = "github.com/high-moctane/mocrelay"
	pkgSQLite   = "github.com/high-moctane/mocrelay/handler/sqlite"
	pkgProm     = "github.com/high-moctane/mocrelay/middleware/prometheus"
	pkgHarness  = "verifkit/harness"
	vschedPath  = "verifkit/vsched"
	vsyncPath   = "verifkit/vsched/vsync"
	vatomicPath = "verifkit/vsched/vatomic"
)

func verifRoot() string {
	if r := os.Getenv("VERIF_ROOT"); r != "" {
		return r
	}
	return "/verif"
}

func DefaultConfig(out string) Config {
	return Config{
		OutDir: out,
		Packages: map[string][]string{
			// the HTTP/WebSocket layer is engine E3's domain (real network stack, not schedulable)
			pkgRepo:    {"relay.go", "server.go", "nip11.go", "message.go", "context.go"},
			pkgSQLite:  {},
			pkgProm:    {},
			pkgHarness: {},
		},
		StmtPointFiles: []string{"event_cache.go", "data_structure.go"},
		StmtPointFuncs: map[string][]string{"message.go": {"Serialize", "Verify", "unescapeNIP01"}, "nip11.go": {"ServeHTTP"}},
		Dir:            verifRoot(),
		Tags:           "verif",
	}
}

// Run instruments the configured files into cfg.OutDir and returns the overlay map
// (original path -> generated path).
func Run(cfg Config) (map[string]string, error) {
	pcfg := &packages.Config{
		Mode:       packages.NeedName | packages.NeedFiles | packages.NeedCompiledGoFiles | packages.NeedSyntax | packages.NeedTypes | packages.NeedTypesInfo | packages.NeedImports | packages.NeedDeps,
		Dir:        cfg.Dir,
		BuildFlags: []string{"-tags=" + cfg.Tags},
		Env:        append(os.Environ(), "GOFLAGS=-mod=mod", "GOPROXY=off", "GOSUMDB=off", "GOTOOLCHAIN=local", "CGO_ENABLED=1"),
	}
	if len(cfg.SourceOverride) > 0 {
		pcfg.Overlay = map[string][]byte{}
		for orig, repl := range cfg.SourceOverride {
			b, err := os.ReadFile(repl)
			if err != nil {
				return nil, err
			}
			pcfg.Overlay[orig] = b
		}
	}
	var pats []string
	for p := range cfg.Packages {
		pats = append(pats, p)
	}
	pkgs, err := packages.Load(pcfg, pats...)
	if err != nil {
		return nil, fmt.Errorf("packages.Load: %w", err)
	}
	out := map[string]string{}
	if err := os.MkdirAll(cfg.OutDir, 0o755); err != nil {
		return nil, err
	}
	for _, pkg := range pkgs {
		if len(pkg.Errors) > 0 {
			return nil, fmt.Errorf("package %s does not type-check: %v", pkg.PkgPath, pkg.Errors[0])
		}
		skip := map[string]bool{}
		for _, s := range cfg.Packages[pkg.PkgPath] {
			skip[s] = true
		}
		for i, f := range pkg.Syntax {
			path := pkg.CompiledGoFiles[i]
			base := filepath.Base(path)
			if _, wanted := cfg.StmtPointFuncs[base]; wanted && cfg.StmtPoints && pkg.PkgPath == pkgRepo {
				delete(skip, base)
			}
			if skip[base] || strings.HasSuffix(base, "_test.go") || strings.HasPrefix(base, "zz_verif_") {
				continue
			}
			stmt := false
			var stmtFuncs map[string]bool
			if cfg.StmtPoints && pkg.PkgPath == pkgRepo {
				for _, s := range cfg.StmtPointFiles {
					if s == base {
						stmt = true
					}
				}
				if fns, ok := cfg.StmtPointFuncs[base]; ok {
					stmt = true
					stmtFuncs = map[string]bool{}
					for _, fn := range fns {
						stmtFuncs[fn] = true
					}
				}
			}
			in := &instr{pkg: pkg, info: pkg.TypesInfo, fset: pkg.Fset, file: f, stmtPoints: stmt, stmtFuncs: stmtFuncs}
			changed, err := in.rewrite()
			if err != nil {
				return nil, fmt.Errorf("%s: %w", path, err)
			}
			if !changed {
				continue
			}
			var buf bytes.Buffer
			// keep build constraints
			for _, cg := range in.buildLines {
				buf.WriteString(cg + "\n")
			}
			if len(in.buildLines) > 0 {
				buf.WriteString("\n")
			}
			f.Comments = nil
			if err := (&printer.Config{Mode: printer.TabIndent, Tabwidth: 8}).Fprint(&buf, pkg.Fset, f); err != nil {
				return nil, fmt.Errorf("%s: print: %w", path, err)
			}
			dst := filepath.Join(cfg.OutDir, strings.ReplaceAll(pkg.PkgPath, "/", "_")+"__"+base)
			if err := os.WriteFile(dst, buf.Bytes(), 0o644); err != nil {
				return nil, err
			}
			out[path] = dst
		}
	}
	return out, nil
}

type instr struct {
	pkg        *packages.Package
	info       *types.Info
	fset       *token.FileSet
	file       *ast.File
	stmtPoints bool
	stmtFuncs  map[string]bool
	buildLines []string

	usedVsched bool
	changed    bool
	skipNodes  map[ast.Node]bool
	recvCalls  map[*ast.CallExpr]bool
	tmp        int
	err        error
}

func (in *instr) fail(n ast.Node, format string, a ...any) {
	if in.err == nil {
		in.err = fmt.Errorf("%s: %s", in.fset.Position(n.Pos()), fmt.Sprintf(format, a...))
	}
}

func (in *instr) vs(name string) ast.Expr {
	in.usedVsched = true
	in.changed = true
	return &ast.SelectorExpr{X: ast.NewIdent("vsched"), Sel: ast.NewIdent(name)}
}

func (in *instr) call(name string, args ...ast.Expr) *ast.CallExpr {
	return &ast.CallExpr{Fun: in.vs(name), Args: args}
}

func (in *instr) newTmp(prefix string) *ast.Ident {
	in.tmp++
	return ast.NewIdent(fmt.Sprintf("_v%s%d", prefix, in.tmp))
}

func (in *instr) isChan(e ast.Expr) bool {
	t := in.info.TypeOf(e)
	if t == nil {
		return false
	}
	_, ok := coreType(t).(*types.Chan)
	return ok
}

func coreType(t types.Type) types.Type {
	u := t.Underlying()
	if tp, ok := u.(*types.Interface); ok && tp.NumEmbeddeds() > 0 {
		// type parameter constraint with a single core type
		_ = tp
	}
	if tp, ok := t.(*types.TypeParam); ok {
		if iface, ok := tp.Constraint().Underlying().(*types.Interface); ok {
			var core types.Type
			for i := 0; i < iface.NumEmbeddeds(); i++ {
				if un, ok := iface.EmbeddedType(i).(*types.Union); ok && un.Len() == 1 {
					core = un.Term(0).Type().Underlying()
				}
			}
			if core != nil {
				return core
			}
		}
	}
	return u
}

func (in *instr) isMap(e ast.Expr) bool {
	t := in.info.TypeOf(e)
	if t == nil {
		return false
	}
	_, ok := coreType(t).(*types.Map)
	return ok
}

func (in *instr) isBuiltin(id *ast.Ident, name string) bool {
	if id.Name != name {
		return false
	}
	obj := in.info.Uses[id]
	_, ok := obj.(*types.Builtin)
	return ok
}

func (in *instr) pkgSel(e ast.Expr, pkgPath, name string) bool {
	sel, ok := e.(*ast.SelectorExpr)
	if !ok || sel.Sel.Name != name {
		return false
	}
	id, ok := sel.X.(*ast.Ident)
	if !ok {
		return false
	}
	pn, ok := in.info.Uses[id].(*types.PkgName)
	return ok && pn.Imported().Path() == pkgPath
}

func (in *instr) isCancelFunc(e ast.Expr) bool {
	t := in.info.TypeOf(e)
	if t == nil {
		return false
	}
	n, ok := t.(*types.Named)
	if !ok {
		if a, ok2 := t.(*types.Alias); ok2 {
			n, ok = types.Unalias(a).(*types.Named)
		}
		if !ok {
			return false
		}
	}
	return n.Obj().Pkg() != nil && n.Obj().Pkg().Path() == "context" && n.Obj().Name() == "CancelFunc"
}

// containsSchedOp: does the subtree contain a construct that reaches the scheduler or calls
// through a function value (whose body may)?
func (in *instr) bodyNeedsOrder(body *ast.BlockStmt) bool {
	found := false
	ast.Inspect(body, func(n ast.Node) bool {
		switch n := n.(type) {
		case *ast.GoStmt, *ast.SendStmt, *ast.SelectStmt:
			found = true
		case *ast.UnaryExpr:
			if n.Op == token.ARROW {
				found = true
			}
		case *ast.CallExpr:
			// call through a func-typed variable / parameter / field
			switch f := n.Fun.(type) {
			case *ast.Ident:
				if _, ok := in.info.Uses[f].(*types.Var); ok {
					found = true
				}
			case *ast.SelectorExpr:
				if s, ok := in.info.Selections[f]; ok && s.Kind() == types.FieldVal {
					found = true
				}
			case *ast.FuncLit, *ast.CallExpr, *ast.IndexExpr:
				found = true
			}
		}
		return !found
	})
	return found
}

func (in *instr) rewrite() (bool, error) {
	in.skipNodes = map[ast.Node]bool{}
	in.recvCalls = map[*ast.CallExpr]bool{}
	// build constraints
	for _, cg := range in.file.Comments {
		if cg.Pos() > in.file.Package {
			break
		}
		for _, c := range cg.List {
			if strings.HasPrefix(c.Text, "//go:build") {
				in.buildLines = append(in.buildLines, c.Text)
			}
		}
	}
	// imports: sync -> vsync, sync/atomic -> vatomic
	for _, imp := range in.file.Imports {
		p, _ := strconv.Unquote(imp.Path.Value)
		if p == "sync" {
			imp.Path.Value = strconv.Quote(vsyncPath)
			if imp.Name == nil {
				imp.Name = ast.NewIdent("sync")
			}
			in.changed = true
		}
		if p == "sync/atomic" {
			imp.Path.Value = strconv.Quote(vatomicPath)
			if imp.Name == nil {
				imp.Name = ast.NewIdent("atomic")
			}
			in.changed = true
		}
	}

	pre := func(c *astutil.Cursor) bool {
		switch n := c.Node().(type) {
		case *ast.CommClause:
			switch cm := n.Comm.(type) {
			case *ast.SendStmt:
				in.skipNodes[cm] = true
			case *ast.ExprStmt:
				in.skipNodes[ast.Unparen(cm.X)] = true
			case *ast.AssignStmt:
				if len(cm.Rhs) == 1 {
					in.skipNodes[ast.Unparen(cm.Rhs[0])] = true
				}
			}
		}
		return true
	}
	post := func(c *astutil.Cursor) bool {
		if in.err != nil {
			return false
		}
		switch n := c.Node().(type) {
		case *ast.GoStmt:
			c.Replace(in.rewriteGo(n))
		case *ast.SendStmt:
			if in.skipNodes[n] {
				return true
			}
			c.Replace(&ast.ExprStmt{X: &ast.CallExpr{Fun: in.call("SendTo", n.Chan), Args: []ast.Expr{n.Value}}})
		case *ast.UnaryExpr:
			if n.Op != token.ARROW || in.skipNodes[n] {
				return true
			}
			call := in.call("Recv", n.X)
			in.recvCalls[call] = true
			c.Replace(call)
		case *ast.AssignStmt:
			if len(n.Lhs) == 2 && len(n.Rhs) == 1 {
				if call, ok := n.Rhs[0].(*ast.CallExpr); ok && in.recvCalls[call] {
					call.Fun.(*ast.SelectorExpr).Sel.Name = "Recv2"
				}
			}
		case *ast.ValueSpec:
			if len(n.Names) == 2 && len(n.Values) == 1 {
				if call, ok := n.Values[0].(*ast.CallExpr); ok && in.recvCalls[call] {
					call.Fun.(*ast.SelectorExpr).Sel.Name = "Recv2"
				}
			}
		case *ast.SelectStmt:
			c.Replace(in.rewriteSelect(n))
		case *ast.RangeStmt:
			if in.isChan(n.X) {
				c.Replace(in.rewriteRangeChan(n))
			} else if in.isMap(n.X) && in.bodyNeedsOrder(n.Body) {
				if r := in.rewriteRangeMap(n, "RangeKeys"); r != nil {
					c.Replace(r)
				}
			} else if in.isMap(n.X) && in.stmtPoints {
				if r := in.rewriteRangeMap(n, "SortedKeys"); r != nil {
					c.Replace(r)
				}
			}
		case *ast.CallExpr:
			if in.recvCalls[n] {
				return true
			}
			if id, ok := n.Fun.(*ast.Ident); ok {
				switch {
				case in.isBuiltin(id, "close") && len(n.Args) == 1:
					n.Fun = in.vs("Close")
				case in.isBuiltin(id, "len") && len(n.Args) == 1 && in.isChan(n.Args[0]):
					n.Fun = in.vs("Len")
				case in.isBuiltin(id, "make") && in.isChan(n):
					c.Replace(in.call("Made", n))
				}
			}
			if len(n.Args) == 0 && in.isCancelFunc(n.Fun) {
				c.Replace(in.call("Cancel", n.Fun))
			}
		case *ast.SelectorExpr:
			switch {
			case in.pkgSel(n, "github.com/google/uuid", "NewString"):
				c.Replace(in.vs("NewID"))
			case in.pkgSel(n, "time", "Now"):
				c.Replace(in.vs("Now"))
			case in.pkgSel(n, "time", "Since"):
				c.Replace(in.vs("Since"))
			case in.pkgSel(n, "time", "Until"):
				c.Replace(in.vs("Until"))
			}
		}
		return true
	}
	astutil.Apply(in.file, pre, post)
	if in.err != nil {
		return false, in.err
	}
	if in.stmtPoints {
		in.addStmtPoints()
	}
	if !in.changed {
		return false, nil
	}
	if in.usedVsched {
		have := false
		for _, imp := range in.file.Imports {
			if v, _ := strconv.Unquote(imp.Path.Value); v == vschedPath {
				have = true
				if imp.Name != nil && imp.Name.Name != "vsched" {
					return false, fmt.Errorf("verifkit/vsched must be imported under its own name")
				}
			}
		}
		if !have {
			astutil.AddNamedImport(in.fset, in.file, "vsched", vschedPath)
		}
	}
	for _, p := range []string{"github.com/google/uuid", "time"} {
		if !usesImport(in.file, p) {
			astutil.DeleteImport(in.fset, in.file, p)
			// named import variant
			for _, imp := range in.file.Imports {
				if v, _ := strconv.Unquote(imp.Path.Value); v == p && imp.Name != nil {
					astutil.DeleteNamedImport(in.fset, in.file, imp.Name.Name, p)
				}
			}
		}
	}
	return true, nil
}

func usesImport(f *ast.File, path string) bool {
	name := ""
	found := false
	for _, imp := range f.Imports {
		if v, _ := strconv.Unquote(imp.Path.Value); v == path {
			found = true
			if imp.Name != nil {
				name = imp.Name.Name
			} else {
				name = path[strings.LastIndexByte(path, '/')+1:]
			}
		}
	}
	if !found {
		return true // nothing to delete
	}
	if name == "_" || name == "." {
		return true
	}
	used := false
	ast.Inspect(f, func(n ast.Node) bool {
		if sel, ok := n.(*ast.SelectorExpr); ok {
			if id, ok := sel.X.(*ast.Ident); ok && id.Name == name && id.Obj == nil {
				used = true
			}
		}
		return !used
	})
	return used
}

func (in *instr) rewriteGo(n *ast.GoStmt) ast.Stmt {
	call := n.Call
	if fl, ok := call.Fun.(*ast.FuncLit); ok && len(call.Args) == 0 {
		return &ast.ExprStmt{X: in.call("Go", fl)}
	}
	var stmts []ast.Stmt
	fun := call.Fun
	// evaluate a method value / function value now, as the go statement does
	needTmp := false
	switch f := ast.Unparen(fun).(type) {
	case *ast.SelectorExpr:
		if s, ok := in.info.Selections[f]; ok && (s.Kind() == types.MethodVal || s.Kind() == types.FieldVal) {
			needTmp = true
		}
	case *ast.Ident:
		if _, ok := in.info.Uses[f].(*types.Var); ok {
			needTmp = true
		}
	case *ast.FuncLit:
		needTmp = false
	default:
		needTmp = true
	}
	if needTmp {
		if sig, ok := in.info.TypeOf(fun).(*types.Signature); ok && sig.TypeParams() != nil {
			needTmp = false
		}
	}
	if needTmp {
		t := in.newTmp("f")
		stmts = append(stmts, &ast.AssignStmt{Lhs: []ast.Expr{t}, Tok: token.DEFINE, Rhs: []ast.Expr{fun}})
		fun = t
	}
	var args []ast.Expr
	if len(call.Args) > 0 {
		var lhs []ast.Expr
		for range call.Args {
			t := in.newTmp("a")
			lhs = append(lhs, t)
			args = append(args, t)
		}
		// typed temporaries: untyped constants would otherwise take their default type
		for i, a := range call.Args {
			if tv, ok := in.info.Types[a]; ok && tv.Value != nil {
				if b, ok := tv.Type.(*types.Basic); ok && b.Info()&types.IsUntyped != 0 {
					// keep the constant expression itself inside the closure instead
					args[i] = a
					lhs[i] = ast.NewIdent("_")
				}
			}
		}
		stmts = append(stmts, &ast.AssignStmt{Lhs: lhs, Tok: token.DEFINE, Rhs: append([]ast.Expr{}, call.Args...)})
		allBlank := true
		for _, l := range lhs {
			if l.(*ast.Ident).Name != "_" {
				allBlank = false
			}
		}
		if allBlank {
			stmts = stmts[:len(stmts)-1]
		}
	}
	inner := &ast.CallExpr{Fun: fun, Args: args, Ellipsis: call.Ellipsis}
	if call.Ellipsis != token.NoPos {
		inner.Ellipsis = 1
	}
	lit := &ast.FuncLit{Type: &ast.FuncType{Params: &ast.FieldList{}}, Body: &ast.BlockStmt{List: []ast.Stmt{&ast.ExprStmt{X: inner}}}}
	stmts = append(stmts, &ast.ExprStmt{X: in.call("Go", lit)})
	if len(stmts) == 1 {
		return stmts[0]
	}
	return &ast.BlockStmt{List: stmts}
}

func (in *instr) rewriteSelect(n *ast.SelectStmt) ast.Stmt {
	var lhs, rhs []ast.Expr
	var clauses []ast.Stmt
	hasDefault := false
	idx := 0
	for _, s := range n.Body.List {
		cc := s.(*ast.CommClause)
		if cc.Comm == nil {
			hasDefault = true
			clauses = append(clauses, &ast.CaseClause{List: nil, Body: cc.Body})
			continue
		}
		tmp := in.newTmp("c")
		lhs = append(lhs, tmp)
		body := cc.Body
		switch cm := cc.Comm.(type) {
		case *ast.SendStmt:
			rhs = append(rhs, &ast.CallExpr{Fun: in.call("CaseSend", cm.Chan), Args: []ast.Expr{cm.Value}})
		case *ast.ExprStmt:
			u, ok := ast.Unparen(cm.X).(*ast.UnaryExpr)
			if !ok || u.Op != token.ARROW {
				in.fail(cm, "unsupported select communication")
				return n
			}
			rhs = append(rhs, in.call("CaseRecv", u.X))
		case *ast.AssignStmt:
			u, ok := ast.Unparen(cm.Rhs[0]).(*ast.UnaryExpr)
			if !ok || u.Op != token.ARROW {
				in.fail(cm, "unsupported select communication")
				return n
			}
			rhs = append(rhs, in.call("CaseRecv", u.X))
			got := "Got"
			if len(cm.Lhs) == 2 {
				got = "Got2"
			}
			in.usedVsched = true
			asg := &ast.AssignStmt{Lhs: cm.Lhs, Tok: cm.Tok, Rhs: []ast.Expr{&ast.CallExpr{Fun: &ast.SelectorExpr{X: tmp, Sel: ast.NewIdent(got)}}}}
			allBlank := true
			for _, l := range cm.Lhs {
				if id, ok := l.(*ast.Ident); !ok || id.Name != "_" {
					allBlank = false
				}
			}
			if allBlank {
				asg.Tok = token.ASSIGN
			}
			body = append([]ast.Stmt{asg}, body...)
		default:
			in.fail(cc, "unsupported select communication")
			return n
		}
		clauses = append(clauses, &ast.CaseClause{List: []ast.Expr{&ast.BasicLit{Kind: token.INT, Value: strconv.Itoa(idx)}}, Body: body})
		idx++
	}
	hd := "false"
	if hasDefault {
		hd = "true"
	} else {
		// keeps the switch a terminating statement exactly when the select was one
		clauses = append(clauses, &ast.CaseClause{List: nil, Body: []ast.Stmt{&ast.ExprStmt{X: &ast.CallExpr{Fun: ast.NewIdent("panic"), Args: []ast.Expr{&ast.BasicLit{Kind: token.STRING, Value: `"vsched: select returned no case"`}}}}}})
	}
	args := []ast.Expr{ast.NewIdent(hd)}
	for _, l := range lhs {
		args = append(args, l)
	}
	sw := &ast.SwitchStmt{Tag: in.call("Select", args...), Body: &ast.BlockStmt{List: clauses}}
	if len(lhs) == 0 {
		return sw
	}
	return &ast.BlockStmt{List: []ast.Stmt{
		&ast.AssignStmt{Lhs: lhs, Tok: token.DEFINE, Rhs: rhs},
		sw,
	}}
}

func (in *instr) rewriteRangeChan(n *ast.RangeStmt) ast.Stmt {
	rc := in.newTmp("rc")
	ok := in.newTmp("ok")
	var first ast.Stmt
	key := n.Key
	if key == nil {
		key = ast.NewIdent("_")
	}
	if n.Tok == token.ASSIGN {
		first = &ast.BlockStmt{List: []ast.Stmt{}}
		in.fail(n, "range over channel with '=' is not supported")
		return n
	}
	first = &ast.AssignStmt{Lhs: []ast.Expr{key, ok}, Tok: token.DEFINE, Rhs: []ast.Expr{in.call("Recv2", rc)}}
	brk := &ast.IfStmt{Cond: &ast.UnaryExpr{Op: token.NOT, X: ok}, Body: &ast.BlockStmt{List: []ast.Stmt{&ast.BranchStmt{Tok: token.BREAK}}}}
	body := append([]ast.Stmt{first, brk}, n.Body.List...)
	return &ast.ForStmt{
		Init: &ast.AssignStmt{Lhs: []ast.Expr{rc}, Tok: token.DEFINE, Rhs: []ast.Expr{n.X}},
		Body: &ast.BlockStmt{List: body},
	}
}

func (in *instr) rewriteRangeMap(n *ast.RangeStmt, keysFn string) ast.Stmt {
	if n.Tok == token.ASSIGN {
		in.fail(n, "range over map with '=' whose body reaches the scheduler is not supported")
		return nil
	}
	// the map expression must be cheap and pure to evaluate twice
	switch ast.Unparen(n.X).(type) {
	case *ast.Ident, *ast.SelectorExpr, *ast.IndexExpr:
	default:
		in.fail(n, "range over a computed map whose body reaches the scheduler is not supported")
		return nil
	}
	key := n.Key
	if key == nil || isBlank(key) {
		key = in.newTmp("k")
	}
	var pre []ast.Stmt
	if n.Value != nil && !isBlank(n.Value) {
		ok := in.newTmp("ok")
		pre = append(pre,
			&ast.AssignStmt{Lhs: []ast.Expr{n.Value, ok}, Tok: token.DEFINE, Rhs: []ast.Expr{&ast.IndexExpr{X: n.X, Index: key}}},
			&ast.IfStmt{Cond: &ast.UnaryExpr{Op: token.NOT, X: ok}, Body: &ast.BlockStmt{List: []ast.Stmt{&ast.BranchStmt{Tok: token.CONTINUE}}}},
		)
	} else {
		ok := in.newTmp("ok")
		pre = append(pre,
			&ast.AssignStmt{Lhs: []ast.Expr{ast.NewIdent("_"), ok}, Tok: token.DEFINE, Rhs: []ast.Expr{&ast.IndexExpr{X: n.X, Index: key}}},
			&ast.IfStmt{Cond: &ast.UnaryExpr{Op: token.NOT, X: ok}, Body: &ast.BlockStmt{List: []ast.Stmt{&ast.BranchStmt{Tok: token.CONTINUE}}}},
		)
	}
	return &ast.RangeStmt{
		Key:   ast.NewIdent("_"),
		Value: key,
		Tok:   token.DEFINE,
		X:     in.call(keysFn, n.X),
		Body:  &ast.BlockStmt{List: append(pre, n.Body.List...)},
	}
}

func isBlank(e ast.Expr) bool {
	id, ok := e.(*ast.Ident)
	return ok && id.Name == "_"
}

// addStmtPoints inserts vsched.Mem("mem") before every statement of every function body.
func (in *instr) addStmtPoints() {
	point := func() ast.Stmt {
		return &ast.ExprStmt{X: in.call("Mem", &ast.BasicLit{Kind: token.STRING, Value: `"mem"`})}
	}
	addTo := func(list []ast.Stmt) []ast.Stmt {
		out := make([]ast.Stmt, 0, 2*len(list))
		for _, s := range list {
			out = append(out, point(), s)
		}
		return out
	}
	for _, d := range in.file.Decls {
		fd, ok := d.(*ast.FuncDecl)
		if !ok || fd.Body == nil || (in.stmtFuncs != nil && !in.stmtFuncs[fd.Name.Name]) {
			continue
		}
		clauseBlocks := map[*ast.BlockStmt]bool{}
		ast.Inspect(fd.Body, func(n ast.Node) bool {
			switch b := n.(type) {
			case *ast.FuncLit:
				return false // comparators and callbacks run atomically with their caller's statement
			case *ast.SwitchStmt:
				clauseBlocks[b.Body] = true
			case *ast.TypeSwitchStmt:
				clauseBlocks[b.Body] = true
			case *ast.SelectStmt:
				clauseBlocks[b.Body] = true
			case *ast.BlockStmt:
				if clauseBlocks[b] {
					return true // its elements are clauses, not statements
				}
				b.List = addTo(b.List)
			case *ast.CaseClause:
				b.Body = addTo(b.Body)
			case *ast.CommClause:
				b.Body = addTo(b.Body)
			}
			return true
		})
	}
}
