package harness

import (
	"context"
	"fmt"
	"reflect"
	"sort"
	"strconv"
	"strings"

	"github.com/high-moctane/mocrelay"
	mocprom "github.com/high-moctane/mocrelay/middleware/prometheus"
	"github.com/prometheus/client_golang/prometheus"
	dto "github.com/prometheus/client_model/go"
	"verifkit/vsched"
)

// ---- C19: the Prometheus middleware is transparent and its metrics are exact
//
// One registry and one middleware value per execution around a scripted downstream handler.
// Every session has its own downstream log (found through a context value planted by the
// harness); logs and the registry are read only at quiescence.

type c19LogKey struct{}

type c19Emit struct {
	Msg   mocrelay.ServerMsg
	Taken bool
}

type c19Log struct {
	Recv  []mocrelay.ClientMsg
	Emits []*c19Emit
}

// c19Stub: REQ whose id starts with "x" -> CLOSED(id) (server-side close); REQ "live" -> EOSE and
// one EVENT; other REQ -> EOSE; EVENT -> OK true; COUNT -> COUNT 0; CLOSE -> nothing.
type c19Stub struct{}

func (c19Stub) ServeNostr(ctx context.Context, send chan<- mocrelay.ServerMsg, recv <-chan mocrelay.ClientMsg) error {
	log, _ := ctx.Value(c19LogKey{}).(*c19Log)
	if log == nil {
		log = &c19Log{}
	}
	for {
		select {
		case <-ctx.Done():
			return ctx.Err()
		case m, ok := <-recv:
			if !ok {
				return mocrelay.ErrRecvClosed
			}
			log.Recv = append(log.Recv, m)
			var out []mocrelay.ServerMsg
			switch m := m.(type) {
			case *mocrelay.ClientReqMsg:
				switch {
				case strings.HasPrefix(m.SubscriptionID, "x"):
					out = append(out, mocrelay.NewServerClosedMsg(m.SubscriptionID, "", "closed by the relay"))
				case m.SubscriptionID == "live":
					out = append(out, mocrelay.NewServerEOSEMsg(m.SubscriptionID), mocrelay.NewServerEventMsg(m.SubscriptionID, Ev('e', '1', 1, 77)))
				default:
					out = append(out, mocrelay.NewServerEOSEMsg(m.SubscriptionID))
				}
			case *mocrelay.ClientEventMsg:
				out = append(out, mocrelay.NewServerOKMsg(m.Event.ID, true, "", ""))
			case *mocrelay.ClientCountMsg:
				out = append(out, mocrelay.NewServerCountMsg(m.SubscriptionID, 0, nil))
			}
			for _, o := range out {
				e := &c19Emit{Msg: o}
				log.Emits = append(log.Emits, e)
				select {
				case <-ctx.Done():
					return ctx.Err()
				case send <- o:
					e.Taken = true
				}
			}
		}
	}
}

// Single-session alphabet (base 9). A repeated "REQ a" is a history with the symbol twice.
const C19Symbols = 9

var C19SymbolNames = []string{"REQ a", "CLOSE a", "REQ b", "REQ x", "EVENT kind 1", "EVENT kind 7", "COUNT c", "REQ live", "CLOSE x"}

func c19Symbol(s, pos int) mocrelay.ClientMsg {
	switch s {
	case 0:
		return ReqMsg("a")
	case 1:
		return CloseMsg("a")
	case 2:
		return ReqMsg("b")
	case 3:
		return ReqMsg("x")
	case 4:
		return EventMsg(Ev(byte('0'+pos), '1', 1, 10))
	case 5:
		return EventMsg(Ev(byte('0'+pos), '2', 7, 10))
	case 6:
		return CountMsg("c")
	case 7:
		return ReqMsg("live")
	case 8:
		return CloseMsg("x")
	}
	panic("bad symbol")
}

func c19Script(syms ...int) []mocrelay.ClientMsg {
	var out []mocrelay.ClientMsg
	for i, s := range syms {
		out = append(out, c19Symbol(s, i))
	}
	return out
}

// Script pairs of the two-session scenario: session A is the one that ends first.
var c19Pairs = [][2][]int{
	{{0, 2}, {0, 1}},    // A ends with a and b open; B opens and closes the colliding id a
	{{0, 0, 1, 2}, {4}}, // repeated REQ a, CLOSE a, REQ b | EVENT kind 1
	{{3, 0}, {3}},       // server-side CLOSED in both sessions
	{{4, 5, 6}, {4, 0}}, // counters only | EVENT kind 1, REQ a
	{{7, 1}, {7}},       // live subscription with a server EVENT; CLOSE of an id that is not open
	{{3, 8, 3}, {0}},    // REQ x, CLOSE x, REQ x: client CLOSE races the relay's CLOSED
	{{0}, {0, 2, 1}},    // colliding ids: A ends with a open while B opens a, b and closes a
	{{0, 1, 0}, {6, 3}}, // re-open after CLOSE | COUNT, REQ x
	{{0}, {0}},          // the two smallest pairs: their serving phase is affordable on ALL schedules
	{{3}, {3}},
}

const C19Pairs = 10

type c19Sess struct {
	c     *Conn
	log   *c19Log
	wdone bool
}

// PromSessions. params: mode (1 single session: len, code base 9; 2 two sessions: pair),
// end (how session A / the single session ends: 0 an environment task cancels it, enabled from
// the start so that every cut point is reached; 1 cancel after the scripts have been served;
// 2 the inbound channel is closed after the scripts have been served; 3 not at all: the execution
// stops at the first quiescence; 4 (two sessions) the sessions run one after the other).
func PromSessions(h *vsched.H) {
	mode, end := h.Param("mode", 1), h.Param("end", 1)
	reg := prometheus.NewRegistry()
	hd := mocprom.NewPrometheusMiddleware(reg)(c19Stub{})
	var scripts [][]mocrelay.ClientMsg
	var desc string
	if mode == 1 {
		L, code := h.Param("len", 1), h.Param("code", 0)
		var syms []int
		var names []string
		for i := 0; i < L; i++ {
			syms = append(syms, code%C19Symbols)
			names = append(names, C19SymbolNames[code%C19Symbols])
			code /= C19Symbols
		}
		scripts = [][]mocrelay.ClientMsg{c19Script(syms...)}
		desc = "history [" + strings.Join(names, ", ") + "]"
	} else {
		p := c19Pairs[h.Param("pair", 0)]
		scripts = [][]mocrelay.ClientMsg{c19Script(p[0]...), c19Script(p[1]...)}
		desc = fmt.Sprintf("pair %d", h.Param("pair", 0))
	}
	var ss []*c19Sess
	start := func(i int) *c19Sess {
		s := &c19Sess{log: &c19Log{}}
		s.c = NewConn(h, string(rune('A'+i)), context.WithValue(context.Background(), c19LogKey{}, s.log), hd)
		ss = append(ss, s)
		sc := scripts[i]
		go c18Read(s.c)
		go func() { c18Write(s.c, sc); s.wdone = true }()
		return s
	}
	if mode == 2 && end == 4 {
		// one after the other: session B starts only when session A (possibly with subscriptions still
		// open) has ended - whatever the middleware keeps per session must not survive the session
		unclaimed := 0
		for i := range scripts {
			s := start(i)
			h.WaitQuiescent()
			unclaimed += c19Check(h, reg, ss, desc, fmt.Sprintf("session %s served (sessions run one after the other)", s.c.Name))
			s.c.CancelAt = 1
			s.c.Cancel()
			h.WaitQuiescent()
			unclaimed += c19Check(h, reg, ss, desc, fmt.Sprintf("session %s ended (sessions run one after the other)", s.c.Name))
		}
		h.Observe(fmt.Sprintf("sequential, unclaimed %d", unclaimed))
		return
	}
	for i := range scripts {
		start(i)
	}
	A := ss[0]
	if end == 0 {
		h.SpawnFree(func() { A.c.CancelAt = 1; A.c.Cancel() })
	}
	phase := "scripts served"
	if end == 0 {
		phase = "session A cancelled at some cut point"
	}
	unclaimed := 0
	h.WaitQuiescent()
	unclaimed += c19Check(h, reg, ss, desc, phase)
	h.Observe(fmt.Sprintf("A took %d of %d", c19TakenN(A.c), len(A.c.Sent)))
	if end == 3 {
		// no teardown: the execution ends here (the serving phase alone admits much deeper searches)
		return
	}
	if end != 0 {
		if end == 2 && A.wdone {
			A.c.CancelAt = 1
			close(A.c.Recv)
			phase = "inbound channel of session A closed"
		} else {
			A.c.CancelAt = 1
			A.c.Cancel()
			phase = "session A cancelled"
		}
		h.WaitQuiescent()
		unclaimed += c19Check(h, reg, ss, desc, phase)
	}
	for _, s := range ss[1:] {
		s.c.CancelAt = 1
		s.c.Cancel()
	}
	if len(ss) > 1 {
		h.WaitQuiescent()
		unclaimed += c19Check(h, reg, ss, desc, "all sessions ended")
	}
	for _, s := range ss {
		if !s.c.ServeDone {
			h.Observe("a cancelled session did not return (C13's subject)")
		}
	}
	if unclaimed > 0 {
		h.Observe("unclaimed: message taken from a session that ended before passing it on")
	}
}

func c19TakenN(c *Conn) int {
	n := 0
	for _, s := range c.Sent {
		if s.Ret != 0 {
			n++
		}
	}
	return n
}

// c19Subseq: is sequence a (length n) a subsequence of b (length m) under eq(i, j)?
func c19Subseq(n, m int, eq func(i, j int) bool) bool {
	j := 0
	for i := 0; i < n; i++ {
		for j < m && !eq(i, j) {
			j++
		}
		if j == m {
			return false
		}
		j++
	}
	return true
}

func c19MsgEqual(a, b any) bool {
	if a == b {
		return true
	}
	return reflect.DeepEqual(a, b)
}

func promGauge(mfs []*dto.MetricFamily, name string) float64 {
	for _, mf := range mfs {
		if mf.GetName() == name {
			v := 0.0
			for _, m := range mf.GetMetric() {
				if m.Gauge != nil {
					v += m.Gauge.GetValue()
				}
			}
			return v
		}
	}
	return 0
}

// promCounters returns label value -> counter value of a one-label counter vector.
func promCounters(mfs []*dto.MetricFamily, name, label string) map[string]float64 {
	out := map[string]float64{}
	for _, mf := range mfs {
		if mf.GetName() != name {
			continue
		}
		for _, m := range mf.GetMetric() {
			lv := ""
			for _, lp := range m.GetLabel() {
				if lp.GetName() == label {
					lv = lp.GetValue()
				}
			}
			if m.Counter != nil {
				out[lv] += m.Counter.GetValue()
			}
		}
	}
	return out
}

func cmsgType(m mocrelay.ClientMsg) string {
	switch m.(type) {
	case *mocrelay.ClientEventMsg:
		return "EVENT"
	case *mocrelay.ClientReqMsg:
		return "REQ"
	case *mocrelay.ClientCloseMsg:
		return "CLOSE"
	case *mocrelay.ClientAuthMsg:
		return "AUTH"
	case *mocrelay.ClientCountMsg:
		return "COUNT"
	}
	return "UNDEFINED"
}

func smsgType(m mocrelay.ServerMsg) string {
	switch m.(type) {
	case *mocrelay.ServerEOSEMsg:
		return "EOSE"
	case *mocrelay.ServerEventMsg:
		return "EVENT"
	case *mocrelay.ServerNoticeMsg:
		return "NOTICE"
	case *mocrelay.ServerOKMsg:
		return "OK"
	case *mocrelay.ServerAuthMsg:
		return "AUTH"
	case *mocrelay.ServerCountMsg:
		return "COUNT"
	case *mocrelay.ServerClosedMsg:
		return "CLOSED"
	}
	return "UNDEFINED"
}

// subOp is one event that moves the subscription gauge of a session.
type subOp struct {
	kind  int // 0 REQ, 1 CLOSE (client side), 2 CLOSED (relay side)
	id    string
	after int // CLOSED only: index of the client op (in the client sequence) that caused it
}

// c19Contrib: the set of values a live session's open-subscription count can have after all of
// clientOps (in order) and closed (in order, each after the client op that caused it) have been
// applied in SOME interleaving.
func c19Contrib(clientOps []subOp, closed []subOp) map[int]bool {
	out := map[int]bool{}
	seen := map[string]bool{}
	var rec func(i, j int, open map[string]bool)
	rec = func(i, j int, open map[string]bool) {
		ks := make([]string, 0, len(open))
		for k := range open {
			ks = append(ks, k)
		}
		sort.Strings(ks)
		key := fmt.Sprintf("%d/%d/%s", i, j, strings.Join(ks, ","))
		if seen[key] {
			return
		}
		seen[key] = true
		if i == len(clientOps) && j == len(closed) {
			out[len(open)] = true
			return
		}
		cp := func() map[string]bool {
			n := map[string]bool{}
			for k := range open {
				n[k] = true
			}
			return n
		}
		if i < len(clientOps) {
			n := cp()
			if clientOps[i].kind == 0 {
				n[clientOps[i].id] = true
			} else {
				delete(n, clientOps[i].id)
			}
			rec(i+1, j, n)
		}
		if j < len(closed) && closed[j].after < i {
			n := cp()
			delete(n, closed[j].id)
			rec(i, j+1, n)
		}
	}
	rec(0, 0, map[string]bool{})
	return out
}

func c19Check(h *vsched.H, reg *prometheus.Registry, ss []*c19Sess, desc, phase string) (unclaimed int) {
	mfs, err := reg.Gather()
	if err != nil {
		h.Failf("C19/registry cannot be gathered", "%v", err)
		return 0
	}
	var sb strings.Builder
	fmt.Fprintf(&sb, "%s; phase: %s", desc, phase)
	for _, s := range ss {
		var em []string
		for _, e := range s.log.Emits {
			t := ""
			if !e.Taken {
				t = "(not taken)"
			}
			em = append(em, SMsgString(e.Msg)+t)
		}
		var rc []string
		for _, m := range s.log.Recv {
			rc = append(rc, CMsgString(m))
		}
		fmt.Fprintf(&sb, "; session %s (returned=%v): client sent [%s] taken %d; downstream received [%s]; downstream emitted [%s]; client got [%s]",
			s.c.Name, s.c.ServeDone, s.c.SentString(), c19TakenN(s.c), strings.Join(rc, " "), strings.Join(em, " "), s.c.GotString())
	}
	detail := sb.String()

	live := 0
	wantRecvLo, wantRecvHi := map[string]float64{}, map[string]float64{}
	wantKindLo, wantKindHi := map[string]float64{}, map[string]float64{}
	wantSendLo, wantSendHi := map[string]float64{}, map[string]float64{}
	contribs := []map[int]bool{}
	anyEnded := false
	for _, s := range ss {
		ended := s.c.ServeDone
		if ended {
			anyEnded = true
		} else {
			live++
		}
		// ---- (a) transparency, client -> downstream
		var taken []mocrelay.ClientMsg
		for _, x := range s.c.Sent {
			if x.Ret != 0 {
				taken = append(taken, x.Msg)
			}
		}
		if !ended && s.c.CancelAt == 0 && len(taken) != len(s.c.Sent) {
			h.Fail("C19/transparent: client message not taken by a live session", detail)
		}
		// a live session passes everything; a session that has ended may have dropped messages it took
		// while its context was already cancelled: what did pass must be a subsequence, unaltered
		okC := c19Subseq(len(s.log.Recv), len(taken), func(i, j int) bool { return c19MsgEqual(s.log.Recv[i], taken[j]) }) && (ended || len(s.log.Recv) == len(taken))
		if !okC {
			h.Fail("C19/transparent: client message altered, lost or reordered", detail)
		}
		// ---- server -> client
		var emitted []mocrelay.ServerMsg
		for _, e := range s.log.Emits {
			if e.Taken {
				emitted = append(emitted, e.Msg)
			}
		}
		okS := c19Subseq(len(s.c.Got), len(emitted), func(i, j int) bool { return c19MsgEqual(s.c.Got[i].Msg, emitted[j]) }) && (ended || len(s.c.Got) == len(emitted))
		if !okS {
			h.Fail("C19/transparent: server message altered, lost or reordered", detail)
		}
		// ---- (d) counters: every message taken is counted; a message taken from a session that
		// ended before it was passed on "crossed" only half way: unclaimed (both values accepted)
		for _, m := range taken {
			wantRecvHi[cmsgType(m)]++
			if e, ok := m.(*mocrelay.ClientEventMsg); ok {
				wantKindHi[strconv.FormatInt(e.Event.Kind, 10)]++
			}
		}
		for _, m := range s.log.Recv {
			wantRecvLo[cmsgType(m)]++
			if e, ok := m.(*mocrelay.ClientEventMsg); ok {
				wantKindLo[strconv.FormatInt(e.Event.Kind, 10)]++
			}
		}
		for _, m := range emitted {
			wantSendHi[smsgType(m)]++
		}
		for _, g := range s.c.Got {
			wantSendLo[smsgType(g.Msg)]++
		}
		unclaimed += len(taken) - len(s.log.Recv) + len(emitted) - len(s.c.Got)
		// ---- (c) contribution to the subscription gauge
		if ended {
			contribs = append(contribs, map[int]bool{0: true})
			continue
		}
		var cops, closed []subOp
		var xreqs []int // client-op indices of the REQs the downstream answers with CLOSED
		for _, m := range taken {
			switch m := m.(type) {
			case *mocrelay.ClientReqMsg:
				cops = append(cops, subOp{kind: 0, id: m.SubscriptionID})
				if strings.HasPrefix(m.SubscriptionID, "x") {
					xreqs = append(xreqs, len(cops)-1)
				}
			case *mocrelay.ClientCloseMsg:
				cops = append(cops, subOp{kind: 1, id: m.SubscriptionID})
			}
		}
		k := 0
		for _, e := range s.log.Emits {
			if m, ok := e.Msg.(*mocrelay.ServerClosedMsg); ok {
				if e.Taken && k < len(xreqs) {
					closed = append(closed, subOp{kind: 2, id: m.SubscriptionID, after: xreqs[k]})
				}
				k++
			}
		}
		contribs = append(contribs, c19Contrib(cops, closed))
	}
	// ---- (b)
	if g := promGauge(mfs, "mocrelay_connection_count"); g != float64(live) {
		h.Failf("C19/connection gauge differs from the number of live sessions", "gauge=%v live=%d; %s", g, live, detail)
	}
	// ---- (c)
	sums := map[int]bool{0: true}
	for _, cs := range contribs {
		n := map[int]bool{}
		for a := range sums {
			for b := range cs {
				n[a+b] = true
			}
		}
		sums = n
	}
	g := promGauge(mfs, "mocrelay_req_count")
	if g != float64(int(g)) || !sums[int(g)] {
		max := 0
		for v := range sums {
			if v > max {
				max = v
			}
		}
		var vs []int
		for v := range sums {
			vs = append(vs, v)
		}
		sort.Ints(vs)
		if anyEnded && g > float64(max) {
			h.Failf("C19/subscription gauge not released at session end", "gauge=%v explained values %v; %s", g, vs, detail)
		} else {
			h.Failf("C19/subscription gauge not explained by any interleaving", "gauge=%v explained values %v; %s", g, vs, detail)
		}
	}
	// ---- (d)
	cmp := func(sigFmt string, got, lo, hi map[string]float64) {
		keys := map[string]bool{}
		for k := range got {
			keys[k] = true
		}
		for k := range hi {
			keys[k] = true
		}
		var ks []string
		for k := range keys {
			ks = append(ks, k)
		}
		sort.Strings(ks)
		for _, k := range ks {
			if got[k] < lo[k] || got[k] > hi[k] {
				h.Failf(fmt.Sprintf(sigFmt, k), "counter=%v want %v..%v; %s", got[k], lo[k], hi[k], detail)
			}
		}
	}
	cmp("C19/recv counter %s differs from messages taken", promCounters(mfs, "mocrelay_recv_msg_total", "type"), wantRecvLo, wantRecvHi)
	cmp("C19/recv event counter kind %s differs from EVENTs taken", promCounters(mfs, "mocrelay_recv_event_total", "kind"), wantKindLo, wantKindHi)
	cmp("C19/send counter %s differs", promCounters(mfs, "mocrelay_send_msg_total", "type"), wantSendLo, wantSendHi)
	return unclaimed
}
