package harness

import (
	"context"
	"fmt"
	"math"
	"math/big"
	"reflect"
	"strings"
	"time"
	"unicode/utf8"

	"github.com/high-moctane/mocrelay"
	"verifkit/vsched"
)

// ---------------------------------------------------------------------------------------------
// C17 — limit middlewares reject exactly the offending message and pass the rest as is.
//
// Three harnesses: LimitCase (one middleware, one probe), LimitStack (ordered pairs) and
// NIP11Chain (the chain built from a NIP-11 document). All run one client session through the
// real NewSimpleMiddleware plumbing around a recording stub; the oracle runs at quiescence.
// ---------------------------------------------------------------------------------------------

// Middleware menu.
const (
	C17MaxReqFilters = iota
	C17MaxLimit
	C17MaxSubIDLength
	C17MaxEventTags
	C17MaxContentLength
	C17CreatedAtLower
	C17CreatedAtUpper
	C17EventCreatedAt
	C17AllowFilter
	C17DenyFilter
	C17Middlewares
)

var C17MWNames = []string{"MaxReqFilters", "MaxLimit", "MaxSubIDLength", "MaxEventTags", "MaxContentLength",
	"CreatedAtLowerLimit", "CreatedAtUpperLimit", "EventCreatedAt", "RecvEventAllowFilter", "RecvEventDenyFilter"}

// Probe kinds.
const (
	C17Req = iota
	C17Count
	C17Event
	C17Close
	C17Auth
	C17Kinds
)

var C17KindNames = []string{"REQ", "COUNT", "EVENT", "CLOSE", "AUTH"}

// Verdicts of the specification for one client message under one configuration.
const (
	c17Respects  = iota // must be forwarded unchanged, no rejection
	c17Offends          // must be answered by exactly one rejection, nothing forwarded
	c17Unclaimed        // within +-1 s of a created_at boundary (or a CLOSE with an over-long id): either way
)

// C17Margin is the safety margin (seconds) around a created_at boundary inside which nothing is claimed.
const C17Margin = 2

// C17StackWindow is the created_at limit (seconds) used by the created_at middlewares in LimitStack.
const C17StackWindow = 10

// C17HasLimit reports whether the middleware has a numeric limit (the allow/deny filters do not).
func C17HasLimit(mw int) bool { return mw != C17AllowFilter && mw != C17DenyFilter }

type c17KindMatcher struct{ kind int64 }

func (m c17KindMatcher) Match(ev *mocrelay.Event) bool { return ev != nil && ev.Kind == m.kind }

func c17Now() int64 { return vsched.Now().Unix() }

func c17Middleware(mw, l int) mocrelay.Middleware {
	switch mw {
	case C17MaxReqFilters:
		return mocrelay.Middleware(mocrelay.NewMaxReqFiltersMiddleware(l))
	case C17MaxLimit:
		return mocrelay.Middleware(mocrelay.NewMaxLimitMiddleware(l))
	case C17MaxSubIDLength:
		return mocrelay.Middleware(mocrelay.NewMaxSubIDLengthMiddleware(l))
	case C17MaxEventTags:
		return mocrelay.Middleware(mocrelay.NewMaxEventTagsMiddleware(l))
	case C17MaxContentLength:
		return mocrelay.Middleware(mocrelay.NewMaxContentLengthMiddleware(l))
	case C17CreatedAtLower:
		return mocrelay.Middleware(mocrelay.NewCreatedAtLowerLimitMiddleware(int64(l)))
	case C17CreatedAtUpper:
		return mocrelay.Middleware(mocrelay.NewCreatedAtUpperLimitMiddleware(int64(l)))
	case C17EventCreatedAt:
		return mocrelay.Middleware(mocrelay.NewEventCreatedAtMiddleware(-time.Duration(l)*time.Second, time.Duration(l)*time.Second))
	case C17AllowFilter:
		return mocrelay.Middleware(mocrelay.NewRecvEventAllowFilterMiddleware(c17KindMatcher{1})) // only kind 1 is allowed
	case C17DenyFilter:
		return mocrelay.Middleware(mocrelay.NewRecvEventDenyFilterMiddleware(c17KindMatcher{7})) // kind 7 is denied
	}
	panic("c17: unknown middleware")
}

func c17Cmp(n, l int) string {
	switch {
	case n < l:
		return "<"
	case n == l:
		return "=="
	}
	return ">"
}

func c17KindOf(m mocrelay.ClientMsg) string {
	switch m.(type) {
	case *mocrelay.ClientReqMsg:
		return "REQ"
	case *mocrelay.ClientCountMsg:
		return "COUNT"
	case *mocrelay.ClientEventMsg:
		return "EVENT"
	case *mocrelay.ClientCloseMsg:
		return "CLOSE"
	case *mocrelay.ClientAuthMsg:
		return "AUTH"
	}
	return fmt.Sprintf("%T", m)
}

// c17Judge is the specification: does message m respect limit l of middleware mw? rel describes
// the relation of the message's size to the limit (part of violation signatures; no numbers).
func c17Judge(mw, l int, m mocrelay.ClientMsg) (verdict int, rel string) {
	var sub string
	var filters []*mocrelay.ReqFilter
	var ev *mocrelay.Event
	isSub := false
	switch m := m.(type) {
	case *mocrelay.ClientReqMsg:
		sub, filters, isSub = m.SubscriptionID, m.ReqFilters, true
	case *mocrelay.ClientCountMsg:
		sub, filters, isSub = m.SubscriptionID, m.ReqFilters, true
	case *mocrelay.ClientEventMsg:
		ev = m.Event
	case *mocrelay.ClientCloseMsg:
		if mw == C17MaxSubIDLength && len(m.SubscriptionID) > l {
			return c17Unclaimed, "CLOSE with an over-long subscription id (the protocol has no rejection for CLOSE)"
		}
		return c17Respects, "not a limited message type"
	default:
		return c17Respects, "not a limited message type"
	}
	bool2 := func(offends bool, r string) (int, string) {
		if offends {
			return c17Offends, r
		}
		return c17Respects, r
	}
	switch mw {
	case C17MaxReqFilters:
		if isSub {
			return bool2(len(filters) > l, "filters "+c17Cmp(len(filters), l)+" limit")
		}
	case C17MaxLimit:
		if isSub {
			worst, absent := -1, 0
			for _, f := range filters {
				if f.Limit == nil {
					absent++
				} else if int(*f.Limit) > worst {
					worst = int(*f.Limit)
				}
			}
			if worst < 0 {
				return c17Respects, "no filter has a limit"
			}
			r := "largest filter limit " + c17Cmp(worst, l) + " max"
			if len(filters) > 1 {
				r += ", several filters"
			}
			return bool2(worst > l, r)
		}
	case C17MaxSubIDLength:
		if isSub {
			if r := utf8.RuneCountInString(sub); r <= l && l < len(sub) {
				// the statement says "subscription-id length" and does not fix the unit
				return c17Unclaimed, "subscription id within the limit counted in characters, over it counted in bytes"
			}
			return bool2(len(sub) > l, "len(subid) "+c17Cmp(len(sub), l)+" limit")
		}
	case C17MaxEventTags:
		if ev != nil {
			return bool2(len(ev.Tags) > l, "tags "+c17Cmp(len(ev.Tags), l)+" limit")
		}
	case C17MaxContentLength:
		if ev != nil {
			return bool2(len(ev.Content) > l, "len(content) "+c17Cmp(len(ev.Content), l)+" limit")
		}
	case C17CreatedAtLower, C17CreatedAtUpper, C17EventCreatedAt:
		if ev != nil {
			// the distance from now, saturated (created_at may be any 64-bit integer)
			off := 0
			switch d := new(big.Int).Sub(big.NewInt(ev.CreatedAt), big.NewInt(c17Now())); {
			case d.Cmp(big.NewInt(1<<40)) > 0:
				off = 1 << 40
			case d.Cmp(big.NewInt(-(1 << 40))) < 0:
				off = -(1 << 40)
			default:
				off = int(d.Int64())
			}
			lower := func() int { // reject iff now - created_at > l  <=>  off < -l
				switch {
				case off <= -l-C17Margin:
					return c17Offends
				case off >= -l+C17Margin:
					return c17Respects
				}
				return c17Unclaimed
			}
			upper := func() int { // reject iff created_at - now > l  <=>  off > l
				switch {
				case off >= l+C17Margin:
					return c17Offends
				case off <= l-C17Margin:
					return c17Respects
				}
				return c17Unclaimed
			}
			v := c17Respects
			switch mw {
			case C17CreatedAtLower:
				v = lower()
			case C17CreatedAtUpper:
				v = upper()
			default:
				lo, up := lower(), upper()
				switch {
				case lo == c17Offends || up == c17Offends:
					v = c17Offends
				case lo == c17Unclaimed || up == c17Unclaimed:
					v = c17Unclaimed
				}
			}
			switch v {
			case c17Offends:
				return v, "created_at outside the window by at least the margin"
			case c17Unclaimed:
				return v, "created_at within the margin of the window boundary"
			}
			return v, "created_at inside the window by at least the margin"
		}
	case C17AllowFilter:
		if ev != nil {
			return bool2(ev.Kind != 1, "allow matcher: kind 1 only")
		}
	case C17DenyFilter:
		if ev != nil {
			return bool2(ev.Kind == 7, "deny matcher: kind 7")
		}
	}
	return c17Respects, "not a limited message type"
}

// ---- probes

func c17Filters(n int, limit func(i int) *int64) []*mocrelay.ReqFilter {
	fs := make([]*mocrelay.ReqFilter, 0, n)
	for i := 0; i < n; i++ {
		f := &mocrelay.ReqFilter{}
		if limit != nil {
			f.Limit = limit(i)
		}
		fs = append(fs, f)
	}
	return fs
}

func c17Sub(kind int, sub string, fs []*mocrelay.ReqFilter) mocrelay.ClientMsg {
	if kind == C17Count {
		return &mocrelay.ClientCountMsg{SubscriptionID: sub, ReqFilters: fs}
	}
	return &mocrelay.ClientReqMsg{SubscriptionID: sub, ReqFilters: fs}
}

func c17Event(id byte, kind int64, off int64, ntags, ncontent int) *mocrelay.Event {
	tags := make([]mocrelay.Tag, 0, ntags)
	for i := 0; i < ntags; i++ {
		tags = append(tags, mocrelay.Tag{"t", fmt.Sprintf("v%d", i)})
	}
	ev := Ev(id, '9', kind, c17Now()+off, tags...) // pubkey differs from every event id used in the scripts
	ev.Content = strings.Repeat("x", ncontent)
	return ev
}

// C17ProbeSizes is the number of probe variants ("sizes") for (middleware, limit, kind).
func C17ProbeSizes(mw, l, kind int) int {
	switch kind {
	case C17Req, C17Count:
		switch mw {
		case C17MaxReqFilters:
			return l + 3 // 0..l+2
		case C17MaxSubIDLength:
			return l + 3 + l + 2 // ASCII ids of 0..l+2 bytes, then ids of 1..l+2 two-byte characters
		case C17MaxLimit:
			return l + 8
		}
		return 3
	case C17Event:
		switch mw {
		case C17MaxEventTags, C17MaxContentLength:
			return l + 3
		case C17CreatedAtLower, C17CreatedAtUpper, C17EventCreatedAt:
			return 2*l + 5 + 3 // offsets -(l+2)..+(l+2), then created_at = 0, the smallest and the largest integer
		case C17AllowFilter, C17DenyFilter:
			return 2
		}
		return 3
	case C17Close:
		if mw == C17MaxSubIDLength {
			return l + 3
		}
		return 1
	}
	return 1
}

// c17Probe builds the probe message. It is deterministic: calling it twice gives two deep-equal
// values (one is sent, the other is kept as the reference for "unchanged").
func c17Probe(mw, l, kind, size, which int) mocrelay.ClientMsg {
	generic := []int{1, 0, l + 2}
	p, evID, authID := "p", byte('a'), byte('b')
	if which == 1 {
		p, evID, authID = "q", byte('f'), byte('0')
	}
	switch kind {
	case C17Req, C17Count:
		switch mw {
		case C17MaxReqFilters:
			return c17Sub(kind, p, c17Filters(size, nil))
		case C17MaxSubIDLength:
			if size >= l+3 {
				ch := "\u00e9"
				if which == 1 {
					ch = "\u00fc"
				}
				return c17Sub(kind, strings.Repeat(ch, size-(l+3)+1), c17Filters(1, nil))
			}
			return c17Sub(kind, strings.Repeat(p, size), c17Filters(1, nil))
		case C17MaxLimit:
			lim := func(vs ...int) []*mocrelay.ReqFilter { // -1 = absent
				return c17Filters(len(vs), func(i int) *int64 {
					if vs[i] < 0 {
						return nil
					}
					return I64(int64(vs[i]))
				})
			}
			switch {
			case size == 0:
				return c17Sub(kind, p, lim(-1))
			case size <= l+3:
				return c17Sub(kind, p, lim(size-1)) // 0..l+2
			case size == l+4:
				return c17Sub(kind, p, lim(-1, l+1)) // only the second filter offends
			case size == l+5:
				return c17Sub(kind, p, lim(l, l+1)) // boundary first, offender second
			case size == l+6:
				return c17Sub(kind, p, lim(l+1, -1)) // only the first offends
			default:
				return c17Sub(kind, p, lim(l, -1, 0)) // several filters, none offends
			}
		}
		n := generic[size%3]
		return c17Sub(kind, p, c17Filters(n, func(int) *int64 { return I64(int64(n)) }))
	case C17Event:
		switch mw {
		case C17MaxEventTags:
			return EventMsg(c17Event(evID, 1, 0, size, 0))
		case C17MaxContentLength:
			return EventMsg(c17Event(evID, 1, 0, 0, size))
		case C17CreatedAtLower, C17CreatedAtUpper, C17EventCreatedAt:
			if size >= 2*l+5 {
				ev := c17Event(evID, 1, 0, 1, 1)
				ev.CreatedAt = []int64{0, math.MinInt64, math.MaxInt64}[size-(2*l+5)]
				return EventMsg(ev)
			}
			return EventMsg(c17Event(evID, 1, int64(size-(l+2)), 1, 1))
		case C17AllowFilter, C17DenyFilter:
			if size == 0 {
				return EventMsg(c17Event(evID, 1, 0, 1, 1))
			}
			return EventMsg(c17Event(evID, 7, 0, 1, 1))
		}
		n := generic[size%3]
		return EventMsg(c17Event(evID, 1, int64(-1000*n), n, n))
	case C17Close:
		if mw == C17MaxSubIDLength {
			return CloseMsg(strings.Repeat(p, size))
		}
		return CloseMsg(p)
	}
	// AUTH: its event would offend every EVENT limit, but AUTH is not a limited message type
	return &mocrelay.ClientAuthMsg{Event: c17Event(authID, 22242, -1000, l+2, l+2)}
}

// C17ProbeUnclaimed reports whether the specification leaves the probe's fate open.
func C17ProbeUnclaimed(mw, l, kind, size int) bool {
	v, _ := c17Judge(mw, l, c17Probe(mw, l, kind, size, 0))
	return v == c17Unclaimed
}

// C17ProbeOffends reports whether the probe is a claimed offender.
func C17ProbeOffends(mw, l, kind, size int) bool {
	v, _ := c17Judge(mw, l, c17Probe(mw, l, kind, size, 0))
	return v == c17Offends
}

// ---- recording stub

const (
	c17StubEmitOnTrigger = iota // on REQ "e": emit the seven server message types once
	c17StubReply                // REQ -> EOSE, EVENT -> OK true, COUNT -> COUNT, CLOSE/AUTH -> nothing
)

const c17Trigger = "e"

type c17Stub struct {
	mode    int
	menu    []mocrelay.ServerMsg
	seen    []mocrelay.ClientMsg
	emitted []mocrelay.ServerMsg
}

func c17Menu() []mocrelay.ServerMsg {
	return []mocrelay.ServerMsg{
		mocrelay.NewServerEOSEMsg("m1"),
		mocrelay.NewServerEventMsg("m2", Ev('c', '2', 1, 77)),
		mocrelay.NewServerNoticeMsg("n"),
		mocrelay.NewServerOKMsg(Hex('d', 64), false, mocrelay.MachineReadablePrefixBlocked, "downstream says no"),
		&mocrelay.ServerAuthMsg{Challenge: "c"},
		mocrelay.NewServerCountMsg("m3", 5, nil),
		mocrelay.NewServerClosedMsg("m4", "", "downstream closed"),
	}
}

func (s *c17Stub) ServeNostr(ctx context.Context, send chan<- mocrelay.ServerMsg, recv <-chan mocrelay.ClientMsg) error {
	for {
		select {
		case <-ctx.Done():
			return ctx.Err()
		case m, ok := <-recv:
			if !ok {
				return mocrelay.ErrRecvClosed
			}
			s.seen = append(s.seen, m)
			var out []mocrelay.ServerMsg
			switch s.mode {
			case c17StubEmitOnTrigger:
				if r, isReq := m.(*mocrelay.ClientReqMsg); isReq && r.SubscriptionID == c17Trigger {
					out = s.menu
				}
			case c17StubReply:
				switch m := m.(type) {
				case *mocrelay.ClientReqMsg:
					out = []mocrelay.ServerMsg{mocrelay.NewServerEOSEMsg(m.SubscriptionID)}
				case *mocrelay.ClientEventMsg:
					out = []mocrelay.ServerMsg{mocrelay.NewServerOKMsg(m.Event.ID, true, "", "")}
				case *mocrelay.ClientCountMsg:
					out = []mocrelay.ServerMsg{mocrelay.NewServerCountMsg(m.SubscriptionID, 3, nil)}
				}
			}
			for _, o := range out {
				s.emitted = append(s.emitted, o)
				select {
				case <-ctx.Done():
					return ctx.Err()
				case send <- o:
				}
			}
		}
	}
}

// ---- session runner and oracle

type c17Item struct {
	Msg, Ref mocrelay.ClientMsg
	Verdict  int
	Who      string // middleware / limit the verdict is attributed to (signature prefix after "C17/")
	Rel      string
	NIP11    string // NIP-11 field name when the item offends a limit of a NIP-11 chain
}

// c17Session runs the script through handler (stamps are not taken: real-time order is not part
// of this property, and every stamp would be one more scheduling point).
func c17Session(h *vsched.H, handler mocrelay.Handler, items []*c17Item) *Conn {
	c := NewConn(h, "c", context.Background(), handler)
	go func() {
		for {
			select {
			case m := <-c.Send:
				c.Got = append(c.Got, &Got{Msg: m})
			case <-c.stop:
				return
			}
		}
	}()
	go func() {
		for _, it := range items {
			s := &Sent{Msg: it.Msg}
			c.Sent = append(c.Sent, s)
			select {
			case c.Recv <- it.Msg:
				s.Ret = 1
			case <-c.stop:
				return
			}
		}
	}()
	h.WaitQuiescent()
	return c
}

// c17RejectionFor: is g the protocol's rejection for client message m?
func c17RejectionFor(g mocrelay.ServerMsg, m mocrelay.ClientMsg) bool {
	switch m := m.(type) {
	case *mocrelay.ClientEventMsg:
		ok, is := g.(*mocrelay.ServerOKMsg)
		return is && ok != nil && !ok.Accepted && ok.EventID == m.Event.ID
	case *mocrelay.ClientAuthMsg:
		ok, is := g.(*mocrelay.ServerOKMsg)
		return is && ok != nil && !ok.Accepted && ok.EventID == m.Event.ID
	case *mocrelay.ClientReqMsg:
		cl, is := g.(*mocrelay.ServerClosedMsg)
		return is && cl != nil && cl.SubscriptionID == m.SubscriptionID
	case *mocrelay.ClientCountMsg:
		cl, is := g.(*mocrelay.ServerClosedMsg)
		return is && cl != nil && cl.SubscriptionID == m.SubscriptionID
	case *mocrelay.ClientCloseMsg:
		cl, is := g.(*mocrelay.ServerClosedMsg)
		return is && cl != nil && cl.SubscriptionID == m.SubscriptionID
	}
	return false
}

// c17Oracle checks one finished session. scope names the configuration for failures that cannot
// be attributed to one message. It returns a per-item outcome string for h.Observe.
func c17Oracle(h *vsched.H, scope string, c *Conn, stub *c17Stub, menuRef []mocrelay.ServerMsg, items []*c17Item) []string {
	ctx := func() string {
		var seen []string
		for _, m := range stub.seen {
			seen = append(seen, CMsgString(m))
		}
		return fmt.Sprintf("sent [%s]; downstream saw [%s]; client got [%s]", c.SentString(), strings.Join(seen, " "), c.GotString())
	}
	if c.ServeDone {
		h.Failf("C17/"+scope+": the session ended by itself", "err=%v; %s", c.ServeErr, ctx())
		return nil
	}
	for _, s := range c.Sent {
		if s.Ret == 0 {
			h.Failf("C17/"+scope+": client message not taken (session stuck)", "%s; live: %v", ctx(), h.Live())
			return nil
		}
	}
	if len(c.Sent) != len(items) {
		h.Failf("C17/"+scope+": client message not taken (session stuck)", "%s; live: %v", ctx(), h.Live())
		return nil
	}
	// ---- downstream view
	inScript := func(m mocrelay.ClientMsg) int {
		for i, it := range items {
			if it.Msg == m {
				return i
			}
		}
		return -1
	}
	fwd := make([]int, len(items))
	var order []int
	for _, m := range stub.seen {
		i := inScript(m)
		if i < 0 {
			h.Failf("C17/"+scope+": downstream received a message the client never sent (copied, changed or invented)", "alien %s; %s", CMsgString(m), ctx())
			continue
		}
		fwd[i]++
		order = append(order, i)
	}
	for k := 1; k < len(order); k++ {
		if order[k] < order[k-1] {
			h.Failf("C17/"+scope+": client messages reordered downstream", "%s", ctx())
			break
		}
	}
	// ---- client view: stub emissions (pointer-identical, in order) interleaved with rejections
	emittedIdx := func(g mocrelay.ServerMsg) int {
		for i, e := range stub.emitted {
			if e == g {
				return i
			}
		}
		return -1
	}
	rej := make([]int, len(items))
	next := 0
	for _, g := range c.Got {
		if k := emittedIdx(g.Msg); k >= 0 {
			if k != next {
				h.Failf("C17/"+scope+": bystander server message lost or reordered", "expected emission #%d next, got #%d %s; %s", next, k, SMsgString(g.Msg), ctx())
			}
			next = k + 1
			continue
		}
		matched := false
		for i, it := range items {
			if c17RejectionFor(g.Msg, it.Msg) {
				rej[i]++
				matched = true
				break
			}
		}
		if !matched {
			h.Failf("C17/"+scope+": client received a server message nobody sent", "%s; %s", SMsgString(g.Msg), ctx())
		}
	}
	if next != len(stub.emitted) {
		h.Failf("C17/"+scope+": bystander server message lost or reordered", "downstream emitted %d, client saw them up to #%d; %s", len(stub.emitted), next, ctx())
	}
	for i, e := range stub.emitted {
		if menuRef != nil && i < len(menuRef) && !reflect.DeepEqual(e, menuRef[i]) {
			h.Failf("C17/"+scope+": server message was modified", "emission #%d is now %s; %s", i, SMsgString(e), ctx())
		}
	}
	// ---- per message
	outcomes := make([]string, len(items))
	for i, it := range items {
		kind := c17KindOf(it.Msg)
		who := "C17/" + it.Who
		det := fmt.Sprintf("message #%d %s (%s): forwarded x%d, rejections x%d; %s", i, CMsgString(it.Msg), it.Rel, fwd[i], rej[i], ctx())
		if !reflect.DeepEqual(it.Msg, it.Ref) {
			h.Failf(who+": client message was modified", "%s", det)
		}
		if fwd[i] > 1 {
			h.Failf(fmt.Sprintf("%s: %s forwarded %d times", who, kind, fwd[i]), "%s", det)
		}
		switch it.Verdict {
		case c17Respects:
			if rej[i] > 0 {
				h.Failf(fmt.Sprintf("%s: conforming %s rejected (%s)", who, kind, it.Rel), "%s", det)
			}
			if fwd[i] == 0 {
				h.Failf(fmt.Sprintf("%s: conforming %s not forwarded (%s)", who, kind, it.Rel), "%s", det)
			}
			outcomes[i] = "forwarded"
		case c17Offends:
			if fwd[i] > 0 {
				if it.NIP11 != "" {
					h.Failf(fmt.Sprintf("C17/NIP-11: %s not enforced by the chain", it.NIP11), "%s", det)
				} else {
					h.Failf(fmt.Sprintf("%s: offending %s forwarded", who, kind), "%s", det)
				}
			}
			if rej[i] == 0 {
				h.Failf(fmt.Sprintf("%s: offending %s not answered by a rejection", who, kind), "%s", det)
			} else if rej[i] > 1 {
				h.Failf(fmt.Sprintf("%s: offender answered by %d rejections", who, rej[i]), "%s", det)
			}
			outcomes[i] = "rejected"
		default:
			switch {
			case fwd[i] == 1 && rej[i] == 0:
				outcomes[i] = "unclaimed zone: forwarded"
			case fwd[i] == 0 && rej[i] == 1:
				outcomes[i] = "unclaimed zone: rejected"
			default:
				outcomes[i] = fmt.Sprintf("unclaimed zone: forwarded x%d, rejected x%d", fwd[i], rej[i])
				if kind != "CLOSE" { // whichever side of the boundary: either forwarded cleanly or rejected cleanly
					h.Failf(fmt.Sprintf("%s: %s near the boundary neither cleanly forwarded nor cleanly rejected", who, kind), "%s", det)
				}
			}
		}
	}
	return outcomes
}

func c17Bystander(scope string, m, ref mocrelay.ClientMsg) *c17Item {
	return &c17Item{Msg: m, Ref: ref, Verdict: c17Respects, Who: scope, Rel: "bystander"}
}

// LimitCase: one middleware with limit lim around the stub; script [CLOSE z, PROBE, (PROBE2,) REQ e].
// params: mw, lim, kind, size; optionally kind2, size2 (a second probe in the same session).
func LimitCase(h *vsched.H) {
	mw, l, kind, size := h.Param("mw", 0), h.Param("lim", 1), h.Param("kind", 0), h.Param("size", 0)
	kind2, size2 := h.Param("kind2", -1), h.Param("size2", 0)
	name := C17MWNames[mw]
	stub := &c17Stub{mode: c17StubEmitOnTrigger, menu: c17Menu()}
	handler := c17Middleware(mw, l)(stub)
	probe, ref := c17Probe(mw, l, kind, size, 0), c17Probe(mw, l, kind, size, 0)
	v, rel := c17Judge(mw, l, probe)
	items := []*c17Item{
		c17Bystander(name, CloseMsg("z"), CloseMsg("z")),
		{Msg: probe, Ref: ref, Verdict: v, Who: name, Rel: rel},
	}
	if kind2 >= 0 {
		probe2, ref2 := c17Probe(mw, l, kind2, size2, 1), c17Probe(mw, l, kind2, size2, 1)
		v2, rel2 := c17Judge(mw, l, probe2)
		items = append(items, &c17Item{Msg: probe2, Ref: ref2, Verdict: v2, Who: name, Rel: rel2})
	}
	items = append(items, c17Bystander(name, ReqMsg(c17Trigger), ReqMsg(c17Trigger)))
	c := c17Session(h, handler, items)
	out := c17Oracle(h, name, c, stub, c17Menu(), items)
	if out != nil {
		o := C17KindNames[kind] + " " + out[1]
		if kind2 >= 0 {
			o += ", " + C17KindNames[kind2] + " " + out[2]
		}
		h.Observe(o)
	}
	// the execution ends here; parked tasks are discarded by the scheduler
}

// ---- stacks

// c17StackLimit: limit used by a middleware in LimitStack (1, or a 10 s window for created_at so
// that "now" is inside the claimed zone).
func c17StackLimit(mw int) int {
	switch mw {
	case C17CreatedAtLower, C17CreatedAtUpper, C17EventCreatedAt:
		return C17StackWindow
	}
	return 1
}

// c17StackMsg builds the offender (off=true) or the boundary-conforming message of middleware mw
// at its stack limit; tag makes ids unique within the script.
func c17StackMsg(mw int, off bool, tag byte) mocrelay.ClientMsg {
	sub := string(tag)
	w := int64(C17StackWindow)
	switch mw {
	case C17MaxReqFilters:
		if off {
			return c17Sub(C17Req, sub, c17Filters(2, nil))
		}
		return c17Sub(C17Count, sub, c17Filters(1, nil))
	case C17MaxLimit:
		if off {
			return c17Sub(C17Count, sub, c17Filters(1, func(int) *int64 { return I64(2) }))
		}
		return c17Sub(C17Req, sub, c17Filters(1, func(int) *int64 { return I64(1) }))
	case C17MaxSubIDLength:
		if off {
			return c17Sub(C17Req, sub+sub, c17Filters(1, nil))
		}
		return c17Sub(C17Req, sub, c17Filters(1, nil))
	case C17MaxEventTags:
		if off {
			return EventMsg(c17Event(tag, 1, 0, 2, 0))
		}
		return EventMsg(c17Event(tag, 1, 0, 1, 0))
	case C17MaxContentLength:
		if off {
			return EventMsg(c17Event(tag, 1, 0, 0, 2))
		}
		return EventMsg(c17Event(tag, 1, 0, 0, 1))
	case C17CreatedAtLower:
		if off {
			return EventMsg(c17Event(tag, 1, -2*w, 0, 0))
		}
		return EventMsg(c17Event(tag, 1, -w+C17Margin, 0, 0))
	case C17CreatedAtUpper:
		if off {
			return EventMsg(c17Event(tag, 1, 2*w, 0, 0))
		}
		return EventMsg(c17Event(tag, 1, w-C17Margin, 0, 0))
	case C17EventCreatedAt:
		if off {
			return EventMsg(c17Event(tag, 1, -2*w, 0, 0))
		}
		return EventMsg(c17Event(tag, 1, w-C17Margin, 0, 0))
	case C17AllowFilter:
		if off {
			return EventMsg(c17Event(tag, 7, 0, 0, 0))
		}
		return EventMsg(c17Event(tag, 1, 0, 0, 0))
	case C17DenyFilter:
		if off {
			return EventMsg(c17Event(tag, 7, 0, 0, 0))
		}
		return EventMsg(c17Event(tag, 1, 0, 0, 0))
	}
	panic("c17: unknown middleware")
}

func c17ReqClass(mw int) bool { return mw <= C17MaxSubIDLength }

// c17StackBoth: a message that offends both middlewares when they limit the same message class,
// an AUTH bystander otherwise.
func c17StackBoth(a, b int, tag byte) mocrelay.ClientMsg {
	switch {
	case c17ReqClass(a) && c17ReqClass(b):
		s := string(tag)
		return c17Sub(C17Req, s+s+s, c17Filters(2, func(int) *int64 { return I64(2) }))
	case !c17ReqClass(a) && !c17ReqClass(b):
		off := int64(-2 * C17StackWindow)
		if (a == C17CreatedAtUpper || b == C17CreatedAtUpper) && a != C17CreatedAtLower && b != C17CreatedAtLower && a != C17EventCreatedAt && b != C17EventCreatedAt {
			off = 2 * C17StackWindow
		}
		return EventMsg(c17Event(tag, 7, off, 2, 2))
	}
	return &mocrelay.ClientAuthMsg{Event: c17Event(tag, 22242, -1000, 3, 3)}
}

// c17JudgeAll: verdict under a set of (middleware, limit) pairs: offends if it offends any,
// else unclaimed if any leaves it open, else respects. who = first offended middleware.
func c17JudgeAll(scope string, mws, ls []int, names []string, m mocrelay.ClientMsg) (v int, who, rel string) {
	v, who, rel = c17Respects, scope, "respects every configured limit"
	for i := range mws {
		vi, ri := c17Judge(mws[i], ls[i], m)
		if vi == c17Offends {
			return c17Offends, scope + ": " + names[i], ri
		}
		if vi == c17Unclaimed {
			v, who, rel = c17Unclaimed, scope+": "+names[i], ri
		}
	}
	return
}

// LimitStack: outer(inner(stub)) for an ordered pair of different middlewares.
// params: outer, inner. Script of 7: [off(outer), CLOSE z, conf(outer), off(inner), conf(inner), both|AUTH, REQ e].
func LimitStack(h *vsched.H) {
	a, b := h.Param("outer", 0), h.Param("inner", 1)
	scope := "stack"
	stub := &c17Stub{mode: c17StubEmitOnTrigger, menu: c17Menu()}
	handler := c17Middleware(a, c17StackLimit(a))(c17Middleware(b, c17StackLimit(b))(stub))
	build := func() []mocrelay.ClientMsg {
		return []mocrelay.ClientMsg{
			c17StackMsg(a, true, '1'),
			CloseMsg("z"),
			c17StackMsg(a, false, '2'),
			c17StackMsg(b, true, '3'),
			c17StackMsg(b, false, '4'),
			c17StackBoth(a, b, '5'),
			ReqMsg(c17Trigger),
		}
	}
	msgs, refs := build(), build()
	mws, ls, names := []int{a, b}, []int{c17StackLimit(a), c17StackLimit(b)}, []string{C17MWNames[a], C17MWNames[b]}
	var items []*c17Item
	for i, m := range msgs {
		v, who, rel := c17JudgeAll(scope, mws, ls, names, m)
		items = append(items, &c17Item{Msg: m, Ref: refs[i], Verdict: v, Who: who, Rel: rel})
	}
	c := c17Session(h, handler, items)
	out := c17Oracle(h, scope, c, stub, c17Menu(), items)
	if out != nil {
		h.Observe(strings.Join(out, ","))
	}
}

// ---- NIP-11

// C17NIP11Fields: bit i of the mask sets field i.
var C17NIP11Fields = []string{"max_subscriptions", "max_filters", "max_limit", "max_event_tags", "max_content_length", "created_at_lower_limit", "created_at_upper_limit"}

const (
	C17DocMask         = iota // &NIP11{Limitation: &NIP11Limitation{...mask...}}
	C17DocNil                 // nil document
	C17DocNoLimitation        // &NIP11{Name: "x"}: no limitation block
)

const (
	c17NIP11Value = 2
	c17NIP11Lower = 100 // created_at_lower_limit and ..upper_limit differ, so that a chain mixing them up is seen
	c17NIP11Upper = 400
)

func c17NIP11Script(variant int) []mocrelay.ClientMsg {
	l3 := func(int) *int64 { return I64(3) }
	l2 := func(int) *int64 { return I64(2) }
	if variant == 1 {
		// refusals first: a REQ that another limit refuses must not count against the subscription
		// quota (the quota is over subscriptions that were opened), whatever the order of the chain
		return []mocrelay.ClientMsg{
			c17Sub(C17Req, "f3", c17Filters(3, nil)),   // 3 filters while no subscription is open
			c17Sub(C17Req, "l3", c17Filters(1, l3)),    // limit 3 while no subscription is open
			c17Sub(C17Count, "c1", c17Filters(1, nil)), // COUNT takes no slot
			c17Sub(C17Req, "s1", c17Filters(1, nil)),
			c17Sub(C17Req, "s2", c17Filters(2, l2)),  // second open subscription, both limits at their maximum
			c17Sub(C17Req, "s3", c17Filters(1, nil)), // third
			CloseMsg("f3"),                           // CLOSE of an id that was never opened frees nothing
			c17Sub(C17Req, "s4", c17Filters(1, nil)),
			CloseMsg("s2"),
			c17Sub(C17Req, "g3", c17Filters(3, nil)), // another refused one, with a free slot …
			c17Sub(C17Req, "s5", c17Filters(1, nil)), // … which this one takes
			EventMsg(c17Event('5', 1, 0, 2, 2)),
		}
	}
	return []mocrelay.ClientMsg{
		c17Sub(C17Req, "s1", c17Filters(1, nil)),
		c17Sub(C17Req, "s2", c17Filters(1, l2)),    // limit == max_limit
		c17Sub(C17Req, "s3", c17Filters(1, nil)),   // third open subscription
		c17Sub(C17Req, "f3", c17Filters(3, nil)),   // 3 filters
		c17Sub(C17Req, "l3", c17Filters(1, l3)),    // limit 3
		CloseMsg("s1"),                             // frees one
		c17Sub(C17Req, "s4", c17Filters(2, nil)),   // filters == max_filters
		c17Sub(C17Count, "c1", c17Filters(3, nil)), // COUNT with 3 filters (COUNT takes no subscription slot)
		EventMsg(c17Event('1', 1, 0, 3, 0)),        // 3 tags
		EventMsg(c17Event('2', 1, 0, 0, 3)),        // content length 3
		EventMsg(c17Event('3', 1, -1000, 0, 0)),    // 1000 s too old
		EventMsg(c17Event('4', 1, 1000, 0, 0)),     // 1000 s in the future
		EventMsg(c17Event('6', 1, -250, 0, 0)),     // older than the lower limit, inside the upper limit's span
		EventMsg(c17Event('7', 1, 250, 0, 0)),      // future: inside the upper limit, beyond the lower limit's span
		EventMsg(c17Event('8', 1, -100, 0, 0)),     // exactly at the lower limit
		EventMsg(c17Event('9', 1, 400, 0, 0)),      // exactly at the upper limit
		EventMsg(c17Event('5', 1, 0, 2, 2)),        // tags == max, content == max, now
		c17Sub(C17Req, "s2", c17Filters(1, nil)),   // re-REQ of an open id
	}
}

// NIP11Chain: the chain built from a NIP-11 document around the replying stub.
// params: doc (0 mask, 1 nil, 2 no limitation block), mask, script (0 main, 1 refusals first).
func NIP11Chain(h *vsched.H) {
	docKind, mask := h.Param("doc", 0), h.Param("mask", 0)
	scope := "NIP-11"
	var doc *mocrelay.NIP11
	set := func(i int) bool { return docKind == C17DocMask && mask&(1<<i) != 0 }
	switch docKind {
	case C17DocMask:
		lim := &mocrelay.NIP11Limitation{}
		if set(0) {
			lim.MaxSubscriptions = c17NIP11Value
		}
		if set(1) {
			lim.MaxFilters = c17NIP11Value
		}
		if set(2) {
			lim.MaxLimit = c17NIP11Value
		}
		if set(3) {
			lim.MaxEventTags = c17NIP11Value
		}
		if set(4) {
			lim.MaxContentLength = c17NIP11Value
		}
		if set(5) {
			lim.CreatedAtLowerLimit = c17NIP11Lower
		}
		if set(6) {
			lim.CreatedAtUpperLimit = c17NIP11Upper
		}
		doc = &mocrelay.NIP11{Name: "x", Limitation: lim}
	case C17DocNoLimitation:
		doc = &mocrelay.NIP11{Name: "x"}
	}
	stub := &c17Stub{mode: c17StubReply}
	var handler mocrelay.Handler
	panicked := func() (p any) {
		defer func() { p = recover() }()
		handler = mocrelay.BuildMiddlewareFromNIP11(doc)(stub)
		return nil
	}()
	if panicked != nil {
		if docKind == C17DocNoLimitation {
			h.Failf("C17/NIP-11: building the middleware from a document without a limitation block panics", "BuildMiddlewareFromNIP11(&NIP11{Name:\"x\"})(handler): %v", panicked)
		} else {
			h.Failf("C17/NIP-11: building the middleware from the document panics", "doc=%d mask=%d: %v", docKind, mask, panicked)
		}
		return
	}
	// the stateless limits that are set, as (middleware, limit) pairs
	var mws, ls []int
	var names []string
	add := func(bit, mw, l int) {
		if set(bit) {
			mws, ls, names = append(mws, mw), append(ls, l), append(names, C17NIP11Fields[bit])
		}
	}
	add(1, C17MaxReqFilters, c17NIP11Value)
	add(2, C17MaxLimit, c17NIP11Value)
	add(3, C17MaxEventTags, c17NIP11Value)
	add(4, C17MaxContentLength, c17NIP11Value)
	add(5, C17CreatedAtLower, c17NIP11Lower)
	add(6, C17CreatedAtUpper, c17NIP11Upper)
	variant := h.Param("script", 0)
	msgs, refs := c17NIP11Script(variant), c17NIP11Script(variant)
	open := map[string]bool{}
	var items []*c17Item
	for i, m := range msgs {
		it := &c17Item{Msg: m, Ref: refs[i], Who: scope}
		v, who, rel := c17JudgeAll(scope, mws, ls, names, m)
		it.Verdict, it.Rel = v, rel
		if v == c17Offends {
			it.Who = who
			it.NIP11 = strings.TrimPrefix(who, scope+": ")
		} else if set(0) {
			// quota: a REQ is forwarded iff its id is already open or fewer than N are open; CLOSE frees
			switch m := m.(type) {
			case *mocrelay.ClientReqMsg:
				if open[m.SubscriptionID] || len(open) < c17NIP11Value {
					open[m.SubscriptionID] = true
					it.Rel = "within the subscription quota"
				} else {
					it.Verdict, it.Who, it.NIP11, it.Rel = c17Offends, scope+": max_subscriptions", "max_subscriptions", "subscription quota exhausted"
				}
			case *mocrelay.ClientCloseMsg:
				delete(open, m.SubscriptionID)
			}
		}
		items = append(items, it)
	}
	c := c17Session(h, handler, items)
	out := c17Oracle(h, scope, c, stub, nil, items)
	if out == nil {
		return
	}
	if docKind != C17DocMask || mask == 0 {
		// identity: exactly the bare stub's replies
		for i, o := range out {
			if o != "forwarded" {
				h.Failf("C17/NIP-11: the chain of a document without limits is not the identity", "message #%d %s: %s", i, CMsgString(items[i].Msg), o)
			}
		}
	}
	var sb strings.Builder
	for _, o := range out {
		sb.WriteByte(o[0]) // f / r
	}
	h.Observe(sb.String())
}
