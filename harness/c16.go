package harness

import (
	"context"
	"database/sql"
	"fmt"
	"strings"

	"github.com/high-moctane/mocrelay"
	mocsqlite "github.com/high-moctane/mocrelay/handler/sqlite"
	"verifkit/refmodel"
	"verifkit/vsched"
)

// Client message alphabet of C16.
const C16Msgs = 15

var C16MsgNames = []string{"EVENT r", "EVENT r(again)", "EVENT v@2", "EVENT v@1(older)", "EVENT del->r", "EVENT ephemeral", "REQ all", "REQ kinds:[0]", "REQ limit:1", "COUNT", "CLOSE", "AUTH", "REQ ids:[abc] (not hex of even length: the SQLite query fails)", "REQ [{limit:0},{kinds:[1]}]", "EVENT del2->del (a deletion request for the deletion request)"}

type c16Alphabet struct {
	r, v2, v1, del, eph, auth, del2 *mocrelay.Event
}

func newC16Alphabet() *c16Alphabet {
	a := &c16Alphabet{
		r:    Ev('c', '1', 1, 20),
		v2:   Ev('b', '1', 0, 20),
		v1:   Ev('a', '1', 0, 10),
		eph:  Ev('e', '2', 20001, 30),
		auth: Ev('f', '1', 22242, 40),
	}
	a.del = Ev('d', '1', 5, 30, mocrelay.Tag{"e", a.r.ID})
	a.del2 = Ev('9', '1', 5, 35, mocrelay.Tag{"e", a.del.ID})
	return a
}

func (a *c16Alphabet) msg(code int, n int) mocrelay.ClientMsg {
	sub := fmt.Sprintf("s%d", n)
	switch code {
	case 0, 1:
		return EventMsg(a.r)
	case 2:
		return EventMsg(a.v2)
	case 3:
		return EventMsg(a.v1)
	case 4:
		return EventMsg(a.del)
	case 5:
		return EventMsg(a.eph)
	case 6:
		return ReqMsg(sub)
	case 7:
		return ReqMsg(sub, &mocrelay.ReqFilter{Kinds: []int64{0}})
	case 8:
		return ReqMsg(sub, &mocrelay.ReqFilter{Limit: I64(1)})
	case 9:
		return CountMsg(sub)
	case 10:
		return CloseMsg(sub)
	case 12:
		return ReqMsg(sub, &mocrelay.ReqFilter{IDs: []string{"abc"}})
	case 13:
		return ReqMsg(sub, &mocrelay.ReqFilter{Limit: I64(0)}, &mocrelay.ReqFilter{Kinds: []int64{1}})
	case 14:
		return EventMsg(a.del2)
	}
	m, _ := mocrelay.NewClientAuthMsg(a.auth)
	return m
}

// StorageSeq sends one client message sequence to a storage-backed handler and compares the reply
// stream with the replies computed request by request. params: store (0 cache, 1 sqlite),
// L (length), code (sequence, base 12), step (1: wait for quiescence after every message).
func StorageSeq(h *vsched.H) {
	store, L, code, step := h.Param("store", 0), h.Param("L", 2), h.Param("code", 0), h.Param("step", 0)
	al := newC16Alphabet()
	var msgs []mocrelay.ClientMsg
	var codes []int
	for i := 0; i < L; i++ {
		codes = append(codes, code%C16Msgs)
		msgs = append(msgs, al.msg(code%C16Msgs, i))
		code /= C16Msgs
	}
	var handler mocrelay.Handler
	const capacity = 3
	if store == 0 {
		handler = mocrelay.NewCacheHandler(capacity)
	} else {
		db, err := sql.Open("sqlite3", ":memory:")
		if err != nil {
			panic(err)
		}
		db.SetMaxOpenConns(1)
		dbCtx, dbStop := context.WithCancel(context.Background())
		h.Cleanup(func() { db.Close() }) // also when the execution is aborted
		defer dbStop()
		sh, err := mocsqlite.NewSQLiteHandler(dbCtx, db, &mocsqlite.SQLiteHandlerOption{EventBulkInsertNum: 1, EventBulkInsertDur: 0, MaxLimit: mocsqlite.NoLimit})
		if err != nil {
			panic(err)
		}
		handler = sh
	}
	c := NewConn(h, "c", context.Background(), handler)
	go c.ReadAll()
	if step == 1 {
		for _, m := range msgs {
			c.WriteOne(m)
			h.WaitQuiescent()
		}
	} else {
		go c.Write(msgs...)
		h.WaitQuiescent()
	}
	var names []string
	for _, cd := range codes {
		names = append(names, C16MsgNames[cd])
	}
	detail := fmt.Sprintf("store %d, sequence [%s]; got [%s]", store, strings.Join(names, ", "), c.GotString())
	// ---- expected replies, request by request
	shadow := mocrelay.NewEventCache(capacity) // cache: the store's own sequential behaviour (decided against the spec by C03-C05)
	var inserted []*mocrelay.Event             // sqlite: events submitted so far
	pos := 0
	next := func() mocrelay.ServerMsg {
		if pos < len(c.Got) {
			pos++
			return c.Got[pos-1].Msg
		}
		return nil
	}
	for i, m := range msgs {
		switch m := m.(type) {
		case *mocrelay.ClientEventMsg:
			ok, is := next().(*mocrelay.ServerOKMsg)
			if !is || ok.EventID != m.Event.ID {
				h.Fail("C16/EVENT not answered by exactly one OK with its id at its place in the reply order", detail)
				return
			}
			if store == 0 {
				stored := false
				for _, e := range shadow.Find([]*mocrelay.ReqFilter{{}}) {
					if e.ID == m.Event.ID {
						stored = true
					}
				}
				added := shadow.Add(m.Event)
				if ok.Accepted != added {
					h.Fail(fmt.Sprintf("C16/cache: OK accepted=%v but the event was newly stored=%v", ok.Accepted, added), detail)
				}
				if !added && stored && ok.MsgPrefix != mocrelay.MachineReadablePrefixDuplicate && !strings.HasPrefix(ok.Message(), mocrelay.MachineReadablePrefixDuplicate) {
					h.Fail("C16/cache: rejection of an already stored event lacks the duplicate: prefix", detail)
				}
			} else {
				if !ok.Accepted {
					h.Fail("C16/sqlite: EVENT not answered by an accepting OK", detail)
				}
				inserted = append(inserted, m.Event)
			}
		case *mocrelay.ClientReqMsg:
			var got []*mocrelay.Event
			for {
				nm := next()
				if ev, is := nm.(*mocrelay.ServerEventMsg); is {
					if ev.SubscriptionID != m.SubscriptionID {
						h.Fail("C16/stored event labelled with a different subscription id", detail)
					}
					got = append(got, ev.Event)
					continue
				}
				if eo, is := nm.(*mocrelay.ServerEOSEMsg); !is || eo.SubscriptionID != m.SubscriptionID {
					h.Fail("C16/REQ not answered by its matches followed by exactly one EOSE with its id at its place in the reply order", detail)
					return
				}
				break
			}
			if store == 0 {
				want := shadow.Find(m.ReqFilters)
				if len(want) != len(got) {
					h.Fail("C16/cache: REQ returned a different number of events than the store holds for it", detail)
				} else {
					for k := range want {
						if want[k] != got[k] {
							h.Fail("C16/cache: REQ returned different events (or a different order) than the store holds for it", detail)
						}
					}
				}
			} else {
				// every returned event matches the filters and was submitted before; in step mode (the
				// asynchronous insertion is complete at every quiescence) the answer is exactly the
				// live stored matches, newest first
				for _, e := range got {
					found := false
					for _, in := range inserted {
						if in.ID == e.ID {
							found = true
						}
					}
					if !found || !refmodel.MatchFilters(m.ReqFilters, e) {
						h.Fail("C16/sqlite: REQ returned an event that was not submitted before or does not match", detail)
					}
				}
				if step == 1 {
					want := sqliteExpected(inserted, m.ReqFilters)
					gs := idsOf(got)
					if !want[gs] {
						h.Failf("C16/sqlite: REQ at quiescence does not return the stored live matches", "%s; got %s want one of %v", detail, gs, keysOf(want))
					}
				}
			}
		case *mocrelay.ClientCountMsg:
			cm, is := next().(*mocrelay.ServerCountMsg)
			if !is || cm.SubscriptionID != m.SubscriptionID {
				h.Fail("C16/COUNT not answered by exactly one COUNT reply at its place in the reply order", detail)
				return
			}
		case *mocrelay.ClientCloseMsg, *mocrelay.ClientAuthMsg:
			// nothing
		}
		_ = i
	}
	if pos != len(c.Got) {
		h.Fail("C16/unsolicited reply (CLOSE and AUTH produce nothing; every request exactly one reply group)", detail)
	}
	h.Observe(c.GotString())
}

func idsOf(evs []*mocrelay.Event) string {
	var ss []string
	for _, e := range evs {
		ss = append(ss, short(e.ID))
	}
	return strings.Join(ss, " ")
}

func keysOf(m map[string]bool) []string {
	var out []string
	for k := range m {
		out = append(out, k)
	}
	return out
}

// sqliteExpected: the legal answers (as id strings) of the SQLite store for one filter list after
// `inserted` (alphabet-specific: one replaceable address, one deletion request for r; ties at
// equal created_at may come in either order).
func sqliteExpected(inserted []*mocrelay.Event, fs []*mocrelay.ReqFilter) map[string]bool {
	var stored []*mocrelay.Event
	has := func(id string) bool {
		for _, e := range stored {
			if e.ID == id {
				return true
			}
		}
		return false
	}
	var newestRepl *mocrelay.Event
	for _, e := range inserted {
		switch {
		case e.Kind >= 20000 && e.Kind < 30000:
		case e.Kind == 0:
			if newestRepl == nil || e.CreatedAt > newestRepl.CreatedAt {
				newestRepl = e
			}
		default:
			if !has(e.ID) {
				stored = append(stored, e)
			}
		}
	}
	if newestRepl != nil {
		stored = append(stored, newestRepl)
	}
	deleted := map[string]bool{}
	for _, e := range inserted {
		if e.Kind == 5 {
			for _, t := range e.Tags {
				if len(t) >= 2 && t[0] == "e" {
					for _, s := range stored {
						if s.ID == t[1] && s.Pubkey == e.Pubkey {
							deleted[s.ID] = true
						}
					}
				}
			}
		}
	}
	// a filter with limit 0 contributes nothing to the answer (the alphabet has no other limit in a
	// multi-filter request)
	var eff []*mocrelay.ReqFilter
	for _, f := range fs {
		if f.Limit == nil || *f.Limit != 0 || len(fs) == 1 {
			eff = append(eff, f)
		}
	}
	var live []*mocrelay.Event
	for _, e := range stored {
		if !deleted[e.ID] && refmodel.MatchFilters(eff, e) {
			live = append(live, e)
		}
	}
	// all orders that are non-increasing in created_at, cut at the (single-filter) limit
	out := map[string]bool{}
	var perm func(rest []*mocrelay.Event, acc []*mocrelay.Event)
	perm = func(rest, acc []*mocrelay.Event) {
		if len(rest) == 0 {
			for i := 1; i < len(acc); i++ {
				if acc[i].CreatedAt > acc[i-1].CreatedAt {
					return
				}
			}
			cut := acc
			if len(fs) == 1 && fs[0].Limit != nil && int(*fs[0].Limit) < len(cut) {
				cut = cut[:*fs[0].Limit]
			}
			out[idsOf(cut)] = true
			return
		}
		for i := range rest {
			r2 := append(append([]*mocrelay.Event{}, rest[:i]...), rest[i+1:]...)
			perm(r2, append(acc, rest[i]))
		}
	}
	perm(live, nil)
	return out
}
