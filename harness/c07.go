package harness

import (
	"context"
	"fmt"
	"strings"

	"github.com/high-moctane/mocrelay"
	"verifkit/refmodel"
	"verifkit/vsched"
)

// Router scenarios (C07). Writers never wait for replies unless stated.
//
//	0 R1a  S:[REQ s {kinds:[1]}]                 P:[EVENT e1(k1), EVENT e2(k7)]
//	1 R1b  S:[REQ s {}]                          P:[EVENT e1, EVENT e2]            (order)
//	2 R2a  S:[REQ s {kinds:[1]}, REQ s {kinds:[7]}]  P:[EVENT e1(k1), EVENT e2(k7)]  (replacement)
//	3 R2b  S:[REQ s {}, CLOSE s, COUNT c]        P:[EVENT e1, EVENT e2]
//	4 R3   S1:[REQ s {kinds:[1]}] S2:[REQ s {kinds:[7]}]  P:[EVENT e1(k1), EVENT e2(k7)]
//	5 R4   S:[REQ s {}]   P1:[EVENT a1, EVENT a2]  P2:[EVENT b1, EVENT b2]
//	6 R5a  S:[REQ s {}] + environment cancels S   P:[EVENT e1, EVENT e2]
//	7 R5b  S:[REQ s {}] + environment closes S's inbound channel  P:[EVENT e1, EVENT e2]
//	8 R6   S:[REQ s {}], S's reader stops after k reads; P:[EVENT x buflen+2]; then S drains
//	9 R7   S:[REQ s {}, EVENT x]  P:[EVENT e1]   (a connection receives its own event)
//	10 R8  S:[REQ s {}, CLOSE z, COUNT c]        P:[EVENT e1]   (CLOSE of an id that is not open)
//	11 R9  S:[REQ a {kinds:[1]}, REQ b {kinds:[7]}, CLOSE a, CLOSE a, COUNT c]  P:[EVENT e1(k1), EVENT e2(k7)]
//	12 R10 S:[REQ s {}], S's reader stops after k reads; P1:[EVENT a], P2:[EVENT b] concurrently; then S drains
const C07Scenarios = 18

type pubEvent struct {
	ev       *mocrelay.Event
	by       *Conn
	idx      int // index in the publisher's script
	call, ok int64
}

type subInst struct {
	sub                   string
	filters               []*mocrelay.ReqFilter
	call, eose            int64
	endCall, endConfirmed int64
}

const inf = int64(1) << 62

// RouterScenario explores one router with 2-3 connections. params: sc, buflen, k (R6 reads),
// think (1: a scheduling point before every message a writer script sends).
func RouterScenario(h *vsched.H) {
	sc := h.Param("sc", 0)
	buflen := h.Param("buflen", 1)
	k := h.Param("k", 1)
	router := mocrelay.NewRouterHandler(buflen)
	bg := context.Background()
	k1 := []*mocrelay.ReqFilter{{Kinds: []int64{1}}}
	k7 := []*mocrelay.ReqFilter{{Kinds: []int64{7}}}
	all := []*mocrelay.ReqFilter{{}}
	e1, e2 := Ev('a', '1', 1, 10), Ev('b', '1', 7, 20)
	var conns []*Conn
	think := h.Param("think", 0) == 1
	newConn := func(name string) *Conn {
		c := NewConn(h, name, bg, router)
		c.Think = think
		conns = append(conns, c)
		return c
	}
	var subscribers, publishers []*Conn
	stalled := false
	var phases []func() // later phases: each runs after the one before is quiescent (a client that sends when everything before has been answered)
	switch sc {
	case 0, 1, 2, 3, 6, 7, 8, 9, 10, 11, 13, 14, 16, 17:
		S, P := newConn("S"), newConn("P")
		subscribers, publishers = []*Conn{S}, []*Conn{P}
		switch sc {
		case 0:
			go S.Write(ReqMsg("s", k1...))
			go P.Write(EventMsg(e1), EventMsg(e2))
		case 1:
			go S.Write(ReqMsg("s", all...))
			go P.Write(EventMsg(e1), EventMsg(e2))
		case 2:
			go S.Write(ReqMsg("s", k1...), ReqMsg("s", k7...))
			go P.Write(EventMsg(e1), EventMsg(e2))
		case 3:
			go S.Write(ReqMsg("s", all...), CloseMsg("s"), CountMsg("c"))
			go P.Write(EventMsg(e1), EventMsg(e2))
		case 6:
			go S.Write(ReqMsg("s", all...))
			go P.Write(EventMsg(e1), EventMsg(e2))
			h.SpawnFree(func() { S.CancelAt = h.Stamp(); S.Cancel() })
		case 7:
			S.WriterDone = make(chan struct{})
			go func() { S.Write(ReqMsg("s", all...)); close(S.WriterDone) }()
			go P.Write(EventMsg(e1), EventMsg(e2))
			h.SpawnFree(func() {
				select { // only the writer may close its channel: wait until the script is out
				case <-S.WriterDone:
				case <-S.stop:
					return
				}
				S.CancelAt = h.Stamp()
				close(S.Recv)
			})
		case 8:
			go S.Write(ReqMsg("s", all...))
			var msgs []mocrelay.ClientMsg
			for i := 0; i < buflen+2; i++ {
				msgs = append(msgs, EventMsg(Ev(byte('a'+i), '1', 1, int64(10+i))))
			}
			go P.Write(msgs...)
			stalled = true
		case 10:
			go S.Write(ReqMsg("s", all...), CloseMsg("z"), CountMsg("c"))
			go P.Write(EventMsg(e1))
		case 11:
			go S.Write(ReqMsg("a", k1...), ReqMsg("b", k7...), CloseMsg("a"), CloseMsg("a"), CountMsg("c"))
			go P.Write(EventMsg(e1), EventMsg(e2))
		case 13:
			// a registry entry that is empty for a while (REQ, CLOSE, REQ) while an event is published;
			// the event published afterwards must reach the re-opened subscription
			go S.Write(ReqMsg("s1", all...), CloseMsg("s1"), ReqMsg("s2", all...))
			go P.Write(EventMsg(e1))
			phases = append(phases, func() { go P.Write(EventMsg(e2)) })
		case 14:
			// the very first REQ of a connection racing with a publication; then a later publication
			go S.Write(ReqMsg("s", all...))
			go P.Write(EventMsg(e1))
			phases = append(phases, func() { go P.Write(EventMsg(e2)) })
		case 17:
			// one REQ with several filters of which more than one matches an event: still one delivery
			go S.Write(ReqMsg("s", &mocrelay.ReqFilter{Kinds: []int64{1}}, &mocrelay.ReqFilter{Authors: []string{Hex('1', 64)}}, &mocrelay.ReqFilter{Kinds: []int64{7}}))
			go P.Write(EventMsg(e1), EventMsg(e2))
		case 16:
			// the PUBLISHER goes away (cancel at every cut point): an event it was told OK for has been
			// published and must reach the open subscription of the other connection
			go S.Write(ReqMsg("s", all...))
			go P.Write(EventMsg(e1), EventMsg(e2))
			h.SpawnFree(func() { P.CancelAt = h.Stamp(); P.Cancel() })
		case 9:
			x := Ev('c', '2', 1, 30)
			go S.Write(ReqMsg("s", all...), EventMsg(x))
			go P.Write(EventMsg(e1))
			publishers = append(publishers, S)
		}
	case 4:
		S1, S2, P := newConn("S1"), newConn("S2"), newConn("P")
		subscribers, publishers = []*Conn{S1, S2}, []*Conn{P}
		go S1.Write(ReqMsg("s", k1...))
		go S2.Write(ReqMsg("s", k7...))
		go P.Write(EventMsg(e1), EventMsg(e2))
	case 15:
		// one stalled and one healthy subscriber with the same filter; the publisher sends one event per
		// phase (the healthy subscriber has drained everything before the next one is sent): the stalled
		// one may lose what exceeds its buffer, the healthy one must get every event
		S1, S2, P := newConn("S1"), newConn("S2"), newConn("P")
		subscribers, publishers = []*Conn{S1, S2}, []*Conn{P}
		go S1.Write(ReqMsg("s", all...))
		go S2.Write(ReqMsg("s", all...))
		for i := 0; i < buflen+3; i++ {
			ev := Ev(byte('a'+i), '1', 1, int64(10+i))
			phases = append(phases, func() { go P.Write(EventMsg(ev)) })
		}
		stalled = true
	case 12:
		S, P1, P2 := newConn("S"), newConn("P1"), newConn("P2")
		subscribers, publishers = []*Conn{S}, []*Conn{P1, P2}
		go S.Write(ReqMsg("s", all...))
		go P1.Write(EventMsg(Ev('a', '1', 1, 10)), EventMsg(Ev('b', '1', 1, 11)))
		go P2.Write(EventMsg(Ev('c', '2', 1, 12)))
		stalled = true
	case 5:
		S, P1, P2 := newConn("S"), newConn("P1"), newConn("P2")
		subscribers, publishers = []*Conn{S}, []*Conn{P1, P2}
		go S.Write(ReqMsg("s", all...))
		go P1.Write(EventMsg(Ev('a', '1', 1, 10)), EventMsg(Ev('b', '1', 1, 11)))
		go P2.Write(EventMsg(Ev('c', '2', 1, 12)), EventMsg(Ev('d', '2', 1, 13)))
	}
	for _, c := range conns {
		if stalled && c == subscribers[0] {
			go c.ReadN(k)
		} else {
			go c.ReadAll()
		}
	}
	h.WaitQuiescent()
	for _, ph := range phases {
		ph()
		h.WaitQuiescent()
	}
	if stalled {
		// the subscriber has not been reading: every publisher must nevertheless be done
		for _, p := range publishers {
			oks := 0
			for _, g := range p.Got {
				if _, ok := g.Msg.(*mocrelay.ServerOKMsg); ok {
					oks++
				}
			}
			for _, s := range p.Sent {
				if s.Ret == 0 {
					h.Failf("C07/back-pressure: a publisher is blocked by a subscriber that stopped reading", "%s", routerCtx(conns))
				}
			}
			if oks < len(p.Sent) {
				h.Failf("C07/back-pressure: a publisher's OK is held back by a subscriber that stopped reading", "%s", routerCtx(conns))
			}
		}
		go subscribers[0].ReadAll() // phase 2: the subscriber drains
		h.WaitQuiescent()
	}
	routerOracle(h, conns, publishers, buflen)
	var obs []string
	for _, c := range conns {
		obs = append(obs, c.Name+":"+c.GotString())
	}
	h.Observe(strings.Join(obs, " | "))
}

func routerCtx(conns []*Conn) string {
	var sb strings.Builder
	for _, c := range conns {
		var ss, gs []string
		for _, s := range c.Sent {
			ss = append(ss, fmt.Sprintf("%s@%d-%d", CMsgString(s.Msg), s.Call, s.Ret))
		}
		for _, g := range c.Got {
			gs = append(gs, fmt.Sprintf("%s@%d", SMsgString(g.Msg), g.At))
		}
		fmt.Fprintf(&sb, "%s sent [%s] got [%s] cancelAt=%d doneAt=%d; ", c.Name, strings.Join(ss, " "), strings.Join(gs, " "), c.CancelAt, c.DoneAt)
	}
	return sb.String()
}

// instances reconstructs the subscription instances of a connection with their real-time bounds.
func instances(c *Conn) []*subInst {
	var out []*subInst
	eoseSeen := map[string]int{}
	// the k-th EOSE(sub) answers the k-th REQ(sub) (a connection's requests are served in order)
	eoseTime := func(sub string, k int) int64 {
		n := 0
		for _, g := range c.Got {
			if m, ok := g.Msg.(*mocrelay.ServerEOSEMsg); ok && m.SubscriptionID == sub {
				if n == k {
					return g.At
				}
				n++
			}
		}
		return inf
	}
	// time at which the client got a reply to the message with index i (inf if none / no reply kind)
	replyTime := func(i int) int64 {
		switch m := c.Sent[i].Msg.(type) {
		case *mocrelay.ClientReqMsg:
			k := 0
			for _, s := range c.Sent[:i] {
				if r, ok := s.Msg.(*mocrelay.ClientReqMsg); ok && r.SubscriptionID == m.SubscriptionID {
					k++
				}
			}
			return eoseTime(m.SubscriptionID, k)
		case *mocrelay.ClientCountMsg:
			for _, g := range c.Got {
				if r, ok := g.Msg.(*mocrelay.ServerCountMsg); ok && r.SubscriptionID == m.SubscriptionID {
					return g.At
				}
			}
		case *mocrelay.ClientEventMsg:
			for _, g := range c.Got {
				if r, ok := g.Msg.(*mocrelay.ServerOKMsg); ok && r.EventID == m.Event.ID {
					return g.At
				}
			}
		}
		return inf
	}
	for i, s := range c.Sent {
		r, ok := s.Msg.(*mocrelay.ClientReqMsg)
		if !ok {
			continue
		}
		in := &subInst{sub: r.SubscriptionID, filters: r.ReqFilters, call: s.Call, eose: eoseTime(r.SubscriptionID, eoseSeen[r.SubscriptionID]), endCall: inf, endConfirmed: inf}
		eoseSeen[r.SubscriptionID]++
		for j := i + 1; j < len(c.Sent); j++ {
			ended := false
			switch m := c.Sent[j].Msg.(type) {
			case *mocrelay.ClientReqMsg:
				ended = m.SubscriptionID == in.sub
			case *mocrelay.ClientCloseMsg:
				ended = m.SubscriptionID == in.sub
			}
			if ended {
				in.endCall = c.Sent[j].Call
				// confirmed once a reply to that message or to any later one has arrived
				for l := j; l < len(c.Sent); l++ {
					if t := replyTime(l); t < in.endConfirmed {
						in.endConfirmed = t
					}
				}
				break
			}
		}
		if c.CancelAt != 0 && c.CancelAt < in.endCall {
			in.endCall = c.CancelAt
		}
		if c.ServeDone && c.DoneAt < in.endConfirmed {
			in.endConfirmed = c.DoneAt
		}
		out = append(out, in)
	}
	return out
}

func routerOracle(h *vsched.H, conns []*Conn, publishers []*Conn, buflen int) {
	ctx := func() string { return routerCtx(conns) }
	var pubs []*pubEvent
	for _, p := range publishers {
		idx := 0
		for _, s := range p.Sent {
			m, ok := s.Msg.(*mocrelay.ClientEventMsg)
			if !ok {
				continue
			}
			pe := &pubEvent{ev: m.Event, by: p, idx: idx, call: s.Call, ok: inf}
			idx++
			okCount := 0
			for _, g := range p.Got {
				if r, ok := g.Msg.(*mocrelay.ServerOKMsg); ok && r.EventID == m.Event.ID {
					okCount++
					pe.ok = g.At
					if !r.Accepted {
						h.Failf("C07/EVENT answered by a rejecting OK", "%s", ctx())
					}
				}
			}
			ended := p.CancelAt != 0
			if s.Ret != 0 && !ended && okCount != 1 {
				h.Failf(fmt.Sprintf("C07/EVENT answered by %d OK messages", okCount), "%s", ctx())
			}
			if okCount > 1 {
				h.Failf("C07/EVENT answered by more than one OK", "%s", ctx())
			}
			pubs = append(pubs, pe)
		}
	}
	for _, c := range conns {
		insts := instances(c)
		used := map[string]bool{}
		for _, in := range insts {
			used[in.sub] = true
		}
		ended := c.CancelAt != 0
		// every REQ is answered by EOSE
		reqs, eoses := map[string]int{}, map[string]int{}
		for _, s := range c.Sent {
			if r, ok := s.Msg.(*mocrelay.ClientReqMsg); ok && s.Ret != 0 {
				reqs[r.SubscriptionID]++
			}
		}
		for _, g := range c.Got {
			switch m := g.Msg.(type) {
			case *mocrelay.ServerEOSEMsg:
				eoses[m.SubscriptionID]++
			case *mocrelay.ServerEventMsg:
				if !used[m.SubscriptionID] {
					h.Failf("C07/event labelled with a subscription id the connection never used", "%s", ctx())
				}
			}
		}
		for sub, n := range reqs {
			if eoses[sub] > n || (!ended && eoses[sub] != n) {
				h.Failf(fmt.Sprintf("C07/%d REQ(s) answered by %d EOSE", n, eoses[sub]), "%s", ctx())
			}
		}
		// deliveries
		recvTime := func(sub string, ev *mocrelay.Event) (times []int64) {
			for _, g := range c.Got {
				if m, ok := g.Msg.(*mocrelay.ServerEventMsg); ok && m.SubscriptionID == sub && m.Event == ev {
					times = append(times, g.At)
				}
			}
			return
		}
		for sub := range used {
			var lastIdx = map[*Conn]int{}
			_ = lastIdx
			for _, pe := range pubs {
				times := recvTime(sub, pe.ev)
				if len(times) > 1 {
					h.Failf("C07/event delivered twice to one subscription", "%s", ctx())
				}
				must, may := false, false
				for _, in := range insts {
					if in.sub != sub || !refmodel.MatchFilters(in.filters, pe.ev) {
						continue
					}
					if in.eose < pe.call && in.endCall > pe.ok && pe.ok != inf && c.CancelAt == 0 {
						must = true // (a connection the environment ends may lose deliveries still in its queue)
					}
					if in.call < pe.ok && !(in.endConfirmed < pe.call) {
						may = true
					}
				}
				if c.ServeDone && c.DoneAt < pe.call {
					may = false
				}
				if len(times) == 1 && !may {
					h.Failf("C07/event delivered to a subscription that does not match it, was closed or replaced before, was not yet requested, or belongs to a finished connection", "event %s to %s/%s; %s", short(pe.ev.ID), c.Name, sub, ctx())
				}
				if len(times) == 0 && must {
					// legitimately dropped only if the connection's buffer could have been full: at least
					// buflen other deliveries to this connection were published before and still unread
					inflight := 0
					for _, q := range pubs {
						if q == pe || q.call >= pe.ok {
							continue
						}
						// q may have been queued for this connection before pe and not yet read
						qMay := false
						for _, in := range insts {
							if refmodel.MatchFilters(in.filters, q.ev) && in.call < q.ok && !(in.endConfirmed < q.call) {
								qMay = true
							}
						}
						if !qMay {
							continue
						}
						readBefore := false
						for _, g := range c.Got {
							if m, ok := g.Msg.(*mocrelay.ServerEventMsg); ok && m.Event == q.ev && g.At <= pe.call {
								readBefore = true
							}
						}
						if !readBefore {
							inflight++
						}
					}
					if inflight < buflen {
						h.Failf("C07/event not delivered to an open matching subscription although its connection's buffer was not full", "event %s to %s/%s (in flight %d, buflen %d); %s", short(pe.ev.ID), c.Name, sub, inflight, buflen, ctx())
					}
				}
			}
			// per-publisher order
			for _, p := range publishers {
				last := int64(-1)
				lastIdx := -1
				for _, pe := range pubs {
					if pe.by != p {
						continue
					}
					ts := recvTime(sub, pe.ev)
					if len(ts) == 0 {
						continue
					}
					if pe.idx > lastIdx && ts[0] < last {
						h.Failf("C07/events of one publisher reached a subscription out of publication order", "%s", ctx())
					}
					last, lastIdx = ts[0], pe.idx
				}
			}
		}
	}
}
