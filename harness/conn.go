// Package harness holds the closed-system drivers explored by engine E1. The files are plain
// Go: they are instrumented together with the code under test (every go statement, channel
// operation and select below becomes a scheduling point), and compiled un-instrumented against
// a passthrough scheduler for the free-running race pass.
package harness

import (
	"context"
	"fmt"
	"net/http"
	"net/url"
	"strings"

	"github.com/high-moctane/mocrelay"
	"verifkit/vsched"
)

// Sent is one client message with the logical times at which the send was called and returned.
type Sent struct {
	Msg       mocrelay.ClientMsg
	Call, Ret int64 // Ret == 0: never accepted by the handler
}

// Got is one server message with the logical time at which the client received it.
type Got struct {
	Msg mocrelay.ServerMsg
	At  int64
}

// Conn is one client connection to a handler: a session task running ServeNostr, a writer
// script and a reader.
type Conn struct {
	H      *vsched.H
	Name   string
	Ctx    context.Context
	Cancel context.CancelFunc
	Recv   chan mocrelay.ClientMsg
	Send   chan mocrelay.ServerMsg
	stop   chan struct{}

	// Think: a scheduling point before every message the writer script sends, so that the moment a
	// client decides to send (the Call stamp) is explored independently of when the previous message
	// was taken
	Think bool

	Sent       []*Sent
	Got        []*Got
	ServeErr   error
	ServeDone  bool
	DoneAt     int64
	Session    *vsched.Task
	ReaderOff  bool
	CancelAt   int64         // logical time at which the environment ended the session (0 = never)
	WriterDone chan struct{} // optional: closed by the writer when its script is out
}

// upgradeRequest is the HTTP request every harness session carries in its context, as a session
// served by Relay does. All sessions get an equal one (same peer address, same proxy headers, same
// request id): nothing about the request tells two sessions apart, only the session itself does.
func upgradeRequest() *http.Request {
	return &http.Request{
		Method:     "GET",
		URL:        &url.URL{Path: "/"},
		Proto:      "HTTP/1.1",
		ProtoMajor: 1, ProtoMinor: 1,
		Host:       "relay.example",
		RemoteAddr: "192.0.2.7:50000",
		Header: http.Header{
			"Connection":        {"Upgrade"},
			"Upgrade":           {"websocket"},
			"Origin":            {"https://client.example"},
			"User-Agent":        {"verif"},
			"X-Request-Id":      {"req-1"},
			"X-Forwarded-For":   {"198.51.100.9"},
			"X-Real-Ip":         {"198.51.100.9"},
			"Sec-Websocket-Key": {"dGhlIHNhbXBsZSBub25jZQ=="},
		},
	}
}

func NewConn(h *vsched.H, name string, parent context.Context, handler mocrelay.Handler) *Conn {
	c := &Conn{H: h, Name: name, Recv: make(chan mocrelay.ClientMsg), Send: make(chan mocrelay.ServerMsg), stop: make(chan struct{})}
	c.Ctx, c.Cancel = context.WithCancel(mocrelay.VerifCtxWithRequest(parent, upgradeRequest()))
	c.Session = h.Spawn(func() {
		c.ServeErr = handler.ServeNostr(c.Ctx, c.Send, c.Recv)
		c.ServeDone = true
		c.DoneAt = h.Stamp()
	})
	return c
}

// Write sends the script, one message after the other, stamping call and return.
func (c *Conn) Write(msgs ...mocrelay.ClientMsg) {
	for _, m := range msgs {
		if c.Think {
			vsched.Yield()
		}
		s := &Sent{Msg: m, Call: c.H.Stamp()}
		c.Sent = append(c.Sent, s)
		select {
		case c.Recv <- m:
			s.Ret = c.H.Stamp()
		case <-c.stop:
			return
		}
	}
}

// WriteOne sends one message and reports whether the handler took it.
func (c *Conn) WriteOne(m mocrelay.ClientMsg) bool {
	s := &Sent{Msg: m, Call: c.H.Stamp()}
	c.Sent = append(c.Sent, s)
	select {
	case c.Recv <- m:
		s.Ret = c.H.Stamp()
		return true
	case <-c.stop:
		return false
	}
}

// ReadAll drains the connection until Stop.
func (c *Conn) ReadAll() {
	for {
		select {
		case m := <-c.Send:
			c.Got = append(c.Got, &Got{Msg: m, At: c.H.Stamp()})
		case <-c.stop:
			return
		}
	}
}

// ReadN reads n messages and then stops reading (a stalled peer).
func (c *Conn) ReadN(n int) {
	for i := 0; i < n; i++ {
		select {
		case m := <-c.Send:
			c.Got = append(c.Got, &Got{Msg: m, At: c.H.Stamp()})
		case <-c.stop:
			return
		}
	}
	c.ReaderOff = true
}

// WaitFor blocks until the reader has seen a message satisfying pred (polling through the
// scheduler is not needed: the caller is woken by quiescence), used by scripts that must wait
// for a reply before continuing. It is a pure function of the reader log.
func (c *Conn) Has(pred func(mocrelay.ServerMsg) bool) bool {
	for _, g := range c.Got {
		if pred(g.Msg) {
			return true
		}
	}
	return false
}

// Stop releases writer and reader tasks of the harness.
func (c *Conn) Stop() { close(c.stop) }

func SMsgString(m mocrelay.ServerMsg) string {
	switch m := m.(type) {
	case *mocrelay.ServerEOSEMsg:
		return "EOSE(" + m.SubscriptionID + ")"
	case *mocrelay.ServerEventMsg:
		id := "nil"
		if m.Event != nil {
			id = short(m.Event.ID)
		}
		return "EVENT(" + m.SubscriptionID + "," + id + ")"
	case *mocrelay.ServerOKMsg:
		return fmt.Sprintf("OK(%s,%v,%q)", short(m.EventID), m.Accepted, m.Message())
	case *mocrelay.ServerCountMsg:
		return fmt.Sprintf("COUNT(%s,%d)", m.SubscriptionID, m.Count)
	case *mocrelay.ServerClosedMsg:
		return fmt.Sprintf("CLOSED(%s,%q)", m.SubscriptionID, m.Message())
	case *mocrelay.ServerNoticeMsg:
		return fmt.Sprintf("NOTICE(%q)", m.Message)
	case *mocrelay.ServerAuthMsg:
		return "AUTH(" + m.Challenge + ")"
	case nil:
		return "nil"
	}
	return fmt.Sprintf("%T", m)
}

func CMsgString(m mocrelay.ClientMsg) string {
	switch m := m.(type) {
	case *mocrelay.ClientEventMsg:
		return "EVENT(" + short(m.Event.ID) + ")"
	case *mocrelay.ClientReqMsg:
		return "REQ(" + m.SubscriptionID + ")"
	case *mocrelay.ClientCloseMsg:
		return "CLOSE(" + m.SubscriptionID + ")"
	case *mocrelay.ClientCountMsg:
		return "COUNT(" + m.SubscriptionID + ")"
	case *mocrelay.ClientAuthMsg:
		return "AUTH"
	}
	return fmt.Sprintf("%T", m)
}

func short(s string) string {
	if len(s) > 4 {
		return s[:4]
	}
	return s
}

func (c *Conn) GotString() string {
	var ss []string
	for _, g := range c.Got {
		ss = append(ss, SMsgString(g.Msg))
	}
	return strings.Join(ss, " ")
}

func (c *Conn) SentString() string {
	var ss []string
	for _, s := range c.Sent {
		ss = append(ss, CMsgString(s.Msg))
	}
	return strings.Join(ss, " ")
}

// ---- small constructors for protocol values

func Hex(c byte, n int) string { return strings.Repeat(string(c), n) }

func Ev(id byte, pubkey byte, kind, createdAt int64, tags ...mocrelay.Tag) *mocrelay.Event {
	if tags == nil {
		tags = []mocrelay.Tag{}
	}
	return &mocrelay.Event{ID: Hex(id, 64), Pubkey: Hex(pubkey, 64), Kind: kind, CreatedAt: createdAt, Tags: tags, Content: "", Sig: Hex('0', 128)}
}

func EventMsg(ev *mocrelay.Event) *mocrelay.ClientEventMsg {
	return &mocrelay.ClientEventMsg{Event: ev}
}

func ReqMsg(sub string, fs ...*mocrelay.ReqFilter) *mocrelay.ClientReqMsg {
	if len(fs) == 0 {
		fs = []*mocrelay.ReqFilter{{}}
	}
	return &mocrelay.ClientReqMsg{SubscriptionID: sub, ReqFilters: fs}
}

func CountMsg(sub string, fs ...*mocrelay.ReqFilter) *mocrelay.ClientCountMsg {
	if len(fs) == 0 {
		fs = []*mocrelay.ReqFilter{{}}
	}
	return &mocrelay.ClientCountMsg{SubscriptionID: sub, ReqFilters: fs}
}

func CloseMsg(sub string) *mocrelay.ClientCloseMsg {
	return &mocrelay.ClientCloseMsg{SubscriptionID: sub}
}

func I64(v int64) *int64 { return &v }
