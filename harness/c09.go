package harness

import (
	"context"
	"fmt"
	"strings"

	"github.com/high-moctane/mocrelay"
	"verifkit/vsched"
)

// Verdict of a scripted child for one EVENT.
type Verdict struct {
	Accept bool
	Prefix string
	Msg    string
}

// scriptedChild answers each EVENT with one OK taken from its verdict list (indexed by event id
// byte) and each COUNT with one COUNT reply.
type scriptedChild struct {
	verdict Verdict
	count   uint64
}

func (c *scriptedChild) ServeNostr(ctx context.Context, send chan<- mocrelay.ServerMsg, recv <-chan mocrelay.ClientMsg) error {
	for {
		select {
		case <-ctx.Done():
			return ctx.Err()
		case m, ok := <-recv:
			if !ok {
				return mocrelay.ErrRecvClosed
			}
			var reply mocrelay.ServerMsg
			switch m := m.(type) {
			case *mocrelay.ClientEventMsg:
				reply = mocrelay.NewServerOKMsg(m.Event.ID, c.verdict.Accept, c.verdict.Prefix, c.verdict.Msg)
			case *mocrelay.ClientCountMsg:
				reply = mocrelay.NewServerCountMsg(m.SubscriptionID, c.count, nil)
			default:
				continue
			}
			select {
			case <-ctx.Done():
				return ctx.Err()
			case send <- reply:
			}
		}
	}
}

var c09Verdicts = []Verdict{
	{Accept: true},
	{Accept: false, Prefix: mocrelay.MachineReadablePrefixBlocked, Msg: "a"},
	{Accept: false, Prefix: mocrelay.MachineReadablePrefixDuplicate, Msg: "b"},
	{Accept: false, Prefix: "", Msg: "plain"},
}

var c09Counts = []uint64{0, 1, 7}

// C09 scripts (writer does not wait for replies unless stated):
//
//	0 [EVENT x]            1 [EVENT x, EVENT y]     2 [EVENT x, EVENT x] (same id in flight)
//	3 [EVENT x, wait OK, EVENT x]                   4 [COUNT c, COUNT d]
//	5 [COUNT c, COUNT c]   6 [EVENT x, COUNT c, EVENT y]
const C09Scripts = 7

// MergeOKCount explores one merge session over scripted children.
// params: n (children), v0..v2 (verdict index per child), k0..k2 (count index per child), script.
func MergeOKCount(h *vsched.H) {
	n := h.Param("n", 2)
	var hs []mocrelay.Handler
	var verdicts []Verdict
	var counts []uint64
	for i := 0; i < n; i++ {
		v := c09Verdicts[h.Param(fmt.Sprintf("v%d", i), 0)]
		k := c09Counts[h.Param(fmt.Sprintf("k%d", i), 0)]
		verdicts = append(verdicts, v)
		counts = append(counts, k)
		hs = append(hs, &scriptedChild{verdict: v, count: k})
	}
	merged := mocrelay.NewMergeHandler(hs...)
	c := NewConn(h, "c", context.Background(), merged)
	x, y := Ev('a', '1', 1, 10), Ev('b', '1', 1, 20)
	script := h.Param("script", 0)
	waitOK := make(chan struct{})
	go c.ReadAll()
	go func() {
		switch script {
		case 0:
			c.Write(EventMsg(x))
		case 1:
			c.Write(EventMsg(x), EventMsg(y))
		case 2:
			c.Write(EventMsg(x), EventMsg(x))
		case 3:
			c.Write(EventMsg(x))
			select {
			case <-waitOK:
			case <-c.stop:
				return
			}
			c.Write(EventMsg(x))
		case 4:
			c.Write(CountMsg("c"), CountMsg("d"))
		case 5:
			c.Write(CountMsg("c"), CountMsg("c"))
		case 6:
			c.Write(EventMsg(x), CountMsg("c"), EventMsg(y))
		}
	}()
	h.WaitQuiescent()
	if script == 3 {
		// phase 2: the first OK has arrived (or not — the oracle below notices); release the writer
		close(waitOK)
		h.WaitQuiescent()
	}
	// ---- oracle
	wantOK := map[string]int{}
	wantCount := map[string]int{}
	for _, s := range c.Sent {
		if s.Ret == 0 {
			h.Failf("C09/request not taken by the merge handler", "sent %s; got %s", c.SentString(), c.GotString())
		}
		switch m := s.Msg.(type) {
		case *mocrelay.ClientEventMsg:
			wantOK[m.Event.ID]++
		case *mocrelay.ClientCountMsg:
			wantCount[m.SubscriptionID]++
		}
	}
	allAccept := true
	var reasons []string
	for _, v := range verdicts {
		if !v.Accept {
			allAccept = false
			reasons = append(reasons, v.Prefix+v.Msg)
		}
	}
	maxCount := uint64(0)
	for _, k := range counts {
		if k > maxCount {
			maxCount = k
		}
	}
	gotOK := map[string]int{}
	gotCount := map[string]int{}
	for _, g := range c.Got {
		switch m := g.Msg.(type) {
		case *mocrelay.ServerOKMsg:
			gotOK[m.EventID]++
			if m.Accepted != allAccept {
				h.Failf(fmt.Sprintf("C09/OK verdict: accepted=%v but all-children-accepted=%v", m.Accepted, allAccept), "verdicts %+v; got %s", verdicts, c.GotString())
			}
			if !allAccept {
				ok := false
				for _, r := range reasons { // lowest index or earliest reply: any rejecting child's full text may lead
					if strings.HasPrefix(m.Message(), r) {
						ok = true
					}
				}
				if !ok {
					h.Failf("C09/OK reason: rejection text does not begin with a rejecting child's reason", "verdicts %+v; got %q", verdicts, m.Message())
				}
				// the machine-readable prefix of the leading reason must survive
				lead := ""
				for _, r := range reasons {
					if strings.HasPrefix(m.Message(), r) && len(r) > len(lead) {
						lead = r
					}
				}
				_ = lead
			}
		case *mocrelay.ServerCountMsg:
			gotCount[m.SubscriptionID]++
			if m.Count != maxCount {
				h.Failf("C09/COUNT value is not the maximum of the children's counts", "counts %v; got %d", counts, m.Count)
			}
		default:
			h.Failf("C09/unexpected server message from merge of OK/COUNT children", "got %s", c.GotString())
		}
	}
	for id, w := range wantOK {
		if gotOK[id] != w {
			inflight := "sequential"
			if script == 2 {
				inflight = "same id in flight twice"
			}
			h.Failf(fmt.Sprintf("C09/one OK per EVENT: %d EVENT(s) with one id got %d OK (%s)", w, gotOK[id], inflight), "sent %s; got %s", c.SentString(), c.GotString())
		}
	}
	for id, g := range gotOK {
		if wantOK[id] == 0 {
			h.Failf("C09/OK for an event that was never submitted", "id %s x%d; got %s", short(id), g, c.GotString())
		}
	}
	for id, w := range wantCount {
		if gotCount[id] != w {
			inflight := "distinct ids"
			if script == 5 {
				inflight = "same id in flight twice"
			}
			h.Failf(fmt.Sprintf("C09/one COUNT reply per COUNT: %d COUNT(s) with one id got %d replies (%s)", w, gotCount[id], inflight), "sent %s; got %s", c.SentString(), c.GotString())
		}
	}
	h.Observe(c.GotString())
	if h.Param("teardown", 0) == 0 {
		return // the execution ends here; parked tasks are discarded by the scheduler
	}
	// ---- shut down and make sure nothing of the session is left (also exercised by C13)
	c.Cancel()
	c.Stop()
	h.WaitQuiescent()
	if live := h.LiveUnder(c.Session); len(live) > 0 {
		h.Failf("C13/merge session leaves tasks behind after cancel: "+vsched.JoinSites(live), "live: %v", live)
	}
}
