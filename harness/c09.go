package harness

import (
	"context"
	"fmt"
	"strings"

	"github.com/high-moctane/mocrelay"
	"verifkit/vsched"
)

// Verdict of a scripted child for one EVENT.
type Verdict struct {
	Accept bool
	Prefix string
	Msg    string
}

// scriptedChild answers each EVENT with one OK taken from its verdict list (indexed by event id
// byte) and each COUNT with one COUNT reply.
type scriptedChild struct {
	h       *vsched.H
	mode    int // index into c09Verdicts, or C09RejectFirst / C09AcceptFirst
	seen    int // EVENTs answered so far
	verdict Verdict
	count   uint64
	Replied map[string][]int64 // event id -> logical times at which this child's replies were taken
	stamp   bool               // reply times matter only when several children reject (who was first?)
}

func (c *scriptedChild) ServeNostr(ctx context.Context, send chan<- mocrelay.ServerMsg, recv <-chan mocrelay.ClientMsg) error {
	for {
		select {
		case <-ctx.Done():
			return ctx.Err()
		case m, ok := <-recv:
			if !ok {
				return mocrelay.ErrRecvClosed
			}
			var reply mocrelay.ServerMsg
			switch m := m.(type) {
			case *mocrelay.ClientEventMsg:
				v := c09VerdictAt(c.mode, c.seen)
				c.seen++
				reply = mocrelay.NewServerOKMsg(m.Event.ID, v.Accept, v.Prefix, v.Msg)
			case *mocrelay.ClientCountMsg:
				reply = mocrelay.NewServerCountMsg(m.SubscriptionID, c.count, nil)
			default:
				continue
			}
			select {
			case <-ctx.Done():
				return ctx.Err()
			case send <- reply:
				if ok, is := reply.(*mocrelay.ServerOKMsg); is && c.stamp {
					c.Replied[ok.EventID] = append(c.Replied[ok.EventID], c.h.Stamp())
				}
			}
		}
	}
}

var c09Verdicts = []Verdict{
	{Accept: true},
	{Accept: false, Prefix: mocrelay.MachineReadablePrefixBlocked, Msg: "a"},
	{Accept: false, Prefix: mocrelay.MachineReadablePrefixDuplicate, Msg: "b"},
	{Accept: false, Prefix: "", Msg: "plain"},
}

// Verdicts that depend on the request: a child that rejects only its first EVENT (a rate limiter)
// and one that accepts only its first EVENT (a store answering "duplicate" afterwards).
const (
	C09RejectFirst = 4
	C09AcceptFirst = 5
	// an accepting OK that carries a text (NIP-01: OK true "duplicate: already have this event")
	C09AcceptText   = 6
	C09VerdictModes = 7
)

func c09VerdictAt(mode, k int) Verdict {
	switch mode {
	case C09RejectFirst:
		if k == 0 {
			return Verdict{Accept: false, Prefix: mocrelay.MachineReadablePrefixRateLimited, Msg: "r"}
		}
		return Verdict{Accept: true}
	case C09AcceptFirst:
		if k == 0 {
			return Verdict{Accept: true}
		}
		return Verdict{Accept: false, Prefix: mocrelay.MachineReadablePrefixDuplicate, Msg: "d"}
	case C09AcceptText:
		return Verdict{Accept: true, Prefix: mocrelay.MachineReadablePrefixDuplicate, Msg: "have"}
	}
	return c09Verdicts[mode]
}

var c09Counts = []uint64{0, 1, 7, 3}

// C09 scripts (writer does not wait for replies unless stated):
//
//	0 [EVENT x]            1 [EVENT x, EVENT y]     2 [EVENT x, EVENT x] (same id in flight)
//	3 [EVENT x, wait OK, EVENT x]                   4 [COUNT c, COUNT d]
//	5 [COUNT c, COUNT c]   6 [EVENT x, COUNT c, EVENT y]
//	7 [COUNT c, CLOSE c]   8 [COUNT c, CLOSE c, COUNT c]   9 [EVENT x, CLOSE c, REQ c, COUNT c]
//	(a CLOSE or REQ with the id of a COUNT in flight concerns subscriptions, not the COUNT)
const C09Scripts = 10

// MergeOKCount explores one merge session over scripted children.
// params: n (children), v0..v2 (verdict index per child), k0..k2 (count index per child), script.
func MergeOKCount(h *vsched.H) {
	n := h.Param("n", 2)
	var hs []mocrelay.Handler
	var kids []*scriptedChild
	var modes []int
	var verdicts []Verdict
	var counts []uint64
	for i := 0; i < n; i++ {
		mode := h.Param(fmt.Sprintf("v%d", i), 0)
		modes = append(modes, mode)
		v := c09VerdictAt(mode, 0)
		k := c09Counts[h.Param(fmt.Sprintf("k%d", i), 0)]
		verdicts = append(verdicts, v)
		counts = append(counts, k)
		kid := &scriptedChild{h: h, mode: mode, verdict: v, count: k, Replied: map[string][]int64{}}
		kids = append(kids, kid)
		hs = append(hs, kid)
	}
	canReject := 0
	for _, m := range modes {
		if m != 0 {
			canReject++
		}
	}
	for i, k := range kids {
		k.stamp = canReject >= 2 && modes[i] != 0
	}
	merged := mocrelay.NewMergeHandler(hs...)
	c := NewConn(h, "c", context.Background(), merged)
	x, y := Ev('a', '1', 1, 10), Ev('b', '1', 1, 20)
	script := h.Param("script", 0)
	waitOK := make(chan struct{})
	go c.ReadAll()
	go func() {
		switch script {
		case 0:
			c.Write(EventMsg(x))
		case 1:
			c.Write(EventMsg(x), EventMsg(y))
		case 2:
			c.Write(EventMsg(x), EventMsg(x))
		case 3:
			c.Write(EventMsg(x))
			select {
			case <-waitOK:
			case <-c.stop:
				return
			}
			c.Write(EventMsg(x))
		case 4:
			c.Write(CountMsg("c"), CountMsg("d"))
		case 5:
			c.Write(CountMsg("c"), CountMsg("c"))
		case 6:
			c.Write(EventMsg(x), CountMsg("c"), EventMsg(y))
		case 7:
			c.Write(CountMsg("c"), CloseMsg("c"))
		case 8:
			c.Write(CountMsg("c"), CloseMsg("c"), CountMsg("c"))
		case 9:
			c.Write(EventMsg(x), CloseMsg("c"), ReqMsg("c"), CountMsg("c"))
		}
	}()
	h.WaitQuiescent()
	if script == 3 {
		// phase 2: the first OK has arrived (or not — the oracle below notices); release the writer
		close(waitOK)
		h.WaitQuiescent()
	}
	// ---- oracle
	wantOK := map[string]int{}
	wantCount := map[string]int{}
	for _, s := range c.Sent {
		if s.Ret == 0 {
			h.Failf("C09/request not taken by the merge handler", "sent %s; got %s", c.SentString(), c.GotString())
		}
		switch m := s.Msg.(type) {
		case *mocrelay.ClientEventMsg:
			wantOK[m.Event.ID]++
		case *mocrelay.ClientCountMsg:
			wantCount[m.SubscriptionID]++
		}
	}
	maxCount := uint64(0)
	for _, k := range counts {
		if k > maxCount {
			maxCount = k
		}
	}
	gotOK := map[string]int{}
	gotCount := map[string]int{}
	for _, g := range c.Got {
		switch m := g.Msg.(type) {
		case *mocrelay.ServerOKMsg:
			gotOK[m.EventID]++
			// the n-th OK for an id answers the n-th EVENT with that id (requests are served in order)
			k := -1
			seenID := 0
			evIdx := 0
			for _, sm := range c.Sent {
				if em, is := sm.Msg.(*mocrelay.ClientEventMsg); is {
					if em.Event.ID == m.EventID {
						seenID++
						if seenID == gotOK[m.EventID] {
							k = evIdx
						}
					}
					evIdx++
				}
			}
			if k < 0 {
				continue // an OK too many: reported below
			}
			allAccept := true
			rejecting := 0
			var reasons []string
			var vk []Verdict
			for i := range kids {
				v := c09VerdictAt(modes[i], k)
				vk = append(vk, v)
				if !v.Accept {
					allAccept = false
					rejecting++
					reasons = append(reasons, v.Prefix+v.Msg)
				}
			}
			if m.Accepted != allAccept {
				h.Failf(fmt.Sprintf("C09/OK verdict: accepted=%v but all-children-accepted=%v", m.Accepted, allAccept), "request #%d, children's verdicts for it %+v; got %s", k, vk, c.GotString())
			}
			if !allAccept && !m.Accepted {
				ok := false
				for _, r := range reasons {
					if strings.HasPrefix(m.Message(), r) {
						ok = true
					}
				}
				if !ok {
					h.Failf("C09/OK reason: rejection text does not begin with a rejecting child's reason", "request #%d, verdicts %+v; got %q", k, vk, m.Message())
				}
				// "the first rejecting child": the statement does not say whether first by position or
				// first to reply, so both are accepted — but nothing else. Decidable when the id is in
				// flight once (each child has replied exactly once for it).
				if wantOK[m.EventID] == 1 && rejecting >= 2 {
					low, early := -1, -1
					var earlyAt int64
					for i, v := range vk {
						if v.Accept || len(kids[i].Replied[m.EventID]) != 1 {
							continue
						}
						if low < 0 {
							low = i
						}
						if at := kids[i].Replied[m.EventID][0]; early < 0 || at < earlyAt {
							early, earlyAt = i, at
						}
					}
					if low >= 0 {
						rl := vk[low].Prefix + vk[low].Msg
						re := vk[early].Prefix + vk[early].Msg
						if !strings.HasPrefix(m.Message(), rl) && !strings.HasPrefix(m.Message(), re) {
							h.Failf("C09/OK reason: rejection text begins neither with the reason of the first rejecting child by position nor of the first to reply", "verdicts %+v; first by position: child %d, first to reply: child %d; got %q", vk, low, early, m.Message())
						}
					}
				}
			}
		case *mocrelay.ServerCountMsg:
			gotCount[m.SubscriptionID]++
			if m.Count != maxCount {
				h.Failf("C09/COUNT value is not the maximum of the children's counts", "counts %v; got %d", counts, m.Count)
			}
		default:
			h.Failf("C09/unexpected server message from merge of OK/COUNT children", "got %s", c.GotString())
		}
	}
	for id, w := range wantOK {
		if gotOK[id] != w {
			inflight := "sequential"
			if script == 2 {
				inflight = "same id in flight twice"
			}
			h.Failf(fmt.Sprintf("C09/one OK per EVENT: %d EVENT(s) with one id got %d OK (%s)", w, gotOK[id], inflight), "sent %s; got %s", c.SentString(), c.GotString())
		}
	}
	for id, g := range gotOK {
		if wantOK[id] == 0 {
			h.Failf("C09/OK for an event that was never submitted", "id %s x%d; got %s", short(id), g, c.GotString())
		}
	}
	for id, w := range wantCount {
		if gotCount[id] != w {
			inflight := "distinct ids"
			if script == 5 {
				inflight = "same id in flight twice"
			}
			h.Failf(fmt.Sprintf("C09/one COUNT reply per COUNT: %d COUNT(s) with one id got %d replies (%s)", w, gotCount[id], inflight), "sent %s; got %s", c.SentString(), c.GotString())
		}
	}
	h.Observe(c.GotString())
	if h.Param("teardown", 0) == 0 {
		return // the execution ends here; parked tasks are discarded by the scheduler
	}
	// ---- shut down and make sure nothing of the session is left (also exercised by C13)
	c.Cancel()
	c.Stop()
	h.WaitQuiescent()
	if live := h.LiveUnder(c.Session); len(live) > 0 {
		h.Failf("C13/merge session leaves tasks behind after cancel: "+vsched.JoinSites(live), "live: %v", live)
	}
}

// MergeTwoSessions: two client sessions on ONE merge handler submit the same event id (and the
// same COUNT id) at the same time. Per-request state of the merge must be per session.
// params: v0, v1 (static verdict modes 0..3 of the two children), k0, k1 (count indices), script
// (0: both [EVENT x]; 1: both [COUNT c]; 2: A [EVENT x, COUNT c], B [COUNT c, EVENT x]).
func MergeTwoSessions(h *vsched.H) {
	var hs []mocrelay.Handler
	var verdicts []Verdict
	maxCount := uint64(0)
	for i := 0; i < 2; i++ {
		mode := h.Param(fmt.Sprintf("v%d", i), 0) % len(c09Verdicts)
		k := c09Counts[h.Param(fmt.Sprintf("k%d", i), 0)]
		if k > maxCount {
			maxCount = k
		}
		verdicts = append(verdicts, c09Verdicts[mode])
		hs = append(hs, &scriptedChild{h: h, mode: mode, verdict: c09Verdicts[mode], count: k, Replied: map[string][]int64{}})
	}
	merged := mocrelay.NewMergeHandler(hs...)
	A := NewConn(h, "A", context.Background(), merged)
	B := NewConn(h, "B", context.Background(), merged)
	x := Ev('a', '1', 1, 10)
	var sa, sb []mocrelay.ClientMsg
	switch h.Param("script", 0) {
	case 0:
		sa, sb = []mocrelay.ClientMsg{EventMsg(x)}, []mocrelay.ClientMsg{EventMsg(x)}
	case 1:
		sa, sb = []mocrelay.ClientMsg{CountMsg("c")}, []mocrelay.ClientMsg{CountMsg("c")}
	default:
		sa, sb = []mocrelay.ClientMsg{EventMsg(x), CountMsg("c")}, []mocrelay.ClientMsg{CountMsg("c"), EventMsg(x)}
	}
	go A.ReadAll()
	go B.ReadAll()
	go A.Write(sa...)
	go B.Write(sb...)
	h.WaitQuiescent()
	allAccept := verdicts[0].Accept && verdicts[1].Accept
	detail := fmt.Sprintf("children's verdicts %+v; A sent [%s] got [%s]; B sent [%s] got [%s]", verdicts, A.SentString(), A.GotString(), B.SentString(), B.GotString())
	for _, c := range []*Conn{A, B} {
		wantOK, wantCount, gotOK, gotCount := 0, 0, 0, 0
		for _, s := range c.Sent {
			switch s.Msg.(type) {
			case *mocrelay.ClientEventMsg:
				wantOK++
			case *mocrelay.ClientCountMsg:
				wantCount++
			}
		}
		for _, g := range c.Got {
			switch m := g.Msg.(type) {
			case *mocrelay.ServerOKMsg:
				gotOK++
				if m.EventID != x.ID {
					h.Fail("C09/two sessions: OK for an event id the session did not submit", detail)
				}
				if m.Accepted != allAccept {
					h.Fail(fmt.Sprintf("C09/two sessions: OK verdict accepted=%v but all-children-accepted=%v", m.Accepted, allAccept), detail)
				}
				if !m.Accepted {
					ok := false
					for _, v := range verdicts {
						if !v.Accept && strings.HasPrefix(m.Message(), v.Prefix+v.Msg) {
							ok = true
						}
					}
					if !ok {
						h.Fail("C09/two sessions: rejection text does not begin with a rejecting child's reason", detail)
					}
				}
			case *mocrelay.ServerCountMsg:
				gotCount++
				if m.Count != maxCount {
					h.Fail("C09/two sessions: COUNT is not the maximum of the children's counts", detail)
				}
			}
		}
		if gotOK != wantOK {
			h.Fail(fmt.Sprintf("C09/two sessions on one merge handler: a session that submitted %d EVENT(s) got %d OK", wantOK, gotOK), detail)
		}
		if gotCount != wantCount {
			h.Fail(fmt.Sprintf("C09/two sessions on one merge handler: a session that submitted %d COUNT(s) got %d COUNT replies", wantCount, gotCount), detail)
		}
	}
	h.Observe(A.GotString() + " | " + B.GotString())
}
