package harness

import (
	"bytes"
	"crypto/sha256"
	"encoding/hex"
	"fmt"
	"strings"

	"github.com/btcsuite/btcd/btcec/v2"
	"github.com/btcsuite/btcd/btcec/v2/schnorr"
	"github.com/high-moctane/mocrelay"
	"verifkit/refmodel"
	"verifkit/vsched"
)

// Items of the concurrent C01 harness: two authentic events of different lengths and keys, and a
// copy of the first with its content altered at equal length (id and sig kept).
type c01Item struct {
	Name      string
	Ev        *mocrelay.Event
	Authentic bool
	Ref       []byte
}

var C01ItemNames = []string{"A", "B", "A'(content altered)"}

var c01Items []c01Item // built once per process by the first execution's main task; read-only afterwards

func c01Build() []c01Item {
	if c01Items != nil {
		return c01Items
	}
	mk := func(seed byte, created int64, content string) *mocrelay.Event {
		var skb [32]byte
		for i := range skb {
			skb[i] = seed + byte(i) + 1
		}
		sk, pk := btcec.PrivKeyFromBytes(skb[:])
		ev := &mocrelay.Event{Pubkey: hex.EncodeToString(schnorr.SerializePubKey(pk)), CreatedAt: created, Kind: 1, Tags: []mocrelay.Tag{{"t", "demo"}}, Content: content}
		id := sha256.Sum256(refmodel.SerializeNIP01(ev.Pubkey, ev.CreatedAt, ev.Kind, [][]string{{"t", "demo"}}, ev.Content))
		sig, err := schnorr.Sign(sk, id[:])
		if err != nil {
			panic(err)
		}
		ev.ID, ev.Sig = hex.EncodeToString(id[:]), hex.EncodeToString(sig.Serialize())
		return ev
	}
	A := mk(1, 1700000000, "pay 100 sats to alice")
	B := mk(2, 1700000001, strings.Repeat("x", 300))
	At := *A
	At.Content = "pay 900 sats to alice"
	for i, e := range []*mocrelay.Event{A, B, &At} {
		c01Items = append(c01Items, c01Item{Name: C01ItemNames[i], Ev: e, Authentic: i < 2,
			Ref: refmodel.SerializeNIP01(e.Pubkey, e.CreatedAt, e.Kind, [][]string{{"t", "demo"}}, e.Content)})
	}
	return c01Items
}

// VerifyConcurrent: 2-3 tasks call Verify / Serialize on their own events at the same time (as the
// relay's read loops of different connections do). Scheduling points are the statements of
// Event.Serialize / Event.Verify (statement-point build). Oracle: every verdict is the verdict of
// that event alone; every returned serialization equals the NIP-01 reference when all tasks are done.
// params: s0,s1,s2: scripts (DecodeScript) of ops; op = 2*item + (0 Serialize | 1 Verify).
func VerifyConcurrent(h *vsched.H) {
	items := c01Build()
	var scripts [][]int
	for i := 0; i < 3; i++ {
		if s := DecodeScript(h.Param(fmt.Sprintf("s%d", i), 0)); len(s) > 0 {
			scripts = append(scripts, s)
		}
	}
	type res struct {
		op      int
		verdict bool
		err     error
		out     []byte
	}
	results := make([][]res, len(scripts))
	for ti, s := range scripts {
		ti, s := ti, s
		h.Spawn(func() {
			for _, op := range s {
				it := items[op/2]
				r := res{op: op}
				if op%2 == 0 {
					r.out, r.err = it.Ev.Serialize()
				} else {
					r.verdict, r.err = it.Ev.Verify()
				}
				results[ti] = append(results[ti], r)
			}
		})
	}
	h.WaitQuiescent()
	var ss []string
	for ti := range results {
		for _, r := range results[ti] {
			it := items[r.op/2]
			if r.op%2 == 0 {
				ss = append(ss, fmt.Sprintf("t%d:Serialize(%s) ok=%v", ti, it.Name, bytes.Equal(r.out, it.Ref)))
			} else {
				ss = append(ss, fmt.Sprintf("t%d:Verify(%s)=(%v,%v)", ti, it.Name, r.verdict, r.err))
			}
		}
	}
	detail := strings.Join(ss, " ")
	for ti := range results {
		if len(results[ti]) != len(scripts[ti]) {
			h.Fail("C01/concurrent: a Verify or Serialize call never returned", detail)
			return
		}
		for _, r := range results[ti] {
			it := items[r.op/2]
			if r.op%2 == 0 {
				if r.err != nil || !bytes.Equal(r.out, it.Ref) {
					h.Fail("C01/concurrent: the serialization returned to one caller is not the canonical form of its event once other callers ran", detail)
				}
			} else if (r.verdict && r.err == nil) != it.Authentic {
				h.Fail(fmt.Sprintf("C01/concurrent: verdict of an event (authentic=%v) depends on calls made concurrently for other events", it.Authentic), detail)
			}
		}
	}
	h.Observe(detail)
}
