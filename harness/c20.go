package harness

import (
	"encoding/json"
	"fmt"
	"net/http"
	"net/http/httptest"
	"reflect"
	"strings"

	"github.com/high-moctane/mocrelay"
	"verifkit/vsched"
)

// NIP11Concurrent: 2-3 tasks ask for relay information documents at the same time - two different
// documents (two relays in one process) and the same one twice. Scheduling points are the
// statements of NIP11.ServeHTTP (statement-point build). Oracle: every response is the complete
// answer for ITS document (status 200, the two headers, JSON equal to the configuration).
// params: n (tasks), same (1: all tasks ask the same document).
func NIP11Concurrent(h *vsched.H) {
	n := h.Param("n", 2)
	docs := []*mocrelay.NIP11{
		{Name: "relay-A", Description: strings.Repeat("A", 40), SupportedNIPs: []int{1, 11}},
		{Name: "relay-B with a longer name", Description: "B", Contact: "b@example.invalid", Software: "x", SupportedNIPs: []int{1, 9, 11, 45},
			Limitation: &mocrelay.NIP11Limitation{MaxSubscriptions: 20, MaxFilters: 10}},
		{Name: "C"},
	}
	recs := make([]*httptest.ResponseRecorder, n)
	which := make([]int, n)
	for i := 0; i < n; i++ {
		i := i
		which[i] = i % len(docs)
		if h.Param("same", 0) == 1 {
			which[i] = 0
		}
		recs[i] = httptest.NewRecorder()
		h.Spawn(func() {
			req := httptest.NewRequest(http.MethodGet, "/", nil)
			req.Header.Set("Accept", "application/nostr+json")
			docs[which[i]].ServeHTTP(recs[i], req)
		})
	}
	h.WaitQuiescent()
	var obs []string
	for i, rec := range recs {
		body := rec.Body.Bytes()
		detail := fmt.Sprintf("task %d asked for document %q; status %d, body %q", i, docs[which[i]].Name, rec.Code, string(body))
		var got mocrelay.NIP11
		switch {
		case rec.Code != http.StatusOK:
			h.Fail("C20/concurrent: NIP-11 request not answered with 200 while other requests are served", detail)
		case !json.Valid(body):
			h.Fail("C20/concurrent: NIP-11 body is not valid JSON while other requests are served", detail)
		case json.Unmarshal(body, &got) != nil || !reflect.DeepEqual(&got, docs[which[i]]):
			h.Fail("C20/concurrent: NIP-11 body is not the configured document of the relay that was asked", detail)
		case rec.Header().Get("Content-Type") != "application/nostr+json" || rec.Header().Get("Access-Control-Allow-Origin") != "*":
			h.Fail("C20/concurrent: NIP-11 headers missing while other requests are served", detail)
		}
		obs = append(obs, fmt.Sprint(rec.Code, len(body)))
	}
	h.Observe(strings.Join(obs, ","))
}
