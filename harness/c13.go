package harness

import (
	"context"
	"database/sql"
	"fmt"
	"io"
	"log/slog"
	"strings"
	"time"

	"github.com/high-moctane/mocrelay"
	mocsqlite "github.com/high-moctane/mocrelay/handler/sqlite"
	mocprom "github.com/high-moctane/mocrelay/middleware/prometheus"
	_ "github.com/mattn/go-sqlite3"
	"github.com/prometheus/client_golang/prometheus"
	dto "github.com/prometheus/client_model/go"
	"verifkit/vsched"
)

// Bases of C13 (provided handlers only).
var C13BaseNames = []string{"Default", "Cache", "Router", "Merge(Cache,Router)", "Merge(Router,Default,Cache)", "Merge(Merge(Cache,Router),Router)", "SQLite", "Merge(Cache,Router,SQLite)", "SQLite whose bulk-insert goroutine has stopped (store context cancelled, 2-slot queue fills up)", "Merge(Default,Router,Default): every REQ is answered by two CLOSED"}

// C13BaseStoppedStore is the index of the SQLite base whose bulk-insert goroutine has stopped.
const C13BaseStoppedStore = 8

// Wrappers of C13: 0 none, 1 MaxSubscriptions, 2 Recv∘Send unique filters, 3 NIP-11 chain with all limits,
// 4 Prometheus, 5 Prometheus∘MaxSubscriptions∘Logging, 6.. every provided middleware singly.
var C13WrapNames = []string{"none", "MaxSubscriptions(2)", "RecvUnique(2)+SendUnique(2)", "NIP11(all limits)", "Prometheus", "Prometheus+MaxSubscriptions+Logging",
	"EventCreatedAt", "MaxReqFilters", "MaxLimit", "MaxSubIDLength", "MaxEventTags", "MaxContentLength", "CreatedAtLowerLimit", "CreatedAtUpperLimit",
	"RecvEventUniqueFilter", "SendEventUniqueFilter", "RecvEventAllowFilter", "RecvEventDenyFilter", "Logging",
	// wrappers that REFUSE part of the history (the reply comes from the middleware itself)
	"MaxContentLength(1): refuses the EVENT", "MaxSubIDLength(1): refuses REQ, COUNT (and CLOSE)", "RecvEventDenyFilter(kind 1): refuses the EVENT", "MaxSubIDLength(1)+MaxContentLength(1): refuses everything"}

// C13FirstRefusingWrap is the index of the first refusing wrapper.
const C13FirstRefusingWrap = 19

type c13Env struct {
	routers []*mocrelay.RouterHandler
	reg     *prometheus.Registry
	db      *sql.DB
	dbCtx   context.Context
	dbStop  context.CancelFunc
}

func (env *c13Env) newRouter() *mocrelay.RouterHandler {
	r := mocrelay.NewRouterHandler(2)
	env.routers = append(env.routers, r)
	return r
}

func (env *c13Env) newSQLite(h *vsched.H) mocrelay.Handler { return env.newSQLiteOpt(h, false) }

// newSQLiteOpt: stopped = the store's own context is cancelled right away (the relay is shutting its
// store down while sessions are still being served): nobody takes events out of the queue any more.
func (env *c13Env) newSQLiteOpt(h *vsched.H, stopped bool) mocrelay.Handler {
	db, err := sql.Open("sqlite3", ":memory:")
	if err != nil {
		panic(err)
	}
	db.SetMaxOpenConns(1)
	env.db = db
	h.Cleanup(func() { db.Close() }) // also when the execution is aborted: an open :memory: database is never collected
	env.dbCtx, env.dbStop = context.WithCancel(context.Background())
	// the bulk-insert goroutine belongs to the constructor, not to a session
	sh, err := mocsqlite.NewSQLiteHandler(env.dbCtx, db, &mocsqlite.SQLiteHandlerOption{EventBulkInsertNum: 1, EventBulkInsertDur: 0, MaxLimit: mocsqlite.NoLimit})
	if err != nil {
		panic(err)
	}
	if stopped {
		env.dbStop()
	}
	return sh
}

func (env *c13Env) base(h *vsched.H, i int) mocrelay.Handler {
	switch i {
	case 0:
		return mocrelay.NewDefaultHandler()
	case 1:
		return mocrelay.NewCacheHandler(10)
	case 2:
		return env.newRouter()
	case 3:
		return mocrelay.NewMergeHandler(mocrelay.NewCacheHandler(10), env.newRouter())
	case 4:
		return mocrelay.NewMergeHandler(env.newRouter(), mocrelay.NewDefaultHandler(), mocrelay.NewCacheHandler(10))
	case 5:
		return mocrelay.NewMergeHandler(mocrelay.NewMergeHandler(mocrelay.NewCacheHandler(10), env.newRouter()), env.newRouter())
	case 6:
		return env.newSQLite(h)
	case 7:
		return mocrelay.NewMergeHandler(mocrelay.NewCacheHandler(10), env.newRouter(), env.newSQLite(h))
	case 8:
		return env.newSQLiteOpt(h, true)
	case 9:
		return mocrelay.NewMergeHandler(mocrelay.NewDefaultHandler(), env.newRouter(), mocrelay.NewDefaultHandler())
	}
	panic("bad base")
}

func (env *c13Env) wrap(i int, hd mocrelay.Handler) mocrelay.Handler {
	discard := slog.New(slog.NewTextHandler(io.Discard, nil))
	prom := func(x mocrelay.Handler) mocrelay.Handler {
		env.reg = prometheus.NewRegistry()
		return mocprom.NewPrometheusMiddleware(env.reg)(x)
	}
	k1 := mocrelay.NewReqFiltersEventLimitMatcher([]*mocrelay.ReqFilter{{Kinds: []int64{1}}})
	k7 := mocrelay.NewReqFiltersEventLimitMatcher([]*mocrelay.ReqFilter{{Kinds: []int64{7}}})
	switch i {
	case 0:
		return hd
	case 1:
		return mocrelay.NewMaxSubscriptionsMiddleware(2)(hd)
	case 2:
		return mocrelay.NewRecvEventUniqueFilterMiddleware(2)(mocrelay.NewSendEventUniqueFilterMiddleware(2)(hd))
	case 3:
		return mocrelay.BuildMiddlewareFromNIP11(&mocrelay.NIP11{Limitation: &mocrelay.NIP11Limitation{
			MaxSubscriptions: 2, MaxFilters: 2, MaxLimit: 10, MaxEventTags: 3, MaxContentLength: 100, CreatedAtLowerLimit: 1000, CreatedAtUpperLimit: 1000}})(hd)
	case 4:
		return prom(hd)
	case 5:
		return prom(mocrelay.NewMaxSubscriptionsMiddleware(2)(mocrelay.Handler(mocrelay.NewLoggingMiddleware(discard)(hd))))
	case 6:
		return mocrelay.NewEventCreatedAtMiddleware(-time.Hour, time.Hour)(hd)
	case 7:
		return mocrelay.NewMaxReqFiltersMiddleware(1)(hd)
	case 8:
		return mocrelay.NewMaxLimitMiddleware(5)(hd)
	case 9:
		return mocrelay.NewMaxSubIDLengthMiddleware(1)(hd)
	case 10:
		return mocrelay.NewMaxEventTagsMiddleware(1)(hd)
	case 11:
		return mocrelay.NewMaxContentLengthMiddleware(1)(hd)
	case 12:
		return mocrelay.NewCreatedAtLowerLimitMiddleware(100)(hd)
	case 13:
		return mocrelay.NewCreatedAtUpperLimitMiddleware(100)(hd)
	case 14:
		return mocrelay.NewRecvEventUniqueFilterMiddleware(1)(hd)
	case 15:
		return mocrelay.NewSendEventUniqueFilterMiddleware(1)(hd)
	case 16:
		return mocrelay.NewRecvEventAllowFilterMiddleware(k1)(hd)
	case 17:
		return mocrelay.NewRecvEventDenyFilterMiddleware(k7)(hd)
	case 18:
		return mocrelay.NewLoggingMiddleware(discard)(hd)
	case 19:
		return mocrelay.NewMaxContentLengthMiddleware(1)(hd)
	case 20:
		return mocrelay.NewMaxSubIDLengthMiddleware(1)(hd)
	case 21:
		return mocrelay.NewRecvEventDenyFilterMiddleware(k1)(hd)
	case 22:
		return mocrelay.NewMaxSubIDLengthMiddleware(1)(mocrelay.NewMaxContentLengthMiddleware(1)(hd))
	}
	panic("bad wrap")
}

func gauge(reg *prometheus.Registry, name string) float64 {
	mfs, err := reg.Gather()
	if err != nil {
		return -1
	}
	for _, mf := range mfs {
		if mf.GetName() == name {
			var ms []*dto.Metric = mf.GetMetric()
			if len(ms) == 1 && ms[0].Gauge != nil {
				return ms[0].Gauge.GetValue()
			}
		}
	}
	return 0
}

// SessionEnd explores how a session ends (C13). params: base, wrap, end (0 cancel/draining peer,
// 1 cancel/stalled peer, 2 inbound close/draining peer), k (reads before the peer stalls).
func SessionEnd(h *vsched.H) {
	env := &c13Env{}
	baseI, wrapI, end, k := h.Param("base", 2), h.Param("wrap", 0), h.Param("end", 0), h.Param("k", 1)
	hd := env.wrap(wrapI, env.base(h, baseI))
	defer func() {
		if env.db != nil {
			env.dbStop()
		}
	}()
	now := int64(1700000000)
	ev := func(id byte, kind int64) *mocrelay.Event {
		e := Ev(id, '1', kind, now)
		e.Content = "c"
		if wrapI >= C13FirstRefusingWrap {
			e.Content = "cc" // above the refusing wrappers' content limit
		}
		return e
	}
	bg := context.Background()
	S := NewConn(h, "S", bg, hd)
	P := NewConn(h, "P", bg, hd)
	script := []mocrelay.ClientMsg{ReqMsg("s"), EventMsg(ev('a', 1)), CountMsg("c"), CloseMsg("s"), ReqMsg("t")}
	if wrapI >= C13FirstRefusingWrap { // subscription ids above the refusing wrappers' length limit
		script = []mocrelay.ClientMsg{ReqMsg("ss"), EventMsg(ev('a', 1)), CountMsg("cc"), CloseMsg("ss"), ReqMsg("tt")}
	}
	S.WriterDone = make(chan struct{})
	go func() { S.Write(script...); close(S.WriterDone) }()
	go P.Write(EventMsg(ev('b', 1)), EventMsg(ev('c', 7)))
	go P.ReadAll()
	if end == 1 {
		go S.ReadN(k)
	} else {
		go S.ReadAll()
	}
	switch end {
	case 0, 1:
		// the canceller is enabled from the start: every cut point of the history is reached
		h.SpawnFree(func() { S.CancelAt = h.Stamp(); S.Cancel() })
	case 2:
		h.SpawnFree(func() {
			select {
			case <-S.WriterDone:
			case <-S.stop:
				return
			}
			S.CancelAt = h.Stamp()
			close(S.Recv)
		})
	}
	h.WaitQuiescent()
	name := fmt.Sprintf("%s / %s", C13BaseNames[baseI], C13WrapNames[wrapI])
	ending := []string{"cancel, draining peer", "cancel, stalled peer", "inbound close, draining peer"}[end]
	detail := func() string {
		return fmt.Sprintf("%s; ending: %s; S sent [%s] got [%s]; P got [%s]; live under S: %v", name, ending, S.SentString(), S.GotString(), P.GotString(), h.LiveUnder(S.Session))
	}
	if S.CancelAt == 0 {
		h.Fail("C13/harness: the session was never ended", detail()) // cannot happen; guards the harness itself
	}
	if !S.ServeDone {
		h.Fail("C13/serving did not return after the session was ended ("+ending+")", detail())
	}
	if live := h.LiveUnder(S.Session); len(live) > 0 {
		h.Fail("C13/goroutines of the session still alive after it ended ("+ending+"): "+siteFuncs(live), detail())
	}
	sessions := 0
	if !P.ServeDone {
		sessions = 1
	}
	for _, r := range env.routers {
		if r.VerifSessions() > sessions {
			h.Fail("C13/the ended session is still registered in the router", detail())
		}
		if sessions == 1 && r.VerifSubscriptions() != 0 {
			h.Fail("C13/subscriptions of the ended session are still registered in the router", detail())
		}
	}
	if env.reg != nil {
		if g := gauge(env.reg, "mocrelay_connection_count"); g != float64(sessions) {
			h.Failf("C13/connection gauge not back to its previous value after the session ended", "gauge=%v want %d; %s", g, sessions, detail())
		}
		if g := gauge(env.reg, "mocrelay_req_count"); g != 0 {
			h.Failf("C13/subscription gauge not back to its previous value after the session ended", "gauge=%v want 0; %s", g, detail())
		}
	}
	h.Observe(fmt.Sprintf("S got %d msgs, done=%v", len(S.Got), S.ServeDone))
	// second phase: the other session ends too
	P.CancelAt = h.Stamp()
	P.Cancel()
	S.Stop()
	P.Stop()
	h.WaitQuiescent()
	if !P.ServeDone || len(h.LiveUnder(P.Session)) > 0 {
		h.Fail("C13/second session did not end cleanly after cancel: "+siteFuncs(h.LiveUnder(P.Session)), detail())
	}
	for _, r := range env.routers {
		if r.VerifSessions() != 0 {
			h.Fail("C13/router registry not empty after all sessions ended", detail())
		}
	}
	if env.reg != nil {
		if g := gauge(env.reg, "mocrelay_connection_count"); g != 0 {
			h.Failf("C13/connection gauge not zero after all sessions ended", "gauge=%v", g)
		}
	}
}

// siteFuncs keeps only the function names of parked sites (stable across line shifts).
func siteFuncs(sites []string) string {
	var out []string
	seen := map[string]bool{}
	for _, s := range sites {
		f := s
		if i := strings.IndexByte(s, '('); i >= 0 {
			f = strings.TrimSuffix(s[i+1:], ")")
		}
		if !seen[f] {
			seen[f] = true
			out = append(out, f)
		}
	}
	return strings.Join(out, " ")
}
