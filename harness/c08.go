package harness

import (
	"context"
	"fmt"
	"strings"

	"github.com/high-moctane/mocrelay"
	"verifkit/refmodel"
	"verifkit/vsched"
)

// Child behaviours for merged REQ (C08). Every child answers each REQ it receives.
const (
	ReqStoredThenEOSE = iota // stored events (newest first) then EOSE
	ReqEOSEThenLive          // EOSE, one live event at once, more live events when triggered
	ReqUnsorted              // stored events oldest first, then EOSE
	ReqNonMatching           // one event that does not match the filters, one that does, then EOSE
	ReqDupOfSibling          // the same stored events as child 0 (same ids), then EOSE
	ReqEOSEOnly              // EOSE only
	ReqLateEOSE              // stored events at once, EOSE only after it has seen the CLOSE
	ReqModes
)

var ReqModeNames = []string{"stored+EOSE", "EOSE+live", "unsorted", "non-matching", "dup-of-sibling", "EOSE-only", "late-EOSE"}

// Emit is one server message a child put on its send channel.
type Emit struct {
	Msg       mocrelay.ServerMsg
	Call, Ret int64
}

type reqChild struct {
	h      *vsched.H
	idx    int
	mode   int
	stored []*mocrelay.Event // newest first
	live   []*mocrelay.Event
	junk   *mocrelay.Event
	trig   chan struct{}
	Log    []*Emit
	open   map[string]bool
	fired  bool
}

func (c *reqChild) emit(ctx context.Context, send chan<- mocrelay.ServerMsg, m mocrelay.ServerMsg) bool {
	e := &Emit{Msg: m, Call: c.h.Stamp()}
	c.Log = append(c.Log, e)
	select {
	case <-ctx.Done():
		return false
	case send <- m:
		e.Ret = c.h.Stamp()
		return true
	}
}

func (c *reqChild) ServeNostr(ctx context.Context, send chan<- mocrelay.ServerMsg, recv <-chan mocrelay.ClientMsg) error {
	trig := c.trig
	for {
		select {
		case <-ctx.Done():
			return ctx.Err()
		case <-trig:
			trig = nil // fire once
			for _, sub := range sortedSubs(c.open) {
				for _, ev := range c.live[1:] {
					if !c.emit(ctx, send, mocrelay.NewServerEventMsg(sub, ev)) {
						return ctx.Err()
					}
				}
			}
		case m, ok := <-recv:
			if !ok {
				return mocrelay.ErrRecvClosed
			}
			switch m := m.(type) {
			case *mocrelay.ClientReqMsg:
				sub := m.SubscriptionID
				var out []mocrelay.ServerMsg
				ev := func(e *mocrelay.Event) { out = append(out, mocrelay.NewServerEventMsg(sub, e)) }
				eose := func() { out = append(out, mocrelay.NewServerEOSEMsg(sub)) }
				switch c.mode {
				case ReqStoredThenEOSE, ReqDupOfSibling:
					for _, e := range c.stored {
						ev(e)
					}
					eose()
				case ReqEOSEThenLive:
					eose()
					ev(c.live[0])
					c.open[sub] = true
				case ReqUnsorted:
					for i := len(c.stored) - 1; i >= 0; i-- {
						ev(c.stored[i])
					}
					eose()
				case ReqNonMatching:
					ev(c.junk)
					ev(c.stored[0])
					eose()
				case ReqEOSEOnly:
					eose()
				case ReqLateEOSE:
					for _, e := range c.stored {
						ev(e)
					}
					c.open[sub] = true
				}
				for _, o := range out {
					if !c.emit(ctx, send, o) {
						return ctx.Err()
					}
				}
			case *mocrelay.ClientCloseMsg:
				if c.mode == ReqLateEOSE && c.open[m.SubscriptionID] {
					delete(c.open, m.SubscriptionID)
					if !c.emit(ctx, send, mocrelay.NewServerEOSEMsg(m.SubscriptionID)) {
						return ctx.Err()
					}
				} else {
					delete(c.open, m.SubscriptionID)
				}
			}
		}
	}
}

func sortedSubs(m map[string]bool) []string {
	var out []string
	for k := range m {
		out = append(out, k)
	}
	for i := range out {
		for j := i + 1; j < len(out); j++ {
			if out[j] < out[i] {
				out[i], out[j] = out[j], out[i]
			}
		}
	}
	return out
}

// C08 client scripts: 0 [REQ s]  1 [REQ s, CLOSE s]  2 [REQ s, after its EOSE: REQ s]  3 [REQ s, REQ t]
// 4 [REQ s, CLOSE s, REQ t] (a later subscription must work whatever the children still say about the closed one)
const C08Scripts = 5

// C08 filter sets: 0 {kinds:[1]}  1 {kinds:[1],limit:1}  2 {kinds:[1],limit:2}  3 [{kinds:[1],limit:1},{authors:[P]}]
const C08Filters = 4

func c08Filters(i int) []*mocrelay.ReqFilter {
	switch i {
	case 1:
		return []*mocrelay.ReqFilter{{Kinds: []int64{1}, Limit: I64(1)}}
	case 2:
		return []*mocrelay.ReqFilter{{Kinds: []int64{1}, Limit: I64(2)}}
	case 3:
		return []*mocrelay.ReqFilter{{Kinds: []int64{1}, Limit: I64(1)}, {Authors: []string{Hex('1', 64)}}}
	}
	return []*mocrelay.ReqFilter{{Kinds: []int64{1}}}
}

// MergeReq explores one merge session over scripted REQ children.
// params: n, m0..m2 (child modes), script, filt.
func MergeReq(h *vsched.H) {
	n := h.Param("n", 2)
	script := h.Param("script", 0)
	filters := c08Filters(h.Param("filt", 0))
	// event pool: kind 1 matches; created_at chosen so that children's lists interleave and tie
	e30, e20, e10, e20b := Ev('a', '1', 1, 30), Ev('b', '1', 1, 20), Ev('c', '2', 1, 0), Ev('d', '2', 1, 20) // the oldest one has created_at 0: a timestamp like any other
	junk := Ev('e', '2', 7, 25)
	l1, l2, l3 := Ev('f', '1', 1, 5), Ev('0', '1', 1, 40), Ev('9', '2', 1, 40)
	trig := make(chan struct{})
	var kids []*reqChild
	var hs []mocrelay.Handler
	for i := 0; i < n; i++ {
		k := &reqChild{h: h, idx: i, mode: h.Param(fmt.Sprintf("m%d", i), 0), trig: trig, open: map[string]bool{}, junk: junk}
		switch i {
		case 0:
			// (two different events share created_at 20; each of them is held by two children)
			k.stored = []*mocrelay.Event{e30, e20b, e10}
			k.live = []*mocrelay.Event{l1, l2}
		case 1:
			k.stored = []*mocrelay.Event{e30, e20, e20b}
			k.live = []*mocrelay.Event{l1, l3}
		default:
			k.stored = []*mocrelay.Event{e20b, e10}
			k.live = []*mocrelay.Event{l3, l2}
		}
		if k.mode == ReqDupOfSibling {
			k.stored = []*mocrelay.Event{e30, e10}
		}
		kids = append(kids, k)
		hs = append(hs, k)
	}
	merged := mocrelay.NewMergeHandler(hs...)
	c := NewConn(h, "c", context.Background(), merged)
	eoseSeen := make(chan struct{})
	// reader: like ReadAll, but signals the first EOSE of sub "s"
	go func() {
		first := true
		for {
			select {
			case m := <-c.Send:
				c.Got = append(c.Got, &Got{Msg: m, At: h.Stamp()})
				if e, ok := m.(*mocrelay.ServerEOSEMsg); ok && first && e.SubscriptionID == "s" {
					first = false
					close(eoseSeen)
				}
			case <-c.stop:
				return
			}
		}
	}()
	go func() {
		switch script {
		case 0:
			c.Write(ReqMsg("s", filters...))
		case 1:
			c.Write(ReqMsg("s", filters...), CloseMsg("s"))
		case 2:
			c.Write(ReqMsg("s", filters...))
			select {
			case <-eoseSeen:
			case <-c.stop:
				return
			}
			c.Write(ReqMsg("s", filters...))
		case 3:
			c.Write(ReqMsg("s", filters...), ReqMsg("t", filters...))
		case 4:
			c.Write(ReqMsg("s", filters...), CloseMsg("s"), ReqMsg("t", filters...))
		}
	}()
	h.WaitQuiescent()
	close(trig) // phase 2: children in EOSE+live mode emit their remaining live events
	h.WaitQuiescent()
	c08Oracle(h, c, kids, script, filters)
	h.Observe(c.GotString())
}

// c08SessKey carries the session index in the context of a MergeReqTwoSessions session, so that a
// child handler (one object, as in production) can run a separate script per session.
type c08SessKey struct{}

type c08SessChild struct{ kids []*reqChild }

func (s *c08SessChild) ServeNostr(ctx context.Context, send chan<- mocrelay.ServerMsg, recv <-chan mocrelay.ClientMsg) error {
	i, _ := ctx.Value(c08SessKey{}).(int)
	return s.kids[i].ServeNostr(ctx, send, recv)
}

// MergeReqTwoSessions: two client sessions on ONE merge handler over two children, both using the
// subscription id "s" at the same time. Per-subscription merge state belongs to a session: each
// client must see exactly what it would see alone (the single-session oracle, applied per session).
// params: m0, m1 (child modes, the same for both sessions), filt, script (0: A [REQ s], B [REQ s];
// 1: A [REQ s], B [REQ s, CLOSE s]).
func MergeReqTwoSessions(h *vsched.H) {
	script := h.Param("script", 0)
	filters := c08Filters(h.Param("filt", 0))
	e30, e20, e10, e20b := Ev('a', '1', 1, 30), Ev('b', '1', 1, 20), Ev('c', '2', 1, 0), Ev('d', '2', 1, 20)
	junk := Ev('e', '2', 7, 25)
	l1, l2, l3 := Ev('f', '1', 1, 5), Ev('0', '1', 1, 40), Ev('9', '2', 1, 40)
	trig := make(chan struct{})
	var perSess [2][]*reqChild
	var hs []mocrelay.Handler
	for i := 0; i < 2; i++ {
		sc := &c08SessChild{}
		for sess := 0; sess < 2; sess++ {
			k := &reqChild{h: h, idx: i, mode: h.Param(fmt.Sprintf("m%d", i), 0), trig: trig, open: map[string]bool{}, junk: junk}
			if i == 0 {
				k.stored, k.live = []*mocrelay.Event{e30, e20b, e10}, []*mocrelay.Event{l1, l2}
			} else {
				k.stored, k.live = []*mocrelay.Event{e30, e20, e20b}, []*mocrelay.Event{l1, l3}
			}
			if k.mode == ReqDupOfSibling {
				k.stored = []*mocrelay.Event{e30, e10}
			}
			sc.kids = append(sc.kids, k)
			perSess[sess] = append(perSess[sess], k)
		}
		hs = append(hs, sc)
	}
	merged := mocrelay.NewMergeHandler(hs...)
	A := NewConn(h, "A", context.WithValue(context.Background(), c08SessKey{}, 0), merged)
	B := NewConn(h, "B", context.WithValue(context.Background(), c08SessKey{}, 1), merged)
	go A.ReadAll()
	go B.ReadAll()
	go A.Write(ReqMsg("s", filters...))
	go func() {
		if script == 1 {
			B.Write(ReqMsg("s", filters...), CloseMsg("s"))
		} else {
			B.Write(ReqMsg("s", filters...))
		}
	}()
	h.WaitQuiescent()
	close(trig)
	h.WaitQuiescent()
	c08Oracle(h, A, perSess[0], 0, filters)
	c08Oracle(h, B, perSess[1], script, filters)
	h.Observe("A: " + A.GotString() + " | B: " + B.GotString())
}

func c08Oracle(h *vsched.H, c *Conn, kids []*reqChild, script int, filters []*mocrelay.ReqFilter) {
	ctxs := func() string {
		var sb strings.Builder
		fmt.Fprintf(&sb, "script %d; client sent [%s]; client got [%s]", script, c.SentString(), c.GotString())
		for _, k := range kids {
			var ss []string
			for _, e := range k.Log {
				ss = append(ss, fmt.Sprintf("%s@%d-%d", SMsgString(e.Msg), e.Call, e.Ret))
			}
			fmt.Fprintf(&sb, "; child%d(%s) emitted [%s]", k.idx, ReqModeNames[k.mode], strings.Join(ss, " "))
		}
		return sb.String()
	}
	for _, s := range c.Sent {
		if s.Ret == 0 {
			h.Fail("C08/request not taken by the merge handler", ctxs())
			return
		}
	}
	subs := []string{"s"}
	if script == 3 || script == 4 {
		subs = append(subs, "t")
	}
	// REQ instances per sub (script 2 has two instances of "s")
	type inst struct {
		sub      string
		from, to int64 // client-side window: REQ call .. next REQ call of the same sub (or infinity)
		reqRet   int64
	}
	var insts []inst
	for _, s := range c.Sent {
		if r, ok := s.Msg.(*mocrelay.ClientReqMsg); ok {
			for i := range insts {
				if insts[i].sub == r.SubscriptionID && insts[i].to == 1<<62 {
					insts[i].to = s.Call
				}
			}
			insts = append(insts, inst{sub: r.SubscriptionID, from: s.Call, to: 1 << 62, reqRet: s.Ret})
		}
	}
	var closeCall, closeRet int64 = 1 << 62, 1 << 62
	for _, s := range c.Sent {
		if _, ok := s.Msg.(*mocrelay.ClientCloseMsg); ok {
			closeCall, closeRet = s.Call, s.Ret
		}
	}
	_ = closeRet
	// every message the client got must carry a known sub id
	for _, g := range c.Got {
		switch m := g.Msg.(type) {
		case *mocrelay.ServerEventMsg:
			if m.SubscriptionID != "s" && m.SubscriptionID != "t" {
				h.Fail("C08/forwarded message carries a subscription id no child used", ctxs())
			}
		case *mocrelay.ServerEOSEMsg:
		default:
			h.Fail("C08/unexpected message type forwarded", ctxs())
		}
	}
	for ii, in := range insts {
		// child emissions belonging to this instance: those the child sent after it received this REQ;
		// children process REQs in order, so the k-th REQ of a sub corresponds to the k-th EOSE of that sub per child.
		nth := 0
		for _, p := range insts[:ii] {
			if p.sub == in.sub {
				nth++
			}
		}
		var childEOSERet []int64
		allEOSE := true
		for _, k := range kids {
			cnt := 0
			found := false
			for _, e := range k.Log {
				if m, ok := e.Msg.(*mocrelay.ServerEOSEMsg); ok && m.SubscriptionID == in.sub {
					if cnt == nth {
						if e.Ret != 0 {
							childEOSERet = append(childEOSERet, e.Ret)
							found = true
						}
					}
					cnt++
				}
			}
			if !found {
				allEOSE = false
			}
		}
		// client stream inside the window
		var eoseAt []int64
		var before, after []*Got
		for _, g := range c.Got {
			if g.At < in.from || g.At >= in.to {
				continue
			}
			switch m := g.Msg.(type) {
			case *mocrelay.ServerEOSEMsg:
				if m.SubscriptionID == in.sub {
					eoseAt = append(eoseAt, g.At)
				}
			case *mocrelay.ServerEventMsg:
				if m.SubscriptionID == in.sub {
					if len(eoseAt) == 0 {
						before = append(before, g)
					} else {
						after = append(after, g)
					}
				}
			}
		}
		closed := (script == 1 || script == 4) && in.sub == "s"
		if len(eoseAt) > 1 {
			h.Fail("C08/EOSE: more than one EOSE for one REQ", ctxs())
		}
		if !closed {
			if allEOSE && len(eoseAt) == 0 {
				h.Fail("C08/EOSE: no EOSE although every child has sent its own", ctxs())
			}
			if !allEOSE && len(eoseAt) > 0 {
				h.Fail("C08/EOSE: EOSE forwarded before every child has sent its own", ctxs())
			}
		} else {
			// the client closed the subscription: none is required; if every child emits EOSE only
			// after having seen the CLOSE, none may arrive
			allLate := true
			for _, k := range kids {
				if k.mode != ReqLateEOSE {
					allLate = false
				}
			}
			if allLate && len(eoseAt) > 0 {
				h.Fail("C08/EOSE: EOSE forwarded for a subscription the client had closed before any child sent one", ctxs())
			}
		}
		if len(eoseAt) == 1 {
			for _, r := range childEOSERet {
				if r > eoseAt[0] {
					h.Fail("C08/EOSE: EOSE reached the client before a child's EOSE was sent", ctxs())
				}
			}
			if len(childEOSERet) < len(kids) {
				h.Fail("C08/EOSE: EOSE forwarded before every child has sent its own", ctxs())
			}
		}
		// ---- before the EOSE (only events the client received before it called CLOSE are claimed)
		seen := map[string]bool{}
		var last int64 = 1 << 62
		count := 0
		for _, g := range before {
			if g.At >= closeCall {
				break
			}
			ev := g.Msg.(*mocrelay.ServerEventMsg).Event
			if !refmodel.MatchFilters(filters, ev) {
				h.Fail("C08/before EOSE: forwarded an event that does not match the filters", ctxs())
			}
			if seen[ev.ID] {
				h.Fail("C08/before EOSE: the same event forwarded twice", ctxs())
			}
			seen[ev.ID] = true
			if ev.CreatedAt > last {
				h.Fail("C08/before EOSE: events not in non-increasing created_at order", ctxs())
			}
			last = ev.CreatedAt
			count++
		}
		if len(filters) == 1 && filters[0].Limit != nil && int64(count) > *filters[0].Limit {
			h.Fail("C08/before EOSE: more events than the single filter's limit", ctxs())
		}
		// forwarded events must be events some child emitted for this sub (unchanged)
		emitted := map[*mocrelay.Event]int{}
		for _, k := range kids {
			for _, e := range k.Log {
				if m, ok := e.Msg.(*mocrelay.ServerEventMsg); ok && m.SubscriptionID == in.sub {
					emitted[m.Event]++
				}
			}
		}
		for _, g := range append(append([]*Got{}, before...), after...) {
			ev := g.Msg.(*mocrelay.ServerEventMsg).Event
			if emitted[ev] == 0 {
				h.Fail("C08/forwarded an event no child emitted for this subscription (or altered it)", ctxs())
			}
		}
		// ---- after the EOSE: everything a child sends after the client has the EOSE is forwarded, in order
		if len(eoseAt) == 1 && !closed && in.to == 1<<62 {
			for _, k := range kids {
				var must []*mocrelay.Event
				for _, e := range k.Log {
					if m, ok := e.Msg.(*mocrelay.ServerEventMsg); ok && m.SubscriptionID == in.sub && e.Call > eoseAt[0] {
						must = append(must, m.Event)
						if e.Ret == 0 {
							h.Fail("C08/after EOSE: a child's live event was never taken by the merge handler", ctxs())
						}
					}
				}
				// must be a subsequence of `after`
				j := 0
				for _, g := range after {
					if j < len(must) && g.Msg.(*mocrelay.ServerEventMsg).Event == must[j] {
						j++
					}
				}
				if j < len(must) {
					h.Fail("C08/after EOSE: a child's live event was not forwarded (or out of that child's order)", ctxs())
				}
			}
		}
	}
	_ = subs
}
