package harness

import (
	"context"
	"fmt"
	"strings"

	"github.com/high-moctane/mocrelay"
	"verifkit/vsched"
)

// Operations on one shared EventCache (C15).
const (
	OpAddV1   = iota // replaceable kind 0 by P, created_at 1
	OpAddV2          // same address, created_at 2
	OpAddR           // regular kind 1 by P, created_at 2
	OpAddDelR        // deletion request by P referencing r by id, created_at 3
	OpAddQ           // regular kind 1 by Q, created_at 3 (evicts when the cache is full)
	OpFindAll
	OpFindKind0 // indexed path
	OpLen
	OpFindPLimit1 // indexed path with limit
	OpFindSince2  // scan path with since
	OpFindMulti   // several filters in one query: replaceable address, author P, everything
	NumCacheOps
)

var CacheOpNames = []string{"Add(v@1)", "Add(v@2)", "Add(r)", "Add(del->r)", "Add(q)", "Find[{}]", "Find[{kinds:[0]}]", "Len", "Find[{authors:[P],limit:1}]", "Find[{since:2}]", "Find[{kinds:[0]},{authors:[P]},{}]"}

type cacheEvents struct {
	v1, v2, r, del, q *mocrelay.Event
}

func newCacheEvents() *cacheEvents {
	ce := &cacheEvents{
		v1: Ev('a', '1', 0, 1),
		v2: Ev('b', '1', 0, 2),
		r:  Ev('c', '1', 1, 2),
		q:  Ev('e', '2', 1, 3),
	}
	ce.del = Ev('d', '1', 5, 3, mocrelay.Tag{"e", ce.r.ID})
	return ce
}

// CacheOpRec is one operation with its real-time interval and result.
type CacheOpRec struct {
	Task, Op  int
	Call, Ret int64
	Result    string
}

func applyCacheOp(c *mocrelay.EventCache, ce *cacheEvents, op int) string {
	ids := func(evs []*mocrelay.Event) string {
		var ss []string
		for _, e := range evs {
			ss = append(ss, short(e.ID))
		}
		return "[" + strings.Join(ss, " ") + "]"
	}
	switch op {
	case OpAddV1:
		return fmt.Sprint(c.Add(ce.v1))
	case OpAddV2:
		return fmt.Sprint(c.Add(ce.v2))
	case OpAddR:
		return fmt.Sprint(c.Add(ce.r))
	case OpAddDelR:
		return fmt.Sprint(c.Add(ce.del))
	case OpAddQ:
		return fmt.Sprint(c.Add(ce.q))
	case OpFindAll:
		return ids(c.Find([]*mocrelay.ReqFilter{{}}))
	case OpFindKind0:
		return ids(c.Find([]*mocrelay.ReqFilter{{Kinds: []int64{0}}}))
	case OpLen:
		return fmt.Sprint(c.Len())
	case OpFindPLimit1:
		return ids(c.Find([]*mocrelay.ReqFilter{{Authors: []string{Hex('1', 64)}, Limit: I64(1)}}))
	case OpFindSince2:
		return ids(c.Find([]*mocrelay.ReqFilter{{Since: I64(2)}}))
	case OpFindMulti:
		return ids(c.Find([]*mocrelay.ReqFilter{{Kinds: []int64{0}}, {Authors: []string{Hex('1', 64)}}, {}}))
	}
	panic("bad op")
}

// DecodeScript: a script is up to 3 operations packed as (op+1) digits base 16.
func DecodeScript(code int) []int {
	var ops []int
	for ; code > 0; code /= 16 {
		ops = append(ops, code%16-1)
	}
	return ops
}

func EncodeScript(ops ...int) int {
	code := 0
	for i := len(ops) - 1; i >= 0; i-- {
		code = code*16 + ops[i] + 1
	}
	return code
}

// CacheConcurrent runs 2-3 tasks, each executing its script on ONE shared cache of capacity cap,
// and checks the recorded history for linearizability against the cache itself run sequentially.
// params: cap, pre (script run before the tasks start), s0, s1, s2.
func CacheConcurrent(h *vsched.H) {
	capacity := h.Param("cap", 2)
	ce := newCacheEvents()
	c := mocrelay.NewEventCache(capacity)
	pre := DecodeScript(h.Param("pre", 0))
	for _, op := range pre {
		applyCacheOp(c, ce, op)
	}
	var scripts [][]int
	for i := 0; i < 3; i++ {
		if s := DecodeScript(h.Param(fmt.Sprintf("s%d", i), 0)); len(s) > 0 {
			scripts = append(scripts, s)
		}
	}
	recs := make([][]*CacheOpRec, len(scripts))
	for ti, s := range scripts {
		ti, s := ti, s
		h.Spawn(func() {
			for _, op := range s {
				r := &CacheOpRec{Task: ti, Op: op, Call: h.Stamp()}
				r.Result = applyCacheOp(c, ce, op)
				r.Ret = h.Stamp()
				recs[ti] = append(recs[ti], r)
			}
		})
	}
	h.WaitQuiescent()
	var all []*CacheOpRec
	for ti := range recs {
		if len(recs[ti]) != len(scripts[ti]) {
			h.Fail("C15/an operation on the shared cache never returned", fmt.Sprintf("task %d finished %d of %d operations", ti, len(recs[ti]), len(scripts[ti])))
			return
		}
		all = append(all, recs[ti]...)
	}
	// the state the tasks leave behind is part of the history: one more query after everything returned
	fin := &CacheOpRec{Task: len(scripts), Op: OpFindAll, Call: h.Stamp()}
	fin.Result = applyCacheOp(c, ce, OpFindAll)
	fin.Ret = h.Stamp()
	all = append(all, fin)
	describe := func() string {
		var ss []string
		for _, r := range all {
			ss = append(ss, fmt.Sprintf("t%d:%s=%s@%d-%d", r.Task, CacheOpNames[r.Op], r.Result, r.Call, r.Ret))
		}
		return fmt.Sprintf("cap %d, pre %v; ", capacity, pre) + strings.Join(ss, " ")
	}
	// invariants on every single result
	for _, r := range all {
		if r.Op == OpFindAll || r.Op == OpFindSince2 || r.Op == OpFindMulti {
			n := strings.Count(r.Result, " ") + 1
			if r.Result == "[]" {
				n = 0
			}
			if n > capacity {
				h.Fail("C15/a query shows more than capacity events", describe())
				h.Fail("C04/concurrent insertions: more events retained than the capacity", describe())
			}
			if strings.Contains(r.Result, short(ce.v1.ID)) && strings.Contains(r.Result, short(ce.v2.ID)) {
				h.Fail("C15/a query shows two versions of one address", describe())
				h.Fail("C04/concurrent insertions: two versions of one address retained", describe())
			}
			if strings.Contains(r.Result, short(ce.r.ID)) && strings.Contains(r.Result, short(ce.del.ID)) {
				h.Fail("C15/a query shows an event together with a retained deletion request of its author referencing it", describe())
				// the same observation under the properties that state it for every history
				h.Fail("C05/concurrent insertions: an event is served together with a retained deletion request of its author referencing it", describe())
				h.Fail("C04/concurrent insertions: an event suppressed by a retained deletion request of its author was stored", describe())
			}
		}
	}
	// linearizability: some total order consistent with real time explains every result
	n := len(all)
	used := make([]bool, n)
	order := make([]int, 0, n)
	var try func() bool
	try = func() bool {
		if len(order) == n {
			ref := mocrelay.NewEventCache(capacity)
			for _, op := range pre {
				applyCacheOp(ref, ce, op)
			}
			for _, i := range order {
				if applyCacheOp(ref, ce, all[i].Op) != all[i].Result {
					return false
				}
			}
			return true
		}
		for i := 0; i < n; i++ {
			if used[i] {
				continue
			}
			// i may come next only if no unused operation returned before i was called
			ok := true
			for j := 0; j < n; j++ {
				if j != i && !used[j] && all[j].Ret < all[i].Call {
					ok = false
					break
				}
			}
			if !ok {
				continue
			}
			used[i] = true
			order = append(order, i)
			if try() {
				return true
			}
			order = order[:len(order)-1]
			used[i] = false
		}
		return false
	}
	if !try() {
		h.Fail("C15/results of concurrent cache operations are not explained by any sequential order consistent with real time", describe())
	}
	var rs []string
	for _, r := range all {
		rs = append(rs, r.Result)
	}
	h.Observe(strings.Join(rs, ","))
}

// CacheHandlerSessions: two CacheHandler sessions on one shared cache issue EVENT/REQ concurrently.
// params: cap, a0,a1 (session A: two message codes), b0,b1.
//
//	message codes: 0 EVENT v@1, 1 EVENT v@2, 2 EVENT r, 3 EVENT del->r, 4 EVENT q, 5 REQ all, 6 REQ kinds:[0]
func CacheHandlerSessions(h *vsched.H) {
	capacity := h.Param("cap", 2)
	ce := newCacheEvents()
	handler := mocrelay.NewCacheHandler(capacity)
	msg := func(code int, sub string) mocrelay.ClientMsg {
		switch code {
		case 0:
			return EventMsg(ce.v1)
		case 1:
			return EventMsg(ce.v2)
		case 2:
			return EventMsg(ce.r)
		case 3:
			return EventMsg(ce.del)
		case 4:
			return EventMsg(ce.q)
		case 5:
			return ReqMsg(sub)
		}
		return ReqMsg(sub, &mocrelay.ReqFilter{Kinds: []int64{0}})
	}
	A := NewConn(h, "A", context.Background(), handler)
	B := NewConn(h, "B", context.Background(), handler)
	go A.Write(msg(h.Param("a0", 0), "s1"), msg(h.Param("a1", 5), "s2"))
	go B.Write(msg(h.Param("b0", 1), "s1"), msg(h.Param("b1", 5), "s2"))
	go A.ReadAll()
	go B.ReadAll()
	h.WaitQuiescent()
	detail := fmt.Sprintf("cap %d; A sent [%s] got [%s]; B sent [%s] got [%s]", capacity, A.SentString(), A.GotString(), B.SentString(), B.GotString())
	for _, c := range []*Conn{A, B} {
		// replies of one session come in request order, each REQ's stored events then its EOSE
		cur := ""
		seenV1, seenV2, seenR, seenDel, count := false, false, false, false, 0
		for _, g := range c.Got {
			switch m := g.Msg.(type) {
			case *mocrelay.ServerEventMsg:
				if m.SubscriptionID != cur {
					cur = m.SubscriptionID
					seenV1, seenV2, seenR, seenDel, count = false, false, false, false, 0
				}
				count++
				switch m.Event {
				case ce.v1:
					seenV1 = true
				case ce.v2:
					seenV2 = true
				case ce.r:
					seenR = true
				case ce.del:
					seenDel = true
				}
				if count > capacity {
					h.Fail("C15/a REQ through the cache handler shows more than capacity events", detail)
				}
				if seenV1 && seenV2 {
					h.Fail("C15/a REQ through the cache handler shows two versions of one address", detail)
				}
				if seenR && seenDel {
					h.Fail("C15/a REQ through the cache handler shows an event together with a retained deletion request referencing it", detail)
				}
			case *mocrelay.ServerEOSEMsg:
				cur = ""
			}
		}
		oks, eoses := 0, 0
		for _, g := range c.Got {
			switch g.Msg.(type) {
			case *mocrelay.ServerOKMsg:
				oks++
			case *mocrelay.ServerEOSEMsg:
				eoses++
			}
		}
		wantOK, wantEOSE := 0, 0
		for _, s := range c.Sent {
			switch s.Msg.(type) {
			case *mocrelay.ClientEventMsg:
				wantOK++
			case *mocrelay.ClientReqMsg:
				wantEOSE++
			}
		}
		if oks != wantOK || eoses != wantEOSE {
			h.Fail("C15/concurrent cache handler sessions: a request was not answered exactly once", detail)
		}
	}
	// the same EVENT accepted by both sessions is impossible: "newly stored" is exclusive
	accepted := map[string]int{}
	for _, c := range []*Conn{A, B} {
		for _, g := range c.Got {
			if ok, is := g.Msg.(*mocrelay.ServerOKMsg); is && ok.Accepted {
				accepted[ok.EventID]++
			}
		}
	}
	for id, n := range accepted {
		if n > 1 && capacity >= 4 { // (with a small capacity the event may have been evicted and stored again)
			h.Fail("C15/one event reported as newly stored to two concurrent sessions", "event "+short(id)+"; "+detail)
		}
	}
	h.Observe(A.GotString() + " | " + B.GotString())
}
