package harness

import (
	"context"
	"fmt"
	"strings"

	"github.com/high-moctane/mocrelay"
	"verifkit/vsched"
)

// ---- C18: subscription quota and per-connection de-duplication
//
// All three harnesses put one real middleware value around a recording downstream stub. The stub
// keeps one log per session; a session finds its log through a context value that the harness
// plants in the connection's parent context (so logs are per task and are read only after
// quiescence). Positions of a history are recognisable by content, not by pointer: the k-th REQ
// carries limit k+1 in its only filter, the k-th EVENT has created_at 100+k. The middlewares key
// on subscription id / event id only, so the markers do not influence them.

type c18LogKey struct{}

// c18Log is what one downstream session saw and what it got rid of.
type c18Log struct {
	Recv  []mocrelay.ClientMsg // client messages in the order they reached the downstream handler
	Taken []mocrelay.ServerMsg // server messages the middleware took from the downstream handler
	emit  []byte               // if set: this session's EVENT ids for REQ "t" (overrides the stub's list)
}

// c18Stub answers REQ with EOSE, EVENT with OK true, and on REQ "t" first emits one server EVENT
// per entry of emit (event id byte; created_at 100+position).
type c18Stub struct {
	emit []byte
}

func (s *c18Stub) ServeNostr(ctx context.Context, send chan<- mocrelay.ServerMsg, recv <-chan mocrelay.ClientMsg) error {
	log, _ := ctx.Value(c18LogKey{}).(*c18Log)
	if log == nil {
		log = &c18Log{}
	}
	for {
		select {
		case <-ctx.Done():
			return ctx.Err()
		case m, ok := <-recv:
			if !ok {
				return mocrelay.ErrRecvClosed
			}
			log.Recv = append(log.Recv, m)
			var out []mocrelay.ServerMsg
			switch m := m.(type) {
			case *mocrelay.ClientReqMsg:
				if m.SubscriptionID == "t" {
					emit := s.emit
					if log.emit != nil {
						emit = log.emit
					}
					for i, id := range emit {
						out = append(out, mocrelay.NewServerEventMsg("t", Ev(id, '1', 1, int64(100+i))))
					}
				}
				out = append(out, mocrelay.NewServerEOSEMsg(m.SubscriptionID))
			case *mocrelay.ClientEventMsg:
				out = append(out, mocrelay.NewServerOKMsg(m.Event.ID, true, "", ""))
			case *mocrelay.ClientCountMsg:
				out = append(out, mocrelay.NewServerCountMsg(m.SubscriptionID, 0, nil))
			}
			for _, o := range out {
				select {
				case <-ctx.Done():
					return ctx.Err()
				case send <- o:
					log.Taken = append(log.Taken, o)
				}
			}
		}
	}
}

// c18Conn starts a session whose downstream log is log. The writer and the reader below do not
// stamp (C18's oracles are functions of the histories alone; unstamped runs merge far better in
// the state cache).
func c18Conn(h *vsched.H, name string, hd mocrelay.Handler, log *c18Log) *Conn {
	return NewConn(h, name, context.WithValue(context.Background(), c18LogKey{}, log), hd)
}

func c18Write(c *Conn, msgs []mocrelay.ClientMsg) {
	for _, m := range msgs {
		s := &Sent{Msg: m}
		c.Sent = append(c.Sent, s)
		select {
		case c.Recv <- m:
			s.Ret = 1
		case <-c.stop:
			return
		}
	}
}

func c18Read(c *Conn) {
	for {
		select {
		case m := <-c.Send:
			c.Got = append(c.Got, &Got{Msg: m})
		case <-c.stop:
			return
		}
	}
}

func c18Req(sub string, pos int) *mocrelay.ClientReqMsg {
	return ReqMsg(sub, &mocrelay.ReqFilter{Limit: I64(int64(pos + 1))})
}

func c18ReqPos(m *mocrelay.ClientReqMsg) int {
	if len(m.ReqFilters) == 1 && m.ReqFilters[0] != nil && m.ReqFilters[0].Limit != nil {
		return int(*m.ReqFilters[0].Limit) - 1
	}
	return -1
}

func c18RecvString(l *c18Log) string {
	var ss []string
	for _, m := range l.Recv {
		ss = append(ss, CMsgString(m))
	}
	return strings.Join(ss, " ")
}

// ---------------------------------------------------------------- quota

// Quota alphabet (base 5): REQ a, REQ b, REQ c, CLOSE a, CLOSE b.
type quotaOp struct {
	req bool
	id  string
}

var c18QuotaAlphabet = []quotaOp{{true, "a"}, {true, "b"}, {true, "c"}, {false, "a"}, {false, "b"}}

func c18QuotaHistory(L, code int) []quotaOp {
	ops := make([]quotaOp, L)
	for i := 0; i < L; i++ {
		ops[i] = c18QuotaAlphabet[code%5]
		code /= 5
	}
	return ops
}

func quotaOpsString(ops []quotaOp) string {
	var ss []string
	for _, o := range ops {
		if o.req {
			ss = append(ss, "REQ "+o.id)
		} else {
			ss = append(ss, "CLOSE "+o.id)
		}
	}
	return strings.Join(ss, ", ")
}

func quotaMsgs(ops []quotaOp) []mocrelay.ClientMsg {
	var msgs []mocrelay.ClientMsg
	for i, o := range ops {
		if o.req {
			msgs = append(msgs, c18Req(o.id, i))
		} else {
			msgs = append(msgs, CloseMsg(o.id))
		}
	}
	return msgs
}

// quotaModel is the set model: forward[i] says whether op i must reach the downstream handler.
// why[i] classifies a REQ that must be forwarded: "open" (its id was open), "free" (fewer than n
// open and no CLOSE was needed to get there), "freed" (fewer than n open only thanks to a CLOSE).
func quotaModel(ops []quotaOp, n int) (forward []bool, why []string) {
	open := map[string]bool{}
	never := map[string]bool{} // the set if CLOSE freed nothing
	forward = make([]bool, len(ops))
	why = make([]string, len(ops))
	for i, o := range ops {
		if !o.req {
			forward[i] = true
			delete(open, o.id)
			continue
		}
		switch {
		case open[o.id]:
			forward[i], why[i] = true, "open"
		case len(open) < n:
			forward[i] = true
			if never[o.id] || len(never) < n {
				why[i] = "free"
			} else {
				why[i] = "freed"
			}
		}
		if forward[i] {
			open[o.id] = true
			never[o.id] = true
		}
	}
	return
}

// quotaOracle judges one session against the set model. tag prefixes the signatures
// ("C18/quota" or, for the isolation harness, the caller compares outcomes itself).
func quotaOracle(h *vsched.H, n int, ops []quotaOp, c *Conn, log *c18Log) (outcome string) {
	detail := fmt.Sprintf("N=%d; history [%s]; downstream received [%s]; client got [%s]", n, quotaOpsString(ops), c18RecvString(log), c.GotString())
	for _, s := range c.Sent {
		if s.Ret == 0 {
			h.Fail("C18/quota: client message not taken by the middleware", detail)
			return "stuck"
		}
	}
	if len(c.Sent) != len(ops) {
		h.Fail("C18/quota: client message not taken by the middleware", detail)
		return "stuck"
	}
	forward, why := quotaModel(ops, n)
	// what the downstream handler received, by position
	gotReq := map[int]int{}
	var wantSeq, gotSeq []string
	for i, o := range ops {
		if forward[i] {
			if o.req {
				wantSeq = append(wantSeq, fmt.Sprintf("REQ %s #%d", o.id, i))
			} else {
				wantSeq = append(wantSeq, "CLOSE "+o.id)
			}
		}
	}
	open := map[string]bool{}
	for _, m := range log.Recv {
		switch m := m.(type) {
		case *mocrelay.ClientReqMsg:
			p := c18ReqPos(m)
			gotReq[p]++
			gotSeq = append(gotSeq, fmt.Sprintf("REQ %s #%d", m.SubscriptionID, p))
			open[m.SubscriptionID] = true
		case *mocrelay.ClientCloseMsg:
			gotSeq = append(gotSeq, "CLOSE "+m.SubscriptionID)
			delete(open, m.SubscriptionID)
		default:
			gotSeq = append(gotSeq, CMsgString(m))
		}
		if len(open) > n {
			h.Fail("C18/quota: more than N subscription ids open downstream", detail)
		}
	}
	specific := false
	rejected := map[string]int{} // id -> REQs that did not reach the downstream handler
	forwardedReq := map[string]int{}
	for i, o := range ops {
		if !o.req {
			continue
		}
		got := gotReq[i] > 0
		if got {
			forwardedReq[o.id]++
		} else {
			rejected[o.id]++
		}
		switch {
		case got && !forward[i]:
			h.Fail("C18/quota: REQ forwarded although N ids were open", detail)
			specific = true
		case !got && forward[i] && why[i] == "open":
			h.Fail("C18/quota: REQ rejected although its id was already open", detail)
			specific = true
		case !got && forward[i] && why[i] == "freed":
			h.Fail("C18/quota: slot not freed by CLOSE", detail)
			specific = true
		case !got && forward[i]:
			h.Fail("C18/quota: REQ rejected although fewer than N ids were open", detail)
			specific = true
		}
	}
	if strings.Join(wantSeq, "|") != strings.Join(gotSeq, "|") && !specific {
		h.Fail("C18/quota: downstream did not receive exactly the forwarded messages in order", detail+fmt.Sprintf("; want [%s]", strings.Join(wantSeq, ", ")))
	}
	// replies: one CLOSED per rejected REQ naming its id, one EOSE per forwarded REQ, nothing else
	closed := map[string]int{}
	eose := map[string]int{}
	for _, g := range c.Got {
		switch m := g.Msg.(type) {
		case *mocrelay.ServerClosedMsg:
			closed[m.SubscriptionID]++
		case *mocrelay.ServerEOSEMsg:
			eose[m.SubscriptionID]++
		default:
			h.Fail("C18/quota: unexpected server message", detail)
		}
	}
	for _, id := range []string{"a", "b", "c"} {
		if closed[id] != rejected[id] {
			h.Fail("C18/quota: rejected REQ not answered with exactly one CLOSED naming its id", detail)
		}
		if eose[id] != forwardedReq[id] {
			h.Fail("C18/quota: EOSE of a forwarded REQ did not reach the client (or was duplicated)", detail)
		}
	}
	for id := range closed {
		if id != "a" && id != "b" && id != "c" {
			h.Fail("C18/quota: rejected REQ not answered with exactly one CLOSED naming its id", detail)
		}
	}
	nrej := 0
	for _, v := range rejected {
		nrej += v
	}
	return fmt.Sprintf("%d rejected", nrej)
}

// QuotaHistory runs one client history through NewMaxSubscriptionsMiddleware(N).
// params: n (quota), len, code (history, base 5, first message = least significant digit).
func QuotaHistory(h *vsched.H) {
	n, L, code := h.Param("n", 1), h.Param("len", 1), h.Param("code", 0)
	ops := c18QuotaHistory(L, code)
	stub := &c18Stub{}
	hd := mocrelay.NewMaxSubscriptionsMiddleware(n)(stub)
	log := &c18Log{}
	c := c18Conn(h, "c", hd, log)
	msgs := quotaMsgs(ops)
	go c18Read(c)
	go c18Write(c, msgs)
	h.WaitQuiescent()
	h.Observe(quotaOracle(h, n, ops, c, log))
}

// ---------------------------------------------------------------- unique filters

var c18UniqueIDs = []byte{'a', 'b', 'c'} // x, y, z of the design: hex digits so that the ids are valid event ids

func c18UniqueHistory(L, code int) []byte {
	ids := make([]byte, L)
	for i := 0; i < L; i++ {
		ids[i] = c18UniqueIDs[code%3]
		code /= 3
	}
	return ids
}

const (
	uMustPass = iota
	uMustBlock
	uUnclaimed
)

// uniqueModel is the three-valued reference: position i must be blocked iff its id is among the
// last size distinct ids seen before i, must pass iff the id never occurred before, else unclaimed.
func uniqueModel(ids []byte, size int) []int {
	out := make([]int, len(ids))
	for i := range ids {
		var w []byte
		seenBefore := false
		for j := i - 1; j >= 0; j-- {
			if ids[j] == ids[i] {
				seenBefore = true
			}
			dup := false
			for _, x := range w {
				if x == ids[j] {
					dup = true
				}
			}
			if !dup && len(w) < size {
				w = append(w, ids[j])
			}
		}
		inW := false
		for _, x := range w {
			if x == ids[i] {
				inW = true
			}
		}
		switch {
		case inW:
			out[i] = uMustBlock
		case !seenBefore:
			out[i] = uMustPass
		default:
			out[i] = uUnclaimed
		}
	}
	return out
}

// uniqueRecvOracle: which positions of the client's EVENT history reached the downstream
// handler, and were the others answered properly. Returns pass flags per position.
func uniqueRecvOracle(h *vsched.H, size int, ids []byte, c *Conn, log *c18Log, extra int) (passed []bool, unclaimed int) {
	detail := fmt.Sprintf("window=%d; client EVENT ids [%s]; downstream received [%s]; client got [%s]", size, string(ids), c18RecvString(log), c.GotString())
	passed = make([]bool, len(ids))
	for _, s := range c.Sent {
		if s.Ret == 0 {
			h.Fail("C18/unique(recv): client message not taken by the middleware", detail)
			return
		}
	}
	cnt := map[int]int{}
	last := -1
	nonEvent := 0
	for _, m := range log.Recv {
		e, ok := m.(*mocrelay.ClientEventMsg)
		if !ok {
			nonEvent++
			continue
		}
		p := int(e.Event.CreatedAt) - 100
		if p < 0 || p >= len(ids) || e.Event.ID != Hex(ids[p], 64) {
			h.Fail("C18/unique(recv): downstream received an EVENT the client did not send", detail)
			continue
		}
		cnt[p]++
		if p < last {
			h.Fail("C18/unique(recv): forwarded EVENTs out of order", detail)
		}
		last = p
	}
	if nonEvent != extra {
		h.Fail("C18/unique(recv): a message that is not an EVENT did not pass unchanged", detail)
	}
	model := uniqueModel(ids, size)
	wantFalse := map[string]int{}
	wantTrue := map[string]int{}
	for i := range ids {
		if cnt[i] > 1 {
			h.Fail("C18/unique(recv): one EVENT forwarded twice", detail)
		}
		passed[i] = cnt[i] > 0
		switch {
		case model[i] == uMustBlock && passed[i]:
			h.Fail("C18/unique(recv): repeated id within the window forwarded", detail)
		case model[i] == uMustPass && !passed[i]:
			h.Fail("C18/unique(recv): never-seen id rejected", detail)
		case model[i] == uUnclaimed:
			unclaimed++
		}
		if passed[i] {
			wantTrue[Hex(ids[i], 64)]++
		} else {
			wantFalse[Hex(ids[i], 64)]++
		}
	}
	gotFalse := map[string]int{}
	gotTrue := map[string]int{}
	for _, g := range c.Got {
		switch m := g.Msg.(type) {
		case *mocrelay.ServerOKMsg:
			if m.Accepted {
				gotTrue[m.EventID]++
			} else {
				gotFalse[m.EventID]++
				if !strings.HasPrefix(m.Message(), mocrelay.MachineReadablePrefixDuplicate) {
					h.Fail("C18/unique(recv): rejection lacks the duplicate: prefix", detail)
				}
			}
		case *mocrelay.ServerEOSEMsg, *mocrelay.ServerCountMsg:
		default:
			h.Fail("C18/unique(recv): unexpected server message", detail)
		}
	}
	for _, id := range c18UniqueIDs {
		k := Hex(id, 64)
		if gotFalse[k] != wantFalse[k] {
			h.Fail("C18/unique(recv): blocked EVENT not answered with exactly one OK false", detail)
		}
		if gotTrue[k] != wantTrue[k] {
			h.Fail("C18/unique(recv): downstream's OK for a forwarded EVENT did not reach the client", detail)
		}
	}
	return
}

// uniqueSendOracle: which positions of the downstream's EVENT emissions reached the client.
func uniqueSendOracle(h *vsched.H, size int, ids []byte, c *Conn, log *c18Log) (passed []bool, unclaimed int) {
	detail := fmt.Sprintf("window=%d; downstream EVENT ids [%s]; downstream received [%s]; client got [%s]", size, string(ids), c18RecvString(log), c.GotString())
	passed = make([]bool, len(ids))
	for _, s := range c.Sent {
		if s.Ret == 0 {
			h.Fail("C18/unique(send): client message not taken by the middleware", detail)
			return
		}
	}
	if len(log.Recv) != len(c.Sent) {
		h.Fail("C18/unique(send): a client message did not pass unchanged", detail)
		return
	}
	for i, m := range log.Recv {
		if CMsgString(m) != CMsgString(c.Sent[i].Msg) {
			h.Fail("C18/unique(send): a client message did not pass unchanged", detail)
		}
	}
	nEv := 0
	for _, m := range log.Taken {
		if _, ok := m.(*mocrelay.ServerEventMsg); ok {
			nEv++
		}
	}
	if nEv != len(ids) {
		h.Fail("C18/unique(send): the middleware stopped taking the downstream's messages", detail)
		return
	}
	cnt := map[int]int{}
	last := -1
	var other, wantOther []string
	for _, m := range log.Taken {
		if _, ok := m.(*mocrelay.ServerEventMsg); !ok {
			wantOther = append(wantOther, SMsgString(m))
		}
	}
	for _, g := range c.Got {
		e, ok := g.Msg.(*mocrelay.ServerEventMsg)
		if !ok {
			other = append(other, SMsgString(g.Msg))
			continue
		}
		p := -1
		if e.Event != nil {
			p = int(e.Event.CreatedAt) - 100
		}
		if p < 0 || p >= len(ids) || e.Event.ID != Hex(ids[p], 64) || e.SubscriptionID != "t" {
			h.Fail("C18/unique(send): client received an EVENT the downstream did not emit", detail)
			continue
		}
		cnt[p]++
		if p < last {
			h.Fail("C18/unique(send): delivered EVENTs out of order", detail)
		}
		last = p
	}
	if strings.Join(other, "|") != strings.Join(wantOther, "|") {
		h.Fail("C18/unique(send): a message that is not an EVENT did not pass unchanged", detail)
	}
	model := uniqueModel(ids, size)
	for i := range ids {
		if cnt[i] > 1 {
			h.Fail("C18/unique(send): one EVENT delivered twice", detail)
		}
		passed[i] = cnt[i] > 0
		switch {
		case model[i] == uMustBlock && passed[i]:
			h.Fail("C18/unique(send): repeated id within the window delivered", detail)
		case model[i] == uMustPass && !passed[i]:
			h.Fail("C18/unique(send): never-seen id not delivered", detail)
		case model[i] == uUnclaimed:
			unclaimed++
		}
	}
	return
}

func uniqueRecvMsgs(ids []byte) []mocrelay.ClientMsg {
	// a REQ first and a COUNT last: messages that are not EVENTs must pass unchanged
	msgs := []mocrelay.ClientMsg{ReqMsg("s")}
	for i, id := range ids {
		msgs = append(msgs, EventMsg(Ev(id, '1', 1, int64(100+i))))
	}
	return append(msgs, CountMsg("k"))
}

// UniqueHistory runs one EVENT-id history through a unique filter.
// params: side (0 recv, 1 send), size (window), len, code (base 3).
func UniqueHistory(h *vsched.H) {
	side, size, L, code := h.Param("side", 0), h.Param("size", 1), h.Param("len", 1), h.Param("code", 0)
	ids := c18UniqueHistory(L, code)
	log := &c18Log{}
	var unclaimed int
	if side == 0 {
		hd := mocrelay.NewRecvEventUniqueFilterMiddleware(size)(&c18Stub{})
		c := c18Conn(h, "c", hd, log)
		go c18Read(c)
		go c18Write(c, uniqueRecvMsgs(ids))
		h.WaitQuiescent()
		_, unclaimed = uniqueRecvOracle(h, size, ids, c, log, 2)
	} else {
		hd := mocrelay.NewSendEventUniqueFilterMiddleware(size)(&c18Stub{emit: ids})
		c := c18Conn(h, "c", hd, log)
		go c18Read(c)
		// an EVENT and a REQ "s" around the trigger: client messages and non-EVENT replies pass unchanged
		go c18Write(c, []mocrelay.ClientMsg{EventMsg(Ev('d', '1', 1, 50)), ReqMsg("t"), ReqMsg("s")})
		h.WaitQuiescent()
		_, unclaimed = uniqueSendOracle(h, size, ids, c, log)
	}
	h.Observe(fmt.Sprintf("unclaimed=%d", unclaimed))
}

// ---------------------------------------------------------------- isolation

var C18IsolationNames = []string{"MaxSubscriptions", "RecvEventUniqueFilter", "SendEventUniqueFilter"}

// Scripts of the two sessions per (middleware, variant). Quota (N=1): op lists; unique filters
// (window 2): event-id lists (client EVENTs for the receive side, downstream EVENTs for the
// send side). The ids collide between the sessions on purpose.
var c18IsoQuota = [][2][]quotaOp{
	{{{true, "a"}, {true, "b"}}, {{true, "a"}, {true, "b"}}},
	{{{true, "a"}, {true, "b"}}, {{true, "b"}, {true, "a"}}},
	{{{true, "a"}, {true, "b"}, {false, "a"}, {true, "b"}}, {{true, "b"}, {true, "a"}, {false, "b"}, {true, "a"}}},
}

var c18IsoUnique = [][2]string{
	{"aa", "aa"},
	{"aba", "aab"},
	{"abca", "baab"},
}

// C18IsolationVariants is the number of script variants per middleware.
const C18IsolationVariants = 3

// StatefulIsolation runs two concurrent sessions with colliding ids over ONE middleware value and
// one shared stub; each session must behave exactly as the model says it behaves alone.
// params: mw (0 MaxSubscriptions(1), 1 RecvEventUniqueFilter(2), 2 SendEventUniqueFilter(2)), variant,
// seq (1: session B starts only after session A has ended - state must not survive a connection either).
func StatefulIsolation(h *vsched.H) {
	mw, variant, seq := h.Param("mw", 0), h.Param("variant", 0), h.Param("seq", 0) == 1
	logs := []*c18Log{{}, {}}
	var conns []*Conn
	var hd mocrelay.Handler
	switch mw {
	case 0:
		hd = mocrelay.NewMaxSubscriptionsMiddleware(1)(&c18Stub{})
	case 1:
		hd = mocrelay.NewRecvEventUniqueFilterMiddleware(2)(&c18Stub{})
	case 2:
		hd = mocrelay.NewSendEventUniqueFilterMiddleware(2)(&c18Stub{})
	case 3:
		// the chain built from a NIP-11 document (C17): its max_subscriptions is per connection too
		hd = mocrelay.BuildMiddlewareFromNIP11(&mocrelay.NIP11{Limitation: &mocrelay.NIP11Limitation{MaxSubscriptions: 1, MaxFilters: 5}})(&c18Stub{})
	}
	for i, name := range []string{"A", "B"} {
		var msgs []mocrelay.ClientMsg
		switch mw {
		case 0, 3:
			msgs = quotaMsgs(c18IsoQuota[variant][i])
		case 1:
			for p, id := range []byte(c18IsoUnique[variant][i]) {
				msgs = append(msgs, EventMsg(Ev(id, '1', 1, int64(100+p))))
			}
		case 2:
			logs[i].emit = []byte(c18IsoUnique[variant][i])
			msgs = []mocrelay.ClientMsg{ReqMsg("t")}
		}
		c := c18Conn(h, name, hd, logs[i])
		conns = append(conns, c)
		go c18Read(c)
		go c18Write(c, msgs)
		if seq && i == 0 {
			h.WaitQuiescent()
			c.Cancel()
			h.WaitQuiescent()
			if !c.ServeDone {
				h.Fail("C18/isolation harness: the first session did not end after cancel", name)
				return
			}
		}
	}
	h.WaitQuiescent()
	sig := ""
	if mw == 3 {
		sig = "C17/NIP-11: the max_subscriptions state of the chain leaks between connections"
	} else {
		sig = "C18/isolation: " + C18IsolationNames[mw] + " state leaks between connections"
	}
	for i, c := range conns {
		var diff []string
		add := func(format string, a ...any) { diff = append(diff, fmt.Sprintf(format, a...)) }
		if len(c.Sent) == 0 {
			add("client message not taken")
		}
		for _, s := range c.Sent {
			if s.Ret == 0 {
				add("client message not taken")
			}
		}
		switch mw {
		case 0, 3:
			ops := c18IsoQuota[variant][i]
			forward, _ := quotaModel(ops, 1)
			seen := map[int]bool{}
			for _, m := range logs[i].Recv {
				if r, ok := m.(*mocrelay.ClientReqMsg); ok {
					seen[c18ReqPos(r)] = true
				}
			}
			wantClosed := 0
			for p, o := range ops {
				if !o.req {
					continue
				}
				if !forward[p] {
					wantClosed++
				}
				if seen[p] != forward[p] {
					add("REQ #%d forwarded=%v, alone %v", p, seen[p], forward[p])
				}
			}
			closed := 0
			for _, g := range c.Got {
				if _, ok := g.Msg.(*mocrelay.ServerClosedMsg); ok {
					closed++
				}
			}
			if closed != wantClosed {
				add("%d CLOSED, alone %d", closed, wantClosed)
			}
		case 1, 2:
			ids := []byte(c18IsoUnique[variant][i])
			model := uniqueModel(ids, 2)
			seen := map[int]bool{}
			if mw == 1 {
				for _, m := range logs[i].Recv {
					if e, ok := m.(*mocrelay.ClientEventMsg); ok {
						seen[int(e.Event.CreatedAt)-100] = true
					}
				}
			} else {
				for _, g := range c.Got {
					if e, ok := g.Msg.(*mocrelay.ServerEventMsg); ok && e.Event != nil {
						seen[int(e.Event.CreatedAt)-100] = true
					}
				}
			}
			blocked := 0
			for p := range ids {
				if !seen[p] {
					blocked++
				}
				if model[p] != uUnclaimed && seen[p] != (model[p] == uMustPass) {
					add("EVENT #%d passed=%v, alone %v", p, seen[p], model[p] == uMustPass)
				}
			}
			if mw == 1 {
				nFalse := 0
				for _, g := range c.Got {
					if ok, isOK := g.Msg.(*mocrelay.ServerOKMsg); isOK && !ok.Accepted {
						nFalse++
					}
				}
				if nFalse != blocked {
					add("%d OK false for %d blocked EVENTs", nFalse, blocked)
				}
			}
		}
		if len(diff) > 0 {
			h.Failf(sig, "session %s: %s; sent [%s]; downstream received [%s]; client got [%s]; other session: downstream received [%s], client got [%s]",
				c.Name, strings.Join(diff, "; "), c.SentString(), c18RecvString(logs[i]), c.GotString(), c18RecvString(logs[1-i]), conns[1-i].GotString())
		}
	}
	h.Observe("equal to alone")
}

// ---------------------------------------------------------------- quota above another limit

// Alphabet of QuotaOverFilters (base 5): REQ a, REQ b, REQ a with 2 filters, REQ b with 2 filters, CLOSE a.
var C18OverNames = []string{"REQ a", "REQ b", "REQ a (2 filters)", "REQ b (2 filters)", "CLOSE a"}

// QuotaOverFilters: the quota middleware stacked ABOVE MaxReqFilters(1): a REQ with two filters is
// refused further inside with a CLOSED that travels back through the quota middleware, while the
// downstream handler never sees that REQ. Whatever the quota middleware makes of such a CLOSED,
// the first clause of the property stands: at every moment at most N distinct subscription ids
// are open downstream. params: n, len, code (base 5).
func QuotaOverFilters(h *vsched.H) {
	n, L, code := h.Param("n", 1), h.Param("len", 1), h.Param("code", 0)
	stub := &c18Stub{}
	hd := mocrelay.NewMaxSubscriptionsMiddleware(n)(mocrelay.NewMaxReqFiltersMiddleware(1)(stub))
	log := &c18Log{}
	c := c18Conn(h, "c", hd, log)
	var msgs []mocrelay.ClientMsg
	var names []string
	for i := 0; i < L; i++ {
		d := code % 5
		code /= 5
		names = append(names, C18OverNames[d])
		switch d {
		case 0:
			msgs = append(msgs, c18Req("a", i))
		case 1:
			msgs = append(msgs, c18Req("b", i))
		case 2:
			msgs = append(msgs, ReqMsg("a", &mocrelay.ReqFilter{}, &mocrelay.ReqFilter{}))
		case 3:
			msgs = append(msgs, ReqMsg("b", &mocrelay.ReqFilter{}, &mocrelay.ReqFilter{}))
		default:
			msgs = append(msgs, CloseMsg("a"))
		}
	}
	go c18Read(c)
	go c18Write(c, msgs)
	h.WaitQuiescent()
	detail := fmt.Sprintf("N=%d above MaxReqFilters(1); history [%s]; downstream received [%s]; client got [%s]", n, strings.Join(names, ", "), c18RecvString(log), c.GotString())
	for _, s := range c.Sent {
		if s.Ret == 0 {
			h.Fail("C18/quota above another limit: client message not taken", detail)
			return
		}
	}
	open := map[string]bool{}
	for _, m := range log.Recv {
		switch m := m.(type) {
		case *mocrelay.ClientReqMsg:
			if len(m.ReqFilters) > 1 {
				h.Fail("C18/quota above another limit: a REQ above the inner limit reached the downstream handler", detail)
			}
			open[m.SubscriptionID] = true
		case *mocrelay.ClientCloseMsg:
			delete(open, m.SubscriptionID)
		}
		if len(open) > n {
			h.Fail("C18/quota: more than N distinct subscription ids open downstream", detail)
			return
		}
	}
	h.Observe(fmt.Sprintf("%d msgs downstream", len(log.Recv)))
}
