// Package vk is the shared plumbing of every check: tiers, evidence files, known findings,
// VIOLATION lines and exit codes. It knows nothing about mocrelay.
package vk

import (
	"encoding/json"
	"fmt"
	"os"
	"path/filepath"
	"sort"
	"strconv"
	"strings"
	"sync"
	"time"
)

// Root is the framework directory (overridable for development in a scratch checkout).
var Root = func() string {
	if r := os.Getenv("VERIF_ROOT"); r != "" {
		return r
	}
	return "/verif"
}()

// Part is what one sub-check (one binary run) reports; the driver merges parts into the
// evidence file of a property.
type Part struct {
	Name               string         `json:"name"`
	Property           string         `json:"property"`
	Evaluations        int64          `json:"evaluations"`
	DistinctNontrivial int64          `json:"distinct_nontrivial"`
	Rule               string         `json:"rule"`
	Samples            []any          `json:"samples"`
	States             int64          `json:"states,omitempty"`
	Transitions        int64          `json:"transitions,omitempty"`
	TracesValidated    int64          `json:"traces_validated_against_impl,omitempty"`
	Exhaustive         bool           `json:"exhaustive"`
	Bound              string         `json:"bound_completed,omitempty"`
	Caps               []string       `json:"caps,omitempty"`
	DistinctOutcomes   int64          `json:"distinct_outcomes,omitempty"`
	UnclaimedHits      int64          `json:"unclaimed_hits,omitempty"`
	Extra              map[string]any `json:"extra,omitempty"`
	Assumptions        []string       `json:"assumptions,omitempty"`
	Violations         []Violation    `json:"violations,omitempty"`
	KnownFindingsSeen  []string       `json:"known_findings_seen,omitempty"`
	WallS              float64        `json:"wall_s"`
	Infra              string         `json:"infra,omitempty"`
}

type Violation struct {
	Property  string `json:"property"`
	Signature string `json:"signature"`
	Detail    string `json:"detail"`
	Replay    any    `json:"replay,omitempty"`
	Count     int    `json:"count"`
}

type Finding struct {
	Property  string `json:"property"`
	Status    string `json:"status"` // "known" | "fixed"
	Signature string `json:"signature"`
	Commit    string `json:"commit,omitempty"`
	What      string `json:"what"`
}

func LoadFindings() []Finding {
	b, err := os.ReadFile(filepath.Join(Root, "known_findings.json"))
	if err != nil {
		return nil
	}
	var fs []Finding
	if err := json.Unmarshal(b, &fs); err != nil {
		fmt.Fprintf(os.Stderr, "INFRA: known_findings.json unreadable: %v\n", err)
		os.Exit(2)
	}
	return fs
}

// Ctx is handed to a sub-check.
type Ctx struct {
	Prop  string
	Name  string
	Tier  string
	Seed  int64
	Args  map[string]string
	start time.Time

	mu   sync.Mutex
	P    Part
	viol map[string]*Violation
	dist map[string]struct{}
	outc map[string]struct{}

	MaxSamples int
}

func (c *Ctx) Thorough() bool { return c.Tier == "thorough" }

// Pick returns q in the quick tier and t in the thorough tier.
func Pick[T any](c *Ctx, q, t T) T {
	if c.Thorough() {
		return t
	}
	return q
}

func (c *Ctx) Arg(k, def string) string {
	if v, ok := c.Args[k]; ok {
		return v
	}
	return def
}

func (c *Ctx) ArgInt(k string, def int) int {
	if v, ok := c.Args[k]; ok {
		n, err := strconv.Atoi(v)
		if err == nil {
			return n
		}
	}
	return def
}

func (c *Ctx) Eval(n int64) { c.mu.Lock(); c.P.Evaluations += n; c.mu.Unlock() }

// Distinct records a distinct non-trivial case by key (measured set cardinality).
func (c *Ctx) Distinct(key string) {
	c.mu.Lock()
	c.dist[key] = struct{}{}
	c.mu.Unlock()
}

// DistinctN adds n cases that are distinct by construction of the enumeration.
func (c *Ctx) DistinctN(n int64) { c.mu.Lock(); c.P.DistinctNontrivial += n; c.mu.Unlock() }

func (c *Ctx) Outcome(key string) {
	c.mu.Lock()
	c.outc[key] = struct{}{}
	c.mu.Unlock()
}

func (c *Ctx) Unclaimed(n int64) { c.mu.Lock(); c.P.UnclaimedHits += n; c.mu.Unlock() }

func (c *Ctx) Sample(v any) {
	c.mu.Lock()
	if len(c.P.Samples) < c.MaxSamples {
		c.P.Samples = append(c.P.Samples, v)
	}
	c.mu.Unlock()
}

func (c *Ctx) Assume(s string) {
	c.mu.Lock()
	for _, a := range c.P.Assumptions {
		if a == s {
			c.mu.Unlock()
			return
		}
	}
	c.P.Assumptions = append(c.P.Assumptions, s)
	c.mu.Unlock()
}

func (c *Ctx) Cap(s string) {
	c.mu.Lock()
	c.P.Caps = append(c.P.Caps, s)
	c.P.Exhaustive = false
	c.mu.Unlock()
}

func (c *Ctx) SetExtra(k string, v any) {
	c.mu.Lock()
	if c.P.Extra == nil {
		c.P.Extra = map[string]any{}
	}
	c.P.Extra[k] = v
	c.mu.Unlock()
}

// Violate records a violation with a stable signature (what known_findings.json matches on).
// Only the first occurrence of a signature keeps its detail and replay artefact.
func (c *Ctx) Violate(signature, detail string, replay any) {
	c.ViolateProp(c.Prop, signature, detail, replay)
}

// ViolateProp is Violate for sub-checks that serve several properties at once.
func (c *Ctx) ViolateProp(prop, signature, detail string, replay any) {
	c.mu.Lock()
	defer c.mu.Unlock()
	k := prop + "\x00" + signature
	if v, ok := c.viol[k]; ok {
		v.Count++
		return
	}
	c.viol[k] = &Violation{Property: prop, Signature: signature, Detail: detail, Replay: replay, Count: 1}
}

func (c *Ctx) NViolations() int { c.mu.Lock(); defer c.mu.Unlock(); return len(c.viol) }

func (c *Ctx) Infra(format string, a ...any) {
	msg := fmt.Sprintf(format, a...)
	fmt.Fprintf(os.Stderr, "INFRA: %s\n", msg)
	c.mu.Lock()
	c.P.Infra = msg
	c.mu.Unlock()
	c.finish()
	os.Exit(2)
}

func (c *Ctx) finish() {
	c.mu.Lock()
	defer c.mu.Unlock()
	c.P.DistinctNontrivial += int64(len(c.dist))
	c.P.DistinctOutcomes += int64(len(c.outc))
	c.P.WallS = time.Since(c.start).Seconds()
	keys := make([]string, 0, len(c.viol))
	for k := range c.viol {
		keys = append(keys, k)
	}
	sort.Strings(keys)
	for _, k := range keys {
		c.P.Violations = append(c.P.Violations, *c.viol[k])
	}
	out := os.Getenv("VK_PART_OUT")
	b, _ := json.MarshalIndent(&c.P, "", " ")
	if out != "" {
		if err := os.WriteFile(out, b, 0o644); err != nil {
			fmt.Fprintf(os.Stderr, "INFRA: cannot write part: %v\n", err)
			os.Exit(2)
		}
	} else {
		os.Stdout.Write(b)
		fmt.Println()
	}
}

// RunPart is the main() of a sub-check binary: `bin <part> [k=v ...]`; tier and seed come from
// VERIF_TIER / VERIF_SEED. The part result goes to $VK_PART_OUT (or stdout).
func RunPart(parts map[string]func(*Ctx)) {
	if len(os.Args) < 2 {
		names := make([]string, 0, len(parts))
		for n := range parts {
			names = append(names, n)
		}
		sort.Strings(names)
		fmt.Fprintf(os.Stderr, "usage: %s <part> [k=v ...]; parts: %s\n", os.Args[0], strings.Join(names, " "))
		os.Exit(2)
	}
	name := os.Args[1]
	f, ok := parts[name]
	if !ok {
		fmt.Fprintf(os.Stderr, "INFRA: unknown part %q\n", name)
		os.Exit(2)
	}
	c := NewCtx(os.Getenv("VK_PROP"), name)
	for _, a := range os.Args[2:] {
		if i := strings.IndexByte(a, '='); i > 0 {
			c.Args[a[:i]] = a[i+1:]
		}
	}
	f(c)
	c.finish()
}

func NewCtx(prop, name string) *Ctx {
	tier := os.Getenv("VERIF_TIER")
	if tier != "thorough" {
		tier = "quick"
	}
	seed, _ := strconv.ParseInt(os.Getenv("VERIF_SEED"), 10, 64)
	c := &Ctx{Prop: prop, Name: name, Tier: tier, Seed: seed, Args: map[string]string{}, start: time.Now(),
		viol: map[string]*Violation{}, dist: map[string]struct{}{}, outc: map[string]struct{}{}, MaxSamples: 6}
	c.P.Name = name
	c.P.Property = prop
	c.P.Exhaustive = true
	return c
}

// Finish is for drivers that build a Ctx by hand.
func (c *Ctx) Finish() { c.finish() }
