package main

import (
	"context"
	"fmt"
	"os"
	"path/filepath"
	"sort"
	"strings"

	"github.com/high-moctane/mocrelay"
	"github.com/high-moctane/mocrelay/handler/sqlite"
	"verifkit/faultsql"
	"verifkit/vk"
)

func init() { parts["sqlite-bigbatch"] = sqliteBigBatch }

// sqliteBigBatch: atomicity and retry for a batch of the size the handler really writes (the
// default EventBulkInsertNum is 1000): a fault at a driver call late in such a batch must leave
// nothing of it behind. The small batches of sqlite-fault cannot see a transaction scope that
// depends on the batch size.
func sqliteBigBatch(c *vk.Ctx) {
	ctx := context.Background()
	dir, err := os.MkdirTemp(os.Getenv("VK_WORK"), "bigbatch-")
	if err != nil {
		c.Infra("%v", err)
	}
	defer os.RemoveAll(dir)
	n := 1000
	hex := func(i int) string { return fmt.Sprintf("%064x", 0xabc000000+i) }
	pk := strings.Repeat("1", 64)
	var batch []*mocrelay.Event
	for i := 0; i < n; i++ {
		batch = append(batch, &mocrelay.Event{ID: hex(i), Pubkey: pk, CreatedAt: int64(1000 + i), Kind: 1,
			Tags: []mocrelay.Tag{{"t", fmt.Sprintf("v%d", i%7)}, {"e", hex((i + 1) % n)}}, Content: fmt.Sprintf("note %d", i), Sig: strings.Repeat("0", 128)})
	}
	pre := &mocrelay.Event{ID: strings.Repeat("f", 64), Pubkey: pk, CreatedAt: 5, Kind: 1, Tags: []mocrelay.Tag{{"t", "v0"}}, Content: "before", Sig: strings.Repeat("0", 128)}
	filters := [][]*mocrelay.ReqFilter{{{}}, {{Tags: map[string][]string{"t": {"v0"}}}}, {{Kinds: []int64{1}, Limit: func() *int64 { v := int64(3); return &v }()}}}
	observe := func(path string, plan *faultsql.Plan) (string, error) {
		db, err := openFile(ctx, path, plan)
		if err != nil {
			return "", err
		}
		defer db.Close()
		var parts []string
		for _, fs := range filters {
			evs, err := sqlite.VerifQueryEvent(ctx, db, fixedSeed, fs, sqlite.NoLimit)
			if err != nil {
				return "", err
			}
			ids := make([]string, len(evs))
			for i, e := range evs {
				ids[i] = e.ID[56:]
			}
			parts = append(parts, fmt.Sprintf("%d:%s", len(evs), strings.Join(ids[:min(len(ids), 5)], ",")))
		}
		for _, tbl := range []string{"events", "event_payloads", "event_tags"} {
			var cnt int64
			if err := db.QueryRowContext(ctx, "select count(*) from "+tbl).Scan(&cnt); err != nil {
				return "", err
			}
			parts = append(parts, fmt.Sprintf("%s=%d", tbl, cnt))
		}
		return strings.Join(parts, " | "), nil
	}
	mk := func(name string) (string, *faultsql.Plan) {
		path := filepath.Join(dir, name+".db")
		removeDBFiles(path)
		plan := faultsql.NewPlan()
		db, err := openFile(ctx, path, plan)
		if err != nil {
			c.Infra("open: %v", err)
		}
		if err := sqlite.VerifInsertEvents(ctx, db, fixedSeed, []*mocrelay.Event{pre}); err != nil {
			c.Infra("pre-state: %v", err)
		}
		db.Close()
		return path, plan
	}
	// reference run: count the driver calls of the batch, remember the answers before and after
	path, plan := mk("ref")
	before, err := observe(path, plan)
	if err != nil {
		c.Infra("observe: %v", err)
	}
	db, err := openFile(ctx, path, plan)
	if err != nil {
		c.Infra("open: %v", err)
	}
	plan.Arm(-1, faultsql.ModeNone)
	if err := sqlite.VerifInsertEvents(ctx, db, fixedSeed, batch); err != nil {
		c.Infra("fault-free insertion of the big batch failed: %v", err)
	}
	ncalls, kinds, _ := plan.Disarm()
	db.Close()
	after, err := observe(path, plan)
	if err != nil {
		c.Infra("observe: %v", err)
	}
	if before == after {
		c.Infra("the big batch changed nothing")
	}
	// fault points: every call that is not an exec, every exec at a stride, the last three calls
	stride := vk.Pick(c, ncalls/96+1, ncalls/400+1)
	pick := map[int]bool{}
	for k, kind := range kinds {
		if !strings.HasPrefix(kind, "exec") || k%stride == stride/2 || k >= ncalls-3 {
			pick[k] = true
		}
	}
	var ks []int
	for k := range pick {
		ks = append(ks, k)
	}
	sort.Ints(ks)
	c.P.Bound = fmt.Sprintf("one batch of %d events (%d driver calls); fault (error) at %d of them: every begin/prepare/commit, every %d-th exec, the last three", n, ncalls, len(ks), stride)
	c.P.Rule = "E4: a batch of the size the handler writes by default; for each chosen driver call k: fresh file database with one stored event, the call fails once: insertEvents must report an error and three queries plus the row counts of events, event_payloads, event_tags must read exactly as before the batch; the fault-free retry must read exactly as one fault-free insertion"
	for _, k := range ks {
		if c.NViolations() >= 8 {
			break
		}
		path, plan := mk(fmt.Sprintf("k%d", k))
		db, err := openFile(ctx, path, plan)
		if err != nil {
			c.Infra("open: %v", err)
		}
		plan.Arm(k, faultsql.ModeError)
		ierr := sqlite.VerifInsertEvents(ctx, db, fixedSeed, batch)
		_, _, fired := plan.Disarm()
		stats := db.Stats()
		db.Close()
		c.Eval(1)
		where := fmt.Sprintf("fault at call %d of %d (%s)", k, ncalls, kinds[k])
		if fired == "" {
			continue // the call sequence differed (nothing to judge)
		}
		c.DistinctN(1)
		if stats.InUse > 0 {
			c.Violate("C14/atomicity (batch of 1000): a transaction was left open after the failed batch", where, map[string]any{"call": k})
			continue
		}
		if ierr == nil {
			c.Violate("C14/atomicity (batch of 1000): insertEvents reports success although a driver call failed ("+kindClass(kinds[k])+")", where, map[string]any{"call": k})
		}
		got, err := observe(path, plan)
		if err != nil {
			c.Infra("observe: %v", err)
		}
		if got != before {
			c.Violate("C14/atomicity (batch of 1000): a failed batch left part of itself behind", fmt.Sprintf("%s: before the batch %q, after its failure %q", where, before, got), map[string]any{"call": k})
			continue
		}
		db, err = openFile(ctx, path, plan)
		if err != nil {
			c.Infra("open: %v", err)
		}
		if err := sqlite.VerifInsertEvents(ctx, db, fixedSeed, batch); err != nil {
			c.Violate("C14/idempotence (batch of 1000): the fault-free retry fails", fmt.Sprintf("%s: %v", where, err), map[string]any{"call": k})
		}
		db.Close()
		got, err = observe(path, plan)
		if err != nil {
			c.Infra("observe: %v", err)
		}
		if got != after {
			c.Violate("C14/idempotence (batch of 1000): retry after a failed batch differs from one successful insertion", fmt.Sprintf("%s: retry gives %q, one insertion gives %q", where, got, after), map[string]any{"call": k})
		}
		removeDBFiles(path)
	}
	c.Outcome("failed big batch invisible, retry equals one insertion")
}
