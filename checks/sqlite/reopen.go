package main

import (
	"context"
	"database/sql"
	"fmt"
	"os"
	"path/filepath"
	"sync/atomic"
	"time"

	"github.com/high-moctane/mocrelay"
	"github.com/high-moctane/mocrelay/handler/sqlite"
	"verifkit/faultsql"
	"verifkit/vk"
)

const ruleC14Reopen = "for every history of ≤ 3 batches over an 8-batch alphabet on a file database and EVERY subset of batch boundaries at which the database is closed and reopened " +
	"(new *sql.DB, Migrate again, seed loaded again and used from then on): the loaded seed equals the stored one and the full battery answers exactly as in the never-reopened run; " +
	"plus explicit cross-restart cases (replacement, deletion after, deletion before, duplicate) judged against the spec"

func reopenBatches() []op {
	return []op{
		namesOp("r1"),
		namesOp("v1"),
		namesOp("v2"),
		namesOp("a1", "r2"),
		namesOp("a3"),
		namesOp("k_ea"),
		namesOp("r3", "w1"),
		namesOp("k_x", "eph"),
	}
}

type reopenReplay struct {
	Part    string     `json:"part"`
	History [][]string `json:"history"`
	Mask    int        `json:"reopen_after_batch_mask"`
}

type reopenRun struct {
	h    history
	mask int
	real bool
	// results
	si       *stateInfo
	seedDiff string
	infra    error
	done     bool
}

type reopenRig struct {
	ctx     context.Context
	dir     string
	battery []*query
	seq     atomic.Int64
	memo    *batteryMemo
}

// open opens the file database as the handler would (Migrate, then load the seed); on first use
// the fixed seed row is written before the seed is loaded.
func (r *reopenRig) open(path string, first bool) (*sql.DB, uint32, error) {
	db := faultsql.OpenDB(fileDSN(path), nil)
	db.SetMaxOpenConns(1)
	if err := sqlite.Migrate(r.ctx, db); err != nil {
		db.Close()
		return nil, 0, fmt.Errorf("migrate: %w", err)
	}
	if first {
		if _, err := db.ExecContext(r.ctx, "insert into xxhash_seed(seed) values (?)", fixedSeed); err != nil {
			db.Close()
			return nil, 0, fmt.Errorf("seed: %w", err)
		}
	}
	seed, err := sqlite.VerifSetOrLoadSeed(r.ctx, db)
	if err != nil {
		db.Close()
		return nil, 0, fmt.Errorf("load seed: %w", err)
	}
	return db, seed, nil
}

func (r *reopenRig) run(t *reopenRun) {
	path := filepath.Join(r.dir, fmt.Sprintf("r%d.db", r.seq.Add(1)))
	defer removeDBFiles(path)
	db, seed, err := r.open(path, true)
	if err != nil {
		t.infra = err
		return
	}
	if seed != fixedSeed {
		t.seedDiff = fmt.Sprintf("seed row %d written, first load returned %d", fixedSeed, seed)
	}
	for i, o := range t.h {
		if err := sqlite.VerifInsertEvents(r.ctx, db, seed, o.events()); err != nil {
			t.infra = fmt.Errorf("insert %s: %w", o, err)
			db.Close()
			return
		}
		if t.mask&(1<<uint(i)) != 0 {
			if err := db.Close(); err != nil {
				t.infra = fmt.Errorf("close: %w", err)
				return
			}
			var s2 uint32
			db, s2, err = r.open(path, false)
			if err != nil {
				t.infra = err
				return
			}
			if s2 != seed && t.seedDiff == "" {
				t.seedDiff = fmt.Sprintf("seed %d before closing, %d after reopening (after batch %d)", seed, s2, i)
			}
			seed = s2 // the handler keeps working with whatever it loaded
		}
	}
	t.si, err = r.memo.observe(r.ctx, db, seed, r.battery, t.real)
	db.Close()
	if err != nil {
		t.infra = err
		return
	}
	t.done = true
}

func sqliteReopen(c *vk.Ctx) {
	ctx := context.Background()
	c.P.Rule = ruleC14Reopen
	c.MaxSamples = 8
	if err := checkNoKeyCollision(); err != nil {
		c.Infra("assumption broken: %v", err)
	}
	c.Assume(fmt.Sprintf("hash seed fixed to %d by writing the seed row right after the first Migrate (one extra case lets the store draw its own random seed and only checks that it comes back)", fixedSeed))
	c.Assume("close/reopen is a clean shutdown (sql.DB.Close) of a WAL-mode file database; crash restarts are covered by sqlite-fault (kill mode)")

	dir, err := os.MkdirTemp("", "verif-sqlite-reopen-")
	if err != nil {
		c.Infra("%v", err)
	}
	cleanup := func() { os.RemoveAll(dir) }
	defer cleanup()
	infra := func(format string, a ...any) { cleanup(); c.Infra(format, a...) }

	r := &reopenRig{ctx: ctx, dir: dir, battery: buildBattery(), memo: newBatteryMemo()}
	nw := workers(c)
	budget := time.Duration(c.ArgInt("budget_s", vk.Pick(c, 600, 3000))) * time.Second
	start := time.Now()
	depth := c.ArgInt("depth", 3)
	batches := reopenBatches()

	report := func(runs []*reopenRun, replayOnly bool) (done int) {
		sigSeen := map[string]bool{}
		var base *reopenRun
		for _, t := range runs {
			if t.infra != nil {
				infra("reopen run %s mask %b: %v", t.h, t.mask, t.infra)
			}
			if !t.done {
				continue
			}
			done++
			if t.mask == 0 {
				base = t
				c.Outcome(t.si.fingerprint(true))
			}
			rp := reopenReplay{Part: "sqlite-reopen", History: t.h.names(), Mask: t.mask}
			if t.seedDiff != "" {
				c.ViolateProp("C14", "C14/reopen: hash seed changed across reopen", fmt.Sprintf("history %s, reopen after batches (bit mask) %b: %s", t.h, t.mask, t.seedDiff), rp)
			}
			if t.mask != 0 && base != nil && base.done {
				c.Eval(int64(len(r.battery)))
				same, tie, d := sameAnswers(base.si, t.si, r.battery)
				if tie {
					c.Unclaimed(1)
				}
				if !same {
					detail := ""
					if !sigSeen["ans"] {
						sigSeen["ans"] = true
						detail = fmt.Sprintf("history %s, closed and reopened after batches (bit mask, bit i = after batch i) %b: never reopened versus reopened: %s", t.h, t.mask, d)
					}
					c.ViolateProp("C14", "C14/reopen: answers differ after close/reopen", detail, rp)
				}
			}
		}
		return done
	}

	var rp reopenReplay
	if loadReplay(c, &rp) {
		h, err := historyFromNames(rp.History)
		if err != nil {
			infra("replay: %v", err)
		}
		runs := []*reopenRun{{h: h, mask: 0, real: true}, {h: h, mask: rp.Mask, real: true}}
		for _, t := range runs {
			r.run(t)
		}
		report(runs, true)
		c.P.Bound = "replay of one history"
		return
	}

	// enumeration: histories in canonical order (shortest first), for each all masks, mask 0 first
	var runs []*reopenRun
	var hists []history
	var gen func(h history)
	gen = func(h history) {
		if len(h) > 0 {
			hists = append(hists, append(history(nil), h...))
		}
		if len(h) == depth {
			return
		}
		for _, o := range batches {
			gen(append(h, o))
		}
	}
	gen(nil)
	// shortest first
	for l := 1; l <= depth; l++ {
		for _, h := range hists {
			if len(h) != l {
				continue
			}
			for m := 0; m < 1<<uint(l); m++ {
				runs = append(runs, &reopenRun{h: h, mask: m})
			}
		}
	}
	realEvery := c.ArgInt("real_every", vk.Pick(c, 16, 1))
	nReal := 0
	for i, t := range runs {
		t.real = len(t.h) <= 2 || i%realEvery == 0
		if t.real {
			nReal++
		}
	}
	var capped atomic.Bool
	parallel(nw, len(runs), func(i int) {
		if capped.Load() {
			return
		}
		if time.Since(start) > budget {
			capped.Store(true)
			return
		}
		r.run(runs[i])
	})
	done := report(runs, false)
	if done < len(runs) {
		c.Cap(fmt.Sprintf("wall budget %s reached: %d of %d runs", budget, done, len(runs)))
	}
	for i, t := range runs {
		if i%613 == 7 {
			c.Sample(map[string]any{"history": t.h.String(), "reopen_after_batch_mask": fmt.Sprintf("%b", t.mask)})
		}
	}

	// explicit cross-restart cases, judged against the spec
	type xcase struct {
		sig    string
		before op
		after  op
		q      *mocrelay.ReqFilter
		want   []string // event names expected, as a set
	}
	addrPx := fmt.Sprintf("30000:%s:x", pkP)
	_ = addrPx
	cases := []xcase{
		{"C14/reopen: newer version inserted after reopen does not replace the stored one (replaceable)", namesOp("v1"), namesOp("v2"), &mocrelay.ReqFilter{Kinds: []int64{0}, Authors: []string{pkP}}, []string{"v2"}},
		{"C14/reopen: newer version inserted after reopen does not replace the stored one (addressable)", namesOp("a1"), namesOp("a3"), &mocrelay.ReqFilter{Kinds: []int64{30000}}, []string{"a3"}},
		{"C14/reopen: older version inserted after reopen replaces the stored newer one", namesOp("v2"), namesOp("v1"), &mocrelay.ReqFilter{Kinds: []int64{0}}, []string{"v2"}},
		{"C14/reopen: deletion request after reopen does not hide its earlier target (e reference)", namesOp("r1", "r3"), namesOp("k_e_r1"), &mocrelay.ReqFilter{Kinds: []int64{1}}, []string{"r3"}},
		{"C14/reopen: deletion request after reopen does not hide its earlier target (a reference)", namesOp("a1", "b2"), namesOp("k_a"), &mocrelay.ReqFilter{Kinds: []int64{30000}}, []string{"b2"}},
		{"C14/reopen: target inserted after reopen is not hidden by the earlier request (e reference)", namesOp("k_e_r1"), namesOp("r1", "r3"), &mocrelay.ReqFilter{Kinds: []int64{1}}, []string{"r3"}},
		{"C14/reopen: target inserted after reopen is not hidden by the earlier request (a reference)", namesOp("k_a"), namesOp("a1", "b2"), &mocrelay.ReqFilter{Kinds: []int64{30000}}, []string{"b2"}},
		{"C14/reopen: event inserted again after reopen is stored twice or lost", namesOp("r1", "v1", "a1"), namesOp("r1", "v1", "a1"), &mocrelay.ReqFilter{}, []string{"r1", "v1", "a1"}},
		{"C14/reopen: deletion by another author after reopen hides the event", namesOp("r1"), namesOp("kq_e_r1"), &mocrelay.ReqFilter{Kinds: []int64{1}}, []string{"r1"}},
	}
	for ci, xc := range cases {
		path := filepath.Join(dir, fmt.Sprintf("x%d.db", ci))
		db, seed, err := r.open(path, true)
		if err != nil {
			infra("explicit case: %v", err)
		}
		if err := sqlite.VerifInsertEvents(ctx, db, seed, xc.before.events()); err != nil {
			infra("explicit case insert: %v", err)
		}
		db.Close()
		db, seed2, err := r.open(path, false)
		if err != nil {
			infra("explicit case reopen: %v", err)
		}
		if seed2 != seed {
			c.ViolateProp("C14", "C14/reopen: hash seed changed across reopen", fmt.Sprintf("explicit case %d: %d then %d", ci, seed, seed2), nil)
		}
		if err := sqlite.VerifInsertEvents(ctx, db, seed2, xc.after.events()); err != nil {
			infra("explicit case insert after reopen: %v", err)
		}
		got, err := sqlite.VerifQueryEvent(ctx, db, seed2, []*mocrelay.ReqFilter{xc.q}, sqlite.NoLimit)
		db.Close()
		removeDBFiles(path)
		c.Eval(1)
		c.DistinctN(1)
		ok := err == nil && len(got) == len(xc.want)
		if ok {
			seen := map[string]bool{}
			for _, g := range got {
				seen[g.ID] = true
			}
			for _, n := range xc.want {
				if !seen[E(n).ID] {
					ok = false
				}
			}
		}
		if !ok {
			var names []string
			for _, g := range got {
				if x, known := byID[g.ID]; known {
					names = append(names, alphabet[x].name)
				} else {
					names = append(names, g.ID)
				}
			}
			c.ViolateProp("C14", xc.sig, fmt.Sprintf("insert %s; close; reopen; insert %s; query %s: want %v, got %v (err %v)", xc.before, xc.after, fstr(xc.q), xc.want, names, err), nil)
		}
	}

	// a store that draws its own seed must find it again after reopening
	{
		path := filepath.Join(dir, "own-seed.db")
		db, s1, err := r.open(path, false) // no pinned row: setOrLoadXXHashSeed generates one
		if err != nil {
			infra("own seed: %v", err)
		}
		db.Close()
		for i := 0; i < 3; i++ {
			db, s2, err := r.open(path, false)
			if err != nil {
				infra("own seed reopen: %v", err)
			}
			var rows int
			db.QueryRowContext(ctx, "select count(*) from xxhash_seed").Scan(&rows)
			db.Close()
			c.Eval(1)
			if s2 != s1 || rows != 1 {
				c.ViolateProp("C14", "C14/reopen: hash seed changed across reopen", fmt.Sprintf("store-drawn seed: first open returned %d, reopen %d returned %d; xxhash_seed holds %d row(s)", s1, i+1, s2, rows), nil)
				break
			}
		}
		removeDBFiles(path)
	}

	c.DistinctN(int64(done))
	c.P.TracesValidated = int64(done)
	c.P.Bound = fmt.Sprintf("all %d histories of ≤ %d batches over %d batches × every subset of batch boundaries (%d runs) + %d explicit cross-restart cases + store-drawn seed case", len(hists), depth, len(batches), len(runs), len(cases))
	c.SetExtra("histories", len(hists))
	c.SetExtra("runs", len(runs))
	c.SetExtra("runs_done", done)
	c.SetExtra("explicit_cases", len(cases))
	c.SetExtra("battery_filter_lists", len(r.battery))
	c.SetExtra("workers", nw)
	c.SetExtra("runs_with_battery_asked_of_the_implementation", nReal)
	c.SetExtra("battery_runs_on_impl", atomic.LoadInt64(&r.memo.runs))
	c.SetExtra("queries_on_impl", atomic.LoadInt64(&r.memo.runs)*int64(len(r.battery)))
	c.SetExtra("battery_answers_shared_between_equal_table_dumps", atomic.LoadInt64(&r.memo.hits))
	if nReal < len(runs) {
		c.Assume("runs not marked real share the battery answers of a database whose five tables, seed row and loaded seed are identical (the dump is read from the reopened file); all runs of ≤ 2 batches and every 16th longer run ask the implementation")
	}
	if r.memo.mismatch != "" {
		infra("assumption broken: two databases with identical table dumps answered differently: %s", r.memo.mismatch)
	}
}
