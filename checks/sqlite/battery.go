package main

import (
	"fmt"
	"sort"
	"strings"

	"github.com/high-moctane/mocrelay"
	"verifkit/refmodel"
)

func p64(v int64) *int64 { return &v }

// filt is one filter of the battery with its precomputed match row over the alphabet.
type filt struct {
	f     *mocrelay.ReqFilter
	match []bool // per alphabet index, by the reference predicate (C02)
}

// query is one filter list of the battery.
type query struct {
	fs    []*filt
	empty bool // the empty filter LIST: unclaimed
}

func (q *query) filters() []*mocrelay.ReqFilter {
	r := make([]*mocrelay.ReqFilter, len(q.fs))
	for i, f := range q.fs {
		r[i] = f.f
	}
	return r
}

func (q *query) String() string {
	ss := make([]string, len(q.fs))
	for i, f := range q.fs {
		ss[i] = fstr(f.f)
	}
	return "[" + strings.Join(ss, ", ") + "]"
}

func shortList(xs []string) string {
	ss := make([]string, len(xs))
	for i, x := range xs {
		ss[i] = shortStr(x)
	}
	return "[" + strings.Join(ss, " ") + "]"
}

func fstr(f *mocrelay.ReqFilter) string {
	var parts []string
	if f.IDs != nil {
		parts = append(parts, "ids:"+shortList(f.IDs))
	}
	if f.Authors != nil {
		parts = append(parts, "authors:"+shortList(f.Authors))
	}
	if f.Kinds != nil {
		parts = append(parts, fmt.Sprintf("kinds:%v", f.Kinds))
	}
	if f.Tags != nil {
		ks := make([]string, 0, len(f.Tags))
		for k := range f.Tags {
			ks = append(ks, k)
		}
		sort.Strings(ks)
		for _, k := range ks {
			parts = append(parts, "#"+k+":"+shortList(f.Tags[k]))
		}
		if len(ks) == 0 {
			parts = append(parts, "tags:{}")
		}
	}
	if f.Since != nil {
		parts = append(parts, fmt.Sprintf("since:%d", *f.Since))
	}
	if f.Until != nil {
		parts = append(parts, fmt.Sprintf("until:%d", *f.Until))
	}
	if f.Limit != nil {
		parts = append(parts, fmt.Sprintf("limit:%d", *f.Limit))
	}
	return "{" + strings.Join(parts, " ") + "}"
}

// filterClass names the shape of a filter (which conditions are present), for signatures.
func filterClass(f *mocrelay.ReqFilter) string {
	var parts []string
	if f.IDs != nil {
		parts = append(parts, "ids")
	}
	if f.Authors != nil {
		parts = append(parts, "authors")
	}
	if f.Kinds != nil {
		parts = append(parts, "kinds")
	}
	if f.Tags != nil {
		ks := make([]string, 0, len(f.Tags))
		for k := range f.Tags {
			ks = append(ks, "#"+k)
		}
		sort.Strings(ks)
		parts = append(parts, ks...)
	}
	if f.Since != nil {
		parts = append(parts, "since")
	}
	if f.Until != nil {
		parts = append(parts, "until")
	}
	if f.Limit != nil {
		parts = append(parts, "limit")
	}
	if len(parts) == 0 {
		return "empty filter"
	}
	return strings.Join(parts, "+")
}

func mkFilt(f *mocrelay.ReqFilter) *filt {
	m := make([]bool, len(alphabet))
	for i, a := range alphabet {
		m[i] = refmodel.MatchFilter(f, a.e)
	}
	return &filt{f: f, match: m}
}

func withLimit(f mocrelay.ReqFilter, l int64) *mocrelay.ReqFilter {
	f.Limit = p64(l)
	return &f
}

// buildBattery returns the single-filter lists, the ordered pairs over a 15-filter core and the
// empty list.
func buildBattery() []*query {
	r1, r2, r3, a3 := E("r1").ID, E("r2").ID, E("r3").ID, E("a3").ID
	addrPx := fmt.Sprintf("30000:%s:x", pkP)
	tag := func(kv ...any) map[string][]string {
		m := map[string][]string{}
		for i := 0; i+1 < len(kv); i += 2 {
			m[kv[i].(string)] = kv[i+1].([]string)
		}
		return m
	}
	S := func(s ...string) []string {
		if s == nil {
			return []string{}
		}
		return s
	}
	K := func(k ...int64) []int64 {
		if k == nil {
			return []int64{}
		}
		return k
	}
	var singles []*mocrelay.ReqFilter
	add := func(f mocrelay.ReqFilter) { singles = append(singles, &f) }

	add(mocrelay.ReqFilter{}) // the empty filter
	// ids
	for _, ids := range [][]string{S(), S(r1), S(r1, a3), S(idU), S(r1, r1), S(idU, r2)} {
		add(mocrelay.ReqFilter{IDs: ids})
	}
	// authors
	for _, au := range [][]string{S(), S(pkP), S(pkQ), S(pkP, pkQ), S(pkU)} {
		add(mocrelay.ReqFilter{Authors: au})
	}
	// kinds
	for _, ks := range [][]int64{K(), K(1), K(0), K(5), K(30000), K(1, 5), K(0, 30000), K(20001), K(99)} {
		add(mocrelay.ReqFilter{Kinds: ks})
	}
	// combinations of ids / authors / kinds
	add(mocrelay.ReqFilter{IDs: S(r1), Authors: S(pkP)})
	add(mocrelay.ReqFilter{IDs: S(r1), Authors: S(pkQ)})
	add(mocrelay.ReqFilter{IDs: S(r1, r3), Kinds: K(1)})
	add(mocrelay.ReqFilter{IDs: S(r1), Kinds: K(0)})
	add(mocrelay.ReqFilter{Authors: S(pkP), Kinds: K(1)})
	add(mocrelay.ReqFilter{Authors: S(pkQ), Kinds: K(1)})
	add(mocrelay.ReqFilter{Authors: S(pkP), Kinds: K(0)})
	add(mocrelay.ReqFilter{Authors: S(pkP), Kinds: K(30000)})
	add(mocrelay.ReqFilter{Authors: S(pkP), Kinds: K(5)})
	add(mocrelay.ReqFilter{Authors: S(pkQ), Kinds: K(5)})
	add(mocrelay.ReqFilter{Authors: S(pkP, pkQ), Kinds: K(1, 0)})
	add(mocrelay.ReqFilter{IDs: S(r1, r2, a3), Authors: S(pkP), Kinds: K(1, 30000)})
	add(mocrelay.ReqFilter{IDs: S(), Authors: S(pkP)})
	add(mocrelay.ReqFilter{Authors: S(pkP), Kinds: K()})
	// tag conditions
	add(mocrelay.ReqFilter{Tags: tag()})
	add(mocrelay.ReqFilter{Tags: tag("e", S(r1))})
	add(mocrelay.ReqFilter{Tags: tag("e", S(r2))})
	add(mocrelay.ReqFilter{Tags: tag("e", S(r1, r3))})
	add(mocrelay.ReqFilter{Tags: tag("e", S())})
	add(mocrelay.ReqFilter{Tags: tag("e", S(idU))})
	add(mocrelay.ReqFilter{Tags: tag("p", S(pkQ))})
	add(mocrelay.ReqFilter{Tags: tag("p", S(pkP))})
	add(mocrelay.ReqFilter{Tags: tag("t", S("tag"))})
	add(mocrelay.ReqFilter{Tags: tag("t", S("other", "none"))})
	add(mocrelay.ReqFilter{Tags: tag("t", S("tag", "other"))})
	add(mocrelay.ReqFilter{Tags: tag("d", S("x"))})
	add(mocrelay.ReqFilter{Tags: tag("d", S(""))})
	add(mocrelay.ReqFilter{Tags: tag("d", S("x", ""))})
	add(mocrelay.ReqFilter{Tags: tag("a", S(addrPx))})
	add(mocrelay.ReqFilter{Tags: tag("e", S("wss://relay.example"))}) // a value that only occurs as an extra element
	add(mocrelay.ReqFilter{Tags: tag("e", S(r1), "t", S("tag"))})
	add(mocrelay.ReqFilter{Tags: tag("e", S(r1), "p", S(pkQ))})
	add(mocrelay.ReqFilter{Tags: tag("t", S("tag"), "d", S("x"))})
	add(mocrelay.ReqFilter{Tags: tag("e", S(r2), "a", S(addrPx))})
	add(mocrelay.ReqFilter{Tags: tag("e", S(r1), "t", S("tag"), "p", S(pkQ))})
	add(mocrelay.ReqFilter{Tags: tag("e", S(r1), "d", S("x"))})
	add(mocrelay.ReqFilter{Tags: tag("t", S("tag")), Kinds: K(1)})
	add(mocrelay.ReqFilter{Tags: tag("e", S(r1)), Authors: S(pkQ)})
	add(mocrelay.ReqFilter{Tags: tag("d", S("x")), Kinds: K(30000), Authors: S(pkP)})
	add(mocrelay.ReqFilter{Tags: tag("e", S(r1)), Kinds: K(5)})
	add(mocrelay.ReqFilter{Tags: tag("a", S(addrPx)), Kinds: K(5), Authors: S(pkP)})
	add(mocrelay.ReqFilter{Tags: tag("t", S("tag")), IDs: S(r2, r3)})
	// since / until around {1,2,3}
	for s := int64(0); s <= 4; s++ {
		add(mocrelay.ReqFilter{Since: p64(s)})
		add(mocrelay.ReqFilter{Until: p64(s)})
	}
	for _, su := range [][2]int64{{1, 1}, {2, 2}, {3, 3}, {1, 2}, {2, 3}, {1, 3}, {3, 1}, {0, 4}} {
		add(mocrelay.ReqFilter{Since: p64(su[0]), Until: p64(su[1])})
	}
	add(mocrelay.ReqFilter{Since: p64(2), Kinds: K(1)})
	add(mocrelay.ReqFilter{Until: p64(2), Authors: S(pkP)})
	add(mocrelay.ReqFilter{Since: p64(2), Until: p64(2), Tags: tag("t", S("tag"))})
	add(mocrelay.ReqFilter{Since: p64(3), Kinds: K(5, 30000)})
	// limits
	bases := []mocrelay.ReqFilter{
		{},
		{Kinds: K(1)},
		{Authors: S(pkP)},
		{Tags: tag("t", S("tag"))},
		{Since: p64(2)},
		{Until: p64(2)},
		{Kinds: K(1, 5)},
		{Authors: S(pkP), Kinds: K(1, 0)},
		{IDs: S(r1, r2)},
		{Tags: tag("e", S(r1), "t", S("tag"))},
	}
	// one tag key listing SEVERAL values, with a limit: an event carrying two of the listed values
	// (r3) has two index rows, which must count once against the limit
	multi := []mocrelay.ReqFilter{
		{Tags: tag("e", S(r1, idU))},
		{Tags: tag("t", S("tag", "other"))},
		{Tags: tag("e", S(r1, idU), "t", S("tag", "other"))},
		{Tags: tag("e", S(r1, idU)), Kinds: K(1, 30000, 5)},
	}
	for _, b := range multi {
		add(b)
		for _, l := range []int64{1, 2, 3} {
			add(*withLimit(b, l))
		}
	}
	for _, b := range bases {
		for _, l := range []int64{0, 1, 2, 3} {
			add(*withLimit(b, l))
		}
	}

	core := []*mocrelay.ReqFilter{
		{},
		{Limit: p64(1)},
		{Limit: p64(0)},
		{Limit: p64(2)},
		{Kinds: K(1)},
		{Kinds: K(1), Limit: p64(1)},
		{Authors: S(pkP)},
		{Authors: S(pkQ), Limit: p64(1)},
		{IDs: S(r1)},
		{Tags: tag("e", S(r1))},
		{Tags: tag("t", S("tag", "other")), Limit: p64(1)},
		{Since: p64(2)},
		{Until: p64(2), Limit: p64(1)},
		{Kinds: K(0, 30000)},
		{Kinds: K(5)},
	}

	var qs []*query
	for _, f := range singles {
		qs = append(qs, &query{fs: []*filt{mkFilt(f)}})
	}
	cf := make([]*filt, len(core))
	for i, f := range core {
		cf[i] = mkFilt(f)
	}
	for _, a := range cf {
		for _, b := range cf {
			qs = append(qs, &query{fs: []*filt{a, b}})
		}
	}
	// three overlapping filters at once
	qs = append(qs, &query{fs: []*filt{cf[5], cf[7], cf[10]}})
	qs = append(qs, &query{fs: []*filt{cf[1], cf[1], cf[1]}})
	qs = append(qs, &query{fs: []*filt{mkFilt(withLimit(multi[0], 2)), mkFilt(withLimit(multi[1], 2))}})
	qs = append(qs, &query{fs: []*filt{mkFilt(withLimit(multi[0], 2)), cf[0]}})
	// the empty filter list (REQ needs at least one filter): unclaimed, only exercised
	qs = append(qs, &query{empty: true})
	return qs
}
