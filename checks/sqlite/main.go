// Command sqlite holds the sub-checks of properties C06 (SQLite store queries = spec over stored
// live events) and C14 (batches atomic, idempotent, restart-stable). It needs the white-box
// accessor /verif/overlay/sqlite/access.go (build tag verif, injected by the driver's overlay).
package main

import (
	"os"
	"runtime/pprof"

	"verifkit/vk"
)

var parts = map[string]func(*vk.Ctx){
	"sqlite-bfs":    sqliteBFS,
	"sqlite-fault":  sqliteFault,
	"sqlite-reopen": sqliteReopen,
	"sqlite-retry":  sqliteRetry,
}

func main() {
	if os.Getenv("VERIF_SQLITE_MEMSTATUS") != "on" {
		if err := disableSQLiteMemstatus(); err != nil {
			println("note: " + err.Error() + " (continuing with memory statistics on: slower, same results)")
		}
	}
	if len(os.Args) > 1 && os.Args[1] == childPartName {
		faultChild() // hidden part: the crash-point child of sqlite-fault (never returns normally)
		return
	}
	if f := os.Getenv("VERIF_CPUPROFILE"); f != "" { // development aid
		if w, err := os.Create(f); err == nil {
			pprof.StartCPUProfile(w)
			for name, fn := range parts {
				fn := fn
				parts[name] = func(c *vk.Ctx) { fn(c); pprof.StopCPUProfile(); w.Close() }
			}
		}
	}
	if len(os.Args) > 1 && os.Args[1] == retryChildName {
		retryChild() // hidden part: the synctest bubbles of sqlite-retry (testing.Main exits the process)
		return
	}
	vk.RunPart(parts)
}
