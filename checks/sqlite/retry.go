package main

import (
	"bufio"
	"bytes"
	"context"
	"encoding/json"
	"fmt"
	"os"
	"os/exec"
	"path/filepath"
	"runtime/debug"
	"sort"
	"strconv"
	"strings"
	"sync"
	"testing"
	"testing/synctest"
	"time"

	"github.com/high-moctane/mocrelay"
	"github.com/high-moctane/mocrelay/handler/sqlite"
	"verifkit/faultsql"
	"verifkit/vk"
)

// sqlite-retry: the REAL handler (NewSQLiteHandler with EventBulkInsertNum=1: its bulk-insert
// goroutine, bulkInsertWithRetry, the back-off timers) in a testing/synctest bubble, on top of
// the fault driver. A bubble needs a *testing.T, which a normal binary only gets from
// testing.Main (which ends in os.Exit and prints PASS): the bubbles therefore run in child
// processes of this binary (hidden part retryChildName), one shard of the case list each, and
// report one line per case on stdout.

const retryChildName = "sqlite-retry-child"
const retryLinePrefix = "VRETRY "

// retryClaimAtomicOnly (child argument claim=atomic, part argument retry_claim=atomic) weakens the
// oracle to "whole events, each at most once": an acknowledged event that is lost after one or
// two failing attempts is then only counted, not reported. Default: it is reported.
var retryClaimAtomicOnly bool

const ruleC14Retry = "real handler in a synctest bubble (virtual time): for every script × target event × j ∈ {0..3} failing attempts × failing call kind (begin, each prepare, each exec kind, commit) × mode " +
	"(error on an in-memory database, lost connection on a file database): every EVENT is answered by an accepting OK; 10 virtual seconds later the store (asked through REQ, full battery) answers " +
	"exactly as after inserting some set of whole script events once each - never partially or twice - and that set is the whole script when j ≤ 2; attempt a+1 begins not earlier than (1s << a) after attempt a failed; " +
	"no insertion activity after the 10 s; after cancelling the context no goroutine of the bubble is left"

type retryScript struct {
	what string
	evs  []string
}

func retryScripts() []retryScript {
	return []retryScript{
		{"older then newer version of a replaceable address", []string{"v1", "v2"}},
		{"event then the deletion request that hides it", []string{"r1", "k_e_r1"}},
		{"deletion request (e and a references) then its target", []string{"k_ea", "r1"}},
		{"addressable event with tags then an event with several values of one tag", []string{"a1", "r3"}},
		{"the same event twice (the handler drops the second before inserting)", []string{"r1", "r1"}},
	}
}

// retryCase is one bubble.
type retryCase struct {
	ID     int    `json:"id"`
	Script int    `json:"script"`
	Target int    `json:"target"` // index of the event whose insertion attempts fail
	J      int    `json:"j"`      // number of failing attempts
	Kind   string `json:"kind"`   // failing call kind ("" when J == 0)
	Mode   string `json:"mode"`   // error (in-memory database) | drop (file database)
}

func (rc retryCase) String() string {
	sc := retryScripts()[rc.Script]
	if rc.J == 0 {
		return fmt.Sprintf("script %v (%s), no fault, %s database", sc.evs, sc.what, map[string]string{"error": "in-memory", "drop": "file"}[rc.Mode])
	}
	return fmt.Sprintf("script %v (%s): the first %d insertion attempt(s) of event #%d (%s) fail at %s, mode %s", sc.evs, sc.what, rc.J, rc.Target, sc.evs[rc.Target], rc.Kind, rc.Mode)
}

type retryViol struct {
	Sig    string `json:"sig"`
	Detail string `json:"detail"`
}

type retryResult struct {
	Case      retryCase   `json:"case"`
	Viols     []retryViol `json:"viols,omitempty"`
	Infra     string      `json:"infra,omitempty"`
	Outcome   string      `json:"outcome"`
	Attempts  int         `json:"attempts"`
	BeginsMs  []int64     `json:"begins_ms"` // virtual instants of the begin calls
	Evals     int64       `json:"evals"`
	Queries   int64       `json:"queries"`
	Unclaimed int64       `json:"unclaimed"`
	Fired     int         `json:"fired"` // planned faults that fired
}

// retryBattery is the battery asked through REQ (the empty filter list cannot be a REQ).
func retryBattery(full bool) []*query {
	var qs []*query
	for i, q := range buildBattery() {
		if q.empty {
			continue
		}
		if !full {
			lim := false
			for _, f := range q.fs {
				if f.f.Limit != nil {
					lim = true
				}
			}
			if len(q.fs) > 1 && i%6 != 0 || len(q.fs) == 1 && !lim && i%2 != 0 {
				continue
			}
		}
		qs = append(qs, q)
	}
	return qs
}

// learnKinds runs a script fault-free in a bubble and returns the call kinds of every attempt.
func learnKinds(h *bubbleHarness, dir string, script int) ([][]string, string) {
	res := runRetryBubble(h, dir, retryCase{ID: -1, Script: script, J: 0, Mode: "error"}, nil, true)
	if res.Infra != "" {
		return nil, res.Infra
	}
	// per event of the script: the calls of the first attempt that carries it (an event whose id
	// was sent before is dropped by the handler and has no attempt of its own)
	seen := map[string]bool{}
	var out [][]string
	for _, n := range retryScripts()[script].evs {
		if seen[n] {
			break
		}
		seen[n] = true
		found := false
		for a, tag := range res.tags {
			if tag == E(n).ID {
				out = append(out, res.kinds[a])
				found = true
				break
			}
		}
		if !found {
			break
		}
	}
	return out, ""
}

// enumerateRetryCases is deterministic; parent and children compute the same list.
func enumerateRetryCases(kindsOf func(script int) [][]string) []retryCase {
	var cases []retryCase
	for si := range retryScripts() {
		kinds := kindsOf(si)
		for _, mode := range []string{"error", "drop"} {
			cases = append(cases, retryCase{Script: si, J: 0, Mode: mode})
			for target := 0; target < len(kinds); target++ {
				seen := map[string]bool{}
				for _, k := range kinds[target] {
					if seen[k] {
						continue
					}
					seen[k] = true
					for j := 1; j <= 3; j++ {
						cases = append(cases, retryCase{Script: si, Target: target, J: j, Kind: k, Mode: mode})
					}
				}
			}
		}
	}
	for i := range cases {
		cases[i].ID = i
	}
	return cases
}

// ---------------------------------------------------------------------------------------------
// bubbles

type bubbleHarness struct{ t *testing.T }

// runBubble runs body in a fresh bubble; a bubble that cannot end (goroutines left, or body
// blocked for ever) is reported instead of crashing: the runtime raises the deadlock panic on the
// goroutine that called synctest.Test, which is this one.
func (h *bubbleHarness) runBubble(body func()) (panicked, deadlock string) {
	defer func() {
		if r := recover(); r != nil {
			deadlock = fmt.Sprint(r)
		}
	}()
	synctest.Test(h.t, func(*testing.T) {
		defer func() {
			if r := recover(); r != nil {
				panicked = fmt.Sprintf("%v\n%s", r, debug.Stack())
			}
		}()
		body()
	})
	return
}

type retryRun struct {
	retryResult
	kinds [][]string // call kinds per attempt (learning runs)
	tags  []string   // per attempt: the event id bound to its first `events` statement
}

// refAnswers inserts the events directly (white-box accessor, one batch each) into a fresh
// in-memory database and asks the battery: "every event inserted exactly once".
func refAnswers(names []string, battery []*query) (*stateInfo, error) {
	ctx := context.Background()
	db, err := openMem(ctx)
	if err != nil {
		return nil, err
	}
	defer db.Close()
	for _, n := range names {
		// "inserted once" = until one insertion reports success (insertion is idempotent)
		var err error
		for try := 0; try < 3; try++ {
			if err = sqlite.VerifInsertEvents(ctx, db, fixedSeed, []*mocrelay.Event{E(n)}); err == nil {
				break
			}
		}
		if err != nil {
			return nil, fmt.Errorf("reference insert %s: %w", n, err)
		}
	}
	return runBattery(ctx, db, fixedSeed, battery), nil
}

func runRetryBubble(h *bubbleHarness, dir string, rc retryCase, battery []*query, learn bool) (out retryRun) {
	out.Case = rc
	sc := retryScripts()[rc.Script]
	viol := func(sig, format string, a ...any) {
		out.Viols = append(out.Viols, retryViol{sig, rc.String() + ": " + fmt.Sprintf(format, a...)})
	}

	// references (outside the bubble: plain direct insertions): for every subset of the script's
	// events, the answers after inserting exactly those events once each
	var refs []*stateInfo // index = bit mask over the script's events
	full := 1<<uint(len(sc.evs)) - 1
	if !learn {
		for m := 0; m <= full; m++ {
			var names []string
			for i, n := range sc.evs {
				if m&(1<<uint(i)) != 0 {
					names = append(names, n)
				}
			}
			r, err := refAnswers(names, battery)
			if err != nil {
				out.Infra = err.Error()
				return
			}
			refs = append(refs, r)
		}
	}

	dsn := ":memory:"
	path := ""
	if rc.Mode == "drop" {
		path = filepath.Join(dir, fmt.Sprintf("retry-%d-%d.db", os.Getpid(), rc.ID))
		dsn = fileDSN(path)
		defer removeDBFiles(path)
	}
	mode := modeOf(rc.Mode)

	var afterShutdown bool
	panicked, deadlock := h.runBubble(func() {
		ctx, cancel := context.WithCancel(context.Background())
		defer cancel()
		plan := faultsql.NewPlan()
		db := faultsql.OpenDB(dsn, plan)
		db.SetMaxOpenConns(1)
		dbOpen := true
		defer func() {
			if dbOpen {
				db.Close()
			}
		}()
		if err := prepareDB(ctx, db); err != nil {
			out.Infra = "prepare: " + err.Error()
			return
		}
		hd, err := sqlite.NewSQLiteHandler(ctx, db, &sqlite.SQLiteHandlerOption{EventBulkInsertNum: 1, EventBulkInsertDur: 0, MaxLimit: sqlite.NoLimit})
		if err != nil {
			out.Infra = "NewSQLiteHandler: " + err.Error()
			return
		}
		send := make(chan mocrelay.ServerMsg)
		recv := make(chan mocrelay.ClientMsg)
		var serveMu sync.Mutex
		served := false
		go func() {
			hd.ServeNostr(ctx, send, recv)
			serveMu.Lock()
			served = true
			serveMu.Unlock()
		}()

		// the fault schedule: in the attempts first..first+J-1 fail the first call of kind Kind.
		// `first` is fixed at run time: the events before the target are sent first and the
		// handler is left to settle (10 virtual seconds, quiescent) before the target is sent, so
		// every attempt from then on belongs to the target or to the events queued behind it.
		var fmu sync.Mutex
		first := 1 << 30
		firedIn := map[int]bool{}
		plan.ArmFunc(func(ci faultsql.CallInfo) faultsql.Mode {
			fmu.Lock()
			defer fmu.Unlock()
			if rc.J == 0 || ci.Attempt < first || ci.Attempt >= first+rc.J || ci.Kind != rc.Kind || firedIn[ci.Attempt] {
				return faultsql.ModeNone
			}
			firedIn[ci.Attempt] = true
			return mode
		})
		t0 := time.Now()

		// read one server message with a (virtual) deadline, so that a handler that never
		// answers is a finding and not a hang
		read := func() (mocrelay.ServerMsg, bool) {
			select {
			case m := <-send:
				return m, true
			case <-time.After(60 * time.Second):
				return nil, false
			}
		}
		write := func(m mocrelay.ClientMsg) bool {
			select {
			case recv <- m:
				return true
			case <-time.After(60 * time.Second):
				return false
			}
		}

		// EVENTs
		for i, n := range sc.evs {
			if i == rc.Target {
				if i > 0 {
					synctest.Wait()
					time.Sleep(10 * time.Second)
					synctest.Wait()
				}
				begins := 0
				for _, r := range plan.Records() {
					if r.Kind == "begin" {
						begins++
					}
				}
				fmu.Lock()
				first = begins
				fmu.Unlock()
				t0 = time.Now()
			}
			if !write(&mocrelay.ClientEventMsg{Event: E(n)}) {
				viol("C14/retry: handler stopped reading client messages", "EVENT #%d (%s) not taken within 60 virtual seconds", i, n)
				return
			}
			m, ok := read()
			okm, isOK := m.(*mocrelay.ServerOKMsg)
			if !ok || !isOK || !okm.Accepted || okm.EventID != E(n).ID {
				viol("C14/retry: EVENT not answered by an accepting OK", "EVENT #%d (%s) answered by %T %+v", i, n, m, m)
				return
			}
		}
		synctest.Wait()
		time.Sleep(10 * time.Second)
		synctest.Wait()
		settled := len(plan.Records())
		if st := db.Stats(); st.InUse != 0 && !learn {
			viol("C14/retry: transaction left open after a failed attempt, connection not returned to the pool", "10 virtual seconds after the last EVENT sql.DBStats.InUse = %d (every later statement of the handler waits for ever)", st.InUse)
			return
		}

		if !learn {
			// the battery through REQ
			qn := 0
			si := collectBattery(battery, func(q *query) ([]*mocrelay.Event, error) {
				qn++
				sub := "s" + strconv.Itoa(qn)
				if !write(&mocrelay.ClientReqMsg{SubscriptionID: sub, ReqFilters: q.filters()}) {
					return nil, fmt.Errorf("REQ not taken within 60 virtual seconds")
				}
				var evs []*mocrelay.Event
				for {
					m, ok := read()
					if !ok {
						return nil, fmt.Errorf("no EOSE within 60 virtual seconds")
					}
					switch m := m.(type) {
					case *mocrelay.ServerEventMsg:
						if m.SubscriptionID != sub {
							return nil, fmt.Errorf("EVENT for subscription %q while %q was asked", m.SubscriptionID, sub)
						}
						evs = append(evs, m.Event)
					case *mocrelay.ServerEOSEMsg:
						return evs, nil
					default:
						return nil, fmt.Errorf("unexpected %T in reply to REQ", m)
					}
				}
			})
			out.Queries = int64(qn)
			out.Evals = int64(len(battery))
			// which subsets of the script explain the answers (largest first)?
			match := -1
			for m := full; m >= 0; m-- {
				same, tie, _ := sameAnswers(refs[m], si, battery)
				if tie {
					out.Unclaimed++
				}
				if same {
					match = m
					break
				}
			}
			_, _, dFull := sameAnswers(refs[full], si, battery)
			describe := func(m int) string {
				var in, outs []string
				for i, n := range sc.evs {
					if m&(1<<uint(i)) != 0 {
						in = append(in, n)
					} else {
						outs = append(outs, n)
					}
				}
				if len(outs) == 0 {
					return "every event inserted once"
				}
				return fmt.Sprintf("inserted once: %v; not inserted: %v", in, outs)
			}
			switch {
			case match < 0:
				out.Outcome = "no subset"
				viol("C14/retry: store answers match no set of whole events inserted once (partial or duplicated insertion)", "versus \"every event inserted once\": %s", dFull)
			case match != full && rc.J <= 2 && rc.J > 0 && retryClaimAtomicOnly:
				out.Outcome = describe(match)
				out.Unclaimed++
			case match != full && rc.J <= 2:
				out.Outcome = describe(match)
				viol(fmt.Sprintf("C14/retry: acknowledged event not stored after %d failed attempt(s) (the retry loop makes three)", rc.J), "the store answers as \"%s\"; versus \"every event inserted once\": %s", describe(match), dFull)
			default:
				out.Outcome = describe(match)
				if rc.J == 3 {
					out.Unclaimed++ // whether an event whose three attempts failed is dropped or kept for later is not claimed
				}
			}
		}

		// nothing may happen after the settle point
		time.Sleep(10 * time.Second)
		synctest.Wait()
		recs := plan.Records()
		for _, r := range recs[settled:] {
			if r.Kind == "begin" || strings.HasPrefix(r.Kind, "exec(") || r.Kind == "commit" {
				viol("C14/retry: insertion activity later than 10 s after the last EVENT", "call %s at +%s", r.Kind, r.At.Sub(t0))
				break
			}
		}

		// attempts, instants
		var att [][]faultsql.CallRecord
		for _, r := range recs[:settled] {
			if r.Attempt < 0 {
				continue
			}
			for len(att) <= r.Attempt {
				att = append(att, nil)
			}
			att[r.Attempt] = append(att[r.Attempt], r)
		}
		out.Attempts = len(att)
		for _, a := range att {
			out.BeginsMs = append(out.BeginsMs, a[0].At.Sub(t0).Milliseconds())
			var ks []string
			for _, r := range a {
				ks = append(ks, r.Kind)
			}
			out.kinds = append(out.kinds, ks)
			tag := ""
			for _, r := range a {
				if r.Kind == "exec(events)" {
					tag = r.Tag
					break
				}
			}
			out.tags = append(out.tags, tag)
		}
		// back-off: a failed attempt of the target's batch is followed by the next attempt of that
		// batch not earlier than 1s << (number of its earlier failures). Which batch an attempt
		// carries is known for certain when the target is the last event of the script (every
		// later attempt carries it) or from the id bound to the attempt's `events` statement;
		// otherwise the pair is not judged.
		targetID := E(sc.evs[rc.Target]).ID
		lastInserted := 0 // the last event of the script that reaches an insertion (a repeated id is dropped before)
		for i, n := range sc.evs {
			dup := false
			for _, m := range sc.evs[:i] {
				if m == n {
					dup = true
				}
			}
			if !dup {
				lastInserted = i
			}
		}
		carriesTarget := func(a int) (known, yes bool) {
			if rc.Target == lastInserted {
				return true, a >= first
			}
			for _, r := range att[a] {
				if r.Kind == "exec(events)" {
					return true, r.Tag == targetID
				}
			}
			return false, false
		}
		failures := 0
		for a := first; a+1 < len(att) && failures < rc.J; a++ {
			var failAt time.Time
			failed := false
			for _, r := range att[a] {
				if r.Failed != faultsql.ModeNone {
					failAt, failed = r.At, true
				}
			}
			if !failed {
				break
			}
			k1, y1 := carriesTarget(a)
			k2, y2 := carriesTarget(a + 1)
			if !(k1 && y1 && k2 && y2) {
				out.Unclaimed++
				failures++
				continue
			}
			gap := att[a+1][0].At.Sub(failAt)
			if gap < time.Second<<uint(failures) {
				viol("C14/retry: attempt started earlier than its back-off", "attempt %d failed at +%s, the next attempt of the same batch began %s later (back-off %s)", a, failAt.Sub(t0), gap, time.Second<<uint(failures))
			}
			failures++
		}
		if rc.J > 0 && !learn {
			fired := 0
			for _, a := range att {
				for _, r := range a {
					if r.Failed != faultsql.ModeNone {
						fired++
					}
				}
			}
			out.Fired = fired

		}

		// shutdown: the handler's goroutines must end
		cancel()
		synctest.Wait()
		serveMu.Lock()
		if !served {
			viol("C14/retry: ServeNostr did not return after the context was cancelled", "")
		}
		serveMu.Unlock()
		db.Close()
		dbOpen = false
		afterShutdown = true
	})
	if panicked != "" {
		out.Infra = "panic in bubble: " + panicked
	}
	if deadlock != "" {
		if afterShutdown {
			viol("C14/retry: goroutine left after shutdown", "%s", clipStr(deadlock, 600))
		} else if out.Infra == "" && len(out.Viols) == 0 {
			viol("C14/retry: bubble cannot make progress (everything blocked, no timer pending)", "%s", clipStr(deadlock, 600))
		}
	}
	return
}

func clipStr(s string, n int) string {
	if len(s) > n {
		return s[:n] + "…"
	}
	return s
}

// retryChild is the hidden part: run the bubbles of one shard.
func retryChild() {
	args := map[string]string{}
	for _, a := range os.Args[2:] {
		if i := strings.IndexByte(a, '='); i > 0 {
			args[a[:i]] = a[i+1:]
		}
	}
	shard, _ := strconv.Atoi(args["shard"])
	nshards, _ := strconv.Atoi(args["shards"])
	if nshards < 1 {
		nshards = 1
	}
	only := -1
	if v, ok := args["only"]; ok {
		only, _ = strconv.Atoi(v)
	}
	dir := args["dir"]
	full := args["battery"] == "full"
	retryClaimAtomicOnly = args["claim"] == "atomic"
	emit := func(v any) {
		b, _ := json.Marshal(v)
		fmt.Printf("%s%s\n", retryLinePrefix, b)
	}
	testing.Main(func(pat, str string) (bool, error) { return true, nil },
		[]testing.InternalTest{{Name: "sqlite-retry", F: func(t *testing.T) {
			h := &bubbleHarness{t: t}
			battery := retryBattery(full)
			kinds := map[int][][]string{}
			for si := range retryScripts() {
				k, infra := learnKinds(h, dir, si)
				if infra != "" {
					emit(map[string]any{"fatal": fmt.Sprintf("learning run of script %d: %s", si, infra)})
					return
				}
				kinds[si] = k
			}
			cases := enumerateRetryCases(func(si int) [][]string { return kinds[si] })
			if args["list"] == "1" {
				emit(map[string]any{"cases": cases, "battery": len(battery), "kinds": kinds})
				return
			}
			for _, rc := range cases {
				if only >= 0 && rc.ID != only || only < 0 && rc.ID%nshards != shard {
					continue
				}
				res := runRetryBubble(h, dir, rc, battery, false)
				emit(res.retryResult)
			}
		}}}, nil, nil)
}

type retryReplay struct {
	Part string    `json:"part"`
	Case retryCase `json:"case"`
}

func runRetryChild(args ...string) (lines []json.RawMessage, cpu time.Duration, err error) {
	cmd := exec.Command(os.Args[0], append([]string{retryChildName}, args...)...)
	cmd.Env = os.Environ()
	var stdout, stderr bytes.Buffer
	cmd.Stdout, cmd.Stderr = &stdout, &stderr
	runErr := cmd.Run()
	if cmd.ProcessState != nil {
		cpu = cmd.ProcessState.UserTime() + cmd.ProcessState.SystemTime()
	}
	sc := bufio.NewScanner(&stdout)
	sc.Buffer(make([]byte, 1<<20), 1<<26)
	for sc.Scan() {
		if l := sc.Text(); strings.HasPrefix(l, retryLinePrefix) {
			lines = append(lines, json.RawMessage(l[len(retryLinePrefix):]))
		}
	}
	if runErr != nil {
		return lines, cpu, fmt.Errorf("child %v: %v\n%s", args, runErr, clipStr(stderr.String(), 2000))
	}
	return lines, cpu, nil
}

func sqliteRetry(c *vk.Ctx) {
	c.P.Rule = ruleC14Retry
	c.MaxSamples = 8
	if err := checkNoKeyCollision(); err != nil {
		c.Infra("assumption broken: %v", err)
	}
	c.Assume("virtual time by testing/synctest; only the handler's own goroutines (ServeNostr, serveBulkInsert), database/sql's and go-sqlite3's helper goroutines and the harness run in the bubble; cgo calls into SQLite are ordinary running code for the bubble")
	c.Assume(fmt.Sprintf("hash seed fixed to %d (row written before NewSQLiteHandler loads it); one pooled connection; error mode on a private in-memory database, lost-connection mode on a WAL file database in a temp directory", fixedSeed))
	c.Assume("an insertion attempt is recognised by its BeginTx call; the events of a script before the target take exactly one attempt each (EventBulkInsertNum=1)")
	c.Assume("the number of retries is not part of the property: an event whose three attempts all failed may be dropped or kept (counted as unclaimed); with at most two failing attempts it must end up stored exactly once")

	dir, err := os.MkdirTemp("", "verif-sqlite-retry-")
	if err != nil {
		c.Infra("%v", err)
	}
	cleanup := func() { os.RemoveAll(dir) }
	defer cleanup()
	infra := func(format string, a ...any) { cleanup(); c.Infra(format, a...) }

	batteryArg := "battery=" + c.Arg("battery", vk.Pick(c, "small", "full"))
	claimArg := "claim=" + c.Arg("retry_claim", "stored")
	record := func(res *retryResult, sigSeen map[string]bool) {
		c.Eval(res.Evals)
		c.Unclaimed(res.Unclaimed)
		c.Outcome(fmt.Sprintf("j=%d: %s; attempts=%d", res.Case.J, res.Outcome, res.Attempts))
		for _, v := range res.Viols {
			detail := ""
			if !sigSeen[v.Sig] {
				sigSeen[v.Sig] = true
				detail = v.Detail
			}
			c.ViolateProp("C14", v.Sig, detail, retryReplay{Part: "sqlite-retry", Case: res.Case})
		}
	}

	var rp retryReplay
	if loadReplay(c, &rp) {
		lines, _, err := runRetryChild("dir="+dir, "battery=full", claimArg, "only="+strconv.Itoa(rp.Case.ID))
		if err != nil {
			infra("replay: %v", err)
		}
		for _, l := range lines {
			var res retryResult
			if json.Unmarshal(l, &res) == nil && res.Case.ID == rp.Case.ID {
				if res.Infra != "" {
					infra("replay: %s", res.Infra)
				}
				record(&res, map[string]bool{})
			}
		}
		c.P.Bound = "replay of one case"
		return
	}

	// the case list (computed by a child, because learning the call kinds needs a bubble)
	lines, cpu0, err := runRetryChild("dir="+dir, batteryArg, claimArg, "list=1")
	if err != nil || len(lines) != 1 {
		infra("listing cases: %v (%d lines)", err, len(lines))
	}
	var listing struct {
		Fatal   string             `json:"fatal"`
		Cases   []retryCase        `json:"cases"`
		Battery int                `json:"battery"`
		Kinds   map[int][][]string `json:"kinds"`
	}
	if err := json.Unmarshal(lines[0], &listing); err != nil || listing.Fatal != "" {
		infra("listing cases: %v %s", err, listing.Fatal)
	}
	nshards := workers(c)
	if nshards > len(listing.Cases) {
		nshards = len(listing.Cases)
	}
	results := make(map[int]*retryResult)
	var mu sync.Mutex
	var cpuTotal time.Duration
	var firstErr error
	parallel(nshards, nshards, func(i int) {
		ls, cpu, err := runRetryChild("dir="+dir, batteryArg, claimArg, "shard="+strconv.Itoa(i), "shards="+strconv.Itoa(nshards))
		mu.Lock()
		defer mu.Unlock()
		cpuTotal += cpu
		if err != nil && firstErr == nil {
			firstErr = err
		}
		for _, l := range ls {
			var res retryResult
			if json.Unmarshal(l, &res) == nil {
				r := res
				results[res.Case.ID] = &r
			} else if firstErr == nil {
				firstErr = fmt.Errorf("unreadable child line %s", clipStr(string(l), 200))
			}
		}
	})
	if firstErr != nil {
		infra("%v", firstErr)
	}
	sigSeen := map[string]bool{}
	byJ := map[string]int{}
	byKind := map[string]int{}
	byMode := map[string]int{}
	var queries int64
	done, notFired := 0, 0
	for _, rc := range listing.Cases {
		res := results[rc.ID]
		if res == nil {
			infra("case %d (%s) produced no result", rc.ID, rc)
		}
		if res.Infra != "" {
			infra("case %d (%s): %s", rc.ID, rc, res.Infra)
		}
		done++
		if rc.J > 0 && res.Fired == 0 && len(res.Viols) == 0 {
			notFired++
		}
		record(res, sigSeen)
		queries += res.Queries
		byJ[strconv.Itoa(rc.J)]++
		byMode[rc.Mode]++
		if rc.Kind != "" {
			byKind[rc.Kind]++
		}
		if rc.ID%53 == 5 || rc.ID < 2 {
			c.Sample(map[string]any{"case": rc.String(), "outcome": res.Outcome, "attempts": res.Attempts, "begin_instants_ms": res.BeginsMs})
		}
	}
	if notFired > 0 {
		c.Cap(fmt.Sprintf("%d case(s) in which no planned fault fired (the attempts were laid out differently from the fault-free learning run); they were judged as fault-free runs", notFired))
	}
	c.SetExtra("cases_without_a_fired_fault", notFired)
	kindList := []string{}
	for k := range byKind {
		kindList = append(kindList, k)
	}
	sort.Strings(kindList)
	c.DistinctN(int64(done))
	c.P.TracesValidated = int64(done)
	c.P.Bound = fmt.Sprintf("%d scripts × target event × j ∈ {0,1,2,3} × every call kind of the target's attempt × {error/in-memory, drop/file}: %d bubbles, battery of %d filter lists through REQ", len(retryScripts()), done, listing.Battery)
	c.SetExtra("bubbles", done)
	c.SetExtra("cases_by_failing_attempts", byJ)
	c.SetExtra("cases_by_call_kind", byKind)
	c.SetExtra("cases_by_mode", byMode)
	c.SetExtra("call_kinds", kindList)
	c.SetExtra("battery_filter_lists", listing.Battery)
	c.SetExtra("req_queries_through_handler", queries)
	c.SetExtra("child_processes", nshards+1)
	c.SetExtra("cpu_s_children", (cpuTotal + cpu0).Seconds())
	c.SetExtra("attempt_call_kinds_per_script", listing.Kinds)
}
