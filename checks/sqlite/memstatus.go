package main

/*
// Symbols of the SQLite amalgamation that github.com/mattn/go-sqlite3 links into this binary.
extern int sqlite3_config(int, ...);
extern int sqlite3_shutdown(void);
extern int sqlite3_initialize(void);

// SQLITE_CONFIG_MEMSTATUS = 9. With memory statistics on (the default of go-sqlite3's build),
// every allocation inside SQLite takes one process-wide mutex, which serialises the 16 explorer
// goroutines although each works on its own private database. Statistics are an accounting
// feature only; switching them off changes no query result.
static int verif_memstatus_off(void) {
	int rc;
	sqlite3_shutdown();
	rc = sqlite3_config(9, 0);
	sqlite3_initialize();
	return rc;
}
*/
import "C"

import "fmt"

// disableSQLiteMemstatus must run before the first database is opened.
func disableSQLiteMemstatus() error {
	if rc := C.verif_memstatus_off(); rc != 0 {
		return fmt.Errorf("sqlite3_config(SQLITE_CONFIG_MEMSTATUS, 0) = %d", int(rc))
	}
	return nil
}
