package main

import (
	"context"
	"crypto/sha256"
	"crypto/sha512"
	"database/sql"
	"encoding/hex"
	"fmt"
	"strings"

	"github.com/high-moctane/mocrelay"
	"github.com/high-moctane/mocrelay/handler/sqlite"
	_ "github.com/mattn/go-sqlite3"
)

// fixedSeed is the xxhash seed written into xxhash_seed before anything else, so that event keys
// (and with them the whole exploration) are reproducible.
const fixedSeed uint32 = 12345

func hid(label string) string {
	h := sha256.Sum256([]byte("verif-sqlite:" + label))
	return hex.EncodeToString(h[:])
}
func hsig(label string) string {
	h := sha512.Sum512([]byte("verif-sqlite-sig:" + label))
	return hex.EncodeToString(h[:])
}

var (
	pkP = hid("pubkey P")
	pkQ = hid("pubkey Q")
	pkU = hid("pubkey unknown")
	idU = hid("id unknown")
)

// ev is one letter of the event alphabet.
type ev struct {
	name string
	e    *mocrelay.Event
	core bool
}

var (
	alphabet []ev
	byName   = map[string]int{}
	byID     = map[string]int{}
)

const (
	contentASCII   = "hello world"
	contentHTML    = "<>&\"\\ </script> \\u003c"
	contentLineSep = "line\u2028sep\u2029para"
	contentNUL     = "a\x00b\x00"
	contentAstral  = "astral \U0001F600 \U00010348 end"
)

var content10k = strings.Repeat("0123456789abcdef\n\t\"é€😀", 10240/32+1)

func addEv(name string, core bool, pk string, kind, ts int64, tags []mocrelay.Tag, content string) *mocrelay.Event {
	if tags == nil {
		tags = []mocrelay.Tag{}
	}
	e := &mocrelay.Event{ID: hid("event " + name), Pubkey: pk, CreatedAt: ts, Kind: kind, Tags: tags, Content: content, Sig: hsig(name)}
	byName[name] = len(alphabet)
	byID[e.ID] = len(alphabet)
	alphabet = append(alphabet, ev{name: name, e: e, core: core})
	return e
}

func init() {
	T := func(s ...string) mocrelay.Tag { return mocrelay.Tag(s) }
	// regular events
	r1 := addEv("r1", true, pkP, 1, 1, nil, contentASCII)
	r2 := addEv("r2", true, pkP, 1, 2, []mocrelay.Tag{T("e", r1.ID, "wss://relay.example", "reply"), T("p", pkQ), T("t", "tag"), T("title", "long name, not indexed")}, contentHTML+contentLineSep)
	r3 := addEv("r3", true, pkQ, 1, 2, []mocrelay.Tag{T("e", r1.ID), T("e", idU), T("t", "tag"), T("t", "tag"), T("t", "other")}, contentNUL+contentAstral) // two DIFFERENT values of #e and of #t: one event, several index rows per filter
	// replaceable kind 0
	addEv("v1", true, pkP, 0, 1, nil, content10k)
	addEv("v2", true, pkP, 0, 2, []mocrelay.Tag{T("t", "tag")}, `{"name":"v2"}`)
	addEv("w1", false, pkQ, 0, 1, nil, `{"name":"w1"}`)
	addEv("v2tie", false, pkP, 0, 2, nil, `{"name":"v2tie"}`) // same address and timestamp as v2: unclaimed which survives
	// addressable kind 30000
	addEv("a1", true, pkP, 30000, 1, []mocrelay.Tag{T("d", "x"), T("t", "tag"), T("e", r1.ID)}, "a1") // older event carrying ONE of r3's #e / #t values
	addEv("a3", true, pkP, 30000, 3, []mocrelay.Tag{T("d", "x", "extra"), T("e", r1.ID)}, "a3")
	addEv("b2", false, pkQ, 30000, 2, []mocrelay.Tag{T("d", "x")}, "b2")
	addEv("ad", false, pkP, 30000, 2, []mocrelay.Tag{T("d", "")}, "d empty")
	addEv("an", false, pkP, 30000, 2, []mocrelay.Tag{T("t", "tag")}, "no d tag") // unclaimed: not stored by design
	// ephemeral
	addEv("eph", false, pkP, 20001, 3, []mocrelay.Tag{T("t", "tag")}, "ephemeral")
	// deletion requests
	addrPx := fmt.Sprintf("30000:%s:x", pkP)
	addEv("k_e_r1", true, pkP, 5, 2, []mocrelay.Tag{T("e", r1.ID)}, "delete r1")
	addEv("k_e_q", false, pkP, 5, 3, []mocrelay.Tag{T("e", r3.ID)}, "P tries to delete Q's r3")
	addEv("k_a", true, pkP, 5, 3, []mocrelay.Tag{T("a", addrPx)}, "delete 30000:P:x")
	addEv("kq_e_r1", false, pkQ, 5, 1, []mocrelay.Tag{T("e", r1.ID)}, "Q tries to delete P's r1")
	addEv("k_ea", false, pkP, 5, 2, []mocrelay.Tag{T("e", r1.ID), T("a", addrPx), T("e", r1.ID)}, "delete r1 and 30000:P:x")
	ker1 := E("k_e_r1")
	addEv("k_k", false, pkP, 5, 3, []mocrelay.Tag{T("e", ker1.ID)}, "delete the deletion request k_e_r1")        // unclaimed: is k_e_r1 still served?
	addEv("k_a0", false, pkP, 5, 3, []mocrelay.Tag{T("a", fmt.Sprintf("0:%s:", pkP))}, "delete 0:P: by address") // unclaimed: a reference to a plain replaceable kind
	addEv("k_e_v2", false, pkP, 5, 3, []mocrelay.Tag{T("e", E("v2").ID)}, "delete the replaceable event v2 by its id (also when it arrives before v2 and an older version exists)")
	addEv("kq_a", false, pkQ, 5, 3, []mocrelay.Tag{T("a", addrPx)}, "Q tries to delete P's address 30000:P:x")
	addEv("k_ad", false, pkP, 5, 3, []mocrelay.Tag{T("a", fmt.Sprintf("30000:%s:", pkP))}, "delete 30000:P: (the address with the EMPTY d value, trailing colon)")
	addEv("k_x", true, pkP, 5, 3, []mocrelay.Tag{T("e", r2.ID, "wss://relay.example"), T("a", addrPx, "wss://relay.example")}, "delete r2 and 30000:P:x with relay hints")
}

func E(name string) *mocrelay.Event { return alphabet[byName[name]].e }

// op is one batch.
type op []int // indices into alphabet

func (o op) events() []*mocrelay.Event {
	r := make([]*mocrelay.Event, len(o))
	for i, x := range o {
		r[i] = alphabet[x].e
	}
	return r
}

func (o op) String() string {
	ns := make([]string, len(o))
	for i, x := range o {
		ns[i] = alphabet[x].name
	}
	return "[" + strings.Join(ns, " ") + "]"
}

// bfsOps: every single event and every ordered pair over the core (duplicates inside a batch and
// both orders occur).
func bfsOps() []op {
	var ops []op
	for i := range alphabet {
		ops = append(ops, op{i})
	}
	for i := range alphabet {
		if !alphabet[i].core {
			continue
		}
		for j := range alphabet {
			if alphabet[j].core {
				ops = append(ops, op{i, j})
			}
		}
	}
	return ops
}

type history []op

func (h history) String() string {
	ss := make([]string, len(h))
	for i, o := range h {
		ss[i] = o.String()
	}
	return strings.Join(ss, " ; ")
}

func (h history) names() [][]string {
	r := make([][]string, len(h))
	for i, o := range h {
		for _, x := range o {
			r[i] = append(r[i], alphabet[x].name)
		}
	}
	return r
}

func (h history) mask() uint32 {
	var m uint32
	for _, o := range h {
		for _, x := range o {
			m |= 1 << uint(x)
		}
	}
	return m
}

func historyFromNames(nn [][]string) (history, error) {
	var h history
	for _, b := range nn {
		var o op
		for _, n := range b {
			i, ok := byName[n]
			if !ok {
				return nil, fmt.Errorf("unknown event name %q", n)
			}
			o = append(o, i)
		}
		h = append(h, o)
	}
	return h, nil
}

// describeEvent renders an event for violation details (content clipped).
func describeEvent(e *mocrelay.Event) string {
	c := fmt.Sprintf("%+q", e.Content)
	if len(c) > 60 {
		c = c[:60] + "…"
	}
	return fmt.Sprintf("{id:%s… pubkey:%s kind:%d created_at:%d tags:%q content:%s}", e.ID[:8], pkName(e.Pubkey), e.Kind, e.CreatedAt, shortTags(e.Tags), c)
}

func pkName(pk string) string {
	switch pk {
	case pkP:
		return "P"
	case pkQ:
		return "Q"
	}
	if len(pk) > 8 {
		return pk[:8] + "…"
	}
	return pk
}

func shortStr(s string) string {
	if i, ok := byID[s]; ok {
		return "id(" + alphabet[i].name + ")"
	}
	switch s {
	case pkP:
		return "P"
	case pkQ:
		return "Q"
	case pkU:
		return "U"
	case idU:
		return "id(unknown)"
	}
	s = strings.ReplaceAll(s, pkP, "P")
	s = strings.ReplaceAll(s, pkQ, "Q")
	return s
}

func shortTags(ts []mocrelay.Tag) [][]string {
	r := make([][]string, len(ts))
	for i, t := range ts {
		r[i] = make([]string, len(t))
		for j, s := range t {
			r[i][j] = shortStr(s)
		}
	}
	return r
}

// openMem opens a fresh private in-memory database with one connection, migrated, with the
// fixed seed row.
func openMem(ctx context.Context) (*sql.DB, error) {
	db, err := sql.Open("sqlite3", ":memory:")
	if err != nil {
		return nil, err
	}
	db.SetMaxOpenConns(1)
	if err := prepareDB(ctx, db); err != nil {
		db.Close()
		return nil, err
	}
	return db, nil
}

// prepareDB migrates and pins the seed (no-op for the seed when the row already exists).
func prepareDB(ctx context.Context, db *sql.DB) error {
	if err := sqlite.Migrate(ctx, db); err != nil {
		return fmt.Errorf("migrate: %w", err)
	}
	if _, err := db.ExecContext(ctx, "insert or ignore into xxhash_seed(seed) values (?)", fixedSeed); err != nil {
		return fmt.Errorf("seed: %w", err)
	}
	var n, s int64
	if err := db.QueryRowContext(ctx, "select count(*), min(seed) from xxhash_seed").Scan(&n, &s); err != nil {
		return err
	}
	if n != 1 || uint32(s) != fixedSeed {
		return fmt.Errorf("xxhash_seed holds %d row(s), min %d; expected the single row %d", n, s, fixedSeed)
	}
	return nil
}

// checkNoKeyCollision verifies the assumption under which the exploration is meaningful: under
// the fixed seed, distinct addresses / (created_at, id) pairs of the alphabet have distinct
// 64-bit event keys (and every storable event has a key).
func checkNoKeyCollision() error {
	seen := map[int64]string{}
	for _, a := range alphabet {
		k, ok := sqlite.VerifGetEventKey(fixedSeed, a.e)
		cls := classOf(a.e)
		if !ok {
			if cls == "ephemeral" || cls == "addressable without d" {
				continue
			}
			return fmt.Errorf("event %s (%s) has no event key", a.name, cls)
		}
		ident := a.e.ID // regular: (created_at, id)
		switch cls {
		case "replaceable":
			ident = fmt.Sprintf("%d:%s", a.e.Kind, a.e.Pubkey)
		case "addressable":
			d := ""
			for _, t := range a.e.Tags {
				if len(t) >= 1 && t[0] == "d" {
					if len(t) >= 2 {
						d = t[1]
					}
					break
				}
			}
			ident = fmt.Sprintf("%d:%s:%s", a.e.Kind, a.e.Pubkey, d)
		}
		if prev, dup := seen[k]; dup && prev != ident {
			return fmt.Errorf("event key collision under seed %d: %s and %s share key %d", fixedSeed, prev, ident, k)
		}
		seen[k] = ident
	}
	return nil
}
