package main

import (
	"context"
	"database/sql"
	"fmt"
	"os"
	"os/exec"
	"path/filepath"
	"sort"
	"strconv"
	"strings"
	"sync"
	"sync/atomic"
	"syscall"
	"time"

	"github.com/high-moctane/mocrelay/handler/sqlite"
	"verifkit/faultsql"
	"verifkit/vk"
)

const childPartName = "sqlite-fault-child"

const ruleC14Fault = "for every batch × pre-state and EVERY driver call k of the batch (begin, each prepare, each exec of the five statements, commit) and each failure mode " +
	"(error returned / connection lost with the transaction open / process SIGKILLed at the call, thorough): insertEvents reports an error, the full C06 battery answers exactly as before the batch; " +
	"a fault-free retry then answers exactly as one successful insertion (also after a second fault at every k2, thorough); inserting the batch again after success changes no answer"

func fileDSN(path string) string {
	return "file:" + path + "?_journal_mode=WAL&_busy_timeout=10000"
}

// openFile opens (or reopens) a file database through the fault driver, migrates it and pins /
// verifies the fixed seed.
func openFile(ctx context.Context, path string, plan *faultsql.Plan) (*sql.DB, error) {
	db := faultsql.OpenDB(fileDSN(path), plan)
	db.SetMaxOpenConns(1)
	if err := prepareDB(ctx, db); err != nil {
		db.Close()
		return nil, err
	}
	return db, nil
}

func removeDBFiles(path string) {
	for _, suf := range []string{"", "-wal", "-shm", "-journal"} {
		os.Remove(path + suf)
	}
}

func namesOp(names ...string) op {
	o := make(op, len(names))
	for i, n := range names {
		x, ok := byName[n]
		if !ok {
			panic("unknown event " + n)
		}
		o[i] = x
	}
	return o
}

type faultBatch struct {
	what string
	o    op
}

func faultBatches() []faultBatch {
	return []faultBatch{
		{"single event without tags", namesOp("v1")},
		{"event with indexed tags", namesOp("r2")},
		{"event with duplicate tags", namesOp("r3")},
		{"newer version of a replaceable address", namesOp("v2")},
		{"deletion request with an e reference", namesOp("k_e_r1")},
		{"deletion request with an a reference", namesOp("k_a")},
		{"deletion request with e and a references", namesOp("k_ea")},
		{"duplicate inside one batch", namesOp("r1", "r1")},
		{"three events", namesOp("r1", "r2", "r3")},
		{"first event possibly a no-op, then a new one", namesOp("r1", "a3")},
		{"older then newer version in one batch", namesOp("a1", "a3")},
		{"newer then older version in one batch", namesOp("a3", "a1")},
		{"ephemeral event then regular event", namesOp("eph", "r3")},
		{"deletion request before its target in one batch", namesOp("k_ea", "r1")},
	}
}

func faultPreStates() []history {
	return []history{
		{},
		{namesOp("r1", "v1"), namesOp("a1")},
		{namesOp("k_ea", "v2"), namesOp("a3", "r3")},
	}
}

type faultReplay struct {
	Part  string `json:"part"`
	Pre   int    `json:"pre_state"`
	Batch int    `json:"batch"`
	K     int    `json:"k"`
	Mode  string `json:"mode"`
	K2    int    `json:"k2"`
	Mode2 string `json:"mode2,omitempty"`
}

type faultBase struct {
	pre, batch int
	n          int
	kinds      []string
	a0, a1     *stateInfo
	err        error
}

type faultPoint struct {
	base  *faultBase
	k     int
	mode  faultsql.Mode
	k2    int // -1: no second fault
	mode2 faultsql.Mode
	real  bool // ask the implementation for every battery (no sharing between equal table dumps)
}

type faultViol struct {
	sig, detail string
}

type faultResult struct {
	viols     []faultViol
	infra     error
	unclaimed int64
	evals     int64
	dumpDiff  bool
	firedKind string
	stuck     bool
}

func modeOf(s string) faultsql.Mode {
	switch s {
	case "error":
		return faultsql.ModeError
	case "drop":
		return faultsql.ModeDrop
	case "kill":
		return faultsql.ModeKill
	}
	return faultsql.ModeNone
}

// sameAnswers compares two observations; order among equal timestamps is an unclaimed tie.
func sameAnswers(a, b *stateInfo, battery []*query) (same bool, tieOnly bool, diff string) {
	if a.fingerprint(false) == b.fingerprint(false) {
		return true, false, ""
	}
	if a.fingerprint(true) == b.fingerprint(true) {
		return true, true, ""
	}
	_, d := firstDifference(a, b, battery, true)
	return false, false, d
}

type faultRig struct {
	c       *vk.Ctx
	ctx     context.Context
	dir     string
	battery []*query
	batches []faultBatch
	pres    []history
	seq     atomic.Int64
	memo    *batteryMemo
}

// observe runs the battery (or shares the run of a state with identical tables when !real).
func (r *faultRig) observe(ctx context.Context, db *sql.DB, real bool, res *faultResult) *stateInfo {
	si, err := r.memo.observe(ctx, db, fixedSeed, r.battery, real)
	if err != nil {
		if res != nil && res.infra == nil {
			res.infra = err
		}
		return runBattery(ctx, db, fixedSeed, r.battery)
	}
	return si
}

func (r *faultRig) newPath() string {
	return filepath.Join(r.dir, fmt.Sprintf("f%d.db", r.seq.Add(1)))
}

// buildPre creates a fresh file database holding the pre-state.
func (r *faultRig) buildPre(path string, plan *faultsql.Plan, pre history) (*sql.DB, error) {
	db, err := openFile(r.ctx, path, plan)
	if err != nil {
		return nil, err
	}
	for _, o := range pre {
		if err := sqlite.VerifInsertEvents(r.ctx, db, fixedSeed, o.events()); err != nil {
			db.Close()
			return nil, fmt.Errorf("pre-state batch %s: %w", o, err)
		}
	}
	return db, nil
}

// baseline runs the batch fault-free: call count, kinds, answers before and after, idempotence.
func (r *faultRig) baseline(b *faultBase) (viols []faultViol) {
	path := r.newPath()
	defer removeDBFiles(path)
	plan := faultsql.NewPlan()
	db, err := r.buildPre(path, plan, r.pres[b.pre])
	if err != nil {
		b.err = err
		return
	}
	defer db.Close()
	b.a0 = r.observe(r.ctx, db, true, nil)
	plan.Arm(-1, faultsql.ModeNone)
	err = sqlite.VerifInsertEvents(r.ctx, db, fixedSeed, r.batches[b.batch].o.events())
	b.n, b.kinds, _ = plan.Disarm()
	if err != nil {
		b.err = fmt.Errorf("fault-free insertion failed: %w", err)
		return
	}
	b.a1 = r.observe(r.ctx, db, true, nil)
	// idempotence after success
	if err := sqlite.VerifInsertEvents(r.ctx, db, fixedSeed, r.batches[b.batch].o.events()); err != nil {
		viols = append(viols, faultViol{"C14/idempotence: inserting the same batch again after success returns an error", fmt.Sprintf("pre-state %s; batch %s: %v", r.pres[b.pre], r.batches[b.batch].o, err)})
		return
	}
	a2 := r.observe(r.ctx, db, true, nil)
	if same, _, d := sameAnswers(b.a1, a2, r.battery); !same {
		viols = append(viols, faultViol{"C14/idempotence: inserting the same batch again after success changes answers", fmt.Sprintf("pre-state %s; batch %s (%s): after one insertion versus after two: %s", r.pres[b.pre], r.batches[b.batch].o, r.batches[b.batch].what, d)})
	}
	return
}

func kindClass(k string) string { return k }

// runPoint runs one fault point (and optionally a second fault during the retry).
// pointTimeout is a safety net only: a point that does not finish is reported as a cap
// (exhaustive:false), never as a violation (no wall-clock oracle).
const pointTimeout = 180 * time.Second

func (r *faultRig) runPoint(p *faultPoint) (res faultResult) {
	ctx, cancel := context.WithTimeout(r.ctx, pointTimeout)
	defer cancel()
	res = r.runPointCtx(ctx, p)
	if ctx.Err() != nil {
		res = faultResult{stuck: true, firedKind: res.firedKind}
	}
	return
}

func (r *faultRig) runPointCtx(ctx context.Context, p *faultPoint) (res faultResult) {
	b := p.base
	batch := r.batches[b.batch]
	where := func() string {
		s := fmt.Sprintf("pre-state %s; batch %s (%s); fault at call %d of %d = %s, mode %s", r.pres[b.pre], batch.o, batch.what, p.k, b.n, b.kinds[p.k], p.mode)
		if p.k2 >= 0 {
			s += fmt.Sprintf("; second fault during the retry at call %d = %s, mode %s", p.k2, b.kinds[p.k2], p.mode2)
		}
		return s + "; calls of the batch: " + strings.Join(b.kinds, ",")
	}
	path := r.newPath()
	defer removeDBFiles(path)
	plan := faultsql.NewPlan()
	db, err := r.buildPre(path, plan, r.pres[b.pre])
	if err != nil {
		res.infra = err
		return
	}
	defer func() {
		if db != nil {
			db.Close()
		}
	}()
	var key0 string
	key0, _ = dumpKey(ctx, db)

	// the faulted attempt(s)
	attempt := func(k int, mode faultsql.Mode, which string) bool {
		kind := b.kinds[k]
		if mode == faultsql.ModeKill {
			db.Close()
			names := make([]string, len(batch.o))
			for i, x := range batch.o {
				names[i] = alphabet[x].name
			}
			cmd := exec.Command(os.Args[0], childPartName, "path="+path, "batch="+strings.Join(names, ","), "k="+strconv.Itoa(k))
			cmd.Env = os.Environ()
			out, err := cmd.CombinedOutput()
			killed := false
			if ee, ok := err.(*exec.ExitError); ok {
				if ws, ok := ee.Sys().(syscall.WaitStatus); ok && ws.Signaled() && ws.Signal() == syscall.SIGKILL {
					killed = true
				}
			}
			if !killed {
				res.infra = fmt.Errorf("crash-point child did not die by SIGKILL (%v): %s", err, out)
				return false
			}
			db, err = openFile(ctx, path, plan)
			if err != nil {
				db = nil
				res.viols = append(res.viols, faultViol{fmt.Sprintf("C14/atomicity: database cannot be reopened after a crash (fault at %s, mode kill)", kindClass(kind)), where() + ": " + err.Error()})
				return false
			}
			res.firedKind = kind
		} else {
			plan.Arm(k, mode)
			err := sqlite.VerifInsertEvents(ctx, db, fixedSeed, batch.o.events())
			_, _, fired := plan.Disarm()
			if fired == "" {
				res.infra = fmt.Errorf("%s: the planned fault did not fire (the %s attempt made fewer than %d calls)", where(), which, k+1)
				return false
			}
			res.firedKind = fired
			if st := db.Stats(); st.InUse != 0 {
				// the batch returned but its transaction still holds a connection: with one pooled
				// connection every later statement would wait for ever
				res.viols = append(res.viols, faultViol{fmt.Sprintf("C14/atomicity: transaction left open after a failed batch, connection not returned to the pool (fault at %s, mode %s)", kindClass(fired), mode), where() + fmt.Sprintf("; %s attempt; insertEvents returned %v; sql.DBStats.InUse = %d", which, err, st.InUse)})
				return false
			}
			if err == nil {
				res.viols = append(res.viols, faultViol{fmt.Sprintf("C14/atomicity: insertEvents reports success although a driver call failed (fault at %s, mode %s)", kindClass(fired), mode), where()})
			}
		}
		af := r.observe(ctx, db, p.real, &res)
		res.evals += int64(len(r.battery))
		same, tie, d := sameAnswers(b.a0, af, r.battery)
		if tie {
			res.unclaimed++
		}
		if !same {
			res.viols = append(res.viols, faultViol{fmt.Sprintf("C14/atomicity: failed batch changed answers (fault at %s, mode %s)", kindClass(kind), mode), where() + fmt.Sprintf("; %s attempt; before the batch versus after the failed batch: %s", which, d)})
		}
		if k1, err := dumpKey(ctx, db); err == nil && k1 != key0 {
			res.dumpDiff = true
		}
		return true
	}
	if !attempt(p.k, p.mode, "first") {
		return
	}
	if p.k2 >= 0 {
		if !attempt(p.k2, p.mode2, "second") {
			return
		}
	}
	// fault-free retry
	if err := sqlite.VerifInsertEvents(ctx, db, fixedSeed, batch.o.events()); err != nil {
		res.viols = append(res.viols, faultViol{fmt.Sprintf("C14/idempotence: retry after a failed batch returns an error (fault at %s, mode %s)", kindClass(b.kinds[p.k]), p.mode), where() + ": " + err.Error()})
		return
	}
	ar := r.observe(ctx, db, p.real, &res)
	res.evals += int64(len(r.battery))
	same, tie, d := sameAnswers(b.a1, ar, r.battery)
	if tie {
		res.unclaimed++
	}
	if !same {
		res.viols = append(res.viols, faultViol{fmt.Sprintf("C14/idempotence: retry after a failed batch differs from one successful insertion (fault at %s, mode %s)", kindClass(b.kinds[p.k]), p.mode), where() + "; one successful insertion versus failure+retry: " + d})
	}
	// and once more after the success
	if err := sqlite.VerifInsertEvents(ctx, db, fixedSeed, batch.o.events()); err != nil {
		res.viols = append(res.viols, faultViol{"C14/idempotence: inserting the same batch again after success returns an error", where() + ": " + err.Error()})
		return
	}
	ar2 := r.observe(ctx, db, p.real, &res)
	res.evals += int64(len(r.battery))
	if same, _, d := sameAnswers(b.a1, ar2, r.battery); !same {
		res.viols = append(res.viols, faultViol{"C14/idempotence: inserting the same batch again after success changes answers", where() + "; after failure+retry+insert again: " + d})
	}
	return
}

func sqliteFault(c *vk.Ctx) {
	ctx := context.Background()
	c.P.Rule = ruleC14Fault
	c.MaxSamples = 8
	if err := checkNoKeyCollision(); err != nil {
		c.Infra("assumption broken: %v", err)
	}
	c.Assume(fmt.Sprintf("hash seed fixed to %d; no event-key collision inside the alphabet under it (verified at start)", fixedSeed))
	c.Assume("crash and failure points are driver-call boundaries (database/sql/driver calls of one batch: BeginTx, PrepareContext, Stmt.ExecContext, Commit); torn pages and partial writes inside SQLite's pager/WAL are trusted to SQLite")
	c.Assume("a failing COMMIT is modelled as go-sqlite3 behaves (COMMIT fails, the driver rolls back); a lost connection finalizes its statements and closes the handle (SQLite rolls back); file databases in WAL mode, one pooled connection")

	dir, err := os.MkdirTemp("", "verif-sqlite-fault-")
	if err != nil {
		c.Infra("%v", err)
	}
	cleanup := func() { os.RemoveAll(dir) }
	defer cleanup()
	infra := func(format string, a ...any) { cleanup(); c.Infra(format, a...) }

	r := &faultRig{c: c, ctx: ctx, dir: dir, battery: buildBattery(), batches: faultBatches(), pres: faultPreStates(), memo: newBatteryMemo()}
	nw := workers(c)
	budget := time.Duration(c.ArgInt("budget_s", vk.Pick(c, 600, 3000))) * time.Second
	start := time.Now()

	modes := []faultsql.Mode{faultsql.ModeError, faultsql.ModeDrop}
	if c.Thorough() || c.Arg("kill", "") == "1" {
		modes = append(modes, faultsql.ModeKill)
	}

	var rp faultReplay
	if loadReplay(c, &rp) {
		b := &faultBase{pre: rp.Pre, batch: rp.Batch}
		for _, v := range r.baseline(b) {
			c.ViolateProp("C14", v.sig, v.detail, nil)
		}
		if b.err != nil {
			infra("replay baseline: %v", b.err)
		}
		if rp.K >= 0 && rp.K < b.n {
			p := &faultPoint{base: b, k: rp.K, mode: modeOf(rp.Mode), k2: rp.K2, mode2: modeOf(rp.Mode2), real: true}
			if rp.Mode2 == "" {
				p.k2 = -1
			}
			res := r.runPoint(p)
			if res.infra != nil {
				infra("replay: %v", res.infra)
			}
			for _, v := range res.viols {
				c.ViolateProp("C14", v.sig, v.detail, nil)
			}
			c.Eval(res.evals)
		}
		c.P.Bound = "replay of one fault point"
		return
	}

	// baselines
	var bases []*faultBase
	for pi := range r.pres {
		for bi := range r.batches {
			bases = append(bases, &faultBase{pre: pi, batch: bi})
		}
	}
	baseViols := make([][]faultViol, len(bases))
	parallel(nw, len(bases), func(i int) { baseViols[i] = r.baseline(bases[i]) })
	callKinds := map[string]int{}
	totalCalls := 0
	var callCounts []string
	for i, b := range bases {
		if b.err != nil {
			infra("baseline of pre-state %s, batch %s: %v", r.pres[b.pre], r.batches[b.batch].o, b.err)
		}
		for _, v := range baseViols[i] {
			c.ViolateProp("C14", v.sig, v.detail, faultReplay{Part: "sqlite-fault", Pre: b.pre, Batch: b.batch, K: -1, K2: -1})
		}
		c.Eval(3 * int64(len(r.battery)))
		totalCalls += b.n
		for _, k := range b.kinds {
			callKinds[k]++
		}
		callCounts = append(callCounts, fmt.Sprintf("pre%d/%s=%d", b.pre, r.batches[b.batch].o, b.n))
		same, _, _ := sameAnswers(b.a0, b.a1, r.battery)
		if same {
			c.Outcome("batch is a no-op for the answers")
		} else {
			c.Outcome("batch changes answers")
		}
	}

	// fault points
	var points []*faultPoint
	for _, b := range bases {
		for k := 0; k < b.n; k++ {
			for _, m := range modes {
				points = append(points, &faultPoint{base: b, k: k, mode: m, k2: -1})
			}
		}
	}
	nFirst := len(points)
	realEvery := c.ArgInt("real_every", vk.Pick(c, 8, 1)) // quick: every 8th point asks the implementation for all batteries
	for i, p := range points {
		p.real = i%realEvery == 0
	}
	nSecond := 0
	if c.Thorough() || c.Arg("second", "") == "1" {
		// second faults during the retry, for the 4 smallest batches (by call count on the empty pre-state)
		type bn struct{ batch, n int }
		var order []bn
		for _, b := range bases {
			if b.pre == 0 {
				order = append(order, bn{b.batch, b.n})
			}
		}
		sort.SliceStable(order, func(i, j int) bool { return order[i].n < order[j].n })
		small := map[int]bool{}
		for i := 0; i < len(order) && i < 4; i++ {
			small[order[i].batch] = true
		}
		for _, b := range bases {
			if !small[b.batch] {
				continue
			}
			for k := 0; k < b.n; k++ {
				for _, m := range []faultsql.Mode{faultsql.ModeError, faultsql.ModeDrop} {
					for k2 := 0; k2 < b.n; k2++ {
						for _, m2 := range []faultsql.Mode{faultsql.ModeError, faultsql.ModeDrop} {
							points = append(points, &faultPoint{base: b, k: k, mode: m, k2: k2, mode2: m2, real: nSecond%c.ArgInt("real_every2", 4) == 0})
							nSecond++
						}
					}
				}
			}
		}
	}
	results := make([]*faultResult, len(points))
	var capped atomic.Bool
	parallel(nw, len(points), func(i int) {
		if capped.Load() {
			return
		}
		if time.Since(start) > budget {
			capped.Store(true)
			return
		}
		res := r.runPoint(points[i])
		results[i] = &res
	})
	done, nStuck := 0, 0
	var dumpDiffs int64
	perMode := map[string]int{}
	perKind := map[string]int{}
	sigSeen := map[string]bool{}
	for i, p := range points {
		res := results[i]
		if res == nil {
			continue
		}
		if res.infra != nil {
			infra("fault point failed: %v", res.infra)
		}
		if res.stuck {
			nStuck++
			continue
		}
		done++
		perMode[p.mode.String()]++
		perKind[p.base.kinds[p.k]]++
		c.Eval(res.evals)
		c.Unclaimed(res.unclaimed)
		if res.dumpDiff {
			dumpDiffs++
		}
		c.Outcome("fault at " + p.base.kinds[p.k] + " mode " + p.mode.String() + ": " + fmt.Sprint(len(res.viols) == 0))
		m2 := ""
		if p.k2 >= 0 {
			m2 = p.mode2.String()
		}
		for _, v := range res.viols {
			detail := ""
			if !sigSeen[v.sig] {
				sigSeen[v.sig] = true
				detail = v.detail
			}
			c.ViolateProp("C14", v.sig, detail, faultReplay{Part: "sqlite-fault", Pre: p.base.pre, Batch: p.base.batch, K: p.k, Mode: p.mode.String(), K2: p.k2, Mode2: m2})
		}
		if i%211 == 0 {
			c.Sample(map[string]any{"pre_state": r.pres[p.base.pre].String(), "batch": r.batches[p.base.batch].o.String(), "call": p.k, "call_kind": p.base.kinds[p.k], "mode": p.mode.String(), "calls_of_batch": p.base.n})
		}
	}
	if nStuck > 0 {
		c.Cap(fmt.Sprintf("%d fault point(s) did not finish within %s of wall time and were abandoned", nStuck, pointTimeout))
	}
	if done+nStuck < len(points) {
		c.Cap(fmt.Sprintf("wall budget %s reached: %d of %d fault points run", budget, done, len(points)))
	}
	c.DistinctN(int64(done))
	c.P.TracesValidated = int64(done + len(bases))
	c.P.Bound = fmt.Sprintf("every driver call of %d batches × %d pre-states (%d calls in total) × modes %v; second faults: %d points", len(r.batches), len(r.pres), totalCalls, modes, nSecond)
	c.SetExtra("batches", len(r.batches))
	c.SetExtra("pre_states", len(r.pres))
	c.SetExtra("driver_calls_total", totalCalls)
	c.SetExtra("driver_calls_by_kind", callKinds)
	c.SetExtra("call_counts", callCounts)
	c.SetExtra("fault_points_single", nFirst)
	c.SetExtra("fault_points_double", nSecond)
	c.SetExtra("fault_points_run", done)
	c.SetExtra("fault_points_by_mode", perMode)
	c.SetExtra("fault_points_by_call_kind", perKind)
	c.SetExtra("battery_filter_lists", len(r.battery))
	c.SetExtra("table_dump_differs_after_failed_batch_although_not_required", dumpDiffs)
	c.SetExtra("workers", nw)
	nReal := 0
	for i, p := range points {
		if results[i] != nil && p.real {
			nReal++
		}
	}
	c.SetExtra("fault_points_with_every_battery_asked_of_the_implementation", nReal)
	c.SetExtra("battery_runs_on_impl", atomic.LoadInt64(&r.memo.runs))
	c.SetExtra("queries_on_impl", atomic.LoadInt64(&r.memo.runs)*int64(len(r.battery)))
	c.SetExtra("battery_answers_shared_between_equal_table_dumps", atomic.LoadInt64(&r.memo.hits))
	if nReal < done {
		c.Assume("points not marked real share the battery answers of a database whose five tables and seed row are byte-identical (answers are a function of the tables); the marked points cross-check this on the implementation")
	}
	if r.memo.mismatch != "" {
		infra("assumption broken: two databases with identical table dumps answered differently: %s", r.memo.mismatch)
	}
}

// parallel runs f(0..n-1) on nw goroutines.
func parallel(nw, n int, f func(i int)) {
	var next atomic.Int64
	var wg sync.WaitGroup
	for w := 0; w < nw; w++ {
		wg.Add(1)
		go func() {
			defer wg.Done()
			for {
				i := int(next.Add(1)) - 1
				if i >= n {
					return
				}
				f(i)
			}
		}()
	}
	wg.Wait()
}

// faultChild is the crash-point child: open the file, run the batch, die by SIGKILL at call k.
func faultChild() {
	args := map[string]string{}
	for _, a := range os.Args[2:] {
		if i := strings.IndexByte(a, '='); i > 0 {
			args[a[:i]] = a[i+1:]
		}
	}
	k, _ := strconv.Atoi(args["k"])
	ctx := context.Background()
	plan := faultsql.NewPlan()
	db := faultsql.OpenDB(fileDSN(args["path"]), plan)
	db.SetMaxOpenConns(1)
	var o op
	for _, n := range strings.Split(args["batch"], ",") {
		x, ok := byName[n]
		if !ok {
			fmt.Fprintf(os.Stderr, "child: unknown event %q\n", n)
			os.Exit(4)
		}
		o = append(o, x)
	}
	if err := db.PingContext(ctx); err != nil {
		fmt.Fprintf(os.Stderr, "child: %v\n", err)
		os.Exit(4)
	}
	plan.Arm(k, faultsql.ModeKill)
	err := sqlite.VerifInsertEvents(ctx, db, fixedSeed, o.events())
	fmt.Fprintf(os.Stderr, "child: batch finished without reaching call %d (err=%v)\n", k, err)
	os.Exit(3)
}
