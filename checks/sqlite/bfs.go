package main

import (
	"context"
	"database/sql"
	"encoding/json"
	"fmt"
	"os"
	"runtime"
	"sync"
	"sync/atomic"
	"time"

	"github.com/high-moctane/mocrelay/handler/sqlite"
	"verifkit/vk"
)

const ruleC06 = "after every batch of every history (replayed on a fresh in-memory database, one connection, fixed seed): for every filter list of the battery, " +
	"queryEvent returns without error a duplicate-free list in non-increasing created_at order that is a union of per-filter limit-newest matches over the live set " +
	"(stored = non-ephemeral inserted events, newest per replaceable/addressable address; live = not referenced by id or address by an inserted kind-5 of the same author, in either arrival order; " +
	"ties at a limit cut and between equal-timestamp versions are never resolved), and every returned event equals the inserted one in all seven fields"

func workers(c *vk.Ctx) int {
	n := c.ArgInt("workers", 16)
	if n < 1 {
		n = 1
	}
	if n > 4*runtime.NumCPU() {
		n = 4 * runtime.NumCPU()
	}
	return n
}

// replayFile is what the driver writes for a violation; Replay is the payload built below.
type replayFile struct {
	Replay json.RawMessage `json:"replay"`
}

func loadReplay(c *vk.Ctx, into any) bool {
	p := c.Arg("replay", "")
	if p == "" {
		return false
	}
	b, err := os.ReadFile(p)
	if err != nil {
		c.Infra("replay file: %v", err)
	}
	var rf replayFile
	if err := json.Unmarshal(b, &rf); err != nil || rf.Replay == nil {
		c.Infra("replay file %s has no replay payload (%v)", p, err)
	}
	if err := json.Unmarshal(rf.Replay, into); err != nil {
		c.Infra("replay payload: %v", err)
	}
	return true
}

type bfsReplay struct {
	Part    string     `json:"part"`
	History [][]string `json:"history"`
	Query   string     `json:"query,omitempty"`
	QueryIx int        `json:"query_index"`
}

type stateEntry struct {
	once sync.Once
	si   *stateInfo
}

type bfsTask struct {
	hist history
	// results
	key   string
	mask  uint32
	insEr string
	infra error
	done  bool
	// re-delivery of an earlier batch of the history changed answers (C14)
	redeliver string
}

// buildState replays a history on a fresh in-memory database.
func buildState(ctx context.Context, h history) (db *sql.DB, insErr string, err error) {
	db, err = openMem(ctx)
	if err != nil {
		return nil, "", err
	}
	for bi, o := range h {
		if e := sqlite.VerifInsertEvents(ctx, db, fixedSeed, o.events()); e != nil && insErr == "" {
			insErr = fmt.Sprintf("batch %d %s: %v", bi, o, e)
		}
	}
	return db, insErr, nil
}

var redeliveries, redeliveryBatteries int64

func sqliteBFS(c *vk.Ctx) {
	ctx := context.Background()
	c.P.Rule = ruleC06
	c.MaxSamples = 8
	if err := checkNoKeyCollision(); err != nil {
		c.Infra("assumption broken: %v", err)
	}
	c.Assume(fmt.Sprintf("hash seed fixed to %d (row written into xxhash_seed before the first insert); verified at start: no two distinct addresses / (created_at,id) pairs of the %d-event alphabet share a 64-bit event key under it", fixedSeed, len(alphabet)))
	c.Assume("the query answer is a function of the contents of the five tables (state key = sorted dump of all five tables); two histories with equal dumps share one battery run but are each judged against their own inserted set")

	battery := buildBattery()
	ops := bfsOps()
	depth := c.ArgInt("depth", vk.Pick(c, 2, 3))
	budget := time.Duration(c.ArgInt("budget_s", vk.Pick(c, 600, 3000))) * time.Second
	start := time.Now()
	nw := workers(c)

	var rp bfsReplay
	if loadReplay(c, &rp) {
		h, err := historyFromNames(rp.History)
		if err != nil {
			c.Infra("replay: %v", err)
		}
		for n := 0; n <= len(h); n++ {
			db, insErr, err := buildState(ctx, h[:n])
			if err != nil {
				c.Infra("replay: %v", err)
			}
			if insErr != "" {
				c.ViolateProp("C06", "C06/insertEvents returned an error on a well-formed batch", insErr, nil)
			}
			si := runBattery(ctx, db, fixedSeed, battery)
			db.Close()
			r := evalOracle(si, h[:n].mask(), battery)
			for _, f := range r.fails {
				c.ViolateProp("C06", f.sig, fmt.Sprintf("history %s; query %s: %s", h[:n], battery[f.q], f.detail()), nil)
			}
			c.Eval(r.evals)
		}
		c.P.Bound = "replay of one history"
		return
	}

	var (
		mu      sync.Mutex
		entries = map[string]*stateEntry{}
	)
	getEntry := func(k string) *stateEntry {
		mu.Lock()
		defer mu.Unlock()
		e := entries[k]
		if e == nil {
			e = &stateEntry{}
			entries[k] = e
		}
		return e
	}

	seenState := map[string]bool{}
	type pair struct {
		key  string
		mask uint32
	}
	judged := map[pair]bool{}
	sigSeen := map[string]bool{}
	var transitions, traces, batteryRuns int64
	var capped atomic.Bool
	maxDepthDone := -1
	statesPerDepth := []int{}
	insertedSets := map[uint32]bool{}
	var unclaimedStates int64

	frontier := []history{{}}
	for d := 0; d <= depth; d++ {
		var tasks []*bfsTask
		if d == 0 {
			tasks = []*bfsTask{{hist: history{}}}
		} else {
			for _, h := range frontier {
				for _, o := range ops {
					nh := make(history, len(h)+1)
					copy(nh, h)
					nh[len(h)] = o
					tasks = append(tasks, &bfsTask{hist: nh})
				}
			}
		}
		// phase 1: replay every history, key its state, run the battery once per new state
		var next atomic.Int64
		var wg sync.WaitGroup
		for w := 0; w < nw; w++ {
			wg.Add(1)
			go func() {
				defer wg.Done()
				for {
					i := int(next.Add(1)) - 1
					if i >= len(tasks) {
						return
					}
					if capped.Load() {
						return
					}
					if time.Since(start) > budget {
						capped.Store(true)
						return
					}
					t := tasks[i]
					db, insErr, err := buildState(ctx, t.hist)
					if err != nil {
						t.infra = err
						t.done = true
						continue
					}
					t.insEr = insErr
					key, err := dumpKey(ctx, db)
					if err != nil {
						t.infra = err
						t.done = true
						db.Close()
						continue
					}
					t.key = key
					t.mask = t.hist.mask()
					e := getEntry(key)
					e.once.Do(func() {
						e.si = runBattery(ctx, db, fixedSeed, battery)
						atomic.AddInt64(&batteryRuns, 1)
					})
					// C14, idempotence across a history: delivering any batch of the history once more
					// (a retry after a lost acknowledgement, a peer re-sending) must change no answer
					for bi, o := range t.hist {
						if ierr := sqlite.VerifInsertEvents(ctx, db, fixedSeed, o.events()); ierr != nil {
							if t.insEr == "" {
								t.redeliver = fmt.Sprintf("delivering batch %d %s again fails: %v", bi, o, ierr)
							}
							break
						}
						k2, kerr := dumpKey(ctx, db)
						if kerr != nil || k2 == key {
							continue
						}
						after := runBattery(ctx, db, fixedSeed, battery)
						if same, tieOnly, diff := sameAnswers(e.si, after, battery); !same && !tieOnly {
							t.redeliver = fmt.Sprintf("delivering batch %d %s again: %s", bi, o, diff)
							break
						}
						atomic.AddInt64(&redeliveryBatteries, 1)
					}
					atomic.AddInt64(&redeliveries, int64(len(t.hist)))
					db.Close()
					t.done = true
				}
			}()
		}
		wg.Wait()
		for _, t := range tasks {
			if t.infra != nil {
				c.Infra("exploration failed at history %s: %v", t.hist, t.infra)
			}
			if t.redeliver != "" {
				c.ViolateProp("C14", "C14/idempotence: delivering an earlier batch of the history again changes answers",
					fmt.Sprintf("history %s; %s", t.hist, t.redeliver), bfsReplay{Part: "sqlite-bfs", History: t.hist.names()})
			}
		}
		// phase 2: judge every new (state, inserted set) pair, in parallel
		type job struct {
			p    pair
			task *bfsTask
			res  *oracleResult
		}
		var jobs []*job
		for _, t := range tasks {
			if !t.done {
				continue
			}
			p := pair{t.key, t.mask}
			if judged[p] {
				continue
			}
			judged[p] = true
			jobs = append(jobs, &job{p: p, task: t})
		}
		next.Store(0)
		for w := 0; w < nw; w++ {
			wg.Add(1)
			go func() {
				defer wg.Done()
				for {
					i := int(next.Add(1)) - 1
					if i >= len(jobs) {
						return
					}
					j := jobs[i]
					j.res = evalOracle(getEntry(j.p.key).si, j.p.mask, battery)
				}
			}()
		}
		wg.Wait()
		// phase 3: sequential, canonical order: report, collect the next frontier
		for _, j := range jobs {
			c.Eval(j.res.evals)
			c.Unclaimed(j.res.unclaimed)
			if j.res.worlds > 1 {
				unclaimedStates++
			}
			for _, f := range j.res.fails {
				detail := ""
				var replay any
				if !sigSeen[f.sig] {
					sigSeen[f.sig] = true
					detail = fmt.Sprintf("history (batches) %s; inserted %s; query %s: %s", j.task.hist, maskNames(j.p.mask), battery[f.q], f.detail())
					replay = bfsReplay{Part: "sqlite-bfs", History: j.task.hist.names(), Query: battery[f.q].String(), QueryIx: f.q}
				}
				c.ViolateProp("C06", f.sig, detail, replay)
			}
		}
		var newFrontier []history
		complete := true
		for _, t := range tasks {
			if !t.done {
				complete = false
				continue
			}
			if d > 0 {
				transitions++
			}
			traces++
			insertedSets[t.mask] = true
			if t.insEr != "" {
				detail := ""
				if !sigSeen["inserr"] {
					sigSeen["inserr"] = true
					detail = fmt.Sprintf("history %s: %s", t.hist, t.insEr)
				}
				c.ViolateProp("C06", "C06/insertEvents returned an error on a well-formed batch", detail, bfsReplay{Part: "sqlite-bfs", History: t.hist.names()})
			}
			if !seenState[t.key] {
				seenState[t.key] = true
				newFrontier = append(newFrontier, t.hist)
				c.Outcome(getEntry(t.key).si.fingerprint(false))
				if len(newFrontier)%97 == 1 && d > 0 {
					c.Sample(map[string]any{"history": t.hist.String(), "depth": d, "inserted": maskNames(t.mask)})
				}
			}
		}
		statesPerDepth = append(statesPerDepth, len(newFrontier))
		if !complete {
			c.Cap(fmt.Sprintf("wall budget %s reached at depth %d: %d of %d histories of this depth replayed", budget, d, traces, len(tasks)))
			break
		}
		maxDepthDone = d
		frontier = newFrontier
		fmt.Fprintf(os.Stderr, "sqlite-bfs: depth %d: %d histories, %d new states, %d judged pairs so far, %.1fs\n", d, len(tasks), len(newFrontier), len(judged), time.Since(start).Seconds())
	}

	// evidence
	c.P.States = int64(len(seenState))
	c.P.Transitions = transitions
	c.P.TracesValidated = traces
	c.DistinctN(int64(len(judged)))
	c.P.Bound = fmt.Sprintf("all histories of ≤ %d batches over %d batch operations (%d single events + %d ordered pairs of a %d-event core)", maxDepthDone, len(ops), len(alphabet), len(ops)-len(alphabet), coreSize())
	nSingle, nPair := 0, 0
	for _, q := range battery {
		switch len(q.fs) {
		case 1:
			nSingle++
		case 2:
			nPair++
		}
	}
	c.SetExtra("battery_filter_lists", len(battery))
	c.SetExtra("battery_single_filters", nSingle)
	c.SetExtra("battery_ordered_pairs", nPair)
	c.SetExtra("batch_operations", len(ops))
	c.SetExtra("alphabet_events", len(alphabet))
	c.SetExtra("depth", maxDepthDone)
	c.SetExtra("new_states_per_depth", statesPerDepth)
	c.SetExtra("battery_runs_on_impl", batteryRuns)
	c.SetExtra("redeliveries_of_an_earlier_batch", redeliveries)
	c.SetExtra("redeliveries_that_changed_tables_but_no_answer", redeliveryBatteries)
	c.SetExtra("queries_on_impl", batteryRuns*int64(len(battery)))
	c.SetExtra("judged_state_x_inserted_set_pairs", len(judged))
	c.SetExtra("distinct_inserted_sets", len(insertedSets))
	c.SetExtra("pairs_with_more_than_one_unclaimed_world", unclaimedStates)
	c.SetExtra("workers", nw)
	c.SetExtra("unclaimed_zones", []string{"addressable events without d tag (an)", "equal-timestamp versions of one address (v2/v2tie)", "ties at a limit cut", "the empty filter list", "a reference to a plain replaceable kind (k_a0 → 0:P:)", "deletion request that is itself deleted (k_k → k_e_r1)"})
}

func coreSize() int {
	n := 0
	for _, a := range alphabet {
		if a.core {
			n++
		}
	}
	return n
}
