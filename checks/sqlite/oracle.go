package main

import (
	"context"
	"crypto/sha256"
	"database/sql"
	"encoding/binary"
	"encoding/hex"
	"fmt"
	"sort"
	"strings"
	"sync"
	"sync/atomic"

	"github.com/high-moctane/mocrelay"
	"github.com/high-moctane/mocrelay/handler/sqlite"
	"verifkit/refmodel"
)

func classOf(e *mocrelay.Event) string { return refmodel.StoreClass(e) }

// answer is what one query of the battery returned, reduced to alphabet indices. An event whose
// id is in the alphabet but whose other fields differ is recorded in stateInfo.diffs, so that
// (answers, diffs) together identify the observation completely.
type answer struct {
	idx     []int16  // alphabet index, -1 = id not in the alphabet
	unknown []string // the ids behind the -1 entries
	err     string
}

type fieldDiff struct {
	q      int
	ev     int
	field  string
	detail string
}

// stateInfo holds the answers of the whole battery in one database state.
type stateInfo struct {
	answers []answer
	diffs   []fieldDiff
}

func tagsEqual(a, b []mocrelay.Tag) bool {
	if len(a) != len(b) {
		return false
	}
	for i := range a {
		if len(a[i]) != len(b[i]) {
			return false
		}
		for j := range a[i] {
			if a[i][j] != b[i][j] {
				return false
			}
		}
	}
	return true
}

func clipQ(s string) string {
	q := fmt.Sprintf("%+q", s)
	if len(q) > 120 {
		q = q[:120] + "…"
	}
	return q
}

// diffEvent compares all seven fields.
func diffEvent(want, got *mocrelay.Event) (field, detail string) {
	switch {
	case got.ID != want.ID:
		return "id", fmt.Sprintf("want %s got %s", want.ID, got.ID)
	case got.Pubkey != want.Pubkey:
		return "pubkey", fmt.Sprintf("want %s got %s", want.Pubkey, got.Pubkey)
	case got.CreatedAt != want.CreatedAt:
		return "created_at", fmt.Sprintf("want %d got %d", want.CreatedAt, got.CreatedAt)
	case got.Kind != want.Kind:
		return "kind", fmt.Sprintf("want %d got %d", want.Kind, got.Kind)
	case !tagsEqual(want.Tags, got.Tags):
		return "tags", fmt.Sprintf("want %q got %q", want.Tags, got.Tags)
	case got.Content != want.Content:
		return "content", fmt.Sprintf("want (%d bytes) %s got (%d bytes) %s", len(want.Content), clipQ(want.Content), len(got.Content), clipQ(got.Content))
	case got.Sig != want.Sig:
		return "sig", fmt.Sprintf("want %s got %s", want.Sig, got.Sig)
	}
	return "", ""
}

// runBattery asks every query of the battery.
func runBattery(ctx context.Context, db *sql.DB, seed uint32, battery []*query) *stateInfo {
	return collectBattery(battery, func(q *query) ([]*mocrelay.Event, error) {
		return sqlite.VerifQueryEvent(ctx, db, seed, q.filters(), sqlite.NoLimit)
	})
}

// collectBattery asks every query through ask (the white-box accessor, or a REQ through the
// real handler) and reduces the answers to alphabet indices and field differences.
func collectBattery(battery []*query, ask func(q *query) ([]*mocrelay.Event, error)) *stateInfo {
	si := &stateInfo{answers: make([]answer, len(battery))}
	for qi, q := range battery {
		got, err := ask(q)
		a := &si.answers[qi]
		if err != nil {
			a.err = err.Error()
			if len(a.err) > 300 {
				a.err = a.err[:300] + "…"
			}
			continue
		}
		a.idx = make([]int16, len(got))
		for i, g := range got {
			if g == nil {
				a.idx[i] = -1
				a.unknown = append(a.unknown, "<nil event>")
				continue
			}
			x, ok := byID[g.ID]
			if !ok {
				a.idx[i] = -1
				a.unknown = append(a.unknown, g.ID)
				continue
			}
			a.idx[i] = int16(x)
			if f, d := diffEvent(alphabet[x].e, g); f != "" {
				si.diffs = append(si.diffs, fieldDiff{q: qi, ev: x, field: f, detail: d})
			}
		}
	}
	return si
}

// fingerprint identifies the observation of a state (answers in order, field differences).
func (si *stateInfo) fingerprint(sorted bool) string {
	h := sha256.New()
	for qi := range si.answers {
		a := &si.answers[qi]
		idx := append([]int16(nil), a.idx...)
		if sorted {
			sort.SliceStable(idx, func(i, j int) bool {
				ti, tj := int64(-1), int64(-1)
				if idx[i] >= 0 {
					ti = alphabet[idx[i]].e.CreatedAt
				}
				if idx[j] >= 0 {
					tj = alphabet[idx[j]].e.CreatedAt
				}
				if ti != tj {
					return ti > tj
				}
				return idx[i] < idx[j]
			})
		}
		fmt.Fprintf(h, "q%d:%v|%v|%s\n", qi, idx, a.unknown, a.err)
	}
	for _, d := range si.diffs {
		fmt.Fprintf(h, "d:%d:%d:%s:%s\n", d.q, d.ev, d.field, d.detail)
	}
	return hex.EncodeToString(h.Sum(nil))
}

// firstDifference describes the first query on which two observations differ (ignoring the
// order among equal timestamps when sorted is set).
func firstDifference(a, b *stateInfo, battery []*query, sorted bool) (int, string) {
	norm := func(x []int16) []int16 {
		y := append([]int16(nil), x...)
		if sorted {
			sort.SliceStable(y, func(i, j int) bool {
				ti, tj := int64(-1), int64(-1)
				if y[i] >= 0 {
					ti = alphabet[y[i]].e.CreatedAt
				}
				if y[j] >= 0 {
					tj = alphabet[y[j]].e.CreatedAt
				}
				if ti != tj {
					return ti > tj
				}
				return y[i] < y[j]
			})
		}
		return y
	}
	for qi := range a.answers {
		x, y := &a.answers[qi], &b.answers[qi]
		if x.err != y.err || fmt.Sprint(norm(x.idx)) != fmt.Sprint(norm(y.idx)) || fmt.Sprint(x.unknown) != fmt.Sprint(y.unknown) {
			return qi, fmt.Sprintf("query %s: %s versus %s", battery[qi], answerNames(x), answerNames(y))
		}
	}
	if fmt.Sprint(a.diffs) != fmt.Sprint(b.diffs) {
		return -1, fmt.Sprintf("field differences differ: %v versus %v", a.diffs, b.diffs)
	}
	return -1, ""
}

func answerNames(a *answer) string {
	if a.err != "" {
		return "error(" + a.err + ")"
	}
	ss := make([]string, len(a.idx))
	u := 0
	for i, x := range a.idx {
		if x >= 0 {
			ss[i] = fmt.Sprintf("%s@%d", alphabet[x].name, alphabet[x].e.CreatedAt)
		} else {
			ss[i] = "unknown:" + a.unknown[u]
			u++
		}
	}
	return "[" + strings.Join(ss, " ") + "]"
}

// failure is one oracle failure of one query.
type failure struct {
	sig    string
	q      int
	detail func() string
}

type oracleResult struct {
	fails     []failure
	unclaimed int64 // query evaluations that touched an unclaimed zone
	worlds    int
	evals     int64
}

func maskNames(mask uint32) string {
	var ss []string
	for i := range alphabet {
		if mask&(1<<uint(i)) != 0 {
			ss = append(ss, alphabet[i].name)
		}
	}
	return "{" + strings.Join(ss, " ") + "}"
}

// evalOracle judges the answers of a state against the set of events inserted so far.
func evalOracle(si *stateInfo, mask uint32, battery []*query) *oracleResult {
	res := &oracleResult{}
	var evs []*mocrelay.Event
	var ix []int
	for i := range alphabet {
		if mask&(1<<uint(i)) != 0 {
			evs = append(evs, alphabet[i].e)
			ix = append(ix, i)
		}
	}
	worlds, info := refmodel.StoreWorlds(evs)
	res.worlds = len(worlds)
	infoOf := make(map[int]refmodel.Liveness, len(ix))
	for j, i := range ix {
		infoOf[i] = info[j]
	}
	ts := func(i int) int64 { return alphabet[i].e.CreatedAt }

	// world-independent clauses
	var fixed []failure
	usable := make([][]int, len(battery)) // per query: returned indices that are inserted alphabet events
	for qi, q := range battery {
		a := &si.answers[qi]
		if q.empty {
			res.unclaimed++
			continue
		}
		res.evals++
		if a.err != "" {
			fixed = append(fixed, failure{"C06/query returned an error", qi, func() string { return "error: " + a.err }})
			continue
		}
		seen := map[int16]bool{}
		dup, disorder := false, false
		for i, x := range a.idx {
			if x < 0 || mask&(1<<uint(x)) == 0 {
				fixed = append(fixed, failure{"C06/returned an event that was never inserted", qi, func() string { return "answer " + answerNames(a) }})
				continue
			}
			if seen[x] {
				dup = true
				continue
			}
			seen[x] = true
			usable[qi] = append(usable[qi], int(x))
			if i > 0 && a.idx[i-1] >= 0 && ts(int(a.idx[i-1])) < ts(int(x)) {
				disorder = true
			}
		}
		if dup {
			fixed = append(fixed, failure{"C06/duplicate event in answer", qi, func() string { return "answer " + answerNames(a) }})
		}
		if disorder {
			fixed = append(fixed, failure{"C06/answer not in non-increasing created_at order", qi, func() string { return "answer " + answerNames(a) }})
		}
	}
	for _, d := range si.diffs {
		d := d
		if battery[d.q].empty {
			continue
		}
		fixed = append(fixed, failure{"C06/returned event differs from inserted (" + d.field + ")", d.q, func() string {
			return fmt.Sprintf("event %s (%s): %s", alphabet[d.ev].name, classOf(alphabet[d.ev].e), d.detail)
		}})
	}

	// world-dependent clause: legal union of per-filter limit-newest live matches
	var best []failure
	var bestUnclaimed int64
	for wi, w := range worlds {
		live := map[int]bool{}
		for j, i := range ix {
			if w[j] {
				live[i] = true
			}
		}
		var fails []failure
		var uncl int64
		for qi, q := range battery {
			if q.empty || si.answers[qi].err != "" {
				continue
			}
			matches := make([][]int, len(q.fs))
			limits := make([]*int64, len(q.fs))
			for fi, f := range q.fs {
				limits[fi] = f.f.Limit
				for _, i := range ix {
					if live[i] && f.match[i] {
						matches[fi] = append(matches[fi], i)
					}
				}
			}
			v := refmodel.LimitNewestUnion(matches, limits, ts, usable[qi])
			if v.Tie || len(worlds) > 1 {
				uncl++
			}
			if v.OK {
				continue
			}
			q, qi := q, qi
			expect := func() string {
				var ss []string
				for fi := range q.fs {
					var ns []string
					for _, i := range matches[fi] {
						ns = append(ns, fmt.Sprintf("%s@%d", alphabet[i].name, ts(i)))
					}
					ss = append(ss, fmt.Sprintf("filter %d %s: live matches {%s}", fi, fstr(q.fs[fi].f), strings.Join(ns, " ")))
				}
				return strings.Join(ss, "; ") + "; got " + answerNames(&si.answers[qi])
			}
			for _, e := range v.Excess {
				e := e
				cls := infoOf[e].Class
				var sig string
				switch {
				case !live[e] && infoOf[e].NotLive == "deleted by e reference with extra elements":
					sig = "C06/deletion by e tag with extra elements does not hide its target"
				case !live[e] && infoOf[e].NotLive == "deleted by a reference with extra elements":
					sig = "C06/deletion by a tag with extra elements does not hide its target"
				case !live[e] && infoOf[e].NotLive != "":
					sig = fmt.Sprintf("C06/returned non-matching or deleted event (%s: %s)", cls, infoOf[e].NotLive)
				case !live[e]:
					sig = fmt.Sprintf("C06/returned non-matching or deleted event (%s: absent in the best-fitting unclaimed world)", cls)
				default:
					var hit []*filt
					for _, f := range q.fs {
						if f.match[e] {
							hit = append(hit, f)
						}
					}
					if len(hit) == 0 {
						var fc []string
						for _, f := range q.fs {
							fc = append(fc, filterClass(f.f))
						}
						sig = fmt.Sprintf("C06/returned non-matching or deleted event (%s: matches no filter; filter: %s)", cls, strings.Join(fc, " | "))
					} else {
						zero := false
						for _, f := range hit {
							if f.f.Limit != nil && *f.f.Limit == 0 {
								zero = true
							}
						}
						if zero {
							sig = "C06/limit 0 returns events"
						} else {
							sig = fmt.Sprintf("C06/limit exceeded: more than limit newest matches of a filter returned (filter: %s)", filterClass(hit[0].f))
						}
					}
				}
				fails = append(fails, failure{sig, qi, func() string {
					return fmt.Sprintf("unexpected event %s %s; %s", alphabet[e].name, describeEvent(alphabet[e].e), expect())
				}})
			}
			for _, e := range v.Missing {
				e := e
				var mand *filt
				for fi, f := range q.fs {
					for _, i := range v.Mandatory[fi] {
						if i == e && mand == nil {
							mand = f
						}
					}
				}
				if len(v.Excess) > 0 && mand != nil && mand.f.Limit != nil {
					continue // displaced by the unexpected event under the same limit: reported there
				}
				fc := "?"
				if mand != nil {
					fc = filterClass(mand.f)
				}
				fails = append(fails, failure{fmt.Sprintf("C06/missing live match (filter: %s; event: %s)", fc, infoOf[e].Class), qi, func() string {
					return fmt.Sprintf("missing event %s %s; %s", alphabet[e].name, describeEvent(alphabet[e].e), expect())
				}})
			}
			if v.CutFail {
				sig := "C06/limit cut: answer is not a union of per-filter limit-newest choices"
				// name the root cause when the answer is exactly what results from reading every
				// `limit: 0` of the list as "no limit"
				zero := false
				lim2 := append([]*int64(nil), limits...)
				for fi := range lim2 {
					if lim2[fi] != nil && *lim2[fi] == 0 {
						lim2[fi], zero = nil, true
					}
				}
				if zero && refmodel.LimitNewestUnion(matches, lim2, ts, usable[qi]).OK {
					sig = "C06/limit 0 returns events"
				}
				fails = append(fails, failure{sig, qi, expect})
			}
		}
		if wi == 0 || len(fails) < len(best) {
			best, bestUnclaimed = fails, uncl
		}
		if len(best) == 0 {
			break
		}
	}
	res.unclaimed += bestUnclaimed
	res.fails = append(fixed, best...)
	return res
}

// dumpKey is the canonical key of a database state: all five tables, sorted.
func dumpKey(ctx context.Context, db *sql.DB) (string, error) {
	h := sha256.New()
	tables := []struct {
		name, q string
		n       int
	}{
		{"events", "select event_key, id, pubkey, created_at, kind from events order by event_key", 5},
		{"event_payloads", "select event_key, tags, cast(content as blob), sig from event_payloads order by event_key", 4},
		{"event_tags", "select tag_hash, created_at, event_key from event_tags order by tag_hash, created_at, event_key", 3},
		{"deleted_event_keys", "select event_key, pubkey from deleted_event_keys order by event_key, pubkey", 2},
		{"deleted_event_ids", "select id, pubkey from deleted_event_ids order by id, pubkey", 2},
	}
	var lenbuf [8]byte
	for _, t := range tables {
		rows, err := db.QueryContext(ctx, t.q)
		if err != nil {
			return "", fmt.Errorf("dump %s: %w", t.name, err)
		}
		fmt.Fprintf(h, "table %s\n", t.name)
		vals := make([]sql.RawBytes, t.n)
		ptrs := make([]any, t.n)
		for i := range vals {
			ptrs[i] = &vals[i]
		}
		for rows.Next() {
			if err := rows.Scan(ptrs...); err != nil {
				rows.Close()
				return "", fmt.Errorf("dump %s: %w", t.name, err)
			}
			for _, v := range vals {
				binary.LittleEndian.PutUint64(lenbuf[:], uint64(len(v)))
				h.Write(lenbuf[:])
				h.Write(v)
			}
			h.Write([]byte{'\n'})
		}
		if err := rows.Err(); err != nil {
			rows.Close()
			return "", fmt.Errorf("dump %s: %w", t.name, err)
		}
		rows.Close()
	}
	return string(h.Sum(nil)), nil
}

// tableCounts is used in evidence samples.
func tableCounts(ctx context.Context, db *sql.DB) map[string]int {
	m := map[string]int{}
	for _, t := range []string{"events", "event_payloads", "event_tags", "deleted_event_keys", "deleted_event_ids"} {
		var n int
		db.QueryRowContext(ctx, "select count(*) from "+t).Scan(&n)
		m[t] = n
	}
	return m
}

// batteryMemo shares battery runs between database states with equal contents. It rests on the
// assumption (stated in the evidence) that an answer is a function of the five tables, the seed
// row(s) and the seed passed to the query. Runs marked `force` always ask the implementation and
// cross-check the memo; a mismatch is reported as broken assumption (infrastructure failure).
type batteryMemo struct {
	mu       sync.Mutex
	m        map[string]*stateInfo
	hits     int64
	runs     int64
	mismatch string
}

func newBatteryMemo() *batteryMemo { return &batteryMemo{m: map[string]*stateInfo{}} }

func (bm *batteryMemo) observe(ctx context.Context, db *sql.DB, seed uint32, battery []*query, force bool) (*stateInfo, error) {
	key, err := dumpKey(ctx, db)
	if err != nil {
		return nil, err
	}
	rows, err := db.QueryContext(ctx, "select seed from xxhash_seed order by seed")
	if err != nil {
		return nil, err
	}
	for rows.Next() {
		var s int64
		rows.Scan(&s)
		key += fmt.Sprintf("|%d", s)
	}
	rows.Close()
	key += fmt.Sprintf("|used %d", seed)
	bm.mu.Lock()
	cached := bm.m[key]
	bm.mu.Unlock()
	if cached != nil && !force {
		atomic.AddInt64(&bm.hits, 1)
		return cached, nil
	}
	si := runBattery(ctx, db, seed, battery)
	atomic.AddInt64(&bm.runs, 1)
	bm.mu.Lock()
	if cached != nil {
		if cached.fingerprint(false) != si.fingerprint(false) && bm.mismatch == "" {
			_, d := firstDifference(cached, si, battery, false)
			bm.mismatch = d
		}
	} else {
		bm.m[key] = si
	}
	bm.mu.Unlock()
	return si, nil
}
