package main

import (
	"encoding/hex"
	"fmt"
	"strings"

	"github.com/coder/websocket"
	"github.com/high-moctane/mocrelay"
)

// c01Sweep is the gate clause of C01 (DESIGN §4 C01 item d): authentic and tampered events are
// sent through the real relay; the recording handler must receive exactly the authentic ones.
// Authenticity is decided by the reference (refmodel serializer, sha256, btcec) only.
func c01Sweep() []frame {
	var out []frame
	hexA, hexB := strings.Repeat("a", 64), strings.Repeat("b", 64)
	contents := []struct{ name, s string }{
		{"empty", ""}, {"'<'", "<"}, {"'>'", ">"}, {"'&'", "&"}, {"U+2028", "\u2028"}, {"U+2029", "\u2029"},
		{"mixed special", specialContent}, {"C0 controls", "\x01\x1f"}, {"DEL", "\x7f"}, {"astral", "\U0001F600"},
		{"mandated escapes", "\"\\\n\r\t\b\f"}, {"3000 bytes", strings.Repeat("x<", 1500)},
		{"U+FFFD", "\ufffd"}, {"html", "<script>alert('&amp;')</script>"}, {"json in content", `{"a":["b"]}`}, {"plain", "gm"},
		// text that LOOKS like a JSON escape: a literal backslash followed by u003c / u2028 / u0026 (someone quoting code)
		{"literal backslash-u text", `a\u003cb \u2028 \u0026 \\u003e \u0041`}, {"backslash at the end", `x\`},
	}
	kinds := []int64{1, 0, 20001, 30023, 65535}
	created := []int64{1700000000, 0, 1, 1 << 31, 1 << 53}
	tagShapes := [][][]string{
		{},
		{{"e", hexA}, {"p", hexB}},
		{{"d", ""}},
		{{"t", "<&>\u2028"}},
	}
	for i, c := range contents {
		sg := signerA
		if i%2 == 1 {
			sg = signerB
		}
		ev := sg.sign(created[i%len(created)], kinds[i%len(kinds)], tagShapes[i%len(tagShapes)], c.s)
		for _, raw := range []bool{true, false} {
			if !raw && i%4 != 1 { // the \u-escaped wire form for a quarter of them
				continue
			}
			form := "verbatim"
			if !raw {
				form = "\\u-escaped"
			}
			out = append(out, frame{
				Class: fmt.Sprintf("authentic EVENT, content %s, kind %d, %s", c.name, ev.Kind, form), SigClass: "authentic EVENT of the C01 sweep", Type: websocket.MessageText,
				Payload: eventFrame("EVENT", ev, raw), Verdict: deliver, Want: &mocrelay.ClientEventMsg{Event: ev},
				C01Sig: fmt.Sprintf("gate: authentic event rejected (content %s)", c.name),
			})
		}
	}

	base := signerA.sign(1700000100, 1, [][]string{{"t", "x"}, {"e", hexA}}, "base <content>")
	tam := func(name string, f func(ev *mocrelay.Event)) {
		ev := *base
		ev.Tags = tagsOf(toStrs(base.Tags))
		f(&ev)
		out = append(out, frame{
			Class: "tampered EVENT: " + name, SigClass: "tampered EVENT of the C01 sweep", Type: websocket.MessageText, Payload: eventFrame("EVENT", &ev, true),
			Verdict: reject, EventID: ev.ID, C01Sig: fmt.Sprintf("gate: tampered event reached the handler (%s)", name),
			Want: &mocrelay.ClientEventMsg{Event: &ev}, // only used by the self-check below
		})
	}
	flip := func(h string, byteIdx int, bit uint) string {
		b, _ := hex.DecodeString(h)
		b[byteIdx] ^= 1 << bit
		return hex.EncodeToString(b)
	}
	reid := func(ev *mocrelay.Event) {
		id := refID(ev.Pubkey, ev.CreatedAt, ev.Kind, toStrs(ev.Tags), ev.Content)
		ev.ID = hex.EncodeToString(id[:])
	}
	tam("sig bit 0 of byte 0 flipped", func(ev *mocrelay.Event) { ev.Sig = flip(ev.Sig, 0, 0) })
	tam("sig last bit of r flipped", func(ev *mocrelay.Event) { ev.Sig = flip(ev.Sig, 31, 0) })
	tam("sig first bit of s flipped", func(ev *mocrelay.Event) { ev.Sig = flip(ev.Sig, 32, 7) })
	tam("sig last bit flipped", func(ev *mocrelay.Event) { ev.Sig = flip(ev.Sig, 63, 0) })
	tam("sig all zero", func(ev *mocrelay.Event) { ev.Sig = strings.Repeat("0", 128) })
	tam("sig of another key", func(ev *mocrelay.Event) {
		ev.Sig = signerB.sign(base.CreatedAt, base.Kind, toStrs(base.Tags), base.Content).Sig
	})
	tam("id first bit flipped", func(ev *mocrelay.Event) { ev.ID = flip(ev.ID, 0, 7) })
	tam("id last bit flipped", func(ev *mocrelay.Event) { ev.ID = flip(ev.ID, 31, 0) })
	tam("pubkey swapped", func(ev *mocrelay.Event) { ev.Pubkey = signerB.pub })
	tam("pubkey swapped, id recomputed", func(ev *mocrelay.Event) { ev.Pubkey = signerB.pub; reid(ev) })
	tam("pubkey last bit flipped", func(ev *mocrelay.Event) { ev.Pubkey = flip(ev.Pubkey, 31, 0) })
	tam("pubkey last bit flipped, id recomputed", func(ev *mocrelay.Event) { ev.Pubkey = flip(ev.Pubkey, 31, 0); reid(ev) })
	tam("created_at + 1", func(ev *mocrelay.Event) { ev.CreatedAt++ })
	tam("created_at + 1, id recomputed", func(ev *mocrelay.Event) { ev.CreatedAt++; reid(ev) })
	tam("kind + 1", func(ev *mocrelay.Event) { ev.Kind++ })
	tam("kind + 1, id recomputed", func(ev *mocrelay.Event) { ev.Kind++; reid(ev) })
	tam("tag value changed", func(ev *mocrelay.Event) { ev.Tags[0][1] = "y" })
	tam("tag appended", func(ev *mocrelay.Event) { ev.Tags = append(ev.Tags, mocrelay.Tag{"p", hexB}) })
	tam("tag removed", func(ev *mocrelay.Event) { ev.Tags = ev.Tags[:1] })
	tam("tag removed, id recomputed", func(ev *mocrelay.Event) { ev.Tags = ev.Tags[:1]; reid(ev) })
	tam("content '<' replaced by '&lt;'", func(ev *mocrelay.Event) { ev.Content = strings.ReplaceAll(ev.Content, "<", "&lt;") })
	tam("content changed, id recomputed", func(ev *mocrelay.Event) { ev.Content += "!"; reid(ev) })
	tam("content trailing space", func(ev *mocrelay.Event) { ev.Content += " " })

	// reference-side self-check
	for i := range out {
		ev := out[i].Want.(*mocrelay.ClientEventMsg).Event
		if refAuthentic(ev) != (out[i].Verdict == deliver) {
			panic("c01 sweep: reference verdict contradicts the construction: " + out[i].Class)
		}
		if out[i].Verdict == reject {
			out[i].Want = nil
		}
	}
	return out
}

func toStrs(tags []mocrelay.Tag) [][]string {
	out := make([][]string, len(tags))
	for i, t := range tags {
		out[i] = append([]string{}, t...)
	}
	return out
}
