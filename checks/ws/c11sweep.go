package main

import (
	"strings"

	"github.com/coder/websocket"
	"github.com/high-moctane/mocrelay"
)

// c11Sweep is the gate clause of C11 ("components behind the gate can rely on [the constraints]",
// observed as NOTICE vs forwarded message behind Relay.ServeHTTP): well-formed messages of every
// type and single-point corruptions of them that still PARSE (wrong case, wrong range, wrong sign)
// are sent through the real relay; the recording handler must receive exactly the well-formed
// ones. Which texts are well-formed is fixed by construction from the statement's list.
func c11Sweep() []frame {
	var out []frame
	text := websocket.MessageText
	hexA, hexB := strings.Repeat("a", 64), strings.Repeat("b", 64)
	ok := func(class, payload string, want mocrelay.ClientMsg) {
		out = append(out, frame{Class: "well-formed " + class, SigClass: "well-formed message of the C11 sweep", Type: text, Payload: []byte(payload), Verdict: deliver, Want: want,
			C11Sig: "gate: well-formed message not forwarded (" + class + ")"})
	}
	bad := func(class, payload string) {
		out = append(out, frame{Class: "ill-formed " + class, SigClass: "ill-formed message of the C11 sweep", Type: text, Payload: []byte(payload), Verdict: reject,
			C11Sig: "gate: message breaking a constraint reached the handler (" + class + ")"})
	}
	addr := "30023:" + hexB + ":"
	ok("REQ with every filter member", `["REQ","s",{"ids":["`+hexA+`"],"authors":["`+hexB+`"],"kinds":[0,65535],"#e":["`+hexA+`"],"#p":["`+hexB+`"],"#a":["`+addr+`"],"#t":["x"],"since":0,"until":1700000000,"limit":0}]`,
		&mocrelay.ClientReqMsg{SubscriptionID: "s", ReqFilters: []*mocrelay.ReqFilter{{IDs: []string{hexA}, Authors: []string{hexB}, Kinds: []int64{0, 65535},
			Tags: map[string][]string{"e": {hexA}, "p": {hexB}, "a": {addr}, "t": {"x"}}, Since: p64(0), Until: p64(1700000000), Limit: p64(0)}}})
	ok("REQ with two filters", `["REQ","s",{},{"kinds":[1]}]`, &mocrelay.ClientReqMsg{SubscriptionID: "s", ReqFilters: []*mocrelay.ReqFilter{{}, {Kinds: []int64{1}}}})
	ok("COUNT", `["COUNT","c",{"since":5,"until":5}]`, &mocrelay.ClientCountMsg{SubscriptionID: "c", ReqFilters: []*mocrelay.ReqFilter{{Since: p64(5), Until: p64(5)}}})
	ok("CLOSE", `["CLOSE","s"]`, &mocrelay.ClientCloseMsg{SubscriptionID: "s"})
	top := signerA.sign(0, 65535, [][]string{{"a", addr}, {"e", hexA}}, "")
	ok("EVENT kind 65535, created_at 0", string(eventFrame("EVENT", top, true)), &mocrelay.ClientEventMsg{Event: top})

	for _, c := range []struct{ class, filter string }{
		{"REQ negative limit", `{"limit":-1}`},
		{"REQ negative since", `{"since":-1}`},
		{"REQ negative until", `{"until":-1}`},
		{"REQ upper-case id", `{"ids":["` + strings.ToUpper(hexA) + `"]}`},
		{"REQ upper-case author", `{"authors":["` + strings.ToUpper(hexB) + `"]}`},
		{"REQ non-hex id", `{"ids":["` + strings.Repeat("g", 64) + `"]}`},
		{"REQ kind 65536", `{"kinds":[65536]}`},
		{"REQ kind -1", `{"kinds":[-1]}`},
		{"REQ #e upper-case", `{"#e":["` + strings.ToUpper(hexA) + `"]}`},
		{"REQ #p too short", `{"#p":["` + hexB[:63] + `"]}`},
		{"REQ #a without pubkey", `{"#a":["30023"]}`},
		{"REQ #a with upper-case pubkey", `{"#a":["30023:` + strings.ToUpper(hexB) + `:"]}`},
		{"REQ second filter breaks a constraint", `{},{"limit":-5}`},
	} {
		bad(c.class, `["REQ","s",`+c.filter+`]`)
	}
	bad("COUNT negative since", `["COUNT","c",{"since":-1}]`)
	bad("COUNT kind 65536", `["COUNT","c",{"kinds":[65536]}]`)
	// correctly signed events that break a constraint: the signature check cannot be what stops them
	k := signerA.sign(1700000000, 65536, nil, "kind out of range")
	bad("EVENT kind 65536, correctly signed", string(eventFrame("EVENT", k, true)))
	up := *signerA.sign(1700000000, 1, nil, "sig in upper case")
	up.Sig = strings.ToUpper(up.Sig)
	bad("EVENT upper-case sig of a correctly signed event", string(eventFrame("EVENT", &up, true)))
	upk := *signerA.sign(1700000000, 1, nil, "pubkey in upper case")
	upk.Pubkey = strings.ToUpper(upk.Pubkey)
	bad("EVENT upper-case pubkey", string(eventFrame("EVENT", &upk, true)))
	authBad := signerA.sign(1700000000, 65536, [][]string{{"relay", "ws://relay.invalid/"}, {"challenge", "c"}}, "")
	bad("AUTH event of kind 65536", string(eventFrame("AUTH", authBad, true)))
	return out
}
