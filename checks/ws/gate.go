package main

import (
	"context"
	"errors"
	"fmt"
	"os"
	"strconv"
	"strings"
	"sync"
	"time"

	"github.com/coder/websocket"
	"github.com/high-moctane/mocrelay"
	"verifkit/vk"
	"verifkit/wsx"
)

func init() {
	parts["ws-gate"] = wsGate
	shardParts["ws-gate"] = wsGateShard
}

// gateMaxLen: quick 2, thorough 3; `ws-gate maxlen=N` overrides (passed to the shards through the
// environment).
func gateMaxLen(tier string) int {
	if v, err := strconv.Atoi(os.Getenv("VERIF_WS_MAXLEN")); err == nil && v >= 0 && v <= 5 {
		return v
	}
	if tier == "thorough" {
		return 3
	}
	return 2
}

func wsGate(c *vk.Ctx) {
	if v := c.Arg("maxlen", ""); v != "" {
		os.Setenv("VERIF_WS_MAXLEN", v)
	}
	m := runSharded(c, "ws-gate")
	maxLen := gateMaxLen(c.Tier)
	c.P.Bound = fmt.Sprintf("all frame sequences of length <= %d over %d frame classes x 3 handler scripts x {stepwise, pipelined}; "+
		"stalled-then-drain: 6 first invalid frames (one per rejection site of the read loop) x all sequences of length 1..%d x 3 scripts, client reads nothing until every frame is queued "+
		"(PingDuration 0, SendTimeout 24 h so that the stall cannot end the session); %d single-event and 1 all-events session of the C01 gate sweep",
		maxLen, len(alphabet()), maxLen, m.Counters["c01_sweep_events"])
	c.P.Rule = "session i of the fixed enumeration (sequences shortest first, lexicographic in the alphabet order, then script, then mode) is distinct by construction; " +
		"after every frame (stepwise), after the whole sequence (pipelined) or after the client finally drained a connection it had not read from (stalled-then-drain) the session is brought to quiescence with synctest.Wait and the recorder and the client's frames are compared with the reference verdict of each frame " +
		"(deliver: valid JSON text of a well-formed message, EVENT authentic by refmodel+btcec; reject: everything else in the alphabet)"
}

// ---------------------------------------------------------------------------------------------
// recording handler with an output script

type recorder struct {
	mu  sync.Mutex
	got []mocrelay.ClientMsg
}

func (r *recorder) add(m mocrelay.ClientMsg) int {
	r.mu.Lock()
	defer r.mu.Unlock()
	r.got = append(r.got, m)
	return len(r.got)
}

func (r *recorder) snapshot() []mocrelay.ClientMsg {
	r.mu.Lock()
	defer r.mu.Unlock()
	return append([]mocrelay.ClientMsg(nil), r.got...)
}

var scripts = []string{"silent", "echo", "burst"}

// scriptOutput: what the handler emits for its n-th received message (n from 1).
func scriptOutput(script string, n int) []mocrelay.ServerMsg {
	switch script {
	case "echo":
		return []mocrelay.ServerMsg{mocrelay.NewServerNoticeMsg(fmt.Sprintf("echo:%d", n))}
	case "burst":
		return []mocrelay.ServerMsg{
			mocrelay.NewServerNoticeMsg(fmt.Sprintf("burst:%d:0", n)),
			mocrelay.NewServerEOSEMsg(fmt.Sprintf("burst:%d:1", n)),
			mocrelay.NewServerNoticeMsg(fmt.Sprintf("burst:%d:2", n)),
		}
	}
	return nil
}

// the same, as the client must see it (label and second element)
func scriptOutputWire(script string, n int) [][2]string {
	switch script {
	case "echo":
		return [][2]string{{"NOTICE", fmt.Sprintf("echo:%d", n)}}
	case "burst":
		return [][2]string{{"NOTICE", fmt.Sprintf("burst:%d:0", n)}, {"EOSE", fmt.Sprintf("burst:%d:1", n)}, {"NOTICE", fmt.Sprintf("burst:%d:2", n)}}
	}
	return nil
}

func (f srvFrame) isScriptFrame() bool {
	if !f.Text || len(f.Elems) != 2 {
		return false
	}
	s, _ := f.Elems[1].(string)
	return (f.Label == "NOTICE" || f.Label == "EOSE") && (strings.HasPrefix(s, "echo:") || strings.HasPrefix(s, "burst:"))
}

func (f srvFrame) is(w [2]string) bool {
	if !f.Text || len(f.Elems) != 2 || f.Label != w[0] {
		return false
	}
	s, ok := f.Elems[1].(string)
	return ok && s == w[1]
}

func gateHandler(script string, rcd *recorder) mocrelay.Handler {
	return mocrelay.HandlerFunc(func(ctx context.Context, send chan<- mocrelay.ServerMsg, recv <-chan mocrelay.ClientMsg) error {
		for {
			select {
			case <-ctx.Done():
				return ctx.Err()
			case m, ok := <-recv:
				if !ok {
					return errors.New("recv closed")
				}
				n := rcd.add(m)
				for _, out := range scriptOutput(script, n) {
					select {
					case send <- out:
					case <-ctx.Done():
						return ctx.Err()
					}
				}
			}
		}
	})
}

// stalledOption: the sessions of the "stalled-then-drain" family keep the relay's write loop
// blocked on purpose while more frames are sent; ping disabled and a send timeout of 24 h
// (virtual time never advances in these sessions) so that the stall itself cannot end the session.
func stalledOption() *mocrelay.RelayOption {
	o := gateOption()
	o.PingDuration = 0
	o.SendTimeout = 24 * time.Hour
	return o
}

func gateOption() *mocrelay.RelayOption {
	return &mocrelay.RelayOption{
		SendTimeout:        10 * time.Second,
		RecvRateLimitRate:  1e9,
		RecvRateLimitBurst: 1 << 30,
		MaxMessageLength:   maxMessageLength,
		PingDuration:       time.Minute,
	}
}

// ---------------------------------------------------------------------------------------------
// one session

type gateJob struct {
	Frames []*frame
	Script string
	Mode   string // "stepwise" | "pipelined"
	Kind   string // "sequence" | "c01-sweep"
}

type stepObs struct {
	Frame     string   `json:"frame"`
	Payload   string   `json:"payload"`
	Delivered []string `json:"delivered_to_handler,omitempty"`
	Replies   []string `json:"client_received,omitempty"`
}

type gateReplay struct {
	Part     string    `json:"part"`
	Mode     string    `json:"mode"`
	Script   string    `json:"handler_script"`
	Sequence []string  `json:"frame_classes"`
	Observed []stepObs `json:"observed"`
	Note     string    `json:"note,omitempty"`
}

var probeFrame = &frame{Class: "probe REQ", Type: websocket.MessageText, Payload: []byte(`["REQ","probe",{}]`),
	Want: &mocrelay.ClientReqMsg{SubscriptionID: "probe", ReqFilters: []*mocrelay.ReqFilter{{}}}}

type gateResult struct {
	unclaimedNote string
	findings      []finding
	obs           []stepObs
	infra         string
	// per frame: "delivered" | "rejected: <first words of the reply>" | ...
	dispositions []string
}

func sendFrame(s *wsx.Session, fr *frame) error {
	ctx, cancel := context.WithTimeout(context.Background(), 30*time.Second) // virtual
	defer cancel()
	if len(fr.SplitAt) == 0 {
		return s.Conn.Write(ctx, fr.Type, fr.Payload)
	}
	// one message sent as several frames (FIN=0 + continuation frames, RFC 6455 section 5.4)
	w, err := s.Conn.Writer(ctx, fr.Type)
	if err != nil {
		return err
	}
	prev := 0
	for _, at := range append(append([]int{}, fr.SplitAt...), len(fr.Payload)) {
		if _, err := w.Write(fr.Payload[prev:at]); err != nil {
			return err
		}
		prev = at
	}
	return w.Close()
}

func runGateSession(h *wsx.Harness, job gateJob) (res gateResult) {
	var classes []string
	for _, f := range job.Frames {
		classes = append(classes, f.Class)
	}
	br := h.RunBubble(func() {
		rcd := &recorder{}
		opt := gateOption()
		if job.Mode == "stalled-then-drain" {
			opt = stalledOption()
		}
		s, err := wsx.Start(gateHandler(job.Script, rcd), opt)
		if err != nil {
			res.infra = "handshake failed: " + err.Error()
			return
		}
		if job.Mode != "stalled-then-drain" {
			s.StartReader(-1)
		}
		wsx.Wait()

		mk := func(sig string, prop string, detail string) {
			res.findings = append(res.findings, finding{Prop: prop, Sig: sig, Detail: detail})
		}
		seenFrames, seenGot := 0, 0
		dead := false

		// takeNew returns what arrived since the last call
		takeNew := func() ([]srvFrame, []mocrelay.ClientMsg) {
			fs := s.Frames()
			got := rcd.snapshot()
			var nf []srvFrame
			for _, f := range fs[seenFrames:] {
				nf = append(nf, decodeSrvFrame(f.Type, f.Data))
			}
			ng := got[seenGot:]
			seenFrames, seenGot = len(fs), len(got)
			return nf, ng
		}
		observe := func(fr *frame, nf []srvFrame, ng []mocrelay.ClientMsg) {
			o := stepObs{Frame: fr.Class, Payload: clipBytes(fr.Payload, 120)}
			for _, g := range ng {
				o.Delivered = append(o.Delivered, describeClientMsg(g))
			}
			for _, f := range nf {
				pre := "text "
				if !f.Text {
					pre = "BINARY "
				}
				o.Replies = append(o.Replies, pre+f.Raw)
			}
			res.obs = append(res.obs, o)
		}
		// removeScript takes the expected script output (for handler inputs first..last) out of nf,
		// as an in-order subsequence; ok=false if some of it is missing.
		removeScript := func(nf []srvFrame, first, last int) (rest []srvFrame, ok bool) {
			var want [][2]string
			for n := first; n <= last; n++ {
				want = append(want, scriptOutputWire(job.Script, n)...)
			}
			k := 0
			for _, f := range nf {
				if k < len(want) && f.is(want[k]) {
					k++
					continue
				}
				rest = append(rest, f)
			}
			return rest, k == len(want)
		}
		connectionLost := func(after string) bool {
			if err, at := s.ReadErr(); err != nil {
				mk(fmt.Sprintf("connection closed after %s", after), "C12",
					fmt.Sprintf("sequence %v, script %s, %s: after the frame %q the client's read failed at virtual +%s: %v", classes, job.Script, job.Mode, after, at, err))
				dead = true
				return true
			}
			return false
		}

		// checkFrame is the stepwise oracle for one frame (also used for the probe)
		checkFrame := func(fr *frame, sendErr error, probe bool, lastClass string) {
			nf, ng := takeNew()
			observe(fr, nf, ng)
			where := fmt.Sprintf("sequence %v, script %s, %s, at frame %q (%s)", classes, job.Script, job.Mode, fr.Class, clipBytes(fr.Payload, 100))
			if probe {
				okDelivered := len(ng) == 1 && sameClientMsg(ng[0], fr.Want)
				rest, okScript := removeScript(nf, seenGot-len(ng)+1, seenGot)
				if sendErr != nil || !okDelivered || !okScript || len(rest) != 0 {
					mk(fmt.Sprintf("connection unusable after %s", lastClass), "C12",
						fmt.Sprintf("%s: the final probe REQ was not served normally: write error %v, handler got %d message(s) %v, client got %d frame(s) %v",
							where, sendErr, len(ng), res.obs[len(res.obs)-1].Delivered, len(nf), res.obs[len(res.obs)-1].Replies))
				}
				return
			}
			if fr.Verdict == unclaimedZone {
				o := res.obs[len(res.obs)-1]
				res.unclaimedNote = fmt.Sprintf("handler received %v, client received %v", o.Delivered, o.Replies)
				if err, at := s.ReadErr(); err != nil || sendErr != nil {
					res.unclaimedNote += fmt.Sprintf("; connection ended (client write error %v, client read error at +%s: %v)", sendErr, at, err)
					dead = true
				}
				return
			}
			if sendErr != nil {
				mk(fmt.Sprintf("connection unusable after %s", lastClass), "C12", fmt.Sprintf("%s: the client's write failed: %v", where, sendErr))
				dead = true
				return
			}
			rest, okScript := removeScript(nf, seenGot-len(ng)+1, seenGot)
			if !okScript {
				mk(fmt.Sprintf("handler output lost or altered (script %s)", job.Script), "C12",
					fmt.Sprintf("%s: the handler received %d message(s) and emitted its script for each, the client got %v", where, len(ng), res.obs[len(res.obs)-1].Replies))
			}
			disp := ""
			switch fr.Verdict {
			case deliver:
				switch {
				case len(ng) == 0:
					mk(fmt.Sprintf("valid frame not delivered (%s)", fr.sigClass()), "C12", fmt.Sprintf("%s: the handler received nothing; client got %v", where, res.obs[len(res.obs)-1].Replies))
					if fr.C01Sig != "" {
						mk(fr.C01Sig, "C01", fmt.Sprintf("%s: the event is authentic by the reference (refmodel serializer + btcec) but did not reach the handler; client got %v", where, res.obs[len(res.obs)-1].Replies))
					}
					if fr.C11Sig != "" {
						mk(fr.C11Sig, "C11", fmt.Sprintf("%s: the message is well-formed but did not reach the handler; client got %v", where, res.obs[len(res.obs)-1].Replies))
					}
					disp = "not delivered"
				case len(ng) > 1:
					mk(fmt.Sprintf("valid frame delivered more than once (%s)", fr.sigClass()), "C12", fmt.Sprintf("%s: the handler received %d messages: %v", where, len(ng), res.obs[len(res.obs)-1].Delivered))
					disp = "delivered more than once"
				case !sameClientMsg(ng[0], fr.Want):
					mk(fmt.Sprintf("valid frame delivered altered (%s)", fr.sigClass()), "C12", fmt.Sprintf("%s: the handler received %s, expected %s", where, describeClientMsg(ng[0]), describeClientMsg(fr.Want)))
					disp = "delivered altered"
				default:
					disp = "delivered"
				}
				if len(rest) > 0 {
					mk(fmt.Sprintf("unsolicited frame after valid frame (%s)", fr.sigClass()), "C12", fmt.Sprintf("%s: besides the handler's own output the client got %d frame(s): %v", where, len(rest), rawOf(rest)))
					disp += " + unsolicited frame"
				}
			case reject:
				if len(ng) > 0 {
					mk(fmt.Sprintf("invalid frame reached the handler (%s)", fr.sigClass()), "C12", fmt.Sprintf("%s: the handler received %v", where, res.obs[len(res.obs)-1].Delivered))
					if fr.C01Sig != "" {
						mk(fr.C01Sig, "C01", fmt.Sprintf("%s: the event is not authentic by the reference but the handler received %v", where, res.obs[len(res.obs)-1].Delivered))
					}
					if fr.C11Sig != "" {
						mk(fr.C11Sig, "C11", fmt.Sprintf("%s: the message breaks a constraint of the statement but the handler received %v", where, res.obs[len(res.obs)-1].Delivered))
					}
					disp = "reached the handler"
				}
				var rej, other []srvFrame
				for _, f := range rest {
					if f.isRejectionOf(fr) {
						rej = append(rej, f)
					} else {
						other = append(other, f)
					}
				}
				switch {
				case len(rej) == 0:
					mk(fmt.Sprintf("no rejection for %s", fr.sigClass()), "C12", fmt.Sprintf("%s: the client got %v", where, res.obs[len(res.obs)-1].Replies))
					disp += " no rejection"
				case len(rej) > 1:
					mk(fmt.Sprintf("more than one rejection for %s", fr.sigClass()), "C12", fmt.Sprintf("%s: the client got %v", where, res.obs[len(res.obs)-1].Replies))
					disp += " several rejections"
				default:
					disp += "rejected by " + rej[0].Label
					if t, ok := rej[0].noticeText(); ok {
						if i := strings.IndexByte(t, ':'); i > 0 {
							t = t[:i]
						}
						disp += " " + clip(t, 60)
					}
				}
				if len(other) > 0 {
					mk(fmt.Sprintf("unsolicited frame after invalid frame (%s)", fr.sigClass()), "C12", fmt.Sprintf("%s: besides the rejection the client got %v", where, rawOf(other)))
				}
			}
			res.dispositions = append(res.dispositions, fr.Class+" -> "+disp)
			connectionLost(fr.sigClass())
		}

		lastClass := "no frame"
		switch job.Mode {
		case "stepwise":
			for _, fr := range job.Frames {
				if dead {
					break
				}
				err := sendFrame(s, fr)
				wsx.Wait()
				checkFrame(fr, err, false, lastClass)
				lastClass = fr.sigClass()
			}
		case "pipelined":
			var sendErr error
			for _, fr := range job.Frames {
				if sendErr = sendFrame(s, fr); sendErr != nil {
					break
				}
				lastClass = fr.sigClass()
			}
			wsx.Wait()
			nf, ng := takeNew()
			where := fmt.Sprintf("sequence %v, script %s, pipelined (all frames written before waiting for quiescence)", classes, job.Script)
			o := stepObs{Frame: strings.Join(classes, " | ")}
			for _, g := range ng {
				o.Delivered = append(o.Delivered, describeClientMsg(g))
			}
			o.Replies = rawOf(nf)
			res.obs = append(res.obs, o)
			var wants []mocrelay.ClientMsg
			var rejs []*frame
			for _, fr := range job.Frames {
				if fr.Verdict == deliver {
					wants = append(wants, fr.Want)
				} else {
					rejs = append(rejs, fr)
				}
			}
			// When the connection is lost in the middle of a pipelined sequence, how far the relay
			// got before it stopped is a matter of goroutine interleaving that E3 does not control:
			// only the loss itself is reported.
			rerr, rerrAt := s.ReadErr()
			if sendErr != nil || rerr != nil {
				mk("pipelined: connection closed during the sequence", "C12",
					fmt.Sprintf("%s: client write error %v, client read error %v (at virtual +%s); handler received %v, client got %v", where, sendErr, rerr, rerrAt, o.Delivered, o.Replies))
				dead = true
			} else {
				same := len(ng) == len(wants)
				for i := 0; same && i < len(ng); i++ {
					same = sameClientMsg(ng[i], wants[i])
				}
				if !same {
					mk("pipelined: handler did not receive exactly the valid frames in order", "C12", fmt.Sprintf("%s: handler received %v", where, o.Delivered))
				}
				rest, okScript := removeScript(nf, 1, len(ng))
				if !okScript {
					mk(fmt.Sprintf("pipelined: handler output lost, altered or reordered (script %s)", job.Script), "C12", fmt.Sprintf("%s: client got %v", where, o.Replies))
				}
				okRej := len(rest) == len(rejs)
				for i := 0; okRej && i < len(rest); i++ {
					okRej = rest[i].isRejectionOf(rejs[i])
				}
				if !okRej {
					mk("pipelined: rejections do not match the invalid frames one to one", "C12",
						fmt.Sprintf("%s: %d invalid frame(s), the client got (besides the handler's output) %v", where, len(rejs), rawOf(rest)))
				}
			}
		case "stalled-then-drain":
			// The client does not read. Frame 1 is invalid: at quiescence its rejection sits in the
			// relay's write loop, blocked inside conn.Write (net.Pipe has no buffer). The other
			// frames are then written one at a time, each followed by quiescence; the relay's read
			// loop may itself block (back-pressure), and then so does the client's write, which is
			// why the writes come from a goroutine of their own. Only then the client starts to
			// read and drains everything; the oracle looks at the final state only.
			queue := make(chan *frame, len(job.Frames))
			var wmu sync.Mutex
			written, writtenWhileStalled := 0, 0
			var werr error
			wdone := make(chan struct{})
			go func() {
				defer close(wdone)
				for fr := range queue {
					err := s.Conn.Write(context.Background(), fr.Type, fr.Payload)
					wmu.Lock()
					if err != nil {
						werr = err
						wmu.Unlock()
						return
					}
					written++
					wmu.Unlock()
				}
			}()
			for _, fr := range job.Frames {
				queue <- fr
				wsx.Wait()
				lastClass = fr.sigClass()
			}
			close(queue)
			wmu.Lock()
			writtenWhileStalled = written
			wmu.Unlock()
			preFrames := s.NFrames()
			s.StartReader(-1)
			wsx.Wait()
			writerDone := false
			select {
			case <-wdone:
				writerDone = true
			default:
			}
			wmu.Lock()
			nWritten, sendErr := written, werr
			wmu.Unlock()
			nf, ng := takeNew()
			where := fmt.Sprintf("sequence %v, script %s, stalled-then-drain (the client reads nothing until all frames are queued; %d of %d frames had been accepted by the relay when it started to read)",
				classes, job.Script, writtenWhileStalled, len(job.Frames))
			o := stepObs{Frame: strings.Join(classes, " | ")}
			for _, g := range ng {
				o.Delivered = append(o.Delivered, describeClientMsg(g))
			}
			o.Replies = rawOf(nf)
			res.obs = append(res.obs, o)
			var wants []mocrelay.ClientMsg
			var rejs []*frame
			for _, fr := range job.Frames {
				if fr.Verdict == deliver {
					wants = append(wants, fr.Want)
				} else {
					rejs = append(rejs, fr)
				}
			}
			rerr, rerrAt := s.ReadErr()
			switch {
			case preFrames != 0:
				res.infra = "stalled-then-drain: the client had frames before it started to read"
			case sendErr != nil || rerr != nil:
				mk("stalled reader: connection closed during the sequence", "C12",
					fmt.Sprintf("%s: client write error %v, client read error %v (at virtual +%s); handler received %v, client got %v", where, sendErr, rerr, rerrAt, o.Delivered, o.Replies))
				dead = true
			case !writerDone || nWritten != len(job.Frames):
				mk("stalled reader: relay stopped reading although the client drained everything", "C12",
					fmt.Sprintf("%s: only %d of %d frames were accepted at quiescence; handler received %v, client got %v", where, nWritten, len(job.Frames), o.Delivered, o.Replies))
				dead = true
			default:
				same := len(ng) == len(wants)
				for i := 0; same && i < len(ng); i++ {
					same = sameClientMsg(ng[i], wants[i])
				}
				if !same {
					mk("stalled reader: handler did not receive exactly the valid frames in order", "C12", fmt.Sprintf("%s: handler received %v", where, o.Delivered))
				}
				rest, okScript := removeScript(nf, 1, len(ng))
				if !okScript {
					mk(fmt.Sprintf("stalled reader: handler output lost, altered or reordered (script %s)", job.Script), "C12", fmt.Sprintf("%s: client got %v", where, o.Replies))
				}
				// rejections come from the one read loop, in frame order
				k := 0
				for k < len(rest) && k < len(rejs) && rest[k].isRejectionOf(rejs[k]) {
					k++
				}
				switch {
				case k < len(rejs) && k == len(rest):
					// Rejections are plain NOTICEs, so which frame went unanswered is only known when
					// every later one did (at most the first reply arrived) or when the candidates
					// are all of one class; otherwise the signature does not name a class.
					sameClass := true
					for _, f := range rejs[1:] {
						sameClass = sameClass && f.sigClass() == rejs[len(rejs)-1].sigClass()
					}
					detail := fmt.Sprintf("%s: %d invalid frame(s), but after draining the client holds only %d rejection(s): %v (handler output excluded)", where, len(rejs), len(rest), rawOf(rest))
					switch {
					case len(rest) <= 1:
						mk(fmt.Sprintf("stalled reader: no rejection for %s sent while an earlier reply was still unread", rejs[len(rest)].sigClass()), "C12", detail)
					case sameClass:
						mk(fmt.Sprintf("stalled reader: no rejection for %s sent while an earlier reply was still unread", rejs[len(rejs)-1].sigClass()), "C12", detail)
					default:
						mk("stalled reader: fewer rejections than invalid frames", "C12", detail)
					}
				case k == len(rejs) && k < len(rest):
					mk("stalled reader: more frames than rejections due", "C12",
						fmt.Sprintf("%s: %d invalid frame(s), the client got (besides the handler's output) %v", where, len(rejs), rawOf(rest)))
				case k < len(rejs):
					mk("stalled reader: rejections do not match the invalid frames one to one", "C12",
						fmt.Sprintf("%s: %d invalid frame(s), the client got (besides the handler's output) %v", where, len(rejs), rawOf(rest)))
				}
			}
		}

		if !dead {
			err := sendFrame(s, probeFrame)
			wsx.Wait()
			checkFrame(probeFrame, err, true, lastClass)
		}

		// end of the session: the client goes away; nothing of the session may remain
		s.Shutdown(40 * time.Second)
		if ret, _ := s.ServeReturned(); !ret {
			mk("ws: ServeHTTP did not return after the client connection was cut", "C13",
				fmt.Sprintf("sequence %v, script %s, %s: 40 s (virtual) after the client closed its end Relay.ServeHTTP has not returned", classes, job.Script, job.Mode))
		}
		if p := s.ServePanic(); p != "" {
			mk("ws: ServeHTTP panicked", "C12", fmt.Sprintf("sequence %v, script %s, %s: %s", classes, job.Script, job.Mode, clip(p, 1500)))
		}
		left, err := s.Leftover()
		if err != nil {
			res.infra = "goroutine dump: " + err.Error()
			return
		}
		for _, g := range left {
			if g.Session {
				mk("ws: goroutine left after session end (connection cut)", "C13",
					fmt.Sprintf("sequence %v, script %s, %s: 40 s (virtual) after the client went away: %s", classes, job.Script, job.Mode, g.TopFrames(4)))
			} else {
				res.infra = "rig goroutine left over: " + g.TopFrames(6)
			}
		}
	})
	if br.Panic != "" {
		res.infra = "panic in the rig: " + clip(br.Panic, 2000)
	}
	if br.Deadlock != "" && len(res.findings) == 0 && res.infra == "" {
		res.infra = "bubble could not end although no leftover was seen: " + br.Deadlock
	}
	for i := range res.findings {
		res.findings[i].Replay = gateReplay{Part: "ws-gate", Mode: job.Mode, Script: job.Script, Sequence: classes, Observed: res.obs}
	}
	return
}

func rawOf(fs []srvFrame) []string {
	var out []string
	for _, f := range fs {
		if f.Text {
			out = append(out, f.Raw)
		} else {
			out = append(out, "BINARY "+f.Raw)
		}
	}
	return out
}

// ---------------------------------------------------------------------------------------------
// enumeration

func gateJobs(tier string) (jobs []gateJob, sweepEvents int) {
	sigma := alphabet()
	maxLen := gateMaxLen(tier)
	var seqs [][]*frame
	var rec func(prefix []*frame, l int)
	rec = func(prefix []*frame, l int) {
		if l == 0 {
			seqs = append(seqs, append([]*frame(nil), prefix...))
			return
		}
		for i := range sigma {
			rec(append(prefix, &sigma[i]), l-1)
		}
	}
	for l := 0; l <= maxLen; l++ {
		rec(nil, l)
	}
	for _, seq := range seqs {
		for _, sc := range scripts {
			jobs = append(jobs, gateJob{Frames: seq, Script: sc, Mode: "stepwise", Kind: "sequence"})
			if len(seq) >= 2 {
				jobs = append(jobs, gateJob{Frames: seq, Script: sc, Mode: "pipelined", Kind: "sequence"})
			}
		}
	}
	// stalled-then-drain: a first invalid frame (one per rejection site of the read loop) whose
	// reply blocks the write loop, then every sequence of 1..maxLen frames, then the drain
	firsts := []string{"binary frame", "not JSON", "unknown label", "EVENT bad-hex id", "EVENT pubkey not on the curve", "EVENT forged signature"}
	for _, tail := range seqs {
		if len(tail) == 0 {
			continue
		}
		for _, fc := range firsts {
			var first *frame
			for i := range sigma {
				if sigma[i].Class == fc {
					first = &sigma[i]
				}
			}
			if first == nil || first.Verdict != reject {
				panic("stalled-then-drain: first frame class missing from the alphabet: " + fc)
			}
			for _, sc := range scripts {
				jobs = append(jobs, gateJob{Frames: append([]*frame{first}, tail...), Script: sc, Mode: "stalled-then-drain", Kind: "sequence"})
			}
		}
	}
	// C01 gate sweep: each event alone, then all of them in one session
	sw := c01Sweep()
	var all []*frame
	for i := range sw {
		jobs = append(jobs, gateJob{Frames: []*frame{&sw[i]}, Script: "silent", Mode: "stepwise", Kind: "c01-sweep"})
		all = append(all, &sw[i])
	}
	jobs = append(jobs, gateJob{Frames: all, Script: "echo", Mode: "stepwise", Kind: "c01-sweep"})
	// C11 gate sweep: each message alone, then all of them in one session
	sw11 := c11Sweep()
	var all11 []*frame
	for i := range sw11 {
		jobs = append(jobs, gateJob{Frames: []*frame{&sw11[i]}, Script: "silent", Mode: "stepwise", Kind: "c11-sweep"})
		all11 = append(all11, &sw11[i])
	}
	jobs = append(jobs, gateJob{Frames: all11, Script: "echo", Mode: "stepwise", Kind: "c11-sweep"})
	un := unclaimedFrames()
	for i := range un {
		jobs = append(jobs, gateJob{Frames: []*frame{&un[i]}, Script: "silent", Mode: "stepwise", Kind: "unclaimed"})
	}
	return jobs, len(sw)
}

func wsGateShard(tier string, shard, n int, r *rec, h *wsx.Harness) {
	jobs, nsweep := gateJobs(tier)
	if shard == 0 {
		r.count("c01_sweep_events", int64(nsweep))
		r.count("frame_classes", int64(len(alphabet())))
	}
	for idx, job := range jobs {
		if idx%n != shard {
			continue
		}
		res := runGateSession(h, job)
		if res.infra != "" {
			r.infra("ws-gate session %d: %s", idx, res.infra)
			continue
		}
		r.Sessions++
		if job.Kind == "unclaimed" {
			r.unclaimed(job.Frames[0].Class)
			r.note("observed for "+job.Frames[0].Class, res.unclaimedNote)
			r.outcome("unclaimed zone observed")
			report(r, idx, res.findings, func() []finding { return runGateSession(h, job).findings }) // teardown (C13) is still judged
			continue
		}
		r.Distinct++
		if job.Mode == "pipelined" && len(res.findings) == 0 {
			r.outcome("pipelined sequence -> valid frames delivered in order, one rejection per invalid frame, handler output in order")
		}
		if job.Mode == "stalled-then-drain" && len(res.findings) == 0 {
			r.outcome("stalled-then-drain sequence -> after the drain: valid frames delivered in order, one rejection per invalid frame, handler output in order")
		}
		r.count("sessions_"+job.Kind+"_"+job.Mode, 1)
		r.count("frames_sent", int64(len(job.Frames))+1)
		for _, d := range res.dispositions {
			if job.Kind == "c01-sweep" {
				// one outcome class per verdict, not per event
				if i := strings.Index(d, " -> "); i >= 0 {
					d = "C01 sweep event" + d[i:]
				}
			}
			if job.Kind == "c11-sweep" {
				if i := strings.Index(d, " -> "); i >= 0 {
					d = "C11 sweep message" + d[i:]
				}
			}
			r.outcome(d)
		}
		if job.Mode == "stepwise" && len(job.Frames) == 1 && job.Kind == "sequence" && job.Script == "silent" && len(res.obs) > 0 {
			r.note("reply to "+job.Frames[0].Class, strings.Join(res.obs[0].Replies, " ; ")+deliveredNote(res.obs[0]))
		}
		if len(res.findings) == 0 && job.Kind == "sequence" && len(job.Frames) == 2 && job.Script == "echo" && job.Mode == "stepwise" &&
			job.Frames[0].Verdict != job.Frames[1].Verdict {
			r.sample(idx, map[string]any{"sequence": classesOf(job.Frames), "script": job.Script, "mode": job.Mode, "observed": res.obs})
		}
		report(r, idx, res.findings, func() []finding { return runGateSession(h, job).findings })
	}
}

func deliveredNote(o stepObs) string {
	if len(o.Delivered) > 0 {
		return fmt.Sprintf(" [handler received %d message]", len(o.Delivered))
	}
	return ""
}

func classesOf(fs []*frame) []string {
	var out []string
	for _, f := range fs {
		out = append(out, f.Class)
	}
	return out
}
