package main

import (
	"bytes"
	"context"
	"encoding/json"
	"errors"
	"fmt"
	"reflect"
	"strings"
	"sync"
	"time"

	"github.com/coder/websocket"
	"github.com/high-moctane/mocrelay"
	"verifkit/vk"
	"verifkit/wsx"
)

func init() {
	parts["ws-output"] = wsOutput
	shardParts["ws-output"] = wsOutputShard
}

func wsOutput(c *vk.Ctx) {
	runSharded(c, "ws-output")
	maxLen := vk.Pick(c, 3, 4)
	c.P.Bound = fmt.Sprintf("all handler-output sequences of length 1..%d over %d server messages (7 types), each emitted twice in a session (two triggers); plus %d single-message sessions of the string sweep (every free-text field of the 7 types x 19 strings of special characters)", maxLen, len(outAlphabet()), len(outSweep()))
	c.P.Rule = "one session per output sequence (distinct by construction); the handler emits the sequence on its send channel when it receives a trigger REQ; at quiescence (synctest.Wait) " +
		"the client must hold exactly len(seq) new TEXT frames, the i-th equal as JSON (encoding/json, numbers kept literal) to the hand-written expectation of the i-th emitted message " +
		"and decoding with the repo's UnmarshalJSON of that type to a value reflect.DeepEqual to the emitted one"
}

// ---------------------------------------------------------------------------------------------
// output alphabet

type outMsg struct {
	Name   string
	Msg    mocrelay.ServerMsg
	Wire   []any // what the frame must be as generic JSON (json.Number for numbers)
	Decode func(b []byte) (mocrelay.ServerMsg, error)
}

const outSpecial = "x<y&z>\u2028\u2029 \"q\" \\ \n \u00e9"

func bp(b bool) *bool { return &b }

func outAlphabet() []outMsg {
	ev := signerA.sign(1700000200, 1, [][]string{{"t", "<&>\u2028"}, {"e", strings.Repeat("c", 64)}}, outSpecial)
	evObj := map[string]any{
		"id": ev.ID, "pubkey": ev.Pubkey, "created_at": json.Number("1700000200"), "kind": json.Number("1"),
		"tags":    []any{[]any{"t", "<&>\u2028"}, []any{"e", strings.Repeat("c", 64)}},
		"content": outSpecial, "sig": ev.Sig,
	}
	id := strings.Repeat("d", 64)
	return []outMsg{
		{"EOSE", mocrelay.NewServerEOSEMsg("sub<1>"), []any{"EOSE", "sub<1>"},
			func(b []byte) (mocrelay.ServerMsg, error) {
				var m mocrelay.ServerEOSEMsg
				err := m.UnmarshalJSON(b)
				return &m, err
			}},
		{"EVENT", mocrelay.NewServerEventMsg("sub&2", ev), []any{"EVENT", "sub&2", evObj},
			func(b []byte) (mocrelay.ServerMsg, error) {
				var m mocrelay.ServerEventMsg
				err := m.UnmarshalJSON(b)
				return &m, err
			}},
		{"NOTICE", mocrelay.NewServerNoticeMsg(outSpecial), []any{"NOTICE", outSpecial},
			func(b []byte) (mocrelay.ServerMsg, error) {
				var m mocrelay.ServerNoticeMsg
				err := m.UnmarshalJSON(b)
				return &m, err
			}},
		{"OK accepted", mocrelay.NewServerOKMsg(id, true, "", ""), []any{"OK", id, true, ""},
			func(b []byte) (mocrelay.ServerMsg, error) {
				var m mocrelay.ServerOKMsg
				err := m.UnmarshalJSON(b)
				return &m, err
			}},
		{"OK rejected with prefix", mocrelay.NewServerOKMsg(id, false, mocrelay.MachineReadablePrefixBlocked, "no <b> & no\u2028"), []any{"OK", id, false, "blocked: no <b> & no\u2028"},
			func(b []byte) (mocrelay.ServerMsg, error) {
				var m mocrelay.ServerOKMsg
				err := m.UnmarshalJSON(b)
				return &m, err
			}},
		{"AUTH challenge", &mocrelay.ServerAuthMsg{Challenge: "ch<&>\u2028\""}, []any{"AUTH", "ch<&>\u2028\""},
			func(b []byte) (mocrelay.ServerMsg, error) {
				var m mocrelay.ServerAuthMsg
				err := m.UnmarshalJSON(b)
				return &m, err
			}},
		{"COUNT", mocrelay.NewServerCountMsg("c1", 42, nil), []any{"COUNT", "c1", map[string]any{"count": json.Number("42")}},
			func(b []byte) (mocrelay.ServerMsg, error) {
				var m mocrelay.ServerCountMsg
				err := m.UnmarshalJSON(b)
				return &m, err
			}},
		{"COUNT approximate", mocrelay.NewServerCountMsg("c2", 18446744073709551615, bp(true)), []any{"COUNT", "c2", map[string]any{"count": json.Number("18446744073709551615"), "approximate": true}},
			func(b []byte) (mocrelay.ServerMsg, error) {
				var m mocrelay.ServerCountMsg
				err := m.UnmarshalJSON(b)
				return &m, err
			}},
		{"COUNT not approximate", mocrelay.NewServerCountMsg("c3", 0, bp(false)), []any{"COUNT", "c3", map[string]any{"count": json.Number("0"), "approximate": false}},
			func(b []byte) (mocrelay.ServerMsg, error) {
				var m mocrelay.ServerCountMsg
				err := m.UnmarshalJSON(b)
				return &m, err
			}},
		{"CLOSED with prefix", mocrelay.NewServerClosedMsg("sub<1>", mocrelay.MachineReadablePrefixError, "shutting <down>"), []any{"CLOSED", "sub<1>", "error: shutting <down>"},
			func(b []byte) (mocrelay.ServerMsg, error) {
				var m mocrelay.ServerClosedMsg
				err := m.UnmarshalJSON(b)
				return &m, err
			}},
	}
}

// outSweep: every free-text field of every server message type x strings whose characters the JSON
// encoder has to treat specially (each control character class, DEL, C1, the line separators, a
// non-printable astral character, quotes and backslashes, a long string). One message per session.
func outSweep() []outMsg {
	strs := []struct{ name, s string }{
		{"U+0001", "a\x01b"}, {"U+0008", "a\bb"}, {"U+000B", "a\vb"}, {"U+000C", "a\fb"}, {"U+001B", "a\x1bb"}, {"U+001F", "a\x1fb"},
		{"U+007F", "a\x7fb"}, {"U+0085", "a\u0085b"}, {"U+00A0", "a\u00a0b"}, {"U+200B", "a\u200bb"}, {"U+2028/9", "a\u2028\u2029b"},
		{"U+FEFF", "\ufeffb"}, {"U+FFFD", "a\ufffdb"}, {"U+E0001", "a\U000e0001b"}, {"astral", "a\U0001F600b"},
		{"quote and backslash", "a\"b\\c\\\"d"}, {"html", "</script><!--&amp;"}, {"tab newline cr", "a\tb\nc\rd"}, {"300 chars", strings.Repeat("\u00e9x", 150)},
	}
	dec := func(mk func() interface {
		mocrelay.ServerMsg
		UnmarshalJSON([]byte) error
	}) func(b []byte) (mocrelay.ServerMsg, error) {
		return func(b []byte) (mocrelay.ServerMsg, error) {
			m := mk()
			err := m.UnmarshalJSON(b)
			return m, err
		}
	}
	ev := signerA.sign(1700000300, 1, nil, "sweep")
	evObj := map[string]any{"id": ev.ID, "pubkey": ev.Pubkey, "created_at": json.Number("1700000300"), "kind": json.Number("1"), "tags": []any{}, "content": "sweep", "sig": ev.Sig}
	id := strings.Repeat("e", 64)
	var out []outMsg
	for _, st := range strs {
		s := st.s
		out = append(out,
			outMsg{"EOSE with subscription id " + st.name, mocrelay.NewServerEOSEMsg(s), []any{"EOSE", s}, dec(func() interface {
				mocrelay.ServerMsg
				UnmarshalJSON([]byte) error
			} {
				return &mocrelay.ServerEOSEMsg{}
			})},
			outMsg{"EVENT with subscription id " + st.name, mocrelay.NewServerEventMsg(s, ev), []any{"EVENT", s, evObj}, dec(func() interface {
				mocrelay.ServerMsg
				UnmarshalJSON([]byte) error
			} {
				return &mocrelay.ServerEventMsg{}
			})},
			outMsg{"CLOSED with subscription id and text " + st.name, mocrelay.NewServerClosedMsg(s, mocrelay.MachineReadablePrefixError, s), []any{"CLOSED", s, "error: " + s}, dec(func() interface {
				mocrelay.ServerMsg
				UnmarshalJSON([]byte) error
			} {
				return &mocrelay.ServerClosedMsg{}
			})},
			outMsg{"COUNT with subscription id " + st.name, mocrelay.NewServerCountMsg(s, 1, nil), []any{"COUNT", s, map[string]any{"count": json.Number("1")}}, dec(func() interface {
				mocrelay.ServerMsg
				UnmarshalJSON([]byte) error
			} {
				return &mocrelay.ServerCountMsg{}
			})},
			outMsg{"NOTICE with text " + st.name, mocrelay.NewServerNoticeMsg(s), []any{"NOTICE", s}, dec(func() interface {
				mocrelay.ServerMsg
				UnmarshalJSON([]byte) error
			} {
				return &mocrelay.ServerNoticeMsg{}
			})},
			outMsg{"OK with text " + st.name, mocrelay.NewServerOKMsg(id, false, mocrelay.MachineReadablePrefixInvalid, s), []any{"OK", id, false, "invalid: " + s}, dec(func() interface {
				mocrelay.ServerMsg
				UnmarshalJSON([]byte) error
			} {
				return &mocrelay.ServerOKMsg{}
			})},
			outMsg{"AUTH with challenge " + st.name, &mocrelay.ServerAuthMsg{Challenge: s}, []any{"AUTH", s}, dec(func() interface {
				mocrelay.ServerMsg
				UnmarshalJSON([]byte) error
			} {
				return &mocrelay.ServerAuthMsg{}
			})},
		)
	}
	return out
}

func genericJSON(b []byte) (any, error) {
	dec := json.NewDecoder(bytes.NewReader(b))
	dec.UseNumber()
	var v any
	if err := dec.Decode(&v); err != nil {
		return nil, err
	}
	if dec.More() {
		return nil, errors.New("trailing data")
	}
	return v, nil
}

// ---------------------------------------------------------------------------------------------

type outJob struct {
	Seq  []int // indices into the alphabet; -1: nil ServerMsg, -2: typed nil (unclaimed probes)
	Name string
}

type outReplay struct {
	Part     string   `json:"part"`
	Emitted  []string `json:"emitted"`
	Received []string `json:"client_received"`
}

func emitterHandler(seq []mocrelay.ServerMsg, mu *sync.Mutex, triggers *int) mocrelay.Handler {
	return mocrelay.HandlerFunc(func(ctx context.Context, send chan<- mocrelay.ServerMsg, recv <-chan mocrelay.ClientMsg) error {
		for {
			select {
			case <-ctx.Done():
				return ctx.Err()
			case m, ok := <-recv:
				if !ok {
					return errors.New("recv closed")
				}
				if r, isReq := m.(*mocrelay.ClientReqMsg); !isReq || r.SubscriptionID != "go" {
					continue
				}
				mu.Lock()
				*triggers++
				mu.Unlock()
				for _, out := range seq {
					select {
					case send <- out:
					case <-ctx.Done():
						return ctx.Err()
					}
				}
			}
		}
	})
}

type outResult struct {
	findings      []finding
	infra         string
	received      []string
	unclaimedNote string
}

func runOutputSession(h *wsx.Harness, sigma []outMsg, job outJob) (res outResult) {
	var seq []mocrelay.ServerMsg
	var names []string
	claimed := true
	for _, i := range job.Seq {
		switch i {
		case -1:
			seq = append(seq, nil)
			names = append(names, "nil ServerMsg")
			claimed = false
		case -2:
			seq = append(seq, (*mocrelay.ServerEOSEMsg)(nil))
			names = append(names, "typed-nil *ServerEOSEMsg")
			claimed = false
		default:
			seq = append(seq, sigma[i].Msg)
			names = append(names, sigma[i].Name)
		}
	}
	br := h.RunBubble(func() {
		var mu sync.Mutex
		triggers := 0
		s, err := wsx.Start(emitterHandler(seq, &mu, &triggers), gateOption())
		if err != nil {
			res.infra = "handshake failed: " + err.Error()
			return
		}
		s.StartReader(-1)
		wsx.Wait()
		mk := func(sig, detail string) {
			res.findings = append(res.findings, finding{Prop: "C12", Sig: sig, Detail: detail})
		}
		seen := 0
		for round := 1; round <= 2; round++ {
			ctx, cancel := context.WithTimeout(context.Background(), 30*time.Second)
			werr := s.Conn.Write(ctx, websocket.MessageText, []byte(`["REQ","go",{}]`))
			cancel()
			wsx.Wait()
			fs := s.Frames()
			nf := fs[seen:]
			seen = len(fs)
			var raws []string
			for _, f := range nf {
				pre := ""
				if f.Type != websocket.MessageText {
					pre = "BINARY "
				}
				raws = append(raws, pre+clipBytes(f.Data, 240))
			}
			res.received = append(res.received, raws...)
			where := fmt.Sprintf("handler emits %v on trigger %d", names, round)
			if !claimed {
				res.unclaimedNote = fmt.Sprintf("client received %v", raws)
				if err, _ := s.ReadErr(); err != nil {
					res.unclaimedNote += fmt.Sprintf("; connection ended: %v", err)
				}
				break
			}
			if werr != nil {
				mk("output: connection unusable after handler output", fmt.Sprintf("%s: the trigger could not be written: %v", where, werr))
				break
			}
			if len(nf) != len(seq) {
				mk("output: number of frames differs from number of messages emitted", fmt.Sprintf("%s: %d message(s) emitted, client received %d frame(s): %v", where, len(seq), len(nf), raws))
			}
			// order: if every frame matches some emitted message but not position-wise, it is a reordering
			matchAt := func(f wsx.Frame, i int) (bool, string) {
				om := sigma[job.Seq[i]]
				if f.Type != websocket.MessageText {
					return false, "not a text frame"
				}
				v, err := genericJSON(f.Data)
				if err != nil {
					return false, "not JSON: " + err.Error()
				}
				if !reflect.DeepEqual(v, any(om.Wire)) {
					return false, "JSON value differs from the emitted message"
				}
				return true, ""
			}
			for i := 0; i < len(nf) && i < len(seq); i++ {
				om := sigma[job.Seq[i]]
				ok, why := matchAt(nf[i], i)
				if !ok {
					reordered := false
					for k := range seq {
						if k != i {
							if ok2, _ := matchAt(nf[i], k); ok2 && job.Seq[k] != job.Seq[i] {
								reordered = true
							}
						}
					}
					if nf[i].Type != websocket.MessageText {
						mk(fmt.Sprintf("output: %s arrived as a non-text frame", om.Name), fmt.Sprintf("%s: frame %d is %v: %s", where, i+1, nf[i].Type, raws[i]))
					} else if reordered {
						mk("output: messages arrive out of emission order", fmt.Sprintf("%s: frame %d is %s", where, i+1, raws[i]))
					} else {
						mk(fmt.Sprintf("output: %s does not arrive as the message emitted", om.Name), fmt.Sprintf("%s: frame %d (%s) is %s", where, i+1, why, raws[i]))
					}
					continue
				}
				got, err := om.Decode(nf[i].Data)
				if err != nil || !reflect.DeepEqual(got, om.Msg) {
					mk(fmt.Sprintf("output: %s frame does not decode (repo decoder) to the message emitted", om.Name),
						fmt.Sprintf("%s: frame %d %s decodes to %#v (err %v), emitted %#v", where, i+1, raws[i], got, err, om.Msg))
				}
			}
			if err, at := s.ReadErr(); err != nil {
				mk("output: connection closed after handler output", fmt.Sprintf("%s: client read failed at +%s: %v", where, at, err))
				break
			}
		}
		mu.Lock()
		_ = triggers
		mu.Unlock()
		s.Shutdown(40 * time.Second)
		if !claimed {
			return // whatever a nil message does to the session is not claimed
		}
		if ret, _ := s.ServeReturned(); !ret {
			res.findings = append(res.findings, finding{Prop: "C13", Sig: "ws: ServeHTTP did not return after the client connection was cut",
				Detail: fmt.Sprintf("output session %v: 40 s (virtual) after the client closed its end Relay.ServeHTTP has not returned", names)})
		}
		left, err := s.Leftover()
		if err != nil {
			res.infra = "goroutine dump: " + err.Error()
			return
		}
		for _, g := range left {
			if g.Session {
				res.findings = append(res.findings, finding{Prop: "C13", Sig: "ws: goroutine left after session end (connection cut)",
					Detail: fmt.Sprintf("output session %v: 40 s (virtual) after the client went away: %s", names, g.TopFrames(4))})
			} else {
				res.infra = "rig goroutine left over: " + g.TopFrames(6)
			}
		}
	})
	if br.Panic != "" {
		res.infra = "panic in the rig: " + clip(br.Panic, 2000)
	}
	if claimed && br.Deadlock != "" && len(res.findings) == 0 && res.infra == "" {
		res.infra = "bubble could not end although no leftover was seen: " + br.Deadlock
	}
	for i := range res.findings {
		res.findings[i].Replay = outReplay{Part: "ws-output", Emitted: names, Received: res.received}
	}
	return
}

func outputJobs(tier string, nsigma, nsweep int) []outJob {
	maxLen := 3
	if tier == "thorough" {
		maxLen = 4
	}
	var jobs []outJob
	var rec func(prefix []int, l int)
	rec = func(prefix []int, l int) {
		if l == 0 {
			jobs = append(jobs, outJob{Seq: append([]int(nil), prefix...)})
			return
		}
		for i := 0; i < nsigma; i++ {
			rec(append(prefix, i), l-1)
		}
	}
	for l := 1; l <= maxLen; l++ {
		rec(nil, l)
	}
	// the string sweep: one message per session
	for i := 0; i < nsweep; i++ {
		jobs = append(jobs, outJob{Seq: []int{nsigma + i}})
	}
	// unclaimed probes: what a nil message does is observed and counted, never judged
	jobs = append(jobs, outJob{Seq: []int{2, -1, 2}}, outJob{Seq: []int{2, -2, 2}})
	return jobs
}

func wsOutputShard(tier string, shard, n int, r *rec, h *wsx.Harness) {
	sigma := outAlphabet()
	// reference-side self-check of the alphabet: the hand-written wire value of every message is
	// what encoding/json makes of it independently of the relay (guards the expectation only)
	for _, om := range sigma {
		if reflect.ValueOf(om.Msg).IsNil() {
			r.infra("output alphabet: nil message %s", om.Name)
		}
	}
	sweep := outSweep()
	jobs := outputJobs(tier, len(sigma), len(sweep))
	sigma = append(sigma, sweep...)
	if shard == 0 {
		r.count("string_sweep_messages", int64(len(sweep)))
	}
	for idx, job := range jobs {
		if idx%n != shard {
			continue
		}
		res := runOutputSession(h, sigma, job)
		if res.infra != "" {
			r.infra("ws-output session %d: %s", idx, res.infra)
			continue
		}
		r.Sessions++
		if res.unclaimedNote != "" {
			name := "nil ServerMsg emitted by the handler"
			if job.Seq[1] == -2 {
				name = "typed-nil ServerMsg emitted by the handler"
			}
			r.unclaimed(name)
			r.note("observed for "+name, res.unclaimedNote)
			r.outcome("unclaimed: " + name)
			continue
		}
		r.Distinct++
		r.count("messages_emitted", int64(2*len(job.Seq)))
		if len(res.findings) == 0 {
			r.outcome(fmt.Sprintf("all %d messages arrive as equal text frames in order, twice", len(job.Seq)))
		} else {
			r.outcome("violation")
		}
		if len(res.findings) == 0 && len(job.Seq) == 3 && job.Seq[0] == 1 && job.Seq[1] != job.Seq[2] && job.Seq[1] >= 4 && job.Seq[2] >= 7 {
			var names []string
			for _, i := range job.Seq {
				names = append(names, sigma[i].Name)
			}
			r.sample(idx, map[string]any{"emitted": names, "client_received_first_round": res.received[:len(job.Seq)]})
		}
		report(r, idx, res.findings, func() []finding { return runOutputSession(h, sigma, job).findings })
	}
}
