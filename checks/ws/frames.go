package main

import (
	"bytes"
	"crypto/sha256"
	"encoding/hex"
	"encoding/json"
	"fmt"
	"strconv"
	"strings"
	"unicode/utf8"

	"github.com/btcsuite/btcd/btcec/v2"
	"github.com/btcsuite/btcd/btcec/v2/schnorr"
	"github.com/coder/websocket"
	"github.com/high-moctane/mocrelay"
	"verifkit/refmodel"
)

// The size limit every E3 session of the gate part is configured with. Larger than the client
// library's default read limit and than every bufio buffer involved, so that a frame of exactly
// this size travels in several chunks.
const maxMessageLength = 65536

// ---------------------------------------------------------------------------------------------
// reference signer (independent of the code under test: refmodel serializer + btcec)

type signer struct {
	priv *btcec.PrivateKey
	pub  string
}

func newSigner(secretHex string) signer {
	b, err := hex.DecodeString(secretHex)
	if err != nil || len(b) != 32 {
		panic("bad signer secret")
	}
	priv, _ := btcec.PrivKeyFromBytes(b)
	return signer{priv: priv, pub: hex.EncodeToString(schnorr.SerializePubKey(priv.PubKey()))}
}

var (
	signerA = newSigner("0000000000000000000000000000000000000000000000000000000000000001")
	signerB = newSigner("00000000000000000000000000000000000000000000000000000000000000a7")
)

func tagsOf(tags [][]string) []mocrelay.Tag {
	out := make([]mocrelay.Tag, len(tags))
	for i, t := range tags {
		out[i] = mocrelay.Tag(append([]string{}, t...))
	}
	return out
}

func refID(pub string, createdAt, kind int64, tags [][]string, content string) [32]byte {
	return sha256.Sum256(refmodel.SerializeNIP01(pub, createdAt, kind, tags, content))
}

func (s signer) sign(createdAt, kind int64, tags [][]string, content string) *mocrelay.Event {
	if tags == nil {
		tags = [][]string{}
	}
	id := refID(s.pub, createdAt, kind, tags, content)
	sig, err := schnorr.Sign(s.priv, id[:])
	if err != nil {
		panic(err)
	}
	if !sig.Verify(id[:], s.priv.PubKey()) {
		panic("reference signer produced a signature its own verifier rejects")
	}
	return &mocrelay.Event{
		ID: hex.EncodeToString(id[:]), Pubkey: s.pub, CreatedAt: createdAt, Kind: kind,
		Tags: tagsOf(tags), Content: content, Sig: hex.EncodeToString(sig.Serialize()),
	}
}

// refAuthentic decides authenticity with the reference only (never with Event.Verify).
func refAuthentic(ev *mocrelay.Event) bool {
	tags := make([][]string, len(ev.Tags))
	for i, t := range ev.Tags {
		tags[i] = []string(t)
	}
	id := refID(ev.Pubkey, ev.CreatedAt, ev.Kind, tags, ev.Content)
	if hex.EncodeToString(id[:]) != ev.ID {
		return false
	}
	pkb, err := hex.DecodeString(ev.Pubkey)
	if err != nil {
		return false
	}
	pk, err := schnorr.ParsePubKey(pkb)
	if err != nil {
		return false
	}
	sb, err := hex.DecodeString(ev.Sig)
	if err != nil {
		return false
	}
	sig, err := schnorr.ParseSignature(sb)
	if err != nil {
		return false
	}
	return sig.Verify(id[:], pk)
}

// eventJSON writes the event object by hand. raw=true: strings carry only the escapes NIP-01
// mandates ('<', '&', U+2028 … verbatim, which is valid JSON); raw=false: the same event with
// every non-ASCII character and < > & written as \uXXXX escapes (an equally valid JSON text of
// the same event).
func eventJSON(ev *mocrelay.Event, raw bool) []byte {
	str := func(dst []byte, s string) []byte {
		if raw {
			return refmodel.AppendNIP01String(dst, s)
		}
		return appendEscapedString(dst, s)
	}
	var b []byte
	b = append(b, `{"id":`...)
	b = str(b, ev.ID)
	b = append(b, `,"pubkey":`...)
	b = str(b, ev.Pubkey)
	b = append(b, `,"created_at":`...)
	b = strconv.AppendInt(b, ev.CreatedAt, 10)
	b = append(b, `,"kind":`...)
	b = strconv.AppendInt(b, ev.Kind, 10)
	b = append(b, `,"tags":[`...)
	for i, t := range ev.Tags {
		if i > 0 {
			b = append(b, ',')
		}
		b = append(b, '[')
		for j, v := range t {
			if j > 0 {
				b = append(b, ',')
			}
			b = str(b, v)
		}
		b = append(b, ']')
	}
	b = append(b, `],"content":`...)
	b = str(b, ev.Content)
	b = append(b, `,"sig":`...)
	b = str(b, ev.Sig)
	return append(b, '}')
}

func appendEscapedString(dst []byte, s string) []byte {
	dst = append(dst, '"')
	for _, r := range s {
		switch {
		case r == '"' || r == '\\':
			dst = append(dst, '\\', byte(r))
		case r < 0x20 || r == '<' || r == '>' || r == '&' || r >= 0x7f:
			if r >= 0x10000 {
				r -= 0x10000
				dst = append(dst, fmt.Sprintf(`\u%04x\u%04x`, 0xd800+(r>>10), 0xdc00+(r&0x3ff))...)
			} else {
				dst = append(dst, fmt.Sprintf(`\u%04x`, r)...)
			}
		default:
			dst = append(dst, byte(r))
		}
	}
	return append(dst, '"')
}

func eventFrame(label string, ev *mocrelay.Event, raw bool) []byte {
	return []byte(`["` + label + `",` + string(eventJSON(ev, raw)) + `]`)
}

// ---------------------------------------------------------------------------------------------
// the frame alphabet

type verdict int

const (
	deliver       verdict = iota // must reach the handler, nothing is sent to the client by the relay
	reject                       // must not reach the handler, exactly one rejection
	unclaimedZone                // observed and counted, never judged
)

type frame struct {
	Class    string
	SigClass string // class named in C12 signatures ("" = Class)
	Type     websocket.MessageType
	Payload  []byte
	Verdict  verdict
	// for deliver: the message the handler must receive
	Want mocrelay.ClientMsg
	// for reject: the identifiers a rejecting OK / CLOSED has to name ("" = only a NOTICE counts)
	EventID string
	SubID   string
	// the C01 signature raised (in addition to the C12 one) when the gate contradicts the verdict
	C01Sig string
	// the C11 signature raised (in addition to the C12 one) when the gate contradicts the verdict
	C11Sig string
	// SplitAt: byte offsets at which the message is cut into several WebSocket frames (fragmentation)
	SplitAt []int
}

func (f *frame) sigClass() string {
	if f.SigClass != "" {
		return f.SigClass
	}
	return f.Class
}

func p64(v int64) *int64 { return &v }

const specialContent = "a<b&c>d\u2028e\u2029f \"q\" \\ \n \u00e9 \U0001D11E"

func alphabet() []frame {
	var fs []frame
	add := func(f frame) { fs = append(fs, f) }
	text := websocket.MessageText

	reqWant := &mocrelay.ClientReqMsg{SubscriptionID: "s1", ReqFilters: []*mocrelay.ReqFilter{{Kinds: []int64{1}, Limit: p64(5)}}}
	add(frame{Class: "REQ", Type: text, Payload: []byte(`["REQ","s1",{"kinds":[1],"limit":5}]`), Want: reqWant})
	add(frame{Class: "REQ surrounded by whitespace", Type: text, Payload: []byte("\n\t [\"REQ\" , \"s1\",\r\n{\"kinds\":[1],\"limit\":5} ] \n"), Want: reqWant})
	add(frame{Class: "REQ sent as three fragments", Type: text, Payload: []byte(`["REQ","s1",{"kinds":[1],"limit":5}]`), Want: reqWant, SplitAt: []int{1, 12}})
	add(frame{Class: "COUNT", Type: text, Payload: []byte(`["COUNT","c1",{"authors":["` + signerA.pub + `"]}]`),
		Want: &mocrelay.ClientCountMsg{SubscriptionID: "c1", ReqFilters: []*mocrelay.ReqFilter{{Authors: []string{signerA.pub}}}}})
	add(frame{Class: "CLOSE", Type: text, Payload: []byte(`["CLOSE","s1"]`), Want: &mocrelay.ClientCloseMsg{SubscriptionID: "s1"}})

	auth := signerA.sign(1700000000, 22242, [][]string{{"relay", "ws://relay.invalid/"}, {"challenge", "ch-1"}}, "")
	add(frame{Class: "AUTH", Type: text, Payload: eventFrame("AUTH", auth, true), Want: &mocrelay.ClientAuthMsg{Event: auth}})

	ev := signerA.sign(1700000001, 1, [][]string{{"t", "x"}}, "hello")
	add(frame{Class: "EVENT", Type: text, Payload: eventFrame("EVENT", ev, true), Want: &mocrelay.ClientEventMsg{Event: ev}})

	evs := signerB.sign(1700000002, 1, [][]string{{"t", "<&>\u2028"}}, specialContent)
	add(frame{Class: "EVENT special chars verbatim", Type: text, Payload: eventFrame("EVENT", evs, true), Want: &mocrelay.ClientEventMsg{Event: evs}, C01Sig: "gate: authentic event with '<' or U+2028 rejected"})
	add(frame{Class: "EVENT special chars \\u-escaped", Type: text, Payload: eventFrame("EVENT", evs, false), Want: &mocrelay.ClientEventMsg{Event: evs}, C01Sig: "gate: authentic event with '<' or U+2028 rejected"})

	// a valid REQ of exactly the size limit: whitespace inside the array, after a comma
	{
		head, tailS := `["REQ",`, `"s1",{"kinds":[1],"limit":5}]`
		pad := maxMessageLength - len(head) - len(tailS)
		add(frame{Class: "REQ of exactly MaxMessageLength bytes", Type: text,
			Payload: []byte(head + strings.Repeat(" ", pad) + tailS), Want: reqWant})
	}

	rej := func(class string, typ websocket.MessageType, payload []byte) frame {
		return frame{Class: class, Type: typ, Payload: payload, Verdict: reject}
	}
	add(rej("binary frame", websocket.MessageBinary, []byte(`["REQ","s1",{"kinds":[1],"limit":5}]`)))
	add(rej("empty text frame", text, []byte{}))
	add(rej("not JSON", text, []byte(`hello relay`)))
	add(rej("invalid UTF-8", text, []byte("[\"CLOSE\",\"s\xff1\"]")))
	add(rej("JSON non-array", text, []byte(`{}`)))
	add(rej("unknown label", text, []byte(`["FOO","x"]`)))
	add(rej("wrong arity", text, []byte(`["REQ"]`)))
	f := rej("ill-typed filter", text, []byte(`["REQ","s2",{"kinds":"x"}]`))
	f.SubID = "s2"
	add(f)

	bad := *ev
	bad.ID = strings.Repeat("z", 64)
	f = rej("EVENT bad-hex id", text, eventFrame("EVENT", &bad, true))
	f.EventID = bad.ID
	add(f)

	// forged: a well-formed signature that does not belong to this id (the signature of another
	// event by the same key)
	other := signerA.sign(1700000003, 1, nil, "other")
	forged := *ev
	forged.Sig = other.Sig
	f = rej("EVENT forged signature", text, eventFrame("EVENT", &forged, true))
	f.EventID, f.C01Sig = forged.ID, "gate: forged signature reached the handler"
	add(f)

	// altered: content changed after signing (the id no longer matches)
	alt := *ev
	alt.Content = "hellp"
	f = rej("EVENT altered content", text, eventFrame("EVENT", &alt, true))
	f.EventID, f.C01Sig = alt.ID, "gate: altered event reached the handler"
	add(f)

	// pubkey that is well-formed hex but not the x coordinate of a curve point (id recomputed, so
	// that the id gate passes and the signature check itself has to refuse)
	offCurve := *ev
	for i := 0; ; i++ {
		b, _ := hex.DecodeString(ev.Pubkey)
		b[31] ^= byte(i + 1)
		if _, err := schnorr.ParsePubKey(b); err != nil {
			offCurve.Pubkey = hex.EncodeToString(b)
			break
		}
		if i > 200 {
			panic("alphabet: no off-curve pubkey found")
		}
	}
	{
		id := refID(offCurve.Pubkey, offCurve.CreatedAt, offCurve.Kind, [][]string{{"t", "x"}}, offCurve.Content)
		offCurve.ID = hex.EncodeToString(id[:])
	}
	f = rej("EVENT pubkey not on the curve", text, eventFrame("EVENT", &offCurve, true))
	f.EventID, f.C01Sig = offCurve.ID, "gate: event with an impossible pubkey reached the handler"
	add(f)

	// self-check of the alphabet (reference side only)
	for _, fr := range fs {
		if len(fr.Payload) > maxMessageLength {
			panic("alphabet frame above the size limit: " + fr.Class)
		}
		if fr.Verdict == deliver {
			if fr.Type != text || !utf8.Valid(fr.Payload) || !json.Valid(fr.Payload) {
				panic("alphabet: deliverable frame is not valid JSON text: " + fr.Class)
			}
			switch m := fr.Want.(type) {
			case *mocrelay.ClientEventMsg:
				if !refAuthentic(m.Event) {
					panic("alphabet: deliverable EVENT is not authentic by the reference: " + fr.Class)
				}
			case *mocrelay.ClientAuthMsg:
				if !refAuthentic(m.Event) {
					panic("alphabet: AUTH event is not authentic by the reference")
				}
			}
		}
	}
	if refAuthentic(&forged) || refAuthentic(&alt) || refAuthentic(&offCurve) {
		panic("alphabet: tampered event is authentic by the reference")
	}
	return fs
}

// unclaimedFrames: zones the statement does not decide. They are run once each, what happens is
// written into the evidence, and nothing about it is ever a violation.
func unclaimedFrames() []frame {
	text := websocket.MessageText
	head, tailS := `["REQ",`, `"s1",{"kinds":[1],"limit":5}]`
	pad := maxMessageLength + 1 - len(head) - len(tailS)
	ev := signerA.sign(1700000001, 1, [][]string{{"t", "x"}}, "hello")
	auth := *signerA.sign(1700000000, 22242, [][]string{{"relay", "ws://relay.invalid/"}, {"challenge", "ch-1"}}, "")
	auth.Sig = ev.Sig
	return []frame{
		{Class: "frame one byte above MaxMessageLength (the websocket library enforces the read limit and fails the connection)", Type: text,
			Payload: []byte(head + strings.Repeat(" ", pad) + tailS), Verdict: unclaimedZone},
		{Class: "AUTH whose event carries a forged signature (the statement demands authenticity for EVENT only)", Type: text,
			Payload: eventFrame("AUTH", &auth, true), Verdict: unclaimedZone},
	}
}

// ---------------------------------------------------------------------------------------------
// comparing what the handler got with what was sent

func sameClientMsg(got, want mocrelay.ClientMsg) bool {
	if got == nil || want == nil {
		return false
	}
	if got.ClientMsgLabel() != want.ClientMsgLabel() {
		return false
	}
	if fmt.Sprintf("%T", got) != fmt.Sprintf("%T", want) {
		return false
	}
	gb, err1 := json.Marshal(got)
	wb, err2 := json.Marshal(want)
	return err1 == nil && err2 == nil && bytes.Equal(gb, wb)
}

func describeClientMsg(m mocrelay.ClientMsg) string {
	if m == nil {
		return "<nil>"
	}
	b, err := json.Marshal(m)
	if err != nil {
		return fmt.Sprintf("%T(unencodable: %v)", m, err)
	}
	return clip(string(b), 160)
}

func clip(s string, n int) string {
	if len(s) > n {
		return s[:n/2] + "…(" + strconv.Itoa(len(s)) + " bytes)…" + s[len(s)-n/3:]
	}
	return s
}

// clipBytes renders a payload for reports; invalid UTF-8 is shown with Go escapes.
func clipBytes(b []byte, n int) string {
	if utf8.Valid(b) {
		return clip(string(b), n)
	}
	return clip(strconv.QuoteToASCII(string(b)), n)
}

// ---------------------------------------------------------------------------------------------
// server frames as the client sees them (decoded with encoding/json only)

type srvFrame struct {
	Text  bool
	Raw   string
	Label string
	Elems []any
}

func decodeSrvFrame(typ websocket.MessageType, data []byte) srvFrame {
	f := srvFrame{Text: typ == websocket.MessageText, Raw: clipBytes(data, 200)}
	var elems []any
	dec := json.NewDecoder(bytes.NewReader(data))
	dec.UseNumber()
	if err := dec.Decode(&elems); err == nil && len(elems) > 0 {
		if l, ok := elems[0].(string); ok {
			f.Label = l
			f.Elems = elems
		}
	}
	return f
}

// isRejectionOf: a NOTICE, or an OK false naming the event id, or a CLOSED naming the sub id.
func (f srvFrame) isRejectionOf(fr *frame) bool {
	if !f.Text {
		return false
	}
	switch f.Label {
	case "NOTICE":
		if len(f.Elems) != 2 {
			return false
		}
		_, ok := f.Elems[1].(string)
		return ok
	case "OK":
		if len(f.Elems) != 4 || fr.EventID == "" {
			return false
		}
		id, _ := f.Elems[1].(string)
		acc, isBool := f.Elems[2].(bool)
		return id == fr.EventID && isBool && !acc
	case "CLOSED":
		if len(f.Elems) != 3 || fr.SubID == "" {
			return false
		}
		id, _ := f.Elems[1].(string)
		return id == fr.SubID
	}
	return false
}

func (f srvFrame) noticeText() (string, bool) {
	if f.Text && f.Label == "NOTICE" && len(f.Elems) == 2 {
		s, ok := f.Elems[1].(string)
		return s, ok
	}
	return "", false
}
