// Command ws holds the E3 sub-checks: the real Relay.ServeHTTP and a real coder/websocket client
// over in-memory net.Pipe connections inside testing/synctest bubbles (package verifkit/wsx).
//
//	ws-gate    C12 (read-side gate) + C01 gate clause: all frame sequences up to a length
//	ws-output  C12 (write side): all handler-output sequences up to a length
//	ws-stall   C13 WebSocket clause: stalled peers × (SendTimeout, PingDuration), and teardown
//	           at every cut point of a client history
//
// A part enumerates its sessions in a fixed order; session i is run by shard i mod N. Shards are
// child processes of this binary (`ws __shard <part> <i> <N>`), each running its sessions one
// after the other, every session in a bubble of its own. The parent merges the shard records in
// session order, so the report does not depend on N or on timing.
package main

import (
	"bytes"
	"encoding/json"
	"fmt"
	"os"
	"os/exec"
	"runtime"
	"sort"
	"strconv"
	"sync"
	"time"

	"verifkit/vk"
	"verifkit/wsx"
)

// ---------------------------------------------------------------------------------------------
// shard records

type violRec struct {
	Idx    int    `json:"idx"` // session index (merge order)
	Prop   string `json:"prop"`
	Sig    string `json:"sig"`
	Detail string `json:"detail"`
	Replay any    `json:"replay,omitempty"`
}

type sampleRec struct {
	Idx int `json:"idx"`
	V   any `json:"v"`
}

type rec struct {
	Sessions  int64             `json:"sessions"`
	Distinct  int64             `json:"distinct"`
	Outcomes  map[string]int64  `json:"outcomes"`
	Unclaimed map[string]int64  `json:"unclaimed"`
	Counters  map[string]int64  `json:"counters"`
	Viol      []violRec         `json:"viol"`
	Samples   []sampleRec       `json:"samples"`
	Infra     []string          `json:"infra"`
	Unrepro   []string          `json:"unreproduced"`
	Notes     map[string]string `json:"notes"`
}

func newRec() *rec {
	return &rec{Outcomes: map[string]int64{}, Unclaimed: map[string]int64{}, Counters: map[string]int64{}, Notes: map[string]string{}}
}

func (r *rec) outcome(k string)         { r.Outcomes[k]++ }
func (r *rec) unclaimed(k string)       { r.Unclaimed[k]++ }
func (r *rec) count(k string, n int64)  { r.Counters[k] += n }
func (r *rec) infra(f string, a ...any) { r.Infra = append(r.Infra, fmt.Sprintf(f, a...)) }
func (r *rec) note(k, v string) {
	if _, ok := r.Notes[k]; !ok {
		r.Notes[k] = v
	}
}
func (r *rec) sample(idx int, v any) {
	if len(r.Samples) < 3 {
		r.Samples = append(r.Samples, sampleRec{idx, v})
	}
}

// a shard part: run the sessions whose index ≡ shard (mod n)
type shardFn func(tier string, shard, n int, r *rec, h *wsx.Harness)

var shardParts = map[string]shardFn{}

// finding is what one session returns; the caller turns it into violRecs.
type finding struct {
	Prop, Sig, Detail string
	Replay            any
}

func sigSet(fs []finding) string {
	var s []string
	for _, f := range fs {
		s = append(s, f.Prop+"/"+f.Sig)
	}
	sort.Strings(s)
	b, _ := json.Marshal(s)
	return string(b)
}

// report re-runs a session that produced findings (DESIGN §3 rule 6) and records the signatures
// that show up again in one of up to three re-runs (E3 does not control the interleaving of the
// library goroutines, so a finding may depend on it; every run is a real execution of the real
// code, the re-run only guards against a fluke of the rig). A finding that never shows up again
// is kept aside as "unreproduced": the parent lists it in the evidence when the run reports
// reproducible violations anyway, and turns it into an infrastructure error (never a silent
// pass) when the run would otherwise report nothing.
func report(r *rec, idx int, first []finding, rerun func() []finding) {
	if len(first) == 0 {
		return
	}
	again := map[string]bool{}
	var last []finding
	for try := 0; try < 3; try++ {
		last = rerun()
		for _, f := range last {
			again[f.Prop+"/"+f.Sig] = true
		}
		if sigSet(first) == sigSet(last) {
			break
		}
		r.count("replays_that_differed", 1)
	}
	n := 0
	for _, f := range first {
		if again[f.Prop+"/"+f.Sig] {
			r.Viol = append(r.Viol, violRec{Idx: idx, Prop: f.Prop, Sig: f.Sig, Detail: f.Detail, Replay: f.Replay})
			n++
		}
	}
	if n == 0 {
		r.Unrepro = append(r.Unrepro, fmt.Sprintf("session %d: replay divergence, nothing reproduced in 3 re-runs: first run %s, last run %s", idx, sigSet(first), sigSet(last)))
	}
}

// ---------------------------------------------------------------------------------------------
// parent side

func nShards() int {
	if v, err := strconv.Atoi(os.Getenv("VERIF_PROCS")); err == nil && v > 0 {
		return v
	}
	n := runtime.NumCPU()
	if n > 16 {
		n = 16
	}
	if n < 1 {
		n = 1
	}
	return n
}

// runSharded runs the part in n child processes and merges their records into c.
func runSharded(c *vk.Ctx, part string) *rec {
	n := nShards()
	budget := 25 * time.Minute // only stops a run that hangs; never an oracle
	recs := make([]*rec, n)
	errs := make([]string, n)
	var wg sync.WaitGroup
	for i := 0; i < n; i++ {
		wg.Add(1)
		go func(i int) {
			defer wg.Done()
			cmd := exec.Command(os.Args[0], "__shard", part, strconv.Itoa(i), strconv.Itoa(n))
			cmd.Env = append(os.Environ(), "VERIF_TIER="+c.Tier, "GOMAXPROCS=2")
			var out, errb bytes.Buffer
			cmd.Stdout, cmd.Stderr = &out, &errb
			if err := cmd.Start(); err != nil {
				errs[i] = err.Error()
				return
			}
			done := make(chan error, 1)
			go func() { done <- cmd.Wait() }()
			select {
			case err := <-done:
				if err != nil {
					errs[i] = fmt.Sprintf("shard %d/%d: %v; stderr tail: %s", i, n, err, tail(errb.String(), 1500))
					return
				}
			case <-time.After(budget):
				cmd.Process.Kill()
				errs[i] = fmt.Sprintf("shard %d/%d exceeded the internal budget of %s", i, n, budget)
				return
			}
			var r rec
			if err := json.Unmarshal(extractRec(out.Bytes()), &r); err != nil {
				errs[i] = fmt.Sprintf("shard %d/%d: unreadable record: %v; stderr tail: %s", i, n, err, tail(errb.String(), 1500))
				return
			}
			recs[i] = &r
		}(i)
	}
	wg.Wait()
	for _, e := range errs {
		if e != "" {
			c.Infra("%s", e)
		}
	}
	m := newRec()
	for _, r := range recs {
		m.Sessions += r.Sessions
		m.Distinct += r.Distinct
		for k, v := range r.Outcomes {
			m.Outcomes[k] += v
		}
		for k, v := range r.Unclaimed {
			m.Unclaimed[k] += v
		}
		for k, v := range r.Counters {
			m.Counters[k] += v
		}
		for k, v := range r.Notes {
			m.note(k, v)
		}
		m.Viol = append(m.Viol, r.Viol...)
		m.Samples = append(m.Samples, r.Samples...)
		m.Infra = append(m.Infra, r.Infra...)
		m.Unrepro = append(m.Unrepro, r.Unrepro...)
	}
	sort.SliceStable(m.Viol, func(i, j int) bool { return m.Viol[i].Idx < m.Viol[j].Idx })
	sort.SliceStable(m.Samples, func(i, j int) bool { return m.Samples[i].Idx < m.Samples[j].Idx })

	c.Eval(m.Sessions)
	c.DistinctN(m.Distinct)
	for k := range m.Outcomes {
		c.Outcome(k)
	}
	var un int64
	for _, v := range m.Unclaimed {
		un += v
	}
	c.Unclaimed(un)
	for i, s := range m.Samples {
		if i == 3 { // every shard keeps its first 3 candidates, so the first 3 overall do not depend on the shard count
			break
		}
		c.Sample(s.V)
	}
	for _, v := range m.Viol {
		c.ViolateProp(v.Prop, v.Sig, v.Detail, v.Replay)
	}
	c.SetExtra("shards", n)
	c.SetExtra("outcome_classes", m.Outcomes)
	if len(m.Unclaimed) > 0 {
		c.SetExtra("unclaimed_zones", m.Unclaimed)
	}
	if len(m.Counters) > 0 {
		c.SetExtra("counters", m.Counters)
	}
	if len(m.Notes) > 0 {
		c.SetExtra("observations", m.Notes)
	}
	c.Assume("E3 enumerates frame/handler-output sequences and configurations, not internal interleavings of net/http and coder/websocket goroutines")
	c.Assume("net.Pipe replaces TCP: no kernel buffering, a peer that stops reading blocks the relay's next write at once")
	c.Assume("virtual time by testing/synctest; quiescence = synctest.Wait (every goroutine of the bubble durably blocked)")
	if len(m.Unrepro) > 0 {
		sort.Strings(m.Unrepro)
		c.SetExtra("unreproduced_findings", map[string]any{"count": len(m.Unrepro), "first": m.Unrepro[0]})
	}
	if len(m.Infra) > 0 { // after the merge, so that what was found is in the part all the same
		c.Infra("%s (and %d more)", m.Infra[0], len(m.Infra)-1)
	}
	if len(m.Unrepro) > 0 && len(m.Viol) == 0 { // nothing reproducible was found at all
		c.Infra("%s (and %d more)", m.Unrepro[0], len(m.Unrepro)-1)
	}
	return m
}

func tail(s string, n int) string {
	if len(s) > n {
		return "..." + s[len(s)-n:]
	}
	return s
}

// ---------------------------------------------------------------------------------------------

var parts = map[string]func(*vk.Ctx){}

func main() {
	if len(os.Args) >= 5 && os.Args[1] == "__shard" {
		shardMain()
		return
	}
	vk.RunPart(parts)
}

func shardMain() {
	part := os.Args[2]
	shard, _ := strconv.Atoi(os.Args[3])
	n, _ := strconv.Atoi(os.Args[4])
	fn, ok := shardParts[part]
	if !ok || n < 1 || shard < 0 || shard >= n {
		fmt.Fprintf(os.Stderr, "bad shard invocation %v\n", os.Args)
		os.Exit(2)
	}
	tier := os.Getenv("VERIF_TIER")
	if tier != "thorough" {
		tier = "quick"
	}
	wsx.Main(func(h *wsx.Harness) {
		r := newRec()
		fn(tier, shard, n, r, h)
		b, err := json.Marshal(r)
		if err != nil {
			fmt.Fprintf(os.Stderr, "cannot encode shard record: %v\n", err)
			os.Exit(2)
		}
		fmt.Printf("\n%s%s\n", recMarker, b)
	})
}

const recMarker = "@@WSREC@@"

func extractRec(out []byte) []byte {
	for _, line := range bytes.Split(out, []byte("\n")) {
		if bytes.HasPrefix(line, []byte(recMarker)) {
			return line[len(recMarker):]
		}
	}
	return nil
}
