package main

import (
	"context"
	"errors"
	"fmt"
	"sync"
	"time"

	"github.com/coder/websocket"
	"github.com/high-moctane/mocrelay"
	"verifkit/vk"
	"verifkit/wsx"
)

func init() {
	parts["ws-stall"] = wsStall
	shardParts["ws-stall"] = wsStallShard
}

func wsStall(c *vk.Ctx) {
	m := runSharded(c, "ws-stall")
	dims := "SendTimeout {1s,5s} x PingDuration {0,300ms,1min} x handler {emits forever, emits 3 then waits} x first output at {+0, +2.5s} x peer stops reading after {0,1,3} frames"
	if c.Thorough() {
		dims = "SendTimeout {1s,5s,10s} x PingDuration {0,300ms,7s,1min,1h} x handler {emits forever, emits 3 then waits} x first output at {+0, +2.5s} x peer stops reading after {0,1,2,3,8} frames (8 only for the endless handler)"
	}
	c.P.Bound = fmt.Sprintf("stalled peer: %s (%d configurations); ", dims, m.Counters["sessions_stalled-peer"]) +
		"teardown: endings {client close, connection cut} x every cut point 0..4 of [REQ,EVENT,COUNT,CLOSE] x {burst handler + draining peer, burst handler + stalled peer, endless handler + stalled peer} x PingDuration {0,1min} (60 configurations)"
	c.P.Rule = "one session per configuration (distinct by construction), virtual time. Stalled peer: T0 = virtual instant at which the write loop took the message it cannot write (the (j+1)-th), " +
		"or the instant the peer stopped reading when only pings remain; the handler's session context must be cancelled by T0 + SendTimeout + PingDuration + 1s " +
		"(the PingDuration + 1s slack is deliberate over-allowance: the write loop may be inside a ping exchange), Relay.ServeHTTP must have returned 15 s later " +
		"(coder/websocket's close handshake waits up to 5 s + 5 s), and after the rig released its own resources no goroutine of the session may exist in the bubble. " +
		"A peer that is not dropped is watched for one more virtual hour to tell 'never' from 'late', then the connection is cut so that the session can end. " +
		"Teardown: 40 s (virtual) after the ending the context must be cancelled, ServeHTTP returned and no session goroutine left."
}

// ---------------------------------------------------------------------------------------------
// handlers that record virtual times

type stallRec struct {
	mu        sync.Mutex
	epoch     time.Time
	sendAt    []time.Duration // instants at which the write loop took the handler's messages
	ctxDone   bool
	ctxDoneAt time.Duration
	returned  bool
	inputs    int
}

func (r *stallRec) now() time.Duration { return time.Since(r.epoch) }

func (r *stallRec) snapshot() (sendAt []time.Duration, done bool, doneAt time.Duration, returned bool) {
	r.mu.Lock()
	defer r.mu.Unlock()
	return append([]time.Duration(nil), r.sendAt...), r.ctxDone, r.ctxDoneAt, r.returned
}

// emitter: kind "forever" emits NOTICEs without end, "k3" emits 3 and then waits, "burst" emits 3
// per received message. Every send is `select { case send <- m: case <-ctx.Done(): return }`.
func stallHandler(kind string, delay time.Duration, r *stallRec) mocrelay.Handler {
	return mocrelay.HandlerFunc(func(ctx context.Context, send chan<- mocrelay.ServerMsg, recv <-chan mocrelay.ClientMsg) error {
		watcherDone := make(chan struct{})
		go func() {
			defer close(watcherDone)
			<-ctx.Done()
			r.mu.Lock()
			r.ctxDone, r.ctxDoneAt = true, r.now()
			r.mu.Unlock()
		}()
		defer func() {
			<-watcherDone // ctx is done on every return path below
			r.mu.Lock()
			r.returned = true
			r.mu.Unlock()
		}()
		emit := func(i int) bool {
			m := mocrelay.NewServerNoticeMsg(fmt.Sprintf("out:%d", i))
			for {
				select {
				case send <- m:
					r.mu.Lock()
					r.sendAt = append(r.sendAt, r.now())
					r.mu.Unlock()
					return true
				case <-ctx.Done():
					return false
				case _, ok := <-recv: // keep draining so that the relay's read loop (pongs!) never waits for us
					if !ok {
						recv = nil
					}
				}
			}
		}
		if delay > 0 { // idle first (still draining recv), so that T0 is not the session start
			t := time.NewTimer(delay)
			defer t.Stop()
		idle:
			for {
				select {
				case <-t.C:
					break idle
				case <-ctx.Done():
					return ctx.Err()
				case _, ok := <-recv:
					if !ok {
						recv = nil
					}
				}
			}
		}
		n := 0
		switch kind {
		case "forever":
			for {
				n++
				if !emit(n) {
					return ctx.Err()
				}
			}
		case "k3":
			for n = 1; n <= 3; n++ {
				if !emit(n) {
					return ctx.Err()
				}
			}
		}
		for {
			select {
			case <-ctx.Done():
				return ctx.Err()
			case _, ok := <-recv:
				if !ok {
					<-ctx.Done()
					return errors.New("recv closed")
				}
				r.mu.Lock()
				r.inputs++
				r.mu.Unlock()
				if kind == "burst" {
					for k := 0; k < 3; k++ {
						n++
						if !emit(n) {
							return ctx.Err()
						}
					}
				}
			}
		}
	})
}

func stallOption(sendTimeout, ping time.Duration) *mocrelay.RelayOption {
	return &mocrelay.RelayOption{
		SendTimeout:        sendTimeout,
		RecvRateLimitRate:  1e9,
		RecvRateLimitBurst: 1 << 30,
		MaxMessageLength:   maxMessageLength,
		PingDuration:       ping,
	}
}

// ---------------------------------------------------------------------------------------------

type stallJob struct {
	Kind        string // "stalled-peer" | "teardown"
	SendTimeout time.Duration
	Ping        time.Duration
	Handler     string        // forever | k3 | burst
	J           int           // stalled-peer: frames read before the peer stops; teardown: -1 draining, 0 stalled
	Ending      string        // teardown: "client close" | "connection cut"
	Cut         int           // teardown: number of history frames sent before the ending
	Delay       time.Duration // stalled-peer: the handler idles this long before it emits
}

func (j stallJob) String() string {
	if j.Kind == "stalled-peer" {
		return fmt.Sprintf("SendTimeout=%s PingDuration=%s handler=%s (first output at +%s) peer stops reading after %d frame(s)", j.SendTimeout, j.Ping, j.Handler, j.Delay, j.J)
	}
	peer := "draining peer"
	if j.J == 0 {
		peer = "stalled peer"
	}
	return fmt.Sprintf("SendTimeout=%s PingDuration=%s handler=%s %s, %s after %d of [REQ,EVENT,COUNT,CLOSE]", j.SendTimeout, j.Ping, j.Handler, peer, j.Ending, j.Cut)
}

func pingClass(p time.Duration) string {
	if p == 0 {
		return "ping disabled"
	}
	return "ping enabled"
}

type stallReplay struct {
	Part     string            `json:"part"`
	Config   string            `json:"configuration"`
	Times    map[string]string `json:"virtual_times"`
	Leftover []string          `json:"goroutines_left,omitempty"`
}

type stallResult struct {
	findings  []finding
	infra     string
	outcome   string
	unclaimed string
	times     map[string]string
	leftover  []string
}

func stallJobs(tier string) []stallJob {
	var jobs []stallJob
	sts := []time.Duration{time.Second, 5 * time.Second}
	pings := []time.Duration{0, 300 * time.Millisecond, time.Minute}
	js := []int{0, 1, 3}
	if tier == "thorough" {
		sts = append(sts, 10*time.Second) // the default
		pings = append(pings, 7*time.Second, time.Hour)
		js = []int{0, 1, 2, 3, 8}
	}
	for _, st := range sts {
		for _, ping := range pings {
			for _, hd := range []string{"forever", "k3"} {
				for _, j := range js {
					if hd == "k3" && j > 3 {
						continue // the handler emits 3: a peer waiting for more is still reading, not stalled
					}
					for _, delay := range []time.Duration{0, 2500 * time.Millisecond} {
						jobs = append(jobs, stallJob{Kind: "stalled-peer", SendTimeout: st, Ping: ping, Handler: hd, J: j, Delay: delay})
					}
				}
			}
		}
	}
	for _, ending := range []string{"client close", "connection cut"} {
		for cut := 0; cut <= 4; cut++ {
			for _, v := range []struct {
				h string
				j int
			}{{"burst", -1}, {"burst", 0}, {"forever", 0}} {
				for _, ping := range []time.Duration{0, time.Minute} {
					jobs = append(jobs, stallJob{Kind: "teardown", SendTimeout: 5 * time.Second, Ping: ping, Handler: v.h, J: v.j, Ending: ending, Cut: cut})
				}
			}
		}
	}
	return jobs
}

// endOfSession: the rig lets go of everything it owns and the bubble is searched for what is left.
func endOfSession(s *wsx.Session, res *stallResult, job stallJob, ending string) {
	s.Shutdown(40 * time.Second)
	left, err := s.Leftover()
	if err != nil {
		res.infra = "goroutine dump: " + err.Error()
		return
	}
	for _, g := range left {
		if g.Session {
			res.leftover = append(res.leftover, g.TopFrames(5))
			res.findings = append(res.findings, finding{Prop: "C13", Sig: fmt.Sprintf("ws: goroutine left after session end (%s)", ending),
				Detail: fmt.Sprintf("%s: 40 s (virtual) after the rig closed the client, the server and the transport: %s", job, g.TopFrames(5))})
		} else {
			res.infra = "rig goroutine left over: " + g.TopFrames(6)
		}
	}
}

func runStallSession(h *wsx.Harness, job stallJob) (res stallResult) {
	res.times = map[string]string{}
	mk := func(sig, detail string) {
		res.findings = append(res.findings, finding{Prop: "C13", Sig: sig, Detail: detail})
	}
	br := h.RunBubble(func() {
		r := &stallRec{epoch: time.Now()}
		s, err := wsx.Start(stallHandler(job.Handler, job.Delay, r), stallOption(job.SendTimeout, job.Ping))
		if err != nil {
			res.infra = "handshake failed: " + err.Error()
			return
		}
		now := func() time.Duration { return r.now() }
		if job.Kind == "teardown" {
			runTeardown(s, r, job, &res, mk)
			return
		}

		s.StartReader(job.J)
		time.Sleep(job.Delay)
		wsx.Wait()
		sendAt, done, doneAt, _ := r.snapshot()
		if done {
			// only legitimate when the peer never reads and a ping went unanswered before the
			// handler's first output: the blocked write was the ping
			if job.J == 0 && job.Ping > 0 && job.Delay > 0 && doneAt <= job.Ping+job.SendTimeout {
				res.times["session context cancelled (first ping at +"+job.Ping.String()+" was never read)"] = doneAt.String()
				res.outcome = "dropped at first ping + SendTimeout, before the handler's first output (ping enabled)"
				time.Sleep(doneAt + 15*time.Second - now())
				wsx.Wait()
				if ret, _ := s.ServeReturned(); !ret {
					mk("ws: ServeHTTP did not return within 15 s after the stalled peer was dropped (ping enabled)",
						fmt.Sprintf("%s: context cancelled at +%s, Relay.ServeHTTP still running at +%s", job, doneAt, now()))
				}
				endOfSession(s, &res, job, "stalled peer dropped")
				return
			}
			res.infra = fmt.Sprintf("session context cancelled at +%s before the peer stalled", doneAt)
			return
		}
		if !s.ReaderStopped() {
			res.infra = "the peer is still reading: the configuration does not stall it"
			return
		}
		if s.NFrames() != job.J {
			res.infra = fmt.Sprintf("peer read %d frame(s), wanted %d", s.NFrames(), job.J)
			return
		}
		var t0 time.Duration
		blockedWrite := len(sendAt) > job.J
		switch {
		case blockedWrite:
			t0 = sendAt[job.J]
			res.times["T0 (write loop took message "+fmt.Sprint(job.J+1)+", which the peer never reads)"] = t0.String()
		case job.Ping > 0:
			t0 = now()
			res.times["T0 (peer stopped reading; the next write is the first ping)"] = t0.String()
		default:
			// handler idle, ping disabled: the relay never writes, so no write is ever blocked
			res.unclaimed = "stalled peer, idle handler, ping disabled: no write is ever blocked"
			time.Sleep(time.Hour)
			wsx.Wait()
			if _, done, _, _ := r.snapshot(); done {
				res.outcome = "idle stalled peer (ping disabled): session ended by itself"
			} else {
				res.outcome = "idle stalled peer (ping disabled): still connected after 1 h (not claimed)"
			}
			s.Cut()
			time.Sleep(40 * time.Second)
			wsx.Wait()
			checkEnded(s, r, job, &res, mk, "connection cut")
			endOfSession(s, &res, job, "connection cut")
			return
		}
		deadline := t0 + job.SendTimeout + job.Ping + time.Second
		res.times["deadline (T0 + SendTimeout + PingDuration + 1s)"] = deadline.String()
		time.Sleep(deadline - now())
		wsx.Wait()
		_, done, doneAt, _ = r.snapshot()
		pc := pingClass(job.Ping)
		if done {
			res.times["session context cancelled"] = doneAt.String()
			off := doneAt - t0
			switch {
			case off == job.SendTimeout:
				res.outcome = "dropped at T0 + SendTimeout exactly (" + pc + ")"
			case off < job.SendTimeout:
				res.outcome = "dropped before T0 + SendTimeout (" + pc + ")"
			default:
				res.outcome = "dropped within T0 + SendTimeout + PingDuration + 1s (" + pc + ")"
			}
			time.Sleep(doneAt + 15*time.Second - now())
			wsx.Wait()
			ret, retAt := s.ServeReturned()
			if ret {
				res.times["ServeHTTP returned"] = retAt.String()
			} else {
				mk(fmt.Sprintf("ws: ServeHTTP did not return within 15 s after the stalled peer was dropped (%s)", pc),
					fmt.Sprintf("%s: context cancelled at +%s, Relay.ServeHTTP still running at +%s", job, doneAt, now()))
			}
			if _, _, _, hret := r.snapshot(); !hret {
				res.infra = "the check's own handler did not return after its context was cancelled"
			}
			endOfSession(s, &res, job, "stalled peer dropped")
			return
		}
		// not dropped in time: never, or late?
		time.Sleep(time.Hour)
		wsx.Wait()
		_, done, doneAt, _ = r.snapshot()
		if done {
			res.times["session context cancelled"] = doneAt.String()
			res.outcome = "dropped late (" + pc + ")"
			mk(fmt.Sprintf("ws: stalled peer dropped late (%s)", pc),
				fmt.Sprintf("%s: a write has been blocked since +%s; the session context was cancelled only at +%s (allowed: +%s)", job, t0, doneAt, deadline))
		} else {
			res.times["still connected at"] = now().String()
			res.outcome = "never dropped: still connected after 1 h (" + pc + ")"
			mk(fmt.Sprintf("ws: stalled peer not dropped after send timeout (%s)", pc),
				fmt.Sprintf("%s: a write has been blocked since virtual +%s (SendTimeout %s); at +%s and again one hour later at +%s the handler's context is not cancelled and Relay.ServeHTTP has not returned",
					job, t0, job.SendTimeout, deadline, now()))
		}
		// let the session end so that late/never can be told from a teardown problem
		s.Cut()
		time.Sleep(40 * time.Second)
		wsx.Wait()
		checkEnded(s, r, job, &res, mk, "connection cut")
		endOfSession(s, &res, job, "connection cut")
	})
	finishStall(&res, br, job)
	return
}

func checkEnded(s *wsx.Session, r *stallRec, job stallJob, res *stallResult, mk func(sig, detail string), ending string) {
	_, done, doneAt, hret := r.snapshot()
	if !done {
		mk(fmt.Sprintf("ws: handler context not cancelled after session end (%s)", ending), fmt.Sprintf("%s: 40 s (virtual) after the %s the handler's context is still live", job, ending))
	} else {
		res.times["session context cancelled after "+ending] = doneAt.String()
		if !hret {
			res.infra = "the check's own handler did not return after its context was cancelled"
		}
	}
	if ret, at := s.ServeReturned(); !ret {
		mk(fmt.Sprintf("ws: ServeHTTP did not return after session end (%s)", ending), fmt.Sprintf("%s: 40 s (virtual) after the %s Relay.ServeHTTP has not returned", job, ending))
	} else {
		res.times["ServeHTTP returned after "+ending] = at.String()
	}
	if p := s.ServePanic(); p != "" {
		mk("ws: ServeHTTP panicked", fmt.Sprintf("%s: %s", job, clip(p, 1500)))
	}
}

func runTeardown(s *wsx.Session, r *stallRec, job stallJob, res *stallResult, mk func(sig, detail string)) {
	s.StartReader(job.J) // -1: reads everything, 0: never reads
	wsx.Wait()
	sigma := alphabet()
	byClass := map[string]*frame{}
	for i := range sigma {
		byClass[sigma[i].Class] = &sigma[i]
	}
	history := []*frame{byClass["REQ"], byClass["EVENT"], byClass["COUNT"], byClass["CLOSE"]}
	sent := 0
	for _, fr := range history[:job.Cut] {
		if err := sendFrame(s, fr); err != nil {
			// the session ended by itself (stalled peer dropped) or the relay stopped reading
			// because its own write is blocked; the ending below is applied all the same
			res.times[fmt.Sprintf("client write %d failed", sent+1)] = fmt.Sprintf("+%s: %v", r.now(), err)
			break
		}
		sent++
		wsx.Wait()
	}
	sendAt, _, _, _ := r.snapshot()
	res.times["ending applied"] = r.now().String()
	pending := "no output pending"
	if job.J == 0 && len(sendAt) > 0 {
		pending = "a write blocked"
	}
	switch job.Ending {
	case "client close":
		s.Conn.Close(websocket.StatusNormalClosure, "bye") // up to 5 s + 5 s virtual
	case "connection cut":
		s.Cut()
	}
	time.Sleep(40 * time.Second)
	wsx.Wait()
	checkEnded(s, r, job, res, mk, job.Ending)
	res.outcome = fmt.Sprintf("%s with %s: ended", job.Ending, pending)
	if len(res.findings) > 0 {
		res.outcome = fmt.Sprintf("%s with %s: NOT ended cleanly", job.Ending, pending)
	}
	endOfSession(s, res, job, job.Ending)
}

func finishStall(res *stallResult, br wsx.BubbleResult, job stallJob) {
	if br.Panic != "" {
		res.infra = "panic in the rig: " + clip(br.Panic, 2000)
	}
	if br.Deadlock != "" && len(res.findings) == 0 && res.infra == "" {
		res.infra = "bubble could not end although no leftover was seen: " + br.Deadlock
	}
	for i := range res.findings {
		res.findings[i].Replay = stallReplay{Part: "ws-stall", Config: job.String(), Times: res.times, Leftover: res.leftover}
	}
}

func wsStallShard(tier string, shard, n int, r *rec, h *wsx.Harness) {
	jobs := stallJobs(tier)
	for idx, job := range jobs {
		if idx%n != shard {
			continue
		}
		res := runStallSession(h, job)
		if res.infra != "" {
			r.infra("ws-stall session %d (%s): %s", idx, job, res.infra)
			continue
		}
		r.Sessions++
		r.Distinct++
		r.count("sessions_"+job.Kind, 1)
		if res.unclaimed != "" {
			r.unclaimed(res.unclaimed)
		}
		if res.outcome != "" {
			r.outcome(res.outcome)
		}
		if job.Kind == "stalled-peer" && job.J == 1 && job.Handler == "forever" || job.Kind == "teardown" && job.Cut == 2 && job.Handler == "burst" && job.J == 0 && job.Ping > 0 {
			r.sample(idx, map[string]any{"configuration": job.String(), "outcome": res.outcome, "virtual_times": res.times})
		}
		report(r, idx, res.findings, func() []finding { return runStallSession(h, job).findings })
	}
}
