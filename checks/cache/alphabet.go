package main

import (
	"crypto/sha256"
	"encoding/hex"
	"fmt"
	"strings"

	"github.com/high-moctane/mocrelay"
)

// The event alphabet of the EventCache exploration (DESIGN §4, C03–C05): two authors P and Q,
// timestamps from {1,2,3} chosen to tie, every event class of NIP-01 plus deletion requests in
// every reference form. Events are immutable and shared by all caches of the exploration.

type evClass int

const (
	clsRegular evClass = iota
	clsDeletion
	clsReplaceable
	clsAddrD      // addressable, d tag with a non-empty value
	clsAddrEmptyD // addressable, ["d",""]
	clsAddrNoD    // addressable, no d tag at all
	clsEphemeral
)

func (c evClass) String() string {
	switch c {
	case clsRegular:
		return "regular event"
	case clsDeletion:
		return "deletion request"
	case clsReplaceable:
		return "replaceable event"
	case clsAddrD:
		return "addressable event"
	case clsAddrEmptyD:
		return `addressable event with d=""`
	case clsAddrNoD:
		return "addressable event without d tag"
	case clsEphemeral:
		return "ephemeral event"
	}
	return "?"
}

func (c evClass) addressable() bool { return c == clsAddrD || c == clsAddrEmptyD || c == clsAddrNoD }

const (
	authorP = 0
	authorQ = 1
)

type evInfo struct {
	idx    int
	label  string
	desc   string
	ev     *mocrelay.Event
	class  evClass
	author int
	t      int64
	// addr is the specification address: "kind:pubkey" for replaceable kinds,
	// "kind:pubkey:d" for addressable kinds, "" otherwise. For an event without d tag this is the
	// address under the reading "missing d = empty d"; the step oracle also evaluates the other
	// reading (an address of its own), see addrUnder in spec.go.
	addr string
	// references of a deletion request
	eRefs []string
	aRefs []string
	// focusOnly events are not part of the main alphabet; they are explored in the second, smaller
	// "focus" exploration (together with the context events named in focusLabels)
	focusOnly bool
}

func (e *evInfo) String() string { return e.label + " (" + e.desc + ")" }

func shaHex(s string) string {
	h := sha256.Sum256([]byte(s))
	return hex.EncodeToString(h[:])
}

var (
	pubkeys = [2]string{shaHex("verif-cache-author:P"), shaHex("verif-cache-author:Q")}
	anames  = [2]string{"P", "Q"}

	sigma   []*evInfo
	byID    = map[string]*evInfo{}
	byLabel = map[string]*evInfo{}
)

func evID(label string) string { return shaHex("verif-cache-event:" + label) }

func classify(kind int64, tags []mocrelay.Tag) evClass {
	switch {
	case kind == 5:
		return clsDeletion
	case kind == 0 || kind == 3 || (10000 <= kind && kind < 20000):
		return clsReplaceable
	case 20000 <= kind && kind < 30000:
		return clsEphemeral
	case 30000 <= kind && kind < 40000:
		for _, t := range tags {
			if len(t) >= 1 && t[0] == "d" {
				if len(t) >= 2 && t[1] != "" {
					return clsAddrD
				}
				return clsAddrEmptyD
			}
		}
		return clsAddrNoD
	}
	return clsRegular
}

func specAddr(kind int64, pubkey string, cls evClass, tags []mocrelay.Tag) string {
	switch {
	case cls == clsReplaceable:
		return fmt.Sprintf("%d:%s", kind, pubkey)
	case cls.addressable():
		d := ""
		for _, t := range tags {
			if len(t) >= 1 && t[0] == "d" {
				if len(t) >= 2 {
					d = t[1]
				}
				break
			}
		}
		return fmt.Sprintf("%d:%s:%s", kind, pubkey, d)
	}
	return ""
}

func addEv(label, desc string, author int, kind, t int64, tags ...mocrelay.Tag) {
	if tags == nil {
		tags = []mocrelay.Tag{}
	}
	ev := &mocrelay.Event{
		ID:        evID(label),
		Pubkey:    pubkeys[author],
		CreatedAt: t,
		Kind:      kind,
		Tags:      tags,
		Content:   label,
		Sig:       strings.Repeat("0", 128),
	}
	cls := classify(kind, tags)
	in := &evInfo{idx: len(sigma), label: label, desc: desc, ev: ev, class: cls, author: author, t: t,
		addr: specAddr(kind, ev.Pubkey, cls, tags), focusOnly: addingFocus}
	if kind == 5 {
		for _, tg := range tags {
			if len(tg) >= 2 && tg[0] == "e" {
				in.eRefs = append(in.eRefs, tg[1])
			}
			if len(tg) >= 2 && tg[0] == "a" {
				in.aRefs = append(in.aRefs, tg[1])
			}
		}
	}
	if _, dup := byID[ev.ID]; dup {
		panic("duplicate id in alphabet")
	}
	if _, dup := byLabel[label]; dup {
		panic("duplicate label in alphabet")
	}
	sigma = append(sigma, in)
	byID[ev.ID] = in
	byLabel[label] = in
}

func init() {
	P, Q := authorP, authorQ
	pkP, pkQ := pubkeys[P], pubkeys[Q]
	tag := func(s ...string) mocrelay.Tag { return mocrelay.Tag(s) }

	// regular (kind 1)
	addEv("r1", "P kind 1 @1", P, 1, 1)
	addEv("r2", "P kind 1 @2", P, 1, 2)
	addEv("r3", "P kind 1 @2", P, 1, 2)
	addEv("q1", "Q kind 1 @2", Q, 1, 2)
	addEv("rt", "P kind 1 @3 tags e:<r1>, t:x", P, 1, 3, tag("e", evID("r1")), tag("t", "x"))
	// replaceable (kind 0, kind 10002)
	addEv("v1", "P kind 0 @1", P, 0, 1)
	addEv("v2", "P kind 0 @2", P, 0, 2)
	addEv("v2b", "P kind 0 @2, other id (tie with v2)", P, 0, 2)
	addEv("w1", "Q kind 0 @1", Q, 0, 1)
	addEv("x1", "P kind 10002 @2", P, 10002, 2)
	// addressable (kind 30000)
	addEv("a1", "P kind 30000 d=x @1", P, 30000, 1, tag("d", "x"))
	addEv("a3", "P kind 30000 d=x @3", P, 30000, 3, tag("d", "x"))
	addEv("b2", "Q kind 30000 d=x @2", Q, 30000, 2, tag("d", "x"))
	addEv("aE", `P kind 30000 d="" @2`, P, 30000, 2, tag("d", ""))
	addEv("nP", "P kind 30000 no d tag @2", P, 30000, 2)
	addEv("nQ", "Q kind 30000 no d tag @3", Q, 30000, 3)
	addEv("nP3", "P kind 30000 no d tag @3 (newer version of nP)", P, 30000, 3)
	// ephemeral (kind 20001)
	addEv("eP", "P kind 20001 @1", P, 20001, 1)
	addEv("eQ", "Q kind 20001 @3", Q, 20001, 3)
	// deletion requests (kind 5) by P
	addEv("dR1", "P kind 5 @2 e:<r1>", P, 5, 2, tag("e", evID("r1")))
	addEv("dQ1", "P kind 5 @2 e:<q1> (other author's event)", P, 5, 2, tag("e", evID("q1")))
	addEv("dA", "P kind 5 @2 a:30000:P:x", P, 5, 2, tag("a", "30000:"+pkP+":x"))
	addEv("dAQ", "P kind 5 @3 a:30000:Q:x (other author's address)", P, 5, 3, tag("a", "30000:"+pkQ+":x"))
	addEv("dAid", "P kind 5 @3 e:<a1> (addressable event by id)", P, 5, 3, tag("e", evID("a1")))
	addEv("dVid", "P kind 5 @3 e:<v2> (replaceable event by id)", P, 5, 3, tag("e", evID("v2")))
	addEv("dD", "P kind 5 @3 e:<dR1> (another deletion request of P)", P, 5, 3, tag("e", evID("dR1")))
	addEv("dR1u", "P kind 5 @1 [e,<r1>,relay-url] (3-element tag)", P, 5, 1, tag("e", evID("r1"), "wss://relay.example"))
	addEv("dV", "P kind 5 @3 a:0:P: (address of a plain replaceable kind)", P, 5, 3, tag("a", "0:"+pkP+":"))
	// deletion request by Q
	addEv("dQr1", "Q kind 5 @2 e:<r1> (other author's event)", Q, 5, 2, tag("e", evID("r1")))
	// deletion requests referencing a deletion request of the OTHER author: the referenced request
	// must stay, stay listed and keep blocking what it references
	addEv("dQK", "Q kind 5 @3 e:<dR1> (other author's deletion request)", Q, 5, 3, tag("e", evID("dR1")))
	addEv("dPK", "P kind 5 @3 e:<dQr1> (other author's deletion request)", P, 5, 3, tag("e", evID("dQr1")))
}

// pTarget is the value of the repeated p tag of event pt.
var pTarget = shaHex("verif-cache-p-target")

var addingFocus bool

// focusLabels is the alphabet of the second exploration: the focus-only events plus the context
// they need (older/newer versions of the same address, fillers of both authors for eviction).
var focusLabels = []string{"r2", "q1", "a1", "a3", "v2", "pt", "dPt", "a2d", "aY", "dQv2", "dQa1", "xt", "x1", "tv", "aC", "dAC", "dR2o"}

func init() {
	P, Q := authorP, authorQ
	tag := func(s ...string) mocrelay.Tag { return mocrelay.Tag(s) }
	addingFocus = true
	defer func() { addingFocus = false }()
	// an event whose tags repeat one (name,value) pair, followed by a tag value nobody else carries:
	// the same index key occurs twice, the index must still forget ALL its keys when it leaves
	addEv("pt", "P kind 1 @2 tags [p,X,hint],[p,X,hint2],[t,z]", P, 1, 2, tag("p", pTarget, "hint"), tag("p", pTarget, "hint2"), tag("t", "z"))
	addEv("dPt", "P kind 5 @3 e:<pt>", P, 5, 3, tag("e", evID("pt")))
	// the same shape on a replaceable kind: it leaves when the newer version x1 arrives
	addEv("xt", "P kind 10002 @1 tags [p,X,h],[p,X,h2],[t,w] (older version of x1)", P, 10002, 1, tag("p", pTarget, "h"), tag("p", pTarget, "h2"), tag("t", "w"))
	// two d tags: the address is given by the FIRST one (d=x); a d=y event is a different address
	addEv("a2d", "P kind 30000 @2 tags [d,x],[d,y] (address d=x)", P, 30000, 2, tag("d", "x"), tag("d", "y"))
	addEv("aY", "P kind 30000 d=y @1", P, 30000, 1, tag("d", "y"))
	// a d value that contains the separator of addresses, and the deletion request naming that address
	addEv("aC", "P kind 30000 d=u:v @2", P, 30000, 2, tag("d", "u:v"))
	addEv("dAC", "P kind 5 @3 a:30000:P:u:v (the d value contains a colon)", P, 5, 3, tag("a", "30000:"+pubkeys[P]+":u:v"))
	// a backdated deletion request: older than its target and than everything else of the alphabet
	// (at a full cache it is the oldest item the moment it arrives, yet removing its target makes room)
	addEv("dR2o", "P kind 5 @0 e:<r2> (older than its target)", P, 5, 0, tag("e", evID("r2")))
	// tags that have a name and no value element
	addEv("tv", "P kind 1 @3 tags [t],[d] (no value elements)", P, 1, 3, tag("t"), tag("d"))
	// deletion requests of Q naming P's replaceable / addressable event by id
	addEv("dQv2", "Q kind 5 @3 e:<v2> (other author's replaceable event by id)", Q, 5, 3, tag("e", evID("v2")))
	addEv("dQa1", "Q kind 5 @3 e:<a1> (other author's addressable event by id)", Q, 5, 3, tag("e", evID("a1")))
}

func mainAlphabet() []int {
	var out []int
	for _, in := range sigma {
		if !in.focusOnly {
			out = append(out, in.idx)
		}
	}
	return out
}

func focusAlphabet() []int {
	var out []int
	for _, l := range focusLabels {
		in, ok := byLabel[l]
		if !ok {
			panic("focus alphabet names an unknown event: " + l)
		}
		out = append(out, in.idx)
	}
	return out
}

func labelsOf(hist []uint8) []string {
	out := make([]string, len(hist))
	for i, h := range hist {
		out[i] = sigma[h].label
	}
	return out
}

func describeHist(hist []uint8) string {
	var ss []string
	for _, h := range hist {
		ss = append(ss, sigma[h].String())
	}
	return "[" + strings.Join(ss, "; ") + "]"
}

func labelsOfIdx(xs []int) string {
	ss := make([]string, len(xs))
	for i, x := range xs {
		ss[i] = sigma[x].label
	}
	return "{" + strings.Join(ss, ",") + "}"
}

func inStr(xs []string, x string) bool {
	for _, y := range xs {
		if y == x {
			return true
		}
	}
	return false
}
