package main

import (
	"fmt"
	"math/bits"
	"sort"
	"strings"
)

// Step oracle for C04 / C05: the specification RELATION over one observed transition
//
//	(B = listing before, e = event offered, flag = Add's return value, A = listing after)
//
// written from the property statements (not from event_cache.go). It is three-valued: what the
// statements leave open (equal created_at, address references to plain replaceable kinds, address
// references to a version newer than the request, the flag of an ephemeral event, eviction
// ordered before or after the removals of a deletion request) is counted as unclaimed and never
// reported.

type reporter func(prop, sig, detail string)

// reading selects how the address of an addressable event WITHOUT a d tag is understood. The
// property text ("by pubkey and d value") does not settle whether such an event shares the address
// of the d="" event of the same kind and author or has an address of its own; a correct store may
// do either. Every transition is therefore judged under both readings and accepted when one of
// them allows it (three-valued: the difference is counted as unclaimed). Under both readings the
// address belongs to its author, and two d-less events of one author and kind are ONE address.
type reading int

const (
	readSameAsEmptyD reading = iota
	readOwnAddress
)

func (e *evInfo) addrUnder(r reading) string {
	if r == readOwnAddress && e.class == clsAddrNoD {
		return e.addr + "\x00no-d-tag"
	}
	return e.addr
}

func bit(i int) uint64 { return 1 << uint(i) }

func maskOf(xs []int) uint64 {
	var m uint64
	for _, x := range xs {
		m |= bit(x)
	}
	return m
}

func idxOfMask(m uint64) []int {
	var out []int
	for m != 0 {
		i := bits.TrailingZeros64(m)
		out = append(out, i)
		m &^= bit(i)
	}
	return out
}

func classPair(a, b evClass) string {
	if b < a {
		a, b = b, a
	}
	return fmt.Sprintf("%s of one author and %s of another author interfere", a, b)
}

func isolationSig(a, b evClass) string {
	return "C05/author isolation: " + classPair(a, b)
}

// checkRetained evaluates the state invariants of C04 on a listing.
func checkRetained(r reading, capacity int, A []int, rep reporter, ctx func() string) {
	if len(A) > capacity {
		rep("C04", "C04/capacity: more events retained than the capacity", ctx())
	}
	var seen uint64
	addrs := map[string]int{}
	for _, x := range A {
		xi := sigma[x]
		if seen&bit(x) != 0 {
			rep("C04", "C04/duplicate: one id listed twice", ctx())
			continue
		}
		seen |= bit(x)
		if xi.class == clsEphemeral {
			rep("C04", "C04/ephemeral event served from storage", ctx())
		}
		if xa := xi.addrUnder(r); xa != "" {
			if y, ok := addrs[xa]; ok {
				yi := sigma[y]
				rep("C04", fmt.Sprintf("C04/address: two versions of one address retained (%s, %s)", minClass(xi.class, yi.class), maxClass(xi.class, yi.class)), ctx())
			} else {
				addrs[xa] = x
			}
		}
	}
}

func minClass(a, b evClass) evClass {
	if a < b {
		return a
	}
	return b
}
func maxClass(a, b evClass) evClass {
	if a < b {
		return b
	}
	return a
}

// reference forms of a deletion request k towards a retained / offered event x
const (
	refNone    = 0
	refMust    = 1 // claimed: by id, or by address of an addressable kind with x not newer than k
	refMay     = 2 // unclaimed zone
	refMustAdr = 3 // claimed, by address (only to word the signature)
)

func reference(r reading, k, x *evInfo) int {
	if k.class != clsDeletion || k.author != x.author || k.idx == x.idx {
		return refNone
	}
	if inStr(k.eRefs, x.ev.ID) {
		return refMust
	}
	if x.class.addressable() && inStr(k.aRefs, x.addrUnder(r)) {
		if x.t <= k.t {
			return refMustAdr
		}
		return refMay // NIP-09: an address reference covers versions up to the request's created_at
	}
	if x.class == clsReplaceable && (inStr(k.aRefs, x.addr) || inStr(k.aRefs, x.addr+":")) {
		return refMay // address reference to a plain replaceable kind: C05 claims nothing positive
	}
	return refNone
}

type stepVerdict struct {
	unclaimed int64
	zones     []string // which unclaimed zones were touched, and what the implementation did there
	outcome   string
}

func (v *stepVerdict) zone(format string, a ...any) {
	v.unclaimed++
	v.zones = append(v.zones, fmt.Sprintf(format, a...))
}

type bufferedViolation struct{ prop, sig, detail string }

// readingsDiffer: the two readings can only disagree when a d-less addressable event and the
// d="" event of the same kind and author both take part in the transition.
func readingsDiffer(B []int, e int, A []int) bool {
	noD, emptyD := map[string]bool{}, map[string]bool{}
	note := func(x int) {
		switch sigma[x].class {
		case clsAddrNoD:
			noD[sigma[x].addr] = true
		case clsAddrEmptyD:
			emptyD[sigma[x].addr] = true
		}
	}
	for _, x := range B {
		note(x)
	}
	for _, x := range A {
		note(x)
	}
	note(e)
	for a := range noD {
		if emptyD[a] {
			return true
		}
	}
	return false
}

// stepOracle judges one transition. hist is the history BEFORE e (used only to word diagnoses).
// The transition is allowed when the relation holds under at least one reading of the d-less
// address; when both readings reject it, the violations common to both are reported (all of the
// first reading's if there is none in common).
func stepOracle(capacity int, hist []uint8, B []int, e int, flag bool, A []int, rep reporter) stepVerdict {
	if !readingsDiffer(B, e, A) {
		return stepOracleUnder(readSameAsEmptyD, capacity, hist, B, e, flag, A, rep)
	}
	var buf [2][]bufferedViolation
	var vs [2]stepVerdict
	for r := readSameAsEmptyD; r <= readOwnAddress; r++ {
		r := r
		vs[r] = stepOracleUnder(r, capacity, hist, B, e, flag, A, func(prop, sig, detail string) {
			buf[r] = append(buf[r], bufferedViolation{prop, sig, detail})
		})
	}
	switch {
	case len(buf[0]) == 0 && len(buf[1]) == 0:
		return vs[0]
	case len(buf[0]) == 0:
		v := vs[0]
		v.zone(`address of a d-less addressable event: transition legal only if it shares the address of d=""`)
		return v
	case len(buf[1]) == 0:
		v := vs[1]
		v.zone(`address of a d-less addressable event: transition legal only if it has an address of its own`)
		return v
	}
	common := false
	for _, a := range buf[0] {
		for _, b := range buf[1] {
			if a.prop == b.prop && a.sig == b.sig {
				common = true
				rep(a.prop, a.sig, a.detail)
				break
			}
		}
	}
	if !common {
		for _, a := range buf[0] {
			rep(a.prop, a.sig, a.detail)
		}
	}
	return vs[0]
}

func stepOracleUnder(r reading, capacity int, hist []uint8, B []int, e int, flag bool, A []int, rep reporter) stepVerdict {
	var v stepVerdict
	ei := sigma[e]
	Bm, Am := maskOf(B), maskOf(A)
	ctx := func() string {
		return fmt.Sprintf("cap=%d history=%v then Add(%s) returned %v; listed before=%s after=%s",
			capacity, labelsOf(hist), ei, flag, labelsOfIdx(B), labelsOfIdx(A))
	}

	checkRetained(r, capacity, A, rep, ctx)

	if g := Am &^ (Bm | bit(e)); g != 0 {
		rep("C04", "C04/gain: an event that was not offered appeared in the store", ctx())
	}

	leftB := Bm &^ Am // members of B that are gone
	nonEph := func(m uint64) uint64 {
		var out uint64
		for _, x := range idxOfMask(m) {
			if sigma[x].class != clsEphemeral {
				out |= bit(x)
			}
		}
		return out
	}

	unjustified := func(x int, why string) {
		xi := sigma[x]
		switch {
		case x == e:
			rep("C04", "C04/leave: accepted event is not retained although it is not an eviction victim", ctx()+" ("+why+")")
		case xi.author != ei.author:
			rep("C05", isolationSig(xi.class, ei.class), ctx()+fmt.Sprintf("; %s of %s left the store because of %s of %s, which is neither a replacement, a deletion by its author nor an eviction (%s)",
				xi.label, anames[xi.author], ei.label, anames[ei.author], why))
		default:
			rep("C04", fmt.Sprintf("C04/leave: %s removed by an event of the same author without replacement, deletion or eviction", xi.class), ctx()+fmt.Sprintf("; %s left because of %s (%s)", xi.label, ei.label, why))
		}
	}

	setChanged := Am != Bm

	if !flag && setChanged {
		rep("C04", "C04/flag: insertion reported as not new but the retained set changed", ctx())
	}

	// ---- ephemeral offer: never stored, nothing else changes; flag unclaimed
	if ei.class == clsEphemeral {
		v.zone("flag of an ephemeral event: %v", flag)
		gone := idxOfMask(nonEph(leftB))
		stored := Am&bit(e) != 0 // already reported by checkRetained
		for _, x := range gone {
			// if the ephemeral event was (wrongly) stored, one eviction of a minimum caused by the
			// overflow is the same defect, not a second one
			if stored && len(gone) == 1 && len(B)+1 > capacity {
				minA := int64(1 << 62)
				for _, y := range A {
					if sigma[y].t < minA {
						minA = sigma[y].t
					}
				}
				if sigma[x].t <= minA {
					continue
				}
			}
			unjustified(x, "an ephemeral event must not change the store")
		}
		v.outcome = fmt.Sprintf("%s flag=%v stored=%v", ei.class, flag, Am&bit(e) != 0)
		return v
	}

	// ---- expected flag
	dup := Bm&bit(e) != 0
	var cur uint64
	older, tie := false, false
	if ea := ei.addrUnder(r); ea != "" {
		for _, x := range B {
			xi := sigma[x]
			if x != e && xi.addrUnder(r) == ea {
				cur |= bit(x)
				if xi.t > ei.t {
					older = true
				} else if xi.t == ei.t {
					tie = true
				}
			}
		}
	}
	supID, supAddr, supMay := false, false, false
	supMayWhy := ""
	for _, k := range B {
		switch reference(r, sigma[k], ei) {
		case refMust:
			supID = true
		case refMustAdr:
			supAddr = true
		case refMay:
			supMay = true
			if ei.class == clsReplaceable {
				supMayWhy = "`a` reference to a plain replaceable kind"
			} else {
				supMayWhy = "`a` reference to a version newer than the request"
			}
		}
	}
	mustRefuse := dup || older || supID || supAddr
	may := !mustRefuse && (tie || supMay)

	switch {
	case mustRefuse && flag:
		switch {
		case dup:
			rep("C04", "C04/flag: duplicate id reported as new", ctx())
		case older:
			rep("C04", fmt.Sprintf("C04/flag: older version than the retained one reported as new (%s)", ei.class), ctx())
		case supID:
			rep("C05", fmt.Sprintf("C05/blocked: %s referenced by id by a retained deletion request of its author was inserted again", ei.class), ctx())
			// C04 states the same clause from the flag's side ("reported as new iff ... nor suppressed by a deletion request")
			rep("C04", fmt.Sprintf("C04/flag: event suppressed by a retained deletion request of its author reported as new (%s)", ei.class), ctx())
		default:
			rep("C05", fmt.Sprintf("C05/blocked: %s referenced by address by a retained deletion request of its author was inserted again", ei.class), ctx())
			rep("C04", fmt.Sprintf("C04/flag: event suppressed by a retained deletion request of its author reported as new (%s)", ei.class), ctx())
		}
		v.outcome = fmt.Sprintf("%s flag=true although it had to be refused", ei.class)
		return v
	case !mustRefuse && !may && !flag:
		// diagnosis from the history: was it referenced by a request of its author that has left?
		stale := false
		for _, h := range hist {
			if rf := reference(r, sigma[h], ei); (rf == refMust || rf == refMustAdr) && Bm&bit(int(h)) == 0 {
				stale = true
			}
		}
		if stale {
			rep("C05", fmt.Sprintf("C05/unblock: %s still refused after the deletion request referencing it left the store", ei.class), ctx())
			rep("C04", fmt.Sprintf("C04/flag: new event reported as not new (%s)", ei.class), ctx())
		} else {
			rep("C04", fmt.Sprintf("C04/flag: new event reported as not new (%s)", ei.class), ctx())
		}
	}
	if may {
		if tie {
			v.zone("equal created_at at one address: offered version accepted=%v", flag)
		} else {
			v.zone("%s, request retained: offered event accepted=%v", supMayWhy, flag)
		}
	}
	if !flag {
		reason := "new?!"
		switch {
		case dup:
			reason = "duplicate"
		case older:
			reason = "older"
		case supID || supAddr:
			reason = "suppressed"
		case tie:
			reason = "tie"
		case supMay:
			reason = "unclaimed reference"
		}
		v.outcome = fmt.Sprintf("%s flag=false (%s)", ei.class, reason)
		return v
	}

	// ---- accepted: who left?
	replaced := cur
	var mustRef, mayRef uint64
	if ei.class == clsDeletion {
		for _, x := range B {
			if x == e {
				continue
			}
			switch reference(r, ei, sigma[x]) {
			case refMust:
				mustRef |= bit(x)
				if Am&bit(x) != 0 {
					rep("C05", fmt.Sprintf("C05/delete: retained %s referenced by id by a deletion request of its author was not removed", sigma[x].class), ctx())
				}
			case refMustAdr:
				mustRef |= bit(x)
				if Am&bit(x) != 0 {
					rep("C05", fmt.Sprintf("C05/delete: retained %s referenced by address by a deletion request of its author was not removed", sigma[x].class), ctx())
				}
			case refMay:
				mayRef |= bit(x)
				if sigma[x].class == clsReplaceable {
					v.zone("`a` reference to a plain replaceable kind, version retained: removed=%v", Am&bit(x) == 0)
				} else {
					v.zone("`a` reference to a version newer than the request, version retained: removed=%v", Am&bit(x) == 0)
				}
			}
		}
	}
	if replaced&Am != 0 {
		rep("C04", fmt.Sprintf("C04/replace: accepted a version of an address but the previously retained version stayed (%s)", ei.class), ctx())
	}

	left := (Bm | bit(e)) &^ Am
	U := nonEph(left &^ replaced &^ mustRef &^ mayRef)
	pre := bits.OnesCount64(Bm&^replaced&^bit(e)) + 1
	overflow := pre > capacity
	minA := int64(1 << 62)
	for _, x := range A {
		if sigma[x].t < minA {
			minA = sigma[x].t
		}
	}
	nU := bits.OnesCount64(U)
	if nU > 0 {
		if !overflow {
			for _, x := range idxOfMask(U) {
				unjustified(x, "capacity was not exceeded")
			}
		} else {
			nMin := 0
			for _, x := range idxOfMask(U) {
				if sigma[x].t <= minA {
					nMin++
				} else {
					unjustified(x, "capacity was exceeded but the event does not have the smallest created_at")
				}
			}
			if nMin > 1 {
				rep("C04", "C04/eviction: more events evicted than the insertion required", ctx())
			}
			if nU == 1 && nMin == 1 && pre-bits.OnesCount64(mustRef&Bm) <= capacity {
				v.zone("eviction although the removals of the deletion request already made room")
			}
		}
	}

	evicted := "none"
	if nU > 0 {
		if U&bit(e) != 0 {
			evicted = "self"
		} else {
			evicted = "other"
		}
	}
	v.outcome = fmt.Sprintf("%s flag=true replaced=%d deleted=%d evicted=%s", ei.class,
		bits.OnesCount64(replaced&left), bits.OnesCount64((mustRef|mayRef)&left), evicted)
	return v
}

func sortedCopy(xs []int) []int {
	ys := append([]int(nil), xs...)
	sort.Ints(ys)
	return ys
}

func joinInts(xs []int) string {
	ss := make([]string, len(xs))
	for i, x := range xs {
		ss[i] = fmt.Sprint(x)
	}
	return strings.Join(ss, ",")
}
