// Command cache is the E2 sub-check of the in-memory EventCache: one breadth-first exploration
// of all insertion histories, three oracles (C03 queries, C04 retention, C05 deletion/isolation)
// plus the dump/restore clause of C16 evaluated in every state.
//
//	cache-bfs    [depth=N] [caps=1,2,3,100] [budget_s=N] [workers=N] [restore=0|1] [alphabet=main|focus|both]
//	cache-replay cap=N hist=label,label,...      (re-runs the oracles along one history, verbose)
package main

import (
	"fmt"
	"os"
	"runtime"
	"runtime/debug"
	"runtime/pprof"
	"sort"
	"strings"
	"time"

	"github.com/high-moctane/mocrelay"
	"verifkit/vk"
)

var parts = map[string]func(*vk.Ctx){
	"cache-bfs":    cacheBFS,
	"cache-replay": cacheReplay,
}

func main() { vk.RunPart(parts) }

const ruleText = "breadth-first search over all insertion histories (31-event main alphabet and a 13-event focus alphabet for repeated tags, two d tags and cross-author references by id; two authors, timestamps {1,2,3}) up to the depth, per capacity, " +
	"each history replayed on a fresh real EventCache, states merged on the white-box dump of the complete internal state (evs, evsCreatedAt, every index bucket, deletion registry); " +
	"on every transition the C04/C05 step relation (B, e, flag, A) written from the property statements; at unbounded capacity additionally author non-interference by projection; " +
	"in every state the query battery against the tie-tolerant limit-newest union over the retained set (refmodel.MatchFilter) and the same battery on the Dump->Restore twin"

func newExplorer(c *vk.Ctx, bt *battery) *explorer {
	return &explorer{alpha: mainAlphabet(), c: c, bt: bt, workers: runtime.NumCPU(), col: &collector{m: map[string]*vioRec{}}, outcomes: map[string]int64{}, zones: map[string]int64{}, doRestore: true}
}

func cacheBFS(c *vk.Ctx) {
	if pf := os.Getenv("VERIF_CACHE_PPROF"); pf != "" {
		f, err := os.Create(pf)
		if err == nil {
			pprof.StartCPUProfile(f)
			defer pprof.StopCPUProfile()
		}
	}
	if os.Getenv("GOGC") == "" {
		// the cache allocates a map sized by its capacity per index condition and query; the live
		// heap is tiny, so the default pacing would collect every few milliseconds
		debug.SetGCPercent(800)
	}
	bt := buildBattery()
	x := newExplorer(c, bt)
	x.maxDepth = c.ArgInt("depth", vk.Pick(c, 3, 5))
	x.workers = c.ArgInt("workers", runtime.NumCPU())
	x.doRestore = c.ArgInt("restore", 1) == 1
	if b := c.ArgInt("budget_s", 0); b > 0 {
		x.deadline = time.Now().Add(time.Duration(b) * time.Second)
	}
	caps, err := parseCaps(c.Arg("caps", vk.Pick(c, "1,2,3,100", "1,2,3,4,100")))
	if err != nil || len(caps) == 0 {
		c.Infra("bad caps argument: %v", err)
	}
	if x.maxDepth < 1 || x.maxDepth > 7 {
		c.Infra("depth must be in 1..7")
	}
	if len(sigma) > 64 {
		c.Infra("alphabet too large for the bit sets")
	}
	c.MaxSamples = 8
	c.P.Rule = ruleText

	perCap := map[string]any{}
	completed := []string{}
	closedCaps := []string{}
	// two explorations with the same oracles: the main alphabet, then the small focus alphabet
	// (events with repeated tags, two d tags, cross-author references by id) with its context
	type pass struct {
		name  string
		alpha []int
	}
	passes := []pass{{"main", mainAlphabet()}, {"focus", focusAlphabet()}}
	if only := c.Arg("alphabet", "both"); only != "both" {
		var keep []pass
		for _, p := range passes {
			if p.name == only {
				keep = append(keep, p)
			}
		}
		if len(keep) == 0 {
			c.Infra("alphabet must be main, focus or both")
		}
		passes = keep
	}
passLoop:
	for _, p := range passes {
		x.alpha = p.alpha
		for _, capacity := range caps {
			t0 := time.Now()
			pd, closed := x.runCap(capacity)
			name := fmt.Sprintf("%s/%d", p.name, capacity)
			perCap[name] = map[string]any{"states_per_depth": pd, "wall_s": time.Since(t0).Seconds(), "fixpoint": closed, "alphabet_size": len(p.alpha)}
			if closed {
				closedCaps = append(closedCaps, name)
			}
			if x.aborted.Load() {
				c.Cap(fmt.Sprintf("wall-clock budget reached while exploring %s at depth %d; completed: %s", name, len(pd)-1, strings.Join(completed, ",")))
				break passLoop
			}
			completed = append(completed, name)
		}
	}

	c.P.States = x.states.Load()
	c.P.Transitions = x.transitions.Load()
	c.P.TracesValidated = x.traces.Load()
	c.Eval(x.queries.Load() + x.transitions.Load())
	c.DistinctN(x.states.Load())
	c.Unclaimed(x.unclaimed.Load())
	for o := range x.outcomes {
		c.Outcome(o)
	}
	c.P.Bound = fmt.Sprintf("all histories of length <= %d over the main alphabet (%d events) and over the focus alphabet (%d events); completed alphabet/capacity: %s",
		x.maxDepth, len(mainAlphabet()), len(focusAlphabet()), strings.Join(completed, ","))
	if len(closedCaps) > 0 {
		c.P.Bound += "; fixpoint (no new state, every transition of every reachable state executed: histories of ANY length over the alphabet) for alphabet/capacity " + strings.Join(closedCaps, ",")
	}
	c.SetExtra("fixpoint_capacities", closedCaps)
	c.SetExtra("max_depth", x.maxDepth)
	c.SetExtra("alphabet_size", len(mainAlphabet()))
	c.SetExtra("focus_alphabet", focusLabels)
	c.SetExtra("pairs_in_the_valueless_tag_zone_decided_by_the_repository_matcher", valuelessZone.Load())
	c.Unclaimed(valuelessZone.Load())
	c.SetExtra("alphabet", alphabetDoc())
	c.SetExtra("capacities", caps)
	c.SetExtra("per_capacity", perCap)
	c.SetExtra("battery_queries", len(bt.queries))
	c.SetExtra("battery_single_filter_queries", bt.nSingle)
	c.SetExtra("battery_multi_filter_queries", bt.nPair)
	c.SetExtra("battery_distinct_filters", len(bt.filters))
	c.SetExtra("queries_evaluated", x.queries.Load())
	c.SetExtra("projection_checks", x.projections.Load())
	c.SetExtra("outcome_histogram", x.outcomes)
	x.zones["query answers whose legality rests on a choice among tied events (limit cut), incl. original-vs-restored differences"] = x.qTies.Load()
	c.SetExtra("unclaimed_zones", x.zones)
	c.SetExtra("workers", x.workers)
	c.SetExtra("dump_restore_in_every_state", x.doRestore)

	c.Assume("histories are bounded by the depth; events come from the two fixed alphabets (31 and 13 events) (ids, signatures are not verified by the cache)")
	c.Assume("states are merged on SHA-256 of the complete internal dump; merging is sound because EventCache is deterministic (asserted: every new state is replayed a second time and must reproduce flags and dump)")
	c.Assume("the address of an addressable event without d tag is three-valued: it may share the address of the d=\"\" event of the same kind and author or be an address of its own (each transition is accepted if one reading allows it); under both readings it belongs to its author and two d-less events of one author and kind are one address")
	c.Assume("unclaimed, never reported: survivor of equal created_at versions, whether a d-less addressable event and the d=\"\" event of the same kind and author are one address or two, choice among tied events at a limit cut or as eviction victim, flag of an ephemeral event, `a` references to plain replaceable kinds, `a` references to a version newer than the request (NIP-09), eviction ordered before the removals of a deletion request")

	// every violation is re-run from its recorded history before it is reported (DESIGN §3 rule 6)
	for _, r := range x.col.sorted() {
		if !confirm(c, bt, r) {
			c.Infra("violation %q (cap=%d history=%v) did not reproduce on replay", r.sig, r.capacity, labelsOf(r.hist))
		}
		c.ViolateProp(r.prop, r.sig, r.detail, replayPayload(r))
	}
}

func alphabetDoc() []string {
	out := make([]string, len(sigma))
	for i, in := range sigma {
		out[i] = in.label + ": " + in.desc
	}
	return out
}

func replayPayload(r *vioRec) map[string]any {
	c := mocrelay.NewEventCache(r.capacity)
	var steps []map[string]any
	for _, h := range r.hist {
		f, pan := safeAdd(c, sigma[h].ev)
		st := map[string]any{"add": sigma[h].label, "event": sigma[h].desc, "returned": f}
		if pan != nil {
			st["panic"] = fmt.Sprint(pan)
			steps = append(steps, st)
			break
		}
		if l, _, err := listing(c); err == nil {
			st["listed_after"] = labelsOfIdx(l)
		}
		steps = append(steps, st)
	}
	return map[string]any{
		"part":           "cache-replay",
		"args":           []string{fmt.Sprintf("cap=%d", r.capacity), "hist=" + strings.Join(labelsOf(r.hist), ",")},
		"cap":            r.capacity,
		"history":        labelsOf(r.hist),
		"steps":          steps,
		"internal_state": shortDump(c.VerifDump()),
		"occurrences":    r.count,
	}
}

// pathCheck re-runs every oracle along one history and returns the signatures seen.
func pathCheck(c *vk.Ctx, bt *battery, capacity int, hist []uint8, verbose bool) map[string]string {
	x := newExplorer(c, bt)
	x.workers = 1
	seen := map[string]string{}
	rep := func(prop, sig, detail string) {
		if _, ok := seen[prop+"\x00"+sig]; !ok {
			seen[prop+"\x00"+sig] = detail
		}
	}
	nd := node{}
	x.evalState(capacity, nd, nil, rep)
	for i, e := range hist {
		s, ok := x.transition(capacity, nd, int(e), rep)
		if !ok {
			break
		}
		fl := nd.flags
		if s.flag {
			fl |= 1 << uint(i)
		}
		nd = node{hist: append([]uint8(nil), hist[:i+1]...), flags: fl}
		dump := x.evalState(capacity, nd, &s.key, rep)
		if verbose {
			fmt.Fprintf(os.Stderr, "step %d: Add(%s) -> %v\n%s\n", i+1, sigma[e], s.flag, shortDump(dump))
		}
	}
	return seen
}

func confirm(c *vk.Ctx, bt *battery, r *vioRec) bool {
	for try := 0; try < 2; try++ {
		seen := pathCheck(c, bt, r.capacity, r.hist, false)
		if _, ok := seen[r.prop+"\x00"+r.sig]; !ok {
			return false
		}
	}
	return true
}

func cacheReplay(c *vk.Ctx) {
	bt := buildBattery()
	capacity := c.ArgInt("cap", 100)
	var hist []uint8
	for _, l := range strings.Split(c.Arg("hist", ""), ",") {
		l = strings.TrimSpace(l)
		if l == "" {
			continue
		}
		in, ok := byLabel[l]
		if !ok {
			c.Infra("unknown event label %q", l)
		}
		hist = append(hist, uint8(in.idx))
	}
	c.P.Rule = "replay of one recorded history through all oracles of cache-bfs"
	seen := pathCheck(c, bt, capacity, hist, true)
	keys := make([]string, 0, len(seen))
	for k := range seen {
		keys = append(keys, k)
	}
	sort.Strings(keys)
	for _, k := range keys {
		i := strings.IndexByte(k, 0)
		c.ViolateProp(k[:i], k[i+1:], seen[k], map[string]any{"cap": capacity, "history": labelsOf(hist)})
	}
	c.P.TracesValidated = 1
	c.Eval(int64(len(hist)))
}
