package main

import (
	"fmt"
	"strings"

	"github.com/high-moctane/mocrelay"
	"verifkit/vk"
)

func init() { parts["cache-big"] = cacheBig }

// cacheBig: dump/restore and the C03 oracle on caches of a size the small alphabets never reach
// (hundreds of retained events, several per timestamp): whatever walks the store in pieces - pages,
// chunks, batches - has its boundaries somewhere in there. Deterministic, one run per shape.
func cacheBig(c *vk.Ctx) {
	shapes := []struct{ n, perTS, capacity int }{{70, 3, 300}, {200, 3, 300}, {257, 2, 300}, {130, 1, 300}, {300, 4, 256}, {129, 5, 128}}
	if c.Thorough() {
		shapes = append(shapes, []struct{ n, perTS, capacity int }{{1000, 3, 2000}, {1025, 7, 1024}, {64, 64, 100}, {65, 65, 100}, {513, 2, 600}}...)
	}
	hexOf := func(i int) string { return fmt.Sprintf("%064x", 0xb16000000+i) }
	pk := []string{strings.Repeat("1", 64), strings.Repeat("2", 64)}
	c.P.Rule = "E2: caches filled with n regular events (k per created_at, two authors, three tag values) through the real EventCache; a battery of queries ({}, ids of the first / middle / last events, authors, tags, since/until at and around the timestamps where n is a multiple of 32/64/128/256, with and without limit) is answered by the cache, by the specification over its own match-everything listing, and by its Dump->Restore twin: all three must agree"
	var evals int64
	for _, sh := range shapes {
		h := mocrelay.NewCacheHandler(sh.capacity)
		cache := h.VerifCache()
		var evs []*mocrelay.Event
		for i := 0; i < sh.n; i++ {
			e := &mocrelay.Event{ID: hexOf(i), Pubkey: pk[i%2], CreatedAt: int64(1000 + i/sh.perTS), Kind: 1,
				Tags: []mocrelay.Tag{{"t", fmt.Sprintf("v%d", i%3)}}, Content: "", Sig: strings.Repeat("0", 128)}
			evs = append(evs, e)
			cache.Add(e)
		}
		all := cache.Find([]*mocrelay.ReqFilter{{}})
		want := min(sh.n, sh.capacity)
		where := fmt.Sprintf("n=%d, %d per timestamp, capacity %d", sh.n, sh.perTS, sh.capacity)
		if len(all) != want {
			c.ViolateProp("C03", "C03/big cache: the match-everything query lists a different number of events than were retained", fmt.Sprintf("%s: %d listed, %d expected", where, len(all), want), nil)
			continue
		}
		h2, _, err := dumpRestore(h, sh.capacity)
		if err != nil {
			c.ViolateProp("C16", "C16/dump-restore: Dump or Restore failed on a big cache", fmt.Sprintf("%s: %v", where, err), nil)
			continue
		}
		twin := h2.VerifCache()
		i64p := func(v int64) *int64 { return &v }
		var qs [][]*mocrelay.ReqFilter
		qs = append(qs, []*mocrelay.ReqFilter{{}})
		for _, at := range []int{0, 1, 31, 32, 33, 63, 64, 65, 127, 128, 129, 255, 256, 257, sh.n / 2, sh.n - 2, sh.n - 1} {
			if at < 0 || at >= sh.n {
				continue
			}
			ts := evs[at].CreatedAt
			qs = append(qs,
				[]*mocrelay.ReqFilter{{IDs: []string{evs[at].ID}}},
				[]*mocrelay.ReqFilter{{Since: i64p(ts), Until: i64p(ts)}},
				[]*mocrelay.ReqFilter{{Until: i64p(ts)}},
				[]*mocrelay.ReqFilter{{Until: i64p(ts - 1)}},
				[]*mocrelay.ReqFilter{{Since: i64p(ts)}},
				[]*mocrelay.ReqFilter{{Until: i64p(ts), Limit: i64p(64)}},
				[]*mocrelay.ReqFilter{{Authors: []string{pk[0]}, Until: i64p(ts), Limit: i64p(3)}},
			)
		}
		for _, lim := range []int64{1, 63, 64, 65, 128, 1000} {
			qs = append(qs, []*mocrelay.ReqFilter{{Limit: i64p(lim)}}, []*mocrelay.ReqFilter{{Tags: map[string][]string{"t": {"v1"}}, Limit: i64p(lim)}})
		}
		qs = append(qs, []*mocrelay.ReqFilter{{Authors: []string{pk[1]}}}, []*mocrelay.ReqFilter{{Tags: map[string][]string{"t": {"v0", "v2"}}}})
		ids := func(es []*mocrelay.Event) string {
			var sb strings.Builder
			for _, e := range es {
				sb.WriteString(e.ID[56:])
				sb.WriteByte(' ')
			}
			return sb.String()
		}
		for _, q := range qs {
			evals++
			a, b := cache.Find(q), twin.Find(q)
			f := q[0]
			// specification over the listing: matching events, newest first; at a limit cut the
			// answer must be a prefix up to ties: compare as sets of (count, created_at multiset)
			var spec []*mocrelay.Event
			for _, e := range all {
				if matchOne(f, e) {
					spec = append(spec, e)
				}
			}
			if f.Limit != nil && int64(len(spec)) > *f.Limit {
				spec = spec[:*f.Limit]
			}
			if !sameUpToTies(a, spec) {
				c.ViolateProp("C03", "C03/big cache: a query is not answered by the limit newest matching retained events", fmt.Sprintf("%s; filter %s: got %d events [%s…], the listing gives %d [%s…]", where, filterString(f), len(a), clipStr(ids(a), 120), len(spec), clipStr(ids(spec), 120)), nil)
			}
			if ids(a) != ids(b) {
				c.ViolateProp("C16", "C16/dump-restore: a restored big cache answers differently", fmt.Sprintf("%s; filter %s: original %d events, restored %d events; original [%s…] restored [%s…]", where, filterString(f), len(a), len(b), clipStr(ids(a), 120), clipStr(ids(b), 120)), nil)
			}
		}
		c.DistinctN(1)
	}
	c.Eval(evals)
	c.Outcome("big caches: queries, specification and restored twin agree")
}

func clipStr(s string, n int) string {
	if len(s) <= n {
		return s
	}
	return s[:n]
}

func matchOne(f *mocrelay.ReqFilter, e *mocrelay.Event) bool {
	in := func(xs []string, x string) bool {
		for _, y := range xs {
			if y == x {
				return true
			}
		}
		return false
	}
	if f.IDs != nil && !in(f.IDs, e.ID) {
		return false
	}
	if f.Authors != nil && !in(f.Authors, e.Pubkey) {
		return false
	}
	for name, vals := range f.Tags {
		ok := false
		for _, t := range e.Tags {
			if len(t) >= 2 && t[0] == name && in(vals, t[1]) {
				ok = true
			}
		}
		if !ok {
			return false
		}
	}
	if f.Since != nil && e.CreatedAt < *f.Since {
		return false
	}
	if f.Until != nil && e.CreatedAt > *f.Until {
		return false
	}
	return true
}

// sameUpToTies: same length, same created_at sequence, and the same ids except among events
// sharing the created_at at which a limit may have cut.
func sameUpToTies(a, b []*mocrelay.Event) bool {
	if len(a) != len(b) {
		return false
	}
	if len(a) == 0 {
		return true
	}
	last := b[len(b)-1].CreatedAt
	as, bs := map[string]bool{}, map[string]bool{}
	for i := range a {
		if a[i].CreatedAt != b[i].CreatedAt {
			return false
		}
		if a[i].CreatedAt != last {
			as[a[i].ID], bs[b[i].ID] = true, true
		}
	}
	for id := range as {
		if !bs[id] {
			return false
		}
	}
	return len(as) == len(bs)
}
