package main

import (
	"bytes"
	"fmt"
	"math/bits"
	"sort"
	"strings"
	"sync/atomic"

	"github.com/high-moctane/mocrelay"
	"verifkit/refmodel"
)

// State oracle for C03 (and the dump/restore clause of C16): every answer of Find must be a
// duplicate-free, non-increasing-created_at list that is a LEGAL union of per-filter
// "limit newest matches of the retained set" (DESIGN Appendix A.5). The retained set is what
// Find([{}]) lists in that state; matching is refmodel.MatchFilter. Ties at a limit cut are never
// resolved by the oracle: any choice among the events with the boundary timestamp is legal.

type qstate struct {
	bt      *battery
	rs      []*mocrelay.Event // retained set, sorted by created_at descending
	posByID map[string]int
	fa, fb  []uint32 // mandatory / optional part per filter (bit i = rs[i])
	fk      []int    // number of optional events that must be chosen
}

// valuelessZone counts (filter, event) pairs decided by the repository's own matcher (see newQState).
var valuelessZone atomic.Int64

func newQState(bt *battery, retained []*mocrelay.Event) *qstate {
	qs := &qstate{bt: bt, posByID: map[string]int{}}
	qs.rs = append(qs.rs, retained...)
	sort.SliceStable(qs.rs, func(i, j int) bool { return qs.rs[i].CreatedAt > qs.rs[j].CreatedAt })
	for i, ev := range qs.rs {
		qs.posByID[ev.ID] = i
	}
	n := len(bt.filters)
	qs.fa, qs.fb, qs.fk = make([]uint32, n), make([]uint32, n), make([]int, n)
	for fi, f := range bt.filters {
		var m []int
		for i, ev := range qs.rs {
			match := refmodel.MatchFilter(f, ev)
			if refmodel.MatchFilterValueless(f, ev) != match {
				// unclaimed zone (a tag without a value element against a listed empty string): the
				// query must agree with what the repository's own matcher - the decision procedure of
				// the scan path and of live subscriptions - says about this pair
				match = mocrelay.NewReqFilterMatcher(f).Match(ev)
				valuelessZone.Add(1)
			}
			if match {
				m = append(m, i)
			}
		}
		var a, b uint32
		k := 0
		switch {
		case f.Limit == nil || int64(len(m)) <= *f.Limit:
			for _, i := range m {
				a |= 1 << uint(i)
			}
		case *f.Limit <= 0:
			// nothing
		default:
			lim := int(*f.Limit)
			t := qs.rs[m[lim-1]].CreatedAt
			na := 0
			for _, i := range m {
				switch {
				case qs.rs[i].CreatedAt > t:
					a |= 1 << uint(i)
					na++
				case qs.rs[i].CreatedAt == t:
					b |= 1 << uint(i)
				}
			}
			k = lim - na
			if k == bits.OnesCount32(b) {
				a |= b
				b, k = 0, 0
			}
		}
		qs.fa[fi], qs.fb[fi], qs.fk[fi] = a, b, k
	}
	return qs
}

// judge returns "" when got is a legal answer to query q, else the kind of failure.
// tie reports that the legality depended on a choice among tied events.
func (qs *qstate) judge(q int, got []*mocrelay.Event) (fail string, tie bool) {
	var gm uint32
	last := int64(1<<62 - 1)
	for _, ev := range got {
		if ev == nil {
			return "nil", false
		}
		i, ok := qs.posByID[ev.ID]
		if !ok {
			return "foreign", false
		}
		if gm&(1<<uint(i)) != 0 {
			return "dup", false
		}
		gm |= 1 << uint(i)
		if ev.CreatedAt > last {
			return "order", false
		}
		last = ev.CreatedAt
	}
	fs := qs.bt.queries[q]
	var must, mayAll uint32
	var opt []int
	for _, f := range fs {
		must |= qs.fa[f]
		mayAll |= qs.fa[f] | qs.fb[f]
		if qs.fb[f] != 0 {
			opt = append(opt, f)
		}
	}
	if must&^gm != 0 {
		return "missing", false
	}
	if gm&^mayAll != 0 {
		return "extra", false
	}
	if len(opt) == 0 {
		return "", false
	}
	var rec func(i int, acc uint32) bool
	rec = func(i int, acc uint32) bool {
		if i == len(opt) {
			return acc == gm
		}
		f := opt[i]
		b, k := qs.fb[f], qs.fk[f]
		for sub := b; ; sub = (sub - 1) & b {
			if bits.OnesCount32(sub) == k && (acc|sub)&^gm == 0 {
				if rec(i+1, acc|sub) {
					return true
				}
			}
			if sub == 0 {
				break
			}
		}
		return false
	}
	if rec(0, must) {
		return "", true
	}
	return "union", true
}

func safeFind(c *mocrelay.EventCache, fs []*mocrelay.ReqFilter) (got []*mocrelay.Event, pan any) {
	defer func() {
		if r := recover(); r != nil {
			got, pan = nil, r
		}
	}()
	return c.Find(fs), nil
}

func idsOf(evs []*mocrelay.Event) string {
	ss := make([]string, len(evs))
	for i, ev := range evs {
		switch {
		case ev == nil:
			ss[i] = "<nil>"
		default:
			if in, ok := byID[ev.ID]; ok {
				ss[i] = fmt.Sprintf("%s@%d", in.label, ev.CreatedAt)
			} else {
				ss[i] = ev.ID
			}
		}
	}
	return "[" + strings.Join(ss, " ") + "]"
}

func sameIDs(a, b []*mocrelay.Event) bool {
	if len(a) != len(b) {
		return false
	}
	for i := range a {
		if a[i] == nil || b[i] == nil || a[i].ID != b[i].ID {
			return false
		}
	}
	return true
}

func c03Sig(fail, qclass string, emptyTM bool) string {
	switch fail {
	case "panic":
		if emptyTM {
			return "C03/panic: Find with an empty-but-present tag map"
		}
		return "C03/panic: Find panicked (" + qclass + ")"
	case "nil":
		return "C03/nil: answer contains a nil event (" + qclass + ")"
	case "foreign":
		return "C03/stale: answer contains an event that is not in the retained set (" + qclass + ")"
	case "dup":
		return "C03/dup: answer lists an event twice (" + qclass + ")"
	case "order":
		return "C03/order: answer not in non-increasing created_at order (" + qclass + ")"
	case "missing":
		return "C03/missing: a match that must be returned is absent (" + qclass + ")"
	case "extra":
		return "C03/extra: answer contains an event that no filter admits (" + qclass + ")"
	case "union":
		return "C03/union: no legal choice among tied events explains the answer (" + qclass + ")"
	}
	return "C03/" + fail + " (" + qclass + ")"
}

type stateStats struct {
	queries   int64
	unclaimed int64
}

// stateOracle evaluates the whole battery on cache c (C03) and, when restored != nil, on the
// cache obtained by Dump -> Restore as well (C16).
func stateOracle(bt *battery, capacity int, hist []uint8, c, restored *mocrelay.EventCache, rep reporter) stateStats {
	var st stateStats
	ctx := func() string { return fmt.Sprintf("cap=%d history=%v", capacity, labelsOf(hist)) }

	retained, pan := safeFind(c, []*mocrelay.ReqFilter{{}})
	st.queries++
	if pan != nil {
		rep("C03", "C03/panic: Find panicked (match-everything listing)", fmt.Sprintf("%s: panic %v", ctx(), pan))
		return st
	}
	seen := map[string]bool{}
	for _, ev := range retained {
		if ev == nil {
			rep("C03", "C03/nil: answer contains a nil event (match-everything listing)", ctx())
			return st
		}
		if seen[ev.ID] {
			rep("C03", "C03/dup: answer lists an event twice (match-everything listing)", ctx()+" listing="+idsOf(retained))
			return st
		}
		seen[ev.ID] = true
	}
	if n := c.Len(); n != len(retained) {
		rep("C04", "C04/len: Len() differs from the number of listed events", fmt.Sprintf("%s Len()=%d listing=%s", ctx(), n, idsOf(retained)))
	}
	qs := newQState(bt, retained)

	if restored != nil {
		r2, pan2 := safeFind(restored, []*mocrelay.ReqFilter{{}})
		st.queries++
		if pan2 != nil || !sameIDSet(retained, r2) {
			rep("C16", "C16/dump-restore: restored cache answers differently (match-everything listing)",
				fmt.Sprintf("%s original=%s restored=%s panic=%v", ctx(), idsOf(retained), idsOf(r2), pan2))
		}
	}

	for q := range bt.queries {
		fs := bt.queryFilters(q)
		got, pan := safeFind(c, fs)
		st.queries++
		fail1 := ""
		if pan != nil {
			fail1 = "panic"
			rep("C03", c03Sig("panic", bt.qclass[q], bt.emptyTM[q]),
				fmt.Sprintf("%s query=%s retained=%s panic: %v", ctx(), bt.queryString(q), idsOf(qs.rs), pan))
		} else {
			var tie bool
			fail1, tie = qs.judge(q, got)
			if fail1 != "" {
				rep("C03", c03Sig(fail1, bt.qclass[q], bt.emptyTM[q]),
					fmt.Sprintf("%s query=%s retained=%s answer=%s", ctx(), bt.queryString(q), idsOf(qs.rs), idsOf(got)))
			} else if tie {
				st.unclaimed++
			}
		}
		if restored == nil {
			continue
		}
		got2, pan2 := safeFind(restored, fs)
		st.queries++
		switch {
		case pan != nil && pan2 != nil:
			// same behaviour (reported under C03)
		case pan != nil || pan2 != nil:
			rep("C16", "C16/dump-restore: restored cache answers differently ("+bt.qclass[q]+")",
				fmt.Sprintf("%s query=%s original panic=%v restored panic=%v", ctx(), bt.queryString(q), pan, pan2))
		case sameIDs(got, got2):
		default:
			fail2, _ := qs.judge(q, got2)
			if fail1 == "" && fail2 == "" {
				st.unclaimed++ // both legal: they differ only in a choice among tied events
			} else {
				rep("C16", "C16/dump-restore: restored cache answers differently ("+bt.qclass[q]+")",
					fmt.Sprintf("%s query=%s original=%s restored=%s", ctx(), bt.queryString(q), idsOf(got), idsOf(got2)))
			}
		}
	}
	return st
}

func sameIDSet(a, b []*mocrelay.Event) bool {
	if len(a) != len(b) {
		return false
	}
	m := map[string]bool{}
	for _, ev := range a {
		if ev == nil {
			return false
		}
		m[ev.ID] = true
	}
	for _, ev := range b {
		if ev == nil || !m[ev.ID] {
			return false
		}
	}
	return true
}

// dumpRestore builds the restored twin of a cache handler.
func dumpRestore(h mocrelay.CacheHandler, capacity int) (restored mocrelay.CacheHandler, dumped string, err error) {
	defer func() {
		if r := recover(); r != nil {
			err = fmt.Errorf("panic: %v", r)
		}
	}()
	var buf bytes.Buffer
	if err = h.Dump(&buf); err != nil {
		return restored, "", fmt.Errorf("Dump: %w", err)
	}
	dumped = buf.String()
	restored = mocrelay.NewCacheHandler(capacity)
	if err = restored.Restore(&buf); err != nil {
		return restored, dumped, fmt.Errorf("Restore: %w", err)
	}
	return restored, dumped, nil
}
