package main

import (
	"crypto/sha256"
	"fmt"
	"runtime"
	"sort"
	"strconv"
	"strings"
	"sync"
	"sync/atomic"
	"time"

	"github.com/high-moctane/mocrelay"
	"verifkit/vk"
)

// E2 exploration of EventCache: breadth-first search over ALL insertion histories up to a depth,
// per capacity. A state is the (shortest, lexicographically first) history reaching it; successors
// are computed by replaying that history on a FRESH real EventCache plus one Add; states are merged
// on the white-box dump of the complete internal state (SHA-256 of VerifDump()).

type stateKey [sha256.Size]byte

type node struct {
	hist  []uint8
	flags uint8 // bit i = return value of the i-th Add
}

type succ struct {
	key  stateKey
	flag bool
}

type vioRec struct {
	prop, sig, detail string
	capacity          int
	hist              []uint8
	count             int64
}

type collector struct {
	mu sync.Mutex
	m  map[string]*vioRec
}

func histLess(capA int, a []uint8, capB int, b []uint8) bool {
	if len(a) != len(b) {
		return len(a) < len(b)
	}
	if capA != capB {
		return capA < capB
	}
	for i := range a {
		if a[i] != b[i] {
			return a[i] < b[i]
		}
	}
	return false
}

func (col *collector) report(prop, sig, detail string, capacity int, hist []uint8) {
	col.mu.Lock()
	defer col.mu.Unlock()
	k := prop + "\x00" + sig
	r, ok := col.m[k]
	if !ok {
		col.m[k] = &vioRec{prop: prop, sig: sig, detail: detail, capacity: capacity, hist: append([]uint8(nil), hist...), count: 1}
		return
	}
	r.count++
	if histLess(capacity, hist, r.capacity, r.hist) {
		r.detail, r.capacity, r.hist = detail, capacity, append([]uint8(nil), hist...)
	}
}

func (col *collector) sorted() []*vioRec {
	col.mu.Lock()
	defer col.mu.Unlock()
	var out []*vioRec
	for _, r := range col.m {
		out = append(out, r)
	}
	sort.Slice(out, func(i, j int) bool {
		if out[i].prop != out[j].prop {
			return out[i].prop < out[j].prop
		}
		return out[i].sig < out[j].sig
	})
	return out
}

type explorer struct {
	alpha     []int // the events offered as successors (indices into sigma)
	c         *vk.Ctx
	bt        *battery
	workers   int
	maxDepth  int
	deadline  time.Time
	doRestore bool
	col       *collector

	aborted     atomic.Bool
	states      atomic.Int64
	transitions atomic.Int64
	traces      atomic.Int64
	queries     atomic.Int64
	unclaimed   atomic.Int64
	projections atomic.Int64

	omu      sync.Mutex
	outcomes map[string]int64
	zones    map[string]int64
	qTies    atomic.Int64
}

func (x *explorer) timeUp() bool {
	if x.aborted.Load() {
		return true
	}
	if !x.deadline.IsZero() && time.Now().After(x.deadline) {
		x.aborted.Store(true)
		return true
	}
	return false
}

func (x *explorer) parallelFor(n int, fn func(i int)) {
	var next atomic.Int64
	var wg sync.WaitGroup
	w := x.workers
	if w > n {
		w = n
	}
	for g := 0; g < w; g++ {
		wg.Add(1)
		go func() {
			defer wg.Done()
			for {
				i := int(next.Add(1) - 1)
				if i >= n || x.timeUp() {
					return
				}
				fn(i)
			}
		}()
	}
	wg.Wait()
}

// ---- driving the real object

func safeAdd(c *mocrelay.EventCache, ev *mocrelay.Event) (flag bool, pan any) {
	defer func() {
		if r := recover(); r != nil {
			pan = r
		}
	}()
	return c.Add(ev), nil
}

// replayOn feeds hist to c and returns the flags; pan != nil if an Add panicked.
func replayOn(c *mocrelay.EventCache, hist []uint8) (flags uint8, pan any) {
	for i, h := range hist {
		f, p := safeAdd(c, sigma[h].ev)
		if p != nil {
			return flags, p
		}
		if f {
			flags |= 1 << uint(i)
		}
	}
	return flags, nil
}

// listing is Find([{}]) translated to alphabet indices.
func listing(c *mocrelay.EventCache) ([]int, []*mocrelay.Event, error) {
	evs, pan := safeFind(c, []*mocrelay.ReqFilter{{}})
	if pan != nil {
		return nil, nil, fmt.Errorf("Find([{}]) panicked: %v", pan)
	}
	out := make([]int, 0, len(evs))
	for _, ev := range evs {
		if ev == nil {
			return nil, evs, fmt.Errorf("Find([{}]) returned a nil event")
		}
		in, ok := byID[ev.ID]
		if !ok {
			return nil, evs, fmt.Errorf("Find([{}]) returned an event outside the alphabet: %s", ev.ID)
		}
		out = append(out, in.idx)
	}
	return out, evs, nil
}

func keyOf(c *mocrelay.EventCache) stateKey { return sha256.Sum256([]byte(c.VerifDump())) }

func appendHist(h []uint8, e int) []uint8 {
	out := make([]uint8, len(h)+1)
	copy(out, h)
	out[len(h)] = uint8(e)
	return out
}

// transition replays nd.hist on a fresh cache, offers e and evaluates the step oracle (and, for the
// unbounded capacity, the author-projection check). rep receives violations.
func (x *explorer) transition(capacity int, nd node, e int, rep reporter) (s succ, ok bool) {
	c := mocrelay.NewEventCache(capacity)
	flags, pan := replayOn(c, nd.hist)
	x.traces.Add(1)
	if pan != nil {
		x.c.Infra("replay of an already explored history panicked: cap=%d history=%v: %v", capacity, labelsOf(nd.hist), pan)
	}
	if flags != nd.flags {
		x.c.Infra("non-deterministic Add results: cap=%d history=%v gave flags %b, earlier %b", capacity, labelsOf(nd.hist), flags, nd.flags)
	}
	B, _, err := listing(c)
	if err != nil {
		rep("C03", "C03/listing: match-everything query failed", fmt.Sprintf("cap=%d history=%v: %v", capacity, labelsOf(nd.hist), err))
		return s, false
	}
	flag, pan := safeAdd(c, sigma[e].ev)
	x.transitions.Add(1)
	full := appendHist(nd.hist, e)
	if pan != nil {
		rep("C04", fmt.Sprintf("C04/panic: Add panicked (%s)", sigma[e].class), fmt.Sprintf("cap=%d history=%v: panic %v", capacity, labelsOf(full), pan))
		return s, false
	}
	A, _, err := listing(c)
	if err != nil {
		rep("C03", "C03/listing: match-everything query failed", fmt.Sprintf("cap=%d history=%v: %v", capacity, labelsOf(full), err))
		return s, false
	}
	v := stepOracle(capacity, nd.hist, B, e, flag, A, rep)
	x.unclaimed.Add(v.unclaimed)
	if v.outcome != "" || len(v.zones) > 0 {
		x.omu.Lock()
		if v.outcome != "" {
			x.outcomes[v.outcome]++
		}
		for _, z := range v.zones {
			x.zones[z]++
		}
		x.omu.Unlock()
	}
	if capacity >= len(full) { // no eviction possible anywhere in this history
		x.projection(capacity, full, flag, A, rep)
	}
	return succ{key: keyOf(c), flag: flag}, true
}

func subHist(full []uint8, keep func(i int) bool) []uint8 {
	var out []uint8
	for i, h := range full {
		if keep(i) {
			out = append(out, h)
		}
	}
	return out
}

func viewOf(A []int, author int) uint64 {
	var m uint64
	for _, a := range A {
		if sigma[a].author == author {
			m |= bit(a)
		}
	}
	return m
}

// hasTie uses the reading under which more events share an address (d-less = d=""), i.e. the one
// that declares more histories unclaimed.
func hasTie(h []uint8) bool {
	for i := range h {
		for j := i + 1; j < len(h); j++ {
			a, b := sigma[h[i]], sigma[h[j]]
			if a.idx != b.idx && a.addr != "" && a.addr == b.addr && a.t == b.t {
				return true
			}
		}
	}
	return false
}

// projection is the non-interference reading of C05's last sentence, decidable where no eviction
// can happen: what author Z sees (the flag of Z's own Add, Z's retained events) after the full
// history must equal what Z sees after the history restricted to Z's own events.
func (x *explorer) projection(capacity int, full []uint8, flag bool, A []int, rep reporter) {
	e := int(full[len(full)-1])
	run := func(h []uint8) (uint8, []int, bool) {
		c := mocrelay.NewEventCache(capacity)
		fl, pan := replayOn(c, h)
		x.traces.Add(1)
		if pan != nil {
			return 0, nil, false
		}
		l, _, err := listing(c)
		if err != nil {
			return 0, nil, false
		}
		return fl, l, true
	}
	for Z := 0; Z < 2; Z++ {
		hz := subHist(full, func(i int) bool { return sigma[full[i]].author == Z })
		if len(hz) == len(full) || len(hz) == 0 {
			continue
		}
		x.projections.Add(1)
		fz, lz, ok := run(hz)
		if !ok {
			continue // a panic on the shorter history is reported at its own transition
		}
		viewFull, viewProj := viewOf(A, Z), viewOf(lz, Z)
		flagDiff := sigma[e].author == Z && (fz>>(uint(len(hz))-1)&1 == 1) != flag
		if viewFull == viewProj && !flagDiff {
			continue
		}
		if hasTie(hz) {
			x.unclaimed.Add(1)
			x.omu.Lock()
			x.zones["author projection differs but the author's own history contains equal created_at versions"]++
			x.omu.Unlock()
			continue
		}
		// which single event of the other author makes the difference?
		culprit := -1
		for j := range full {
			if sigma[full[j]].author == Z {
				continue
			}
			hj := subHist(full, func(i int) bool { return i != j })
			fj, lj, ok := run(hj)
			if !ok {
				continue
			}
			changed := viewOf(lj, Z) != viewFull
			if sigma[e].author == Z && j != len(full)-1 {
				if (fj>>(uint(len(hj))-1)&1 == 1) != flag {
					changed = true
				}
			}
			if changed {
				culprit = j
				break
			}
		}
		affected := e
		if !flagDiff {
			affected = idxOfMask(viewFull ^ viewProj)[0]
		}
		detail := fmt.Sprintf("cap=%d history=%v: author %s sees Add-flag=%v retained=%s, but after only its own events %v it sees flag=%v retained=%s",
			capacity, labelsOf(full), anames[Z], flag, labelsOfIdx(idxOfMask(viewFull)), labelsOf(hz), fz>>(uint(len(hz))-1)&1 == 1, labelsOfIdx(idxOfMask(viewProj)))
		if culprit < 0 {
			rep("C05", fmt.Sprintf("C05/author isolation: %s is affected by several events of another author together", sigma[affected].class), detail)
			continue
		}
		cu := sigma[full[culprit]]
		rep("C05", isolationSig(sigma[affected].class, cu.class), detail+fmt.Sprintf("; removing %s of %s from the history removes the difference (affected: %s)", cu.label, anames[cu.author], sigma[affected].label))
	}
}

// evalState replays the history once more through a CacheHandler (determinism: same flags, same
// dump), then runs the query battery (C03) on it and on its Dump->Restore twin (C16).
func (x *explorer) evalState(capacity int, nd node, want *stateKey, rep reporter) string {
	h := mocrelay.NewCacheHandler(capacity)
	c := h.VerifCache()
	flags, pan := replayOn(c, nd.hist)
	x.traces.Add(1)
	if pan != nil {
		x.c.Infra("replay of an already explored history panicked: cap=%d history=%v: %v", capacity, labelsOf(nd.hist), pan)
	}
	dump := c.VerifDump()
	if flags != nd.flags {
		x.c.Infra("non-deterministic Add results: cap=%d history=%v gave flags %b, earlier %b", capacity, labelsOf(nd.hist), flags, nd.flags)
	}
	if want != nil && sha256.Sum256([]byte(dump)) != *want {
		x.c.Infra("non-deterministic internal state: cap=%d history=%v replayed twice gave different dumps", capacity, labelsOf(nd.hist))
	}
	var restored *mocrelay.EventCache
	if x.doRestore {
		h2, dumped, err := dumpRestore(h, capacity)
		if err != nil {
			rep("C16", "C16/dump-restore: Dump or Restore failed", fmt.Sprintf("cap=%d history=%v: %v (dump %s)", capacity, labelsOf(nd.hist), err, dumped))
		} else {
			restored = h2.VerifCache()
		}
	}
	st := stateOracle(x.bt, capacity, nd.hist, c, restored, rep)
	x.queries.Add(st.queries)
	x.unclaimed.Add(st.unclaimed)
	x.qTies.Add(st.unclaimed)
	if after := c.VerifDump(); after != dump {
		rep("C03", "C03/mutation: queries changed the internal state of the store", fmt.Sprintf("cap=%d history=%v\nbefore:\n%s\nafter:\n%s", capacity, labelsOf(nd.hist), dump, after))
	}
	return dump
}

func (x *explorer) runCap(capacity int) (perDepth []int, closed bool) {
	rep := func(hist []uint8) reporter {
		return func(prop, sig, detail string) { x.col.report(prop, sig, detail, capacity, hist) }
	}
	visited := map[stateKey]struct{}{}
	root := node{}
	rk := keyOf(mocrelay.NewEventCache(capacity))
	visited[rk] = struct{}{}
	x.evalState(capacity, root, &rk, rep(nil))
	x.states.Add(1)
	perDepth = append(perDepth, 1)
	frontier := []node{root}

	// small capacities close after capacity+1 insertions (an evicted event leaves no trace): go
	// one level further than asked if that is what it takes to reach the fixpoint
	maxDepth := x.maxDepth
	if capacity+1 > maxDepth && capacity+1 <= 5 {
		maxDepth = capacity + 1
	}
	for depth := 0; depth < maxDepth && len(frontier) > 0; depth++ {
		// phase 1: all transitions out of the frontier
		res := make([][]succ, len(frontier))
		okv := make([][]bool, len(frontier))
		x.parallelFor(len(frontier), func(i int) {
			nd := frontier[i]
			r := make([]succ, len(x.alpha))
			o := make([]bool, len(x.alpha))
			for k, e := range x.alpha {
				r[k], o[k] = x.transition(capacity, nd, e, rep(appendHist(nd.hist, e)))
			}
			res[i], okv[i] = r, o
		})
		if x.aborted.Load() {
			return perDepth, false
		}
		// phase 2: merge in canonical order
		var next []node
		var keys []stateKey
		for i, nd := range frontier {
			for k, e := range x.alpha {
				if !okv[i][k] {
					continue
				}
				s := res[i][k]
				if _, seen := visited[s.key]; seen {
					continue
				}
				visited[s.key] = struct{}{}
				fl := nd.flags
				if s.flag {
					fl |= 1 << uint(len(nd.hist))
				}
				next = append(next, node{hist: appendHist(nd.hist, e), flags: fl})
				keys = append(keys, s.key)
			}
		}
		res, okv = nil, nil
		// phase 3: state oracle in every new state
		var done atomic.Int64
		x.parallelFor(len(next), func(i int) {
			dump := x.evalState(capacity, next[i], &keys[i], rep(next[i].hist))
			done.Add(1)
			if i == 0 && (depth+1 == maxDepth || depth+1 == 2) {
				l, _, _ := listing(func() *mocrelay.EventCache {
					c := mocrelay.NewEventCache(capacity)
					replayOn(c, next[i].hist)
					return c
				}())
				x.c.Sample(map[string]any{"cap": capacity, "history": labelsOf(next[i].hist), "add_results": flagList(next[i]), "listed": labelsOfIdx(l), "internal_state": shortDump(dump)})
			}
		})
		x.states.Add(done.Load())
		perDepth = append(perDepth, int(done.Load()))
		if x.aborted.Load() {
			return perDepth, false
		}
		frontier = next
		runtime.GC()
	}
	return perDepth, len(frontier) == 0
}

func flagList(nd node) []bool {
	out := make([]bool, len(nd.hist))
	for i := range nd.hist {
		out[i] = nd.flags>>uint(i)&1 == 1
	}
	return out
}

// shortDump replaces 64-hex ids and pubkeys by labels to keep samples readable.
func shortDump(d string) string {
	for _, in := range sigma {
		d = strings.ReplaceAll(d, in.ev.ID, "<"+in.label+">")
	}
	d = strings.ReplaceAll(d, pubkeys[0], "P")
	d = strings.ReplaceAll(d, pubkeys[1], "Q")
	return d
}

func parseCaps(s string) ([]int, error) {
	var out []int
	for _, p := range strings.Split(s, ",") {
		p = strings.TrimSpace(p)
		if p == "" {
			continue
		}
		n, err := strconv.Atoi(p)
		if err != nil || n < 1 {
			return nil, fmt.Errorf("bad capacity %q", p)
		}
		out = append(out, n)
	}
	return out, nil
}
