package main

import (
	"fmt"
	"sort"
	"strings"

	"github.com/high-moctane/mocrelay"
)

// The query battery of the C03 state oracle: a list of distinct filters and a list of queries
// (filter lists given as indices into the filter table).

type battery struct {
	filters []*mocrelay.ReqFilter
	fstr    []string
	fclass  []string // access-path class of each filter
	queries [][]int
	qclass  []string
	emptyTM []bool // query contains a filter whose tag map is present but empty and that has no other index condition
	nSingle int
	nPair   int
	qseen   map[string]bool
}

func i64(v int64) *int64 { return &v }

func cloneFilter(f mocrelay.ReqFilter) *mocrelay.ReqFilter { g := f; return &g }

func filterString(f *mocrelay.ReqFilter) string {
	short := func(xs []string) string {
		ss := make([]string, len(xs))
		for i, x := range xs {
			if in, ok := byID[x]; ok {
				ss[i] = "<" + in.label + ">"
			} else if x == pubkeys[0] {
				ss[i] = "P"
			} else if x == pubkeys[1] {
				ss[i] = "Q"
			} else if len(x) > 12 {
				ss[i] = strings.ReplaceAll(strings.ReplaceAll(x, pubkeys[0], "P"), pubkeys[1], "Q")
				if len(ss[i]) > 24 {
					ss[i] = ss[i][:8] + "…"
				}
			} else {
				ss[i] = fmt.Sprintf("%q", x)
			}
		}
		return "[" + strings.Join(ss, ",") + "]"
	}
	var sb []string
	if f.IDs != nil {
		sb = append(sb, "ids:"+short(f.IDs))
	}
	if f.Authors != nil {
		sb = append(sb, "authors:"+short(f.Authors))
	}
	if f.Kinds != nil {
		sb = append(sb, fmt.Sprintf("kinds:%v", f.Kinds))
	}
	if f.Tags != nil {
		if len(f.Tags) == 0 {
			sb = append(sb, "tags:{}")
		}
		names := make([]string, 0, len(f.Tags))
		for k := range f.Tags {
			names = append(names, k)
		}
		sort.Strings(names)
		for _, k := range names {
			sb = append(sb, "#"+k+":"+short(f.Tags[k]))
		}
	}
	if f.Since != nil {
		sb = append(sb, fmt.Sprintf("since:%d", *f.Since))
	}
	if f.Until != nil {
		sb = append(sb, fmt.Sprintf("until:%d", *f.Until))
	}
	if f.Limit != nil {
		sb = append(sb, fmt.Sprintf("limit:%d", *f.Limit))
	}
	return "{" + strings.Join(sb, " ") + "}"
}

func filterClass(f *mocrelay.ReqFilter) string {
	indexed := f.IDs != nil || f.Authors != nil || f.Kinds != nil || len(f.Tags) > 0
	s := "scan filter"
	if indexed {
		s = "indexed filter"
	}
	if f.Tags != nil && len(f.Tags) == 0 {
		s += " with empty tag map"
	}
	if f.Since != nil || f.Until != nil {
		s += "+since/until"
	}
	if f.Limit != nil {
		s += "+limit"
	}
	return s
}

func (b *battery) addFilter(f *mocrelay.ReqFilter) int {
	s := filterString(f)
	for i, t := range b.fstr {
		if t == s {
			return i
		}
	}
	b.filters = append(b.filters, f)
	b.fstr = append(b.fstr, s)
	b.fclass = append(b.fclass, filterClass(f))
	return len(b.filters) - 1
}

func (b *battery) addQuery(fs ...int) {
	key := joinInts(fs)
	if b.qseen == nil {
		b.qseen = map[string]bool{}
	}
	if b.qseen[key] {
		return
	}
	b.qseen[key] = true
	b.queries = append(b.queries, fs)
	etm := false
	for _, f := range fs {
		ff := b.filters[f]
		if ff.Tags != nil && len(ff.Tags) == 0 && ff.IDs == nil && ff.Authors == nil && ff.Kinds == nil {
			etm = true
		}
	}
	// the query class that goes into violation signatures is deliberately coarse: which access
	// paths serve the list, and whether a limit is involved (the full query is in the detail)
	idx, scan, lim := false, false, false
	for _, f := range fs {
		ff := b.filters[f]
		if ff.IDs != nil || ff.Authors != nil || ff.Kinds != nil || ff.Tags != nil {
			idx = true
		} else {
			scan = true
		}
		if ff.Limit != nil {
			lim = true
		}
	}
	var c string
	switch {
	case len(fs) == 0:
		c = "empty filter list"
	case idx && scan:
		c = "indexed and scan filters together"
	case idx:
		c = "indexed filter"
	default:
		c = "scan filter"
	}
	if len(fs) > 1 && !(idx && scan) {
		c = "several " + c + "s"
	}
	if lim {
		c += ", with limit"
	}
	b.qclass = append(b.qclass, c)
	b.emptyTM = append(b.emptyTM, etm)
}

func (b *battery) queryString(q int) string {
	ss := make([]string, len(b.queries[q]))
	for i, f := range b.queries[q] {
		ss[i] = b.fstr[f]
	}
	return "[" + strings.Join(ss, ",") + "]"
}

func (b *battery) queryFilters(q int) []*mocrelay.ReqFilter {
	fs := make([]*mocrelay.ReqFilter, len(b.queries[q]))
	for i, f := range b.queries[q] {
		fs[i] = b.filters[f]
	}
	return fs
}

type modifier struct {
	since, until, limit *int64
}

func (m modifier) apply(f mocrelay.ReqFilter) *mocrelay.ReqFilter {
	g := f
	g.Since, g.Until, g.Limit = m.since, m.until, m.limit
	return &g
}

func buildBattery() *battery {
	b := &battery{}
	P, Q := pubkeys[0], pubkeys[1]
	unknown := shaHex("verif-cache-unknown")
	id := func(l string) string { return evID(l) }
	tags := func(k string, vs ...string) map[string][]string {
		if vs == nil {
			vs = []string{}
		}
		return map[string][]string{k: vs}
	}

	// ---- base conditions: every index dimension absent / empty / 1 value / 2 values
	bases := []mocrelay.ReqFilter{
		{}, // the empty filter (ordered scan)
		{IDs: []string{}},
		{IDs: []string{id("r1")}},
		{IDs: []string{id("r1"), id("a3")}},
		{IDs: []string{unknown}},
		{IDs: []string{id("nP"), id("eP")}},
		{Authors: []string{}},
		{Authors: []string{P}},
		{Authors: []string{Q}},
		{Authors: []string{P, Q}},
		{Authors: []string{unknown}},
		{Kinds: []int64{}},
		{Kinds: []int64{1}},
		{Kinds: []int64{0}},
		{Kinds: []int64{5}},
		{Kinds: []int64{30000}},
		{Kinds: []int64{20001}},
		{Kinds: []int64{10002}},
		{Kinds: []int64{1, 5}},
		{Kinds: []int64{0, 30000}},
		{Kinds: []int64{7}},
		{Tags: tags("e")},
		{Tags: tags("e", id("r1"))},
		{Tags: tags("e", id("q1"))},
		{Tags: tags("e", id("r1"), id("q1"))},
		{Tags: tags("d", "x")},
		{Tags: tags("d", "")},
		{Tags: tags("d", "x", "")},
		{Tags: tags("t", "x")},
		{Tags: tags("t", "y")},
		{Tags: tags("a", "30000:"+P+":x")},
		{Tags: map[string][]string{"e": {id("r1")}, "t": {"x"}}},
		{Authors: []string{P}, Kinds: []int64{1}},
		{Authors: []string{P}, Kinds: []int64{30000}, Tags: tags("d", "x")},
		{Authors: []string{Q}, Kinds: []int64{5}},
		{Authors: []string{P}, Kinds: []int64{5}, Tags: tags("e", id("r1"))},
		{IDs: []string{id("r1")}, Authors: []string{Q}},
		{IDs: []string{id("r1"), id("q1")}, Authors: []string{Q}},
		{Kinds: []int64{1}, Tags: tags("t", "x")},
		{Kinds: []int64{30000, 20001}, Authors: []string{P, Q}},
		// tags of the focus events: a value only one event carries, the repeated p value, the second d value
		{Tags: tags("t", "z")},
		{Tags: tags("t", "w")},
		{Tags: tags("t", "z", "w", "x")},
		{Tags: tags("p", pTarget)},
		{Tags: tags("d", "y")},
		{Tags: tags("d", "x", "y")},
		{Kinds: []int64{1}, Tags: tags("t", "z")},
		// the empty string as a listed value (an event may carry ["t",""], or a bare ["t"])
		{Tags: tags("t", "")},
		{Tags: tags("t", "", "z")},
		{Authors: []string{P}, Tags: tags("t", "")},
	}
	for _, f := range bases {
		b.addQuery(b.addFilter(cloneFilter(f)))
	}

	// ---- since/until at and around the timestamps, on the scan path
	for _, s := range []int64{0, 1, 2, 3, 4} {
		b.addQuery(b.addFilter(&mocrelay.ReqFilter{Since: i64(s)}))
		b.addQuery(b.addFilter(&mocrelay.ReqFilter{Until: i64(s)}))
	}
	for _, su := range [][2]int64{{1, 1}, {2, 2}, {3, 3}, {1, 2}, {2, 3}, {1, 3}, {3, 1}, {3, 2}} {
		b.addQuery(b.addFilter(&mocrelay.ReqFilter{Since: i64(su[0]), Until: i64(su[1])}))
	}

	// ---- modifiers on selected bases (scan + several index shapes)
	mods := []modifier{
		{limit: i64(0)}, {limit: i64(1)}, {limit: i64(2)}, {limit: i64(5)},
		{since: i64(2)}, {until: i64(2)}, {since: i64(2), until: i64(2)}, {until: i64(1)}, {since: i64(3)},
		{limit: i64(1), until: i64(2)}, {limit: i64(2), since: i64(2)}, {limit: i64(1), since: i64(1), until: i64(2)},
		{limit: i64(2), until: i64(2)},
	}
	modBases := []mocrelay.ReqFilter{
		{},
		{Authors: []string{P}},
		{Authors: []string{P, Q}},
		{Kinds: []int64{1}},
		{Kinds: []int64{1, 5}},
		{Kinds: []int64{30000}},
		{Tags: tags("e", id("r1"))},
		{Authors: []string{P}, Kinds: []int64{1}},
	}
	for _, f := range modBases {
		for _, m := range mods {
			b.addQuery(b.addFilter(m.apply(f)))
		}
	}

	// ---- a tag map that is present but empty (Go API only) constrains nothing
	b.addQuery(b.addFilter(&mocrelay.ReqFilter{Tags: map[string][]string{}}))
	b.addQuery(b.addFilter(&mocrelay.ReqFilter{Tags: map[string][]string{}, Limit: i64(1)}))
	b.addQuery(b.addFilter(&mocrelay.ReqFilter{Tags: map[string][]string{}, Kinds: []int64{1}}))
	b.addQuery(b.addFilter(&mocrelay.ReqFilter{Tags: map[string][]string{}, Authors: []string{P}, Until: i64(2)}))
	b.nSingle = len(b.queries)

	// ---- filter lists: none, and all ordered pairs over a core
	b.addQuery()
	core := []mocrelay.ReqFilter{
		{},
		{Limit: i64(1)},
		{Limit: i64(2)},
		{Until: i64(2)},
		{Until: i64(1)},
		{Since: i64(2), Limit: i64(1)},
		{Authors: []string{P}},
		{Authors: []string{Q}},
		{Authors: []string{P}, Limit: i64(1)},
		{Authors: []string{P}, Limit: i64(2)},
		{Authors: []string{Q}, Limit: i64(1)},
		{Authors: []string{P}, Until: i64(2), Limit: i64(1)},
		{Authors: []string{}},
		{Kinds: []int64{1}},
		{Kinds: []int64{1}, Limit: i64(1)},
		{Kinds: []int64{5}},
		{Kinds: []int64{0}},
		{Kinds: []int64{30000}, Limit: i64(1)},
		{Kinds: []int64{1, 5}, Limit: i64(2)},
		{Kinds: []int64{20001}},
		{Tags: tags("e", id("r1"))},
		{Tags: tags("d", "x")},
		{Tags: tags("t", "x")},
		{IDs: []string{id("r1")}},
		{IDs: []string{id("r1"), id("a3")}},
		{Authors: []string{P}, Kinds: []int64{1}},
	}
	coreIdx := make([]int, len(core))
	for i, f := range core {
		coreIdx[i] = b.addFilter(cloneFilter(f))
	}
	for _, i := range coreIdx {
		for _, j := range coreIdx {
			b.addQuery(i, j)
		}
	}
	// three triples: scan + indexed + limited
	b.addQuery(coreIdx[1], coreIdx[8], coreIdx[14])
	b.addQuery(coreIdx[10], coreIdx[17], coreIdx[3])
	b.addQuery(coreIdx[2], coreIdx[9], coreIdx[18])
	b.nPair = len(b.queries) - b.nSingle
	return b
}
