package main

import (
	"bytes"
	"fmt"
	"sort"
	"strings"

	"github.com/high-moctane/mocrelay"
	"verifkit/vk"
)

type signRes struct {
	lenBad  []string // length alterations that were reported authentic (or panicked)
	lenN    int
	ix      prodIdx
	ev      *mocrelay.Event
	ok      bool
	err     error
	pan     any
	infra   string
	outcome string // "authentic" | "not authentic" | "error" | "panic"
}

func enumerateProduct(nKeys, nContents int, keep func(prodIdx) bool) []prodIdx {
	var out []prodIdx
	for k := 0; k < nKeys; k++ {
		for ki := range prodKinds {
			for ti := range prodCreated {
				for tg := range prodTags {
					for ci := 0; ci < nContents; ci++ {
						ix := prodIdx{k, ki, ti, tg, ci}
						if keep == nil || keep(ix) {
							out = append(out, ix)
						}
					}
				}
			}
		}
	}
	return out
}

type culprit struct {
	cp    rune
	where string // "content" | "tag value"
}

// singleDiffers: does Serialize() of an event whose content is exactly the one character r differ
// from the reference? Used only to attribute a failed verification to code points.
func singleDiffers(cache map[rune]bool, r rune) bool {
	if v, ok := cache[r]; ok {
		return v
	}
	ev := &mocrelay.Event{Pubkey: serPubkey, CreatedAt: serCreatedAt, Kind: serKind, Tags: []mocrelay.Tag{}, Content: string(r)}
	got, err, pan := safeSerialize(ev)
	v := pan != nil || err != nil || !bytes.Equal(got, refSerialize(ev))
	cache[r] = v
	return v
}

func findCulprits(cache map[rune]bool, ev *mocrelay.Event) []culprit {
	// if even a plain letter serializes differently, the difference is structural and no code
	// point is to blame
	if singleDiffers(cache, 'a') {
		return nil
	}
	seen := map[culprit]bool{}
	var out []culprit
	add := func(s, where string) {
		for _, r := range s {
			cu := culprit{r, where}
			if !seen[cu] && singleDiffers(cache, r) {
				seen[cu] = true
				out = append(out, cu)
			}
		}
	}
	add(ev.Content, "content")
	for _, t := range ev.Tags {
		for _, v := range t {
			add(v, "tag value")
		}
	}
	sort.Slice(out, func(i, j int) bool {
		if out[i].where != out[j].where {
			return out[i].where < out[j].where
		}
		return out[i].cp < out[j].cp
	})
	return out
}

// c01Sign: every event of the signing product is signed by the reference (NIP-01 reference id,
// BIP-340 signature by btcec) and must be reported authentic.
func c01Sign(c *vk.Ctx) {
	anchorSelfTest(c)
	signers := loadSigners(c)
	contents := prodContents()

	full := len(signers) * len(prodKinds) * len(prodCreated) * len(prodTags) * len(contents)
	var keep func(prodIdx) bool
	if !c.Thorough() {
		// quarter of the product: a Latin-square style cut, so that every content, every tag
		// shape and every (tag shape, content) pair is still present with several keys / kinds /
		// timestamps
		keep = func(ix prodIdx) bool { return (ix.key+ix.kind+ix.created+ix.tag+ix.content)%4 == 0 }
		c.P.Bound = fmt.Sprintf("quick: the quarter {key+kind+created_at+tag+content index ≡ 0 mod 4} of the %d-event product", full)
	} else {
		c.P.Bound = fmt.Sprintf("full %d-event product", full)
	}
	idxs := enumerateProduct(len(signers), len(contents), keep)

	c.P.Rule = fmt.Sprintf("cartesian product %d secret keys x kind in %v x created_at in %v x %d tag shapes (none, one-element tag, e+p with 64-hex values, [\"d\",\"\"], value with < > &, value with U+2028) x %d contents (empty, every C0 control, quote, backslash, DEL, <, >, &, <>&, U+2028, U+2029, U+FFFD, U+0080, two astral, japanese, mixed strings, 5 kB); each event gets id = sha256(reference NIP-01 serialization) and a BIP-340 signature of that id by btcec/schnorr.Sign; oracle: Verify() == (true, nil); a case is distinct when its event id is distinct (measured as set cardinality)", len(signers), prodKinds, prodCreated, len(prodTags), len(contents))
	c.Assume("btcec/v2 schnorr.Sign (RFC 6979 deterministic nonce) is trusted as the BIP-340 reference signer; each signature is cross-checked with btcec's own verifier and public-key derivation is checked against two published vectors")
	c.Assume("NIP-01 'remaining C0 controls' are written as lowercase \\u00xx")
	c.Assume("reference serializer + sha256 + btcec verification validated against a real network event (id 49d58222…) before the run")

	res := make([]signRes, len(idxs))
	parallelFor(len(idxs), func(i int) {
		r := &res[i]
		r.ix = idxs[i]
		ev, err := buildSigned(signers, contents, r.ix)
		if err != nil {
			r.infra = err.Error()
			return
		}
		r.ev = ev
		r.ok, r.err, r.pan = safeVerify(ev)
		switch {
		case r.pan != nil:
			r.outcome = "panic"
		case r.err != nil:
			r.outcome = "error"
		case r.ok:
			r.outcome = "authentic"
		default:
			r.outcome = "not authentic"
		}
		// length alterations of the three hex fields of an authentic event (one byte cut off the end,
		// one zero byte appended): whatever the cut byte was - in particular 00 - the result is another
		// id / pubkey / sig and must not be authentic
		if r.outcome == "authentic" {
			for _, a := range []struct {
				what string
				f    func(e *mocrelay.Event)
			}{
				{"id with its last byte cut off", func(e *mocrelay.Event) { e.ID = e.ID[:len(e.ID)-2] }},
				{"id with a zero byte appended", func(e *mocrelay.Event) { e.ID += "00" }},
				{"sig with its last byte cut off", func(e *mocrelay.Event) { e.Sig = e.Sig[:len(e.Sig)-2] }},
				{"sig with a zero byte appended", func(e *mocrelay.Event) { e.Sig += "00" }},
				{"pubkey with its last byte cut off", func(e *mocrelay.Event) { e.Pubkey = e.Pubkey[:len(e.Pubkey)-2] }},
				{"pubkey with a zero byte appended", func(e *mocrelay.Event) { e.Pubkey += "00" }},
			} {
				alt := cloneEvent(ev)
				a.f(alt)
				if ok, err, pan := safeVerify(alt); pan != nil || (ok && err == nil) {
					r.lenBad = append(r.lenBad, a.what)
				}
				r.lenN++
			}
		}
	})

	counts := map[string]int{}
	var failing []int
	for i := range res {
		r := &res[i]
		if r.infra != "" {
			c.Infra("reference signer failed on %+v: %s", r.ix, r.infra)
		}
		c.Eval(1)
		c.Distinct(r.ev.ID)
		c.Outcome(r.outcome)
		counts[r.outcome]++
		if r.outcome != "authentic" {
			failing = append(failing, i)
		}
	}
	var lenEvals int64
	for i := range res {
		r := &res[i]
		lenEvals += int64(r.lenN)
		for _, what := range r.lenBad {
			trailing := ""
			if strings.HasSuffix(r.ev.ID, "00") && strings.HasPrefix(what, "id with its last") {
				trailing = " (the cut byte was 00)"
			}
			c.Violate("C01/tamper: "+what+" accepted", fmt.Sprintf("a correctly signed event stays authentic after its %s%s", what, trailing), showEvent(r.ev))
		}
	}
	c.Eval(lenEvals)
	c.SetExtra("length_alterations_evaluated", lenEvals)
	c.SetExtra("outcomes", counts)
	c.SetExtra("events_failing", len(failing))
	c.SetExtra("product", map[string]int{"keys": len(signers), "kinds": len(prodKinds), "created_at": len(prodCreated), "tag_shapes": len(prodTags), "contents": len(contents)})

	// attribute each failure; failures explained by exactly one code point are reported first so
	// that the witness kept for a signature is the simplest one
	cache := map[rune]bool{}
	type diag struct {
		i        int
		serEqual bool
		cul      []culprit
	}
	diags := make([]diag, 0, len(failing))
	for _, i := range failing {
		ev := res[i].ev
		got, err, pan := safeSerialize(ev)
		d := diag{i: i, serEqual: pan == nil && err == nil && bytes.Equal(got, refSerialize(ev))}
		if !d.serEqual {
			d.cul = findCulprits(cache, ev)
		}
		diags = append(diags, d)
	}
	sort.SliceStable(diags, func(a, b int) bool {
		ka, kb := len(diags[a].cul), len(diags[b].cul)
		if (ka == 1) != (kb == 1) {
			return ka == 1
		}
		return false
	})
	established := map[string]bool{}
	for _, d := range diags {
		r := &res[d.i]
		// re-run before reporting
		ok2, err2, pan2 := safeVerify(r.ev)
		if ok2 != r.ok || (err2 == nil) != (r.err == nil) || (pan2 == nil) != (r.pan == nil) {
			c.Infra("Verify() is not deterministic on %v", showEvent(r.ev))
		}
		var phrase, what string
		switch r.outcome {
		case "panic":
			phrase, what = "makes Verify panic", fmt.Sprintf("Verify() panicked: %v", r.pan)
		case "error":
			phrase, what = "rejected with an error", fmt.Sprintf("Verify() = (%v, %q)", r.ok, r.err.Error())
		default:
			phrase, what = "reported not authentic", "Verify() = (false, nil)"
		}
		replay := showEvent(r.ev)
		replay["secret_key"] = signerHex[r.ix.key]
		replay["case"] = fmt.Sprintf("key=%s kind=%d created_at=%d tags=%q content=%q", signers[r.ix.key].name, r.ev.Kind, r.ev.CreatedAt, prodTags[r.ix.tag].name, contents[r.ix.content].name)
		replay["nip01_reference_serialization"] = clip(fmt.Sprintf("%+q", refSerialize(r.ev)), 600)
		if got, _, _ := safeSerialize(r.ev); got != nil {
			replay["serialize_returned"] = clip(fmt.Sprintf("%+q", got), 600)
		}
		base := fmt.Sprintf("%s for the event signed over the NIP-01 id (%s)", what, replay["case"])
		switch {
		case d.serEqual:
			c.Violate("C01/verify: correctly signed event "+phrase+" although Serialize() agrees with NIP-01", base, replay)
		case len(d.cul) == 0:
			c.Violate("C01/verify: correctly signed event "+phrase+" (Serialize() differs from NIP-01, not attributable to a single code point)", base, replay)
		default:
			var names []string
			for _, cu := range d.cul {
				names = append(names, cpName(cu.cp)+" in "+cu.where)
			}
			sigOf := func(cu culprit) string {
				return fmt.Sprintf("C01/verify: correctly signed event with %s in %s %s", cpName(cu.cp), cu.where, phrase)
			}
			// An event with several differing code points is counted only under the signatures
			// that an event with a single differing code point has already established (it is
			// explained by them); if none is established, all of its code points are named.
			blame := d.cul
			if len(d.cul) > 1 {
				var est []culprit
				for _, cu := range d.cul {
					if established[sigOf(cu)] {
						est = append(est, cu)
					}
				}
				if len(est) > 0 {
					blame = est
				}
			}
			for _, cu := range blame {
				if len(d.cul) == 1 {
					established[sigOf(cu)] = true
				}
				c.Violate(sigOf(cu), base+"; Serialize() differs from the NIP-01 form because of: "+strings.Join(names, ", "), replay)
			}
		}
	}

	// samples: authentic cases spread over the enumeration
	n := 0
	step := len(res)/5 + 1
	for i := 0; i < len(res) && n < 5; i++ {
		if res[i].outcome == "authentic" && i >= n*step {
			s := showEvent(res[i].ev)
			s["verify"] = "(true, nil)"
			c.Sample(s)
			n++
		}
	}
}
