package main

import (
	"encoding/hex"
	"fmt"
	"unicode/utf8"

	"github.com/btcsuite/btcd/btcec/v2/schnorr"
	"github.com/high-moctane/mocrelay"
	"verifkit/vk"
)

// a tampered variant of a signed base event
type tamper struct {
	class string // signature class ("single-bit flip of id", "created_at+1 (id and sig kept)", …)
	what  string // the concrete alteration ("bit 17 of id")
	ev    *mocrelay.Event
}

func flipHexBit(h string, bit int) string {
	b, err := hex.DecodeString(h)
	if err != nil {
		panic("reference produced non-hex field")
	}
	b[bit/8] ^= 0x80 >> (bit % 8)
	return hex.EncodeToString(b)
}

func rehash(ev *mocrelay.Event) {
	id := refID(ev)
	ev.ID = hex.EncodeToString(id[:])
}

// tampersOf lists every alteration of one base event. Field alterations come in two forms: with
// id and sig kept (the id no longer matches), and with the id recomputed by the reference over the
// altered fields and the sig kept (the id matches, the signature does not cover it).
func tampersOf(base *mocrelay.Event, other *signer, otherSig string) []tamper {
	var out []tamper
	add := func(class, what string, mut func(ev *mocrelay.Event)) {
		ev := cloneEvent(base)
		mut(ev)
		out = append(out, tamper{class, what, ev})
	}
	for b := 0; b < 256; b++ {
		add("single-bit flip of id", fmt.Sprintf("bit %d of id", b), func(ev *mocrelay.Event) { ev.ID = flipHexBit(ev.ID, b) })
	}
	for b := 0; b < 256; b++ {
		add("single-bit flip of pubkey", fmt.Sprintf("bit %d of pubkey", b), func(ev *mocrelay.Event) { ev.Pubkey = flipHexBit(ev.Pubkey, b) })
	}
	for b := 0; b < 256; b++ {
		add("single-bit flip of pubkey (id recomputed, sig kept)", fmt.Sprintf("bit %d of pubkey, id recomputed", b), func(ev *mocrelay.Event) { ev.Pubkey = flipHexBit(ev.Pubkey, b); rehash(ev) })
	}
	for b := 0; b < 512; b++ {
		add("single-bit flip of sig", fmt.Sprintf("bit %d of sig", b), func(ev *mocrelay.Event) { ev.Sig = flipHexBit(ev.Sig, b) })
	}

	type fieldMut struct {
		name string
		ok   bool
		mut  func(ev *mocrelay.Event)
	}
	firstLen := 0
	if base.Content != "" {
		_, firstLen = utf8.DecodeRuneInString(base.Content)
	}
	valueTag := -1 // first tag that has a value element
	for i, t := range base.Tags {
		if len(t) >= 2 {
			valueTag = i
			break
		}
	}
	muts := []fieldMut{
		{"created_at+1", true, func(ev *mocrelay.Event) { ev.CreatedAt++ }},
		{"created_at-1", true, func(ev *mocrelay.Event) { ev.CreatedAt-- }},
		{"kind+1", true, func(ev *mocrelay.Event) { ev.Kind++ }},
		{"kind-1", true, func(ev *mocrelay.Event) { ev.Kind-- }},
		{"content with one char appended", true, func(ev *mocrelay.Event) { ev.Content += "x" }},
		{"content with first char removed", firstLen > 0, func(ev *mocrelay.Event) { ev.Content = ev.Content[firstLen:] }},
		{"content with one char replaced", firstLen > 0, func(ev *mocrelay.Event) {
			repl := "y"
			if ev.Content[:firstLen] == "y" {
				repl = "z"
			}
			ev.Content = repl + ev.Content[firstLen:]
		}},
		{"tag added", true, func(ev *mocrelay.Event) { ev.Tags = append(ev.Tags, mocrelay.Tag{"t", "added"}) }},
		{"tag removed", len(base.Tags) > 0, func(ev *mocrelay.Event) { ev.Tags = ev.Tags[:len(ev.Tags)-1] }},
		{"tag value changed", valueTag >= 0, func(ev *mocrelay.Event) {
			v := ev.Tags[valueTag][1]
			switch {
			case v == "":
				v = "x"
			case v[0] == '0':
				v = "1" + v[1:]
			default:
				v = "0" + v[1:]
			}
			ev.Tags[valueTag][1] = v
		}},
		{"tag name changed", len(base.Tags) > 0, func(ev *mocrelay.Event) { ev.Tags[0][0] += "x" }},
		{"tag element appended", len(base.Tags) > 0, func(ev *mocrelay.Event) { ev.Tags[0] = append(ev.Tags[0], "") }},
		{"pubkey replaced by another valid key", true, func(ev *mocrelay.Event) { ev.Pubkey = other.pubHex }},
	}
	for _, m := range muts {
		if !m.ok {
			continue
		}
		add(m.name+" (id and sig kept)", m.name, m.mut)
		add(m.name+" (id recomputed, sig kept)", m.name+", id recomputed", func(ev *mocrelay.Event) { m.mut(ev); rehash(ev) })
	}
	add("sig replaced by another key's valid signature of the same id", "sig by "+other.name, func(ev *mocrelay.Event) { ev.Sig = otherSig })
	return out
}

func tamperBases(c *vk.Ctx, signers []signer, contents []contentCase, n int) []prodIdx {
	var cleanTags, cleanContents []int
	for i, t := range prodTags {
		if !tagsHaveSuspect(t.tags) {
			cleanTags = append(cleanTags, i)
		}
	}
	for i, ct := range contents {
		if !hasSuspect(ct.s) {
			cleanContents = append(cleanContents, i)
		}
	}
	seen := map[prodIdx]bool{}
	var out []prodIdx
	for j := 0; j < n; j++ {
		ix := prodIdx{
			key:     j % len(signers),
			tag:     cleanTags[(j/len(signers))%len(cleanTags)],
			kind:    j % len(prodKinds),
			created: j % len(prodCreated),
			content: cleanContents[j%len(cleanContents)],
		}
		if seen[ix] {
			c.Infra("tamper base selection repeats %+v", ix)
		}
		seen[ix] = true
		out = append(out, ix)
	}
	return out
}

// c01Tamper: every single-bit flip of id / pubkey / sig and every single-field change of signed
// events must be reported not authentic (false or an error), never (true, nil).
func c01Tamper(c *vk.Ctx) {
	anchorSelfTest(c)
	signers := loadSigners(c)
	contents := prodContents()
	nBases := vk.Pick(c, 60, 240)
	if v := c.ArgInt("bases", 0); v > 0 {
		nBases = v
	}
	c.P.Bound = fmt.Sprintf("%d base events", nBases)
	c.P.Rule = fmt.Sprintf("%d correctly signed base events taken from the signing product on a fixed diagonal (base j: key j mod 4, tag shape (j div 4) mod 4, kind j mod 7, created_at j mod 5, content j mod #contents; only tag shapes and contents without < > & U+2028 U+2029, so all contents incl. every C0 control, escapes, DEL, astral, 5 kB are used); for each base: all 256 single-bit flips of the binary id, all 256 of the pubkey (once with the id kept, once with the id recomputed over the altered pubkey), all 512 of the sig (re-encoded as lowercase hex), and the field changes created_at±1, kind±1, content (char appended / first char removed / one char replaced), tag added / removed / value changed / name changed / element appended, pubkey replaced by another valid key — each once with id and sig kept and once with the id recomputed over the altered fields and the sig kept — and the sig replaced by another key's valid signature of the same id; oracle: Verify() is (false, nil) or an error; a case is distinct per (base, alteration)", nBases)
	c.Assume("btcec/v2 schnorr.Sign is trusted as the BIP-340 reference signer")
	c.Assume("cryptographic: an altered sig / an altered id is not by accident a valid BIP-340 signature pair (probability ≈ 2^-128 per case; BIP-340 signatures are non-malleable)")
	c.Assume("a base event that the tree does not report authentic is skipped and counted under unclaimed_hits (acceptance is part c01-sign's claim)")

	bases := tamperBases(c, signers, contents, nBases)

	type job struct {
		base int
		t    tamper
	}
	var jobs []job
	baseEvs := make([]*mocrelay.Event, len(bases))
	skipped := 0
	for bi, ix := range bases {
		ev, err := buildSigned(signers, contents, ix)
		if err != nil {
			c.Infra("reference signer failed on %+v: %v", ix, err)
		}
		baseEvs[bi] = ev
		ok, verr, pan := safeVerify(ev)
		if pan != nil || verr != nil || !ok {
			skipped++
			c.Unclaimed(1)
			continue
		}
		other := &signers[(ix.key+1)%len(signers)]
		idb, _ := hex.DecodeString(ev.ID)
		osig, err := schnorr.Sign(other.priv, idb)
		if err != nil {
			c.Infra("reference signer failed: %v", err)
		}
		for _, t := range tampersOf(ev, other, hex.EncodeToString(osig.Serialize())) {
			jobs = append(jobs, job{bi, t})
		}
	}
	if skipped == len(bases) {
		c.Infra("no base event verifies on this tree; the tamper part has nothing to stand on")
	}

	type out struct {
		ok  bool
		err error
		pan any
	}
	outs := make([]out, len(jobs))
	parallelFor(len(jobs), func(i int) {
		o := &outs[i]
		o.ok, o.err, o.pan = safeVerify(jobs[i].t.ev)
	})

	classCount := map[string]int{}
	for i := range jobs {
		j, o := &jobs[i], &outs[i]
		c.Eval(1)
		classCount[j.t.class]++
		replay := func() map[string]any {
			r := showEvent(j.t.ev)
			r["alteration"] = j.t.what
			r["base_event"] = showEvent(baseEvs[j.base])
			r["base_secret_key"] = signerHex[bases[j.base].key]
			return r
		}
		switch {
		case o.pan != nil:
			c.Outcome("panic")
			c.Violate("C01/tamper: "+j.t.class+" makes Verify panic", fmt.Sprintf("%s of base event %s: Verify() panicked: %v", j.t.what, baseEvs[j.base].ID, o.pan), replay())
		case o.err != nil:
			c.Outcome("error: " + errClass(o.err))
		case !o.ok:
			c.Outcome("false")
		default:
			c.Outcome("true")
			ok2, err2, pan2 := safeVerify(j.t.ev) // re-run before reporting
			if !ok2 || err2 != nil || pan2 != nil {
				c.Infra("Verify() is not deterministic on %v", showEvent(j.t.ev))
			}
			c.Violate("C01/tamper: "+j.t.class+" accepted", fmt.Sprintf("%s of base event %s: Verify() = (true, nil)", j.t.what, baseEvs[j.base].ID), replay())
		}
	}
	c.DistinctN(int64(len(jobs)))
	c.SetExtra("bases_used", len(bases)-skipped)
	c.SetExtra("bases_skipped_not_verifying", skipped)
	c.SetExtra("alterations_per_class", classCount)

	for _, i := range []int{0, 300, 600, 1000, 1290, len(jobs) - 1} {
		if i >= 0 && i < len(jobs) {
			o := outs[i]
			res := fmt.Sprintf("(%v, nil)", o.ok)
			if o.err != nil {
				res = fmt.Sprintf("(%v, %q)", o.ok, o.err.Error())
			}
			c.Sample(map[string]any{"base_id": baseEvs[jobs[i].base].ID, "alteration": jobs[i].t.what, "class": jobs[i].t.class, "verify": res})
		}
	}
}

// errClass keeps the stable prefix of an error ("failed to parse pubkey") for outcome counting.
func errClass(err error) string {
	s := err.Error()
	for i := 0; i < len(s); i++ {
		if s[i] == ':' {
			return s[:i]
		}
	}
	return s
}
