package main

import (
	"bytes"
	"fmt"
	"runtime"
	"strconv"
	"sync"
	"sync/atomic"

	"github.com/high-moctane/mocrelay"
	"verifkit/refmodel"
	"verifkit/vk"
)

const (
	serPubkey    = "dbf0becf24bf8dd7d779d7fb547e6112964ff042b77a42cc2d8488636eed9f5e"
	serCreatedAt = int64(1700000000)
	serKind      = int64(1)
	serMaxPerCP  = 32 // code points reported individually before the rest is aggregated
)

var serContexts = []string{"content=c", `content="a"+c+"b"`, "content=c+c", `tags=[["t",c]]`}

type serMismatch struct {
	cp   rune
	ctx  int
	kind string // "differs" | "error" | "panic"
	got  string
	want string
}

func serCase(c rune, ctx int) (tags []mocrelay.Tag, content string) {
	s := string(c)
	switch ctx {
	case 0:
		return []mocrelay.Tag{}, s
	case 1:
		return []mocrelay.Tag{}, "a" + s + "b"
	case 2:
		return []mocrelay.Tag{}, s + s
	default:
		return []mocrelay.Tag{{"t", s}}, ""
	}
}

// serEval runs one case; nil means Serialize() agrees with the reference.
func serEval(ev *mocrelay.Event, r rune, ctx int) *serMismatch {
	ev.Tags, ev.Content = serCase(r, ctx)
	want := refmodel.SerializeNIP01(ev.Pubkey, ev.CreatedAt, ev.Kind, refTags(ev.Tags), ev.Content)
	got, err, pan := safeSerialize(ev)
	switch {
	case pan != nil:
		return &serMismatch{r, ctx, "panic", fmt.Sprint(pan), string(want)}
	case err != nil:
		return &serMismatch{r, ctx, "error", err.Error(), string(want)}
	case !bytes.Equal(got, want):
		return &serMismatch{r, ctx, "differs", string(got), string(want)}
	}
	return nil
}

// c01Serialize: every Unicode scalar value in four positions; Event.Serialize() must produce
// byte for byte the NIP-01 reference serialization.
func c01Serialize(c *vk.Ctx) {
	anchorSelfTest(c)
	c.P.Rule = "every Unicode scalar value c (U+0000..U+10FFFF without the surrogates U+D800..U+DFFF: 1 112 064 values) x 4 positions (content=c, content=\"a\"+c+\"b\", content=c+c, tags=[[\"t\",c]]) with fixed pubkey/created_at/kind; Event.Serialize() is compared byte for byte with the encoding/json-free NIP-01 reference serializer; a case is distinct per code point (distinct_nontrivial = code points checked, evaluations = code points x positions)"
	c.Assume("NIP-01 'remaining C0 controls' are written as lowercase \\u00xx (the property text says so; NIP-01 itself only forbids other escapes)")
	c.Assume("strings are valid UTF-8 (invalid byte sequences / lone surrogates are not Unicode scalar values and are not claimed)")
	c.Assume("reference serializer validated against a real network event (id 49d58222…) before the run")

	const chunk = 4096
	const maxCP = 0x10FFFF
	nChunks := (maxCP + 1 + chunk - 1) / chunk
	var next int64 = -1
	var evals, cps int64
	var mu sync.Mutex
	isBad := make([]bool, maxCP+1) // slot r is written only by the worker that owns r's chunk

	var wg sync.WaitGroup
	for w := 0; w < runtime.NumCPU(); w++ {
		wg.Add(1)
		go func() {
			defer wg.Done()
			var localEvals, localCPs int64
			ev := &mocrelay.Event{Pubkey: serPubkey, CreatedAt: serCreatedAt, Kind: serKind}
			for {
				ci := int(atomic.AddInt64(&next, 1))
				if ci >= nChunks {
					break
				}
				lo, hi := rune(ci*chunk), rune((ci+1)*chunk)
				if hi > maxCP+1 {
					hi = maxCP + 1
				}
				for r := lo; r < hi; r++ {
					if r >= 0xD800 && r <= 0xDFFF {
						continue
					}
					localCPs++
					for ctx := range serContexts {
						localEvals++
						if serEval(ev, r, ctx) != nil {
							isBad[r] = true
						}
					}
				}
			}
			mu.Lock()
			evals += localEvals
			cps += localCPs
			mu.Unlock()
		}()
	}
	wg.Wait()

	c.Eval(evals)
	c.DistinctN(cps)
	if cps != 1112064 {
		c.Infra("enumerated %d code points, expected 1112064", cps)
	}

	// deterministic report: ascending code point, then position; the first serMaxPerCP differing
	// code points are re-evaluated sequentially here (so every reported case has been run twice)
	var bad []rune
	for r, b := range isBad {
		if b {
			bad = append(bad, rune(r))
		}
	}
	ev := &mocrelay.Event{Pubkey: serPubkey, CreatedAt: serCreatedAt, Kind: serKind}
	// structural baseline: an event with no tags and empty content. If already that differs, the
	// difference is not about any character and per-code-point reports would be noise.
	structural := false
	{
		b := &mocrelay.Event{Pubkey: serPubkey, CreatedAt: serCreatedAt, Kind: serKind, Tags: []mocrelay.Tag{}, Content: ""}
		want := refSerialize(b)
		got, err, pan := safeSerialize(b)
		c.Eval(1)
		if pan != nil || err != nil || !bytes.Equal(got, want) {
			structural = true
			c.Violate("C01/serialize: event without tags and with empty content serialized differently from NIP-01",
				fmt.Sprintf("Serialize() = %s (err=%v, panic=%v) but NIP-01 canonical form is %s; %d of 1112064 code points differ as a consequence", strconv.QuoteToASCII(string(got)), err, pan, strconv.QuoteToASCII(string(want)), len(bad)),
				map[string]any{"pubkey": serPubkey, "created_at": serCreatedAt, "kind": serKind, "tags": []string{}, "content": ""})
		}
	}
	unstable := 0
	for i, r := range bad {
		if i >= serMaxPerCP || structural {
			break
		}
		reproduced := false
		for ctx := range serContexts {
			m := serEval(ev, r, ctx)
			if m == nil {
				continue
			}
			reproduced = true
			tags, content := serCase(m.cp, m.ctx)
			replay := map[string]any{
				"code_point": cpName(m.cp), "position": serContexts[m.ctx],
				"pubkey": serPubkey, "created_at": serCreatedAt, "kind": serKind,
				"tags_go": fmt.Sprintf("%q", tags), "content_go": strconv.QuoteToASCII(content),
				"serialize_returned": strconv.QuoteToASCII(m.got), "nip01_reference": strconv.QuoteToASCII(m.want),
			}
			switch m.kind {
			case "panic":
				c.Violate(fmt.Sprintf("C01/serialize: panic in Serialize for %s", cpName(m.cp)),
					fmt.Sprintf("%s: Serialize panicked: %s", serContexts[m.ctx], m.got), replay)
			case "error":
				c.Violate(fmt.Sprintf("C01/serialize: Serialize returns an error for %s", cpName(m.cp)),
					fmt.Sprintf("%s: Serialize error: %s", serContexts[m.ctx], m.got), replay)
			default:
				c.Violate(fmt.Sprintf("C01/serialize: %s escaped differently from NIP-01", cpName(m.cp)),
					fmt.Sprintf("%s with c=%s: Serialize() = %s but NIP-01 canonical form is %s", serContexts[m.ctx], cpName(m.cp), strconv.QuoteToASCII(m.got), strconv.QuoteToASCII(m.want)), replay)
			}
		}
		if !reproduced {
			// Serialize and the reference are functions of the event: a difference that appears while
			// 16 goroutines serialize different events at once and disappears when the same event is
			// serialized alone means that concurrent calls share state (parts c01-calls and
			// c01-concurrent give the deterministic schedule)
			unstable++
		}
	}
	if unstable > 0 {
		c.Violate("C01/serialize: Serialize is not a function of its event when called concurrently",
			fmt.Sprintf("%d code points (first %s) were serialized differently from NIP-01 while other goroutines serialized other events, and identically to it when serialized alone afterwards", unstable, cpName(bad[0])),
			map[string]any{"how": "run part c01-serialize again; the deterministic counterpart is part c01-calls / c01-concurrent", "first_code_point": cpName(bad[0])})
	}
	if len(bad) > serMaxPerCP && !structural {
		c.Violate(fmt.Sprintf("C01/serialize: more than %d code points serialized differently from NIP-01", serMaxPerCP),
			fmt.Sprintf("%d code points differ in total; the first %d are reported individually; next one is %s", len(bad), serMaxPerCP, cpName(bad[serMaxPerCP])), nil)
	}
	names := make([]string, 0, len(bad))
	for i, r := range bad {
		if i >= 64 {
			break
		}
		names = append(names, cpName(r))
	}
	c.SetExtra("code_points_differing", len(bad))
	c.SetExtra("code_points_differing_list", names)
	c.SetExtra("positions", serContexts)

	for _, r := range []rune{0x00, 0x0A, 0x1F, 0x22, 0x7F, 0x1F600} {
		tags, content := serCase(r, 1)
		ev := &mocrelay.Event{Pubkey: serPubkey, CreatedAt: serCreatedAt, Kind: serKind, Tags: tags, Content: content}
		got, _, _ := safeSerialize(ev)
		c.Sample(map[string]any{"c": cpName(r), "position": serContexts[1], "serialize_returned": strconv.QuoteToASCII(string(got)),
			"nip01_reference": strconv.QuoteToASCII(string(refSerialize(ev)))})
	}
}
