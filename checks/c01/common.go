package main

import (
	"crypto/sha256"
	"encoding/hex"
	"fmt"
	"runtime"
	"strconv"
	"strings"
	"sync"
	"sync/atomic"
	"unicode/utf8"

	"github.com/btcsuite/btcd/btcec/v2"
	"github.com/btcsuite/btcd/btcec/v2/schnorr"
	"github.com/high-moctane/mocrelay"
	"verifkit/refmodel"
	"verifkit/vk"
)

// ---------------------------------------------------------------------------------------------
// calling the code under test without letting a panic kill the run

func safeSerialize(ev *mocrelay.Event) (out []byte, err error, panicked any) {
	defer func() {
		if r := recover(); r != nil {
			panicked = r
		}
	}()
	out, err = ev.Serialize()
	return
}

func safeVerify(ev *mocrelay.Event) (ok bool, err error, panicked any) {
	defer func() {
		if r := recover(); r != nil {
			panicked = r
		}
	}()
	ok, err = ev.Verify()
	return
}

// ---------------------------------------------------------------------------------------------
// reference side: id and signature

func refTags(tags []mocrelay.Tag) [][]string {
	out := make([][]string, len(tags))
	for i, t := range tags {
		out[i] = []string(t)
	}
	return out
}

func refSerialize(ev *mocrelay.Event) []byte {
	return refmodel.SerializeNIP01(ev.Pubkey, ev.CreatedAt, ev.Kind, refTags(ev.Tags), ev.Content)
}

func refID(ev *mocrelay.Event) [32]byte { return sha256.Sum256(refSerialize(ev)) }

type signer struct {
	name   string
	priv   *btcec.PrivateKey
	pubHex string
	oddY   bool
}

// Four fixed secret keys: 1 (public key = generator, even y), n-2 (top of the range; its point -2G
// has odd y, so BIP-340 signs with the negated secret; n-1 is not used because its x-only public
// key equals that of 1), the secret key of BIP-340 test vector 1, and an arbitrary pattern.
var signerHex = []string{
	"0000000000000000000000000000000000000000000000000000000000000001",
	"fffffffffffffffffffffffffffffffebaaedce6af48a03bbfd25e8cd036413f",
	"b7e151628aed2a6abf7158809cf4f3c762e7160f38b4da56a784d9045190cfef",
	"0123456789abcdef0123456789abcdef0123456789abcdef0123456789abcdef",
}

// x-only public keys published for two of the secrets (secp256k1 generator; BIP-340 test vector
// 1): anchors showing that the reference signer derives keys the way BIP-340 says.
var signerPubAnchor = map[int]string{
	0: "79be667ef9dcbbac55a06295ce870b07029bfcdb2dce28d959f2815b16f81798",
	2: "dff1d77f2a671c5f36183726db2341be58feae1da2deced843240f7b502ba659",
}

func loadSigners(c *vk.Ctx) []signer {
	var out []signer
	for i, h := range signerHex {
		b, err := hex.DecodeString(h)
		if err != nil || len(b) != 32 {
			c.Infra("bad signer constant %d", i)
		}
		priv, _ := btcec.PrivKeyFromBytes(b)
		pub := hex.EncodeToString(schnorr.SerializePubKey(priv.PubKey()))
		if want, ok := signerPubAnchor[i]; ok && want != pub {
			c.Infra("reference signer derives pubkey %s for secret %d, published value is %s", pub, i, want)
		}
		out = append(out, signer{name: "k" + strconv.Itoa(i), priv: priv, pubHex: pub, oddY: priv.PubKey().SerializeCompressed()[0] == 3})
	}
	seen := map[string]bool{}
	odd, even := 0, 0
	for _, s := range out {
		if seen[s.pubHex] {
			c.Infra("two signer secrets share the x-only public key %s", s.pubHex)
		}
		seen[s.pubHex] = true
		if s.oddY {
			odd++
		} else {
			even++
		}
	}
	if odd == 0 || even == 0 {
		c.Infra("signer secrets must cover both public-key parities (odd=%d even=%d)", odd, even)
	}
	return out
}

// signEvent fills ID (sha256 of the reference serialization) and Sig (BIP-340 over the 32-byte
// id). btcec's Sign is deterministic (RFC 6979 nonce), so the whole enumeration is reproducible.
func signEvent(ev *mocrelay.Event, s *signer) error {
	id := refID(ev)
	sig, err := schnorr.Sign(s.priv, id[:])
	if err != nil {
		return err
	}
	if !sig.Verify(id[:], s.priv.PubKey()) {
		return fmt.Errorf("reference signer produced a signature its own verifier rejects")
	}
	ev.ID = hex.EncodeToString(id[:])
	ev.Sig = hex.EncodeToString(sig.Serialize())
	return nil
}

// anchorSelfTest: a real event from the Nostr network (it is also the one event of /repo's
// TestEvent_Serialize / TestEvent_VerifyID). Its id must be the sha256 of the reference
// serialization and its signature must verify with btcec directly. This validates the reference,
// not the code under test; a failure is an infrastructure error.
func anchorSelfTest(c *vk.Ctx) {
	ev := &mocrelay.Event{
		ID:        "49d58222bd85ddabfc19b8052d35bcce2bad8f1f3030c0bc7dc9f10dba82a8a2",
		Pubkey:    "dbf0becf24bf8dd7d779d7fb547e6112964ff042b77a42cc2d8488636eed9f5e",
		CreatedAt: 1693157791,
		Kind:      1,
		Tags: []mocrelay.Tag{
			{"e", "d2ea747b6e3a35d2a8b759857b73fcaba5e9f3cfb6f38d317e034bddc0bf0d1c", "", "root"},
			{"p", "dbf0becf24bf8dd7d779d7fb547e6112964ff042b77a42cc2d8488636eed9f5e"},
		},
		Content: "powa",
		Sig:     "795e51656e8b863805c41b3a6e1195ed63bf8c5df1fc3a4078cd45aaf0d8838f2dc57b802819443364e8e38c0f35c97e409181680bfff83e58949500f5a8f0c8",
	}
	id := refID(ev)
	if hex.EncodeToString(id[:]) != ev.ID {
		c.Infra("reference serializer does not reproduce the id of the anchor event: %s", refSerialize(ev))
	}
	pkb, _ := hex.DecodeString(ev.Pubkey)
	pk, err := schnorr.ParsePubKey(pkb)
	if err != nil {
		c.Infra("anchor pubkey: %v", err)
	}
	sb, _ := hex.DecodeString(ev.Sig)
	sig, err := schnorr.ParseSignature(sb)
	if err != nil {
		c.Infra("anchor sig: %v", err)
	}
	if !sig.Verify(id[:], pk) {
		c.Infra("anchor event signature does not verify against the reference id")
	}
}

// ---------------------------------------------------------------------------------------------
// the signing product

var (
	prodKinds   = []int64{0, 1, 5, 10002, 20001, 30023, 65535}
	prodCreated = []int64{0, 1, 1700000000, 1 << 31, 1 << 53}
)

type tagShape struct {
	name string
	tags []mocrelay.Tag
}

var prodTags = []tagShape{
	{"none", []mocrelay.Tag{}},
	{"one-element", []mocrelay.Tag{{"x"}}},
	{"e+p hex", []mocrelay.Tag{
		{"e", "d2ea747b6e3a35d2a8b759857b73fcaba5e9f3cfb6f38d317e034bddc0bf0d1c"},
		{"p", "dbf0becf24bf8dd7d779d7fb547e6112964ff042b77a42cc2d8488636eed9f5e"},
	}},
	{"d empty", []mocrelay.Tag{{"d", ""}}},
	{"value with < > &", []mocrelay.Tag{{"t", "a<b>c&d"}}},
	{"value with U+2028", []mocrelay.Tag{{"t", "line\u2028sep"}}},
}

type contentCase struct {
	name string
	s    string
}

func prodContents() []contentCase {
	var out []contentCase
	out = append(out, contentCase{"empty", ""})
	out = append(out, contentCase{"plain ascii", "hello nostr"})
	// every C0 control (this includes the mandated \b \t \n \f \r)
	for b := 0; b < 0x20; b++ {
		out = append(out, contentCase{fmt.Sprintf("U+%04X", b), string(rune(b))})
	}
	out = append(out, contentCase{"U+0022 quote", `"`})
	out = append(out, contentCase{"U+005C backslash", `\`})
	out = append(out, contentCase{"U+007F DEL", "\x7f"})
	out = append(out, contentCase{"U+003C", "<"})
	out = append(out, contentCase{"U+003E", ">"})
	out = append(out, contentCase{"U+0026", "&"})
	out = append(out, contentCase{"<>& together", "<>&"})
	out = append(out, contentCase{"U+2028", "\u2028"})
	out = append(out, contentCase{"U+2029", "\u2029"})
	out = append(out, contentCase{"U+FFFD", "\ufffd"})
	out = append(out, contentCase{"U+0080", "\u0080"})
	out = append(out, contentCase{"astral U+1F600", "\U0001F600"})
	out = append(out, contentCase{"astral U+10FFFF", "\U0010FFFF"})
	out = append(out, contentCase{"japanese", "ぽわ〜 こんにちは"})
	out = append(out, contentCase{"mixed escapes", "line1\nline2\r\n\ttab \"quoted\" back\\slash \b\f\x00\x1f end"})
	out = append(out, contentCase{"literal escape text", `< \n \\u2028 \"`})
	out = append(out, contentCase{"html-ish", `<a href="https://example.com/?a=1&b=2">x</a>`})
	out = append(out, contentCase{"mixed unicode", "a\u2028b\u2029c\x7f\ufffd\U0001F600<>&\x01"})
	out = append(out, contentCase{"json-looking", `{"k":[1,2,{"x":"y"}],"z":null}`})
	var sb strings.Builder
	unit := "0123456789 abcdefghij \"q\" \\ \n\t é あ \U0001F600 |"
	for sb.Len() < 5000 {
		sb.WriteString(unit)
	}
	out = append(out, contentCase{"long 5 kB", sb.String()})
	return out
}

// The five code points encoding/json escapes although NIP-01 wants them verbatim; base events
// of the tamper part avoid them so that tampering is judged on events the tree accepts.
func hasSuspect(s string) bool { return strings.ContainsAny(s, "<>&\u2028\u2029") }

func tagsHaveSuspect(tags []mocrelay.Tag) bool {
	for _, t := range tags {
		for _, v := range t {
			if hasSuspect(v) {
				return true
			}
		}
	}
	return false
}

func cloneTags(tags []mocrelay.Tag) []mocrelay.Tag {
	out := make([]mocrelay.Tag, len(tags))
	for i, t := range tags {
		out[i] = append(mocrelay.Tag{}, t...)
	}
	return out
}

func cloneEvent(ev *mocrelay.Event) *mocrelay.Event {
	cp := *ev
	cp.Tags = cloneTags(ev.Tags)
	return &cp
}

type prodIdx struct{ key, kind, created, tag, content int }

func buildSigned(signers []signer, contents []contentCase, ix prodIdx) (*mocrelay.Event, error) {
	ev := &mocrelay.Event{
		Pubkey:    signers[ix.key].pubHex,
		CreatedAt: prodCreated[ix.created],
		Kind:      prodKinds[ix.kind],
		Tags:      cloneTags(prodTags[ix.tag].tags),
		Content:   contents[ix.content].s,
	}
	if err := signEvent(ev, &signers[ix.key]); err != nil {
		return nil, err
	}
	return ev, nil
}

// ---------------------------------------------------------------------------------------------
// presentation helpers

func clip(s string, n int) string {
	if len(s) <= n {
		return s
	}
	// cut on a rune boundary
	for n > 0 && !utf8.RuneStart(s[n]) {
		n--
	}
	return s[:n] + fmt.Sprintf("…(+%d bytes)", len(s)-n)
}

// showEvent is the replay artefact of a case: everything needed to rebuild the event. Strings
// are shown Go-quoted (ASCII only) so that the exact code points survive any JSON re-encoding.
func showEvent(ev *mocrelay.Event) map[string]any {
	tags := make([]string, len(ev.Tags))
	for i, t := range ev.Tags {
		vs := make([]string, len(t))
		for j, v := range t {
			vs[j] = strconv.QuoteToASCII(v)
		}
		tags[i] = "[" + strings.Join(vs, ",") + "]"
	}
	return map[string]any{
		"id":         ev.ID,
		"pubkey":     ev.Pubkey,
		"created_at": ev.CreatedAt,
		"kind":       ev.Kind,
		"tags":       tags,
		"content_go": clip(strconv.QuoteToASCII(ev.Content), 400),
		"sig":        ev.Sig,
	}
}

func cpName(r rune) string { return fmt.Sprintf("U+%04X", r) }

// parallelFor runs f(i) for i in [0,n) on all cores; f must only write to slots it owns.
func parallelFor(n int, f func(i int)) {
	workers := runtime.NumCPU()
	if workers > n {
		workers = n
	}
	if workers < 1 {
		workers = 1
	}
	var next int64 = -1
	var wg sync.WaitGroup
	for w := 0; w < workers; w++ {
		wg.Add(1)
		go func() {
			defer wg.Done()
			for {
				i := int(atomic.AddInt64(&next, 1))
				if i >= n {
					return
				}
				f(i)
			}
		}()
	}
	wg.Wait()
}
