// Command c01 holds the sub-checks of property C01 (event authenticity): the serialized form
// that is hashed into the id, acceptance of every correctly signed event, and rejection of every
// single-bit / single-field alteration of a signed event. Everything is an exhaustive, fixed-order
// enumeration; nothing is sampled.
package main

import "verifkit/vk"

var parts = map[string]func(*vk.Ctx){
	"c01-serialize": c01Serialize,
	"c01-sign":      c01Sign,
	"c01-tamper":    c01Tamper,
	"c01-calls":     c01Calls,
}

func main() { vk.RunPart(parts) }
