package main

import (
	"bytes"
	"fmt"
	"strings"

	"github.com/high-moctane/mocrelay"
	"verifkit/vk"
)

// c01Calls: every sequence of Serialize / Verify calls up to a depth, in one goroutine, over a small
// alphabet of authentic and altered events. A verdict or a serialized form must depend on the event
// alone: never on what was serialized or verified before, and a returned serialization must stay
// what it was when later calls are made (state shared between calls - a scratch buffer, a cache -
// is where that breaks).
func c01Calls(c *vk.Ctx) {
	signers := loadSigners(c)
	mk := func(key int, created, kind int64, tags []mocrelay.Tag, content string) *mocrelay.Event {
		ev := &mocrelay.Event{Pubkey: signers[key].pubHex, CreatedAt: created, Kind: kind, Tags: tags, Content: content}
		if err := signEvent(ev, &signers[key]); err != nil {
			c.Infra("reference signer failed: %v", err)
		}
		return ev
	}
	A := mk(0, 1700000000, 1, []mocrelay.Tag{{"t", "demo"}}, "pay 100 sats to alice"+strings.Repeat(" ", 280))
	B := mk(1, 1700000001, 1, []mocrelay.Tag{}, "gm")
	C := mk(2, 1700000002, 30023, []mocrelay.Tag{{"d", "<&>"}}, "a<b>&c  \x01\"\\ \U0001F600")
	D := mk(3, 5, 0, []mocrelay.Tag{{"e", A.ID}, {"p", B.Pubkey}}, strings.Repeat("x", 90))
	At := cloneEvent(A) // same length, one character changed, id and sig kept
	At.Content = strings.Replace(At.Content, "100", "900", 1)
	Bi := cloneEvent(B) // id (and sig) of another authentic event
	Bi.ID, Bi.Sig = A.ID, A.Sig
	type item struct {
		name      string
		ev        *mocrelay.Event
		authentic bool
	}
	items := []item{{"A", A, true}, {"B", B, true}, {"C", C, true}, {"D", D, true}, {"A'(content altered)", At, false}, {"B'(id,sig of A)", Bi, false}}
	depth := vk.Pick(c, 3, 4)
	if v := c.ArgInt("depth", 0); v > 0 {
		depth = v
	}
	nOps := 2 * len(items)
	c.P.Bound = fmt.Sprintf("call sequences of length <= %d over %d operations", depth, nOps)
	c.P.Rule = fmt.Sprintf("E2: every sequence of up to %d calls from {Serialize(e), Verify(e)} x e in {4 correctly signed events of different lengths and keys (one with < > & U+2028 U+2029, a control, an astral character), one with its content altered at equal length, one carrying the id and sig of another authentic event}, run in one goroutine on the real methods; oracle after every call: the verdict equals the reference verdict of that event, the returned serialization equals the NIP-01 reference, and every serialization returned EARLIER in the sequence is still byte-identical to what it was", depth)
	c.Assume("one goroutine: what calls share (if anything) is handed from one call to the next deterministically; concurrent calls are the business of part c01-concurrent")
	opName := func(op int) string {
		if op%2 == 0 {
			return "Serialize(" + items[op/2].name + ")"
		}
		return "Verify(" + items[op/2].name + ")"
	}
	refs := make([][]byte, len(items))
	for i, it := range items {
		refs[i] = refSerialize(it.ev)
	}
	var seq []int
	var rec func()
	run := func() {
		type kept struct {
			item int
			out  []byte
		}
		var held []kept
		names := make([]string, len(seq))
		for i, op := range seq {
			names[i] = opName(op)
		}
		where := strings.Join(names, "; ")
		replay := map[string]any{"sequence": names}
		for step, op := range seq {
			it := items[op/2]
			if op%2 == 0 {
				out, err, pan := safeSerialize(it.ev)
				if pan != nil || err != nil {
					c.Violate("C01/calls: Serialize fails in a call sequence", fmt.Sprintf("[%s] step %d: err=%v panic=%v", where, step, err, pan), replay)
					return
				}
				if !bytes.Equal(out, refs[op/2]) {
					c.Violate("C01/calls: Serialize returns a different form after earlier calls", fmt.Sprintf("[%s] step %d: got %q want %q", where, step, clip(string(out), 120), clip(string(refs[op/2]), 120)), replay)
					return
				}
				held = append(held, kept{op / 2, out})
			} else {
				ok, err, pan := safeVerify(it.ev)
				if pan != nil {
					c.Violate("C01/calls: Verify panics in a call sequence", fmt.Sprintf("[%s] step %d: %v", where, step, pan), replay)
					return
				}
				if (ok && err == nil) != it.authentic {
					c.Violate(fmt.Sprintf("C01/calls: verdict depends on earlier calls (authentic=%v reported %v)", it.authentic, ok), fmt.Sprintf("[%s] step %d: Verify = (%v, %v)", where, step, ok, err), replay)
					return
				}
			}
			for _, k := range held {
				if !bytes.Equal(k.out, refs[k.item]) {
					c.Violate("C01/calls: a serialization returned earlier changed under a later call", fmt.Sprintf("[%s] after step %d: the result of Serialize(%s) now reads %q", where, step, items[k.item].name, clip(string(k.out), 120)), replay)
					return
				}
			}
		}
		c.Eval(int64(len(seq)))
		c.DistinctN(1)
	}
	rec = func() {
		if len(seq) > 0 {
			run()
		}
		if len(seq) == depth || c.NViolations() >= 8 {
			return
		}
		for op := 0; op < nOps; op++ {
			seq = append(seq, op)
			rec()
			seq = seq[:len(seq)-1]
		}
	}
	rec()
	c.Outcome("all verdicts and forms independent of call history")
}
