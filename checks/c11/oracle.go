package main

import (
	"encoding/json"
	"fmt"
	"sort"
	"unicode/utf8"

	"github.com/high-moctane/mocrelay"
)

// admit is the composition under test, exactly as in Relay.serveRead (relay.go): the frame must
// be valid UTF-8 and valid JSON, ParseClientMsg must succeed and ValidClientMsg must hold.
type admitRes struct {
	ok       bool
	stage    string // where it was turned away: "json", "parse", "valid", "panic"; "" when admitted
	err      string
	msg      mocrelay.ClientMsg
	panicked any
}

func admit(t []byte) (r admitRes) {
	defer func() {
		if p := recover(); p != nil {
			r = admitRes{stage: "panic", panicked: p, err: fmt.Sprint(p)}
		}
	}()
	if !utf8.Valid(t) || !json.Valid(t) {
		return admitRes{stage: "json"}
	}
	msg, err := mocrelay.ParseClientMsg(t)
	if err != nil {
		return admitRes{stage: "parse", err: err.Error()}
	}
	if !mocrelay.ValidClientMsg(msg) {
		return admitRes{stage: "valid", msg: msg}
	}
	return admitRes{ok: true, msg: msg}
}

// valueBreaks inspects the decoded value of an admitted message and returns the constraints of
// the property statement it breaks (sorted, de-duplicated). Only constraints the statement lists
// are looked at; the unclaimed zones (empty tag names in filters, non-ASCII names, odd spellings of
// the kind inside an #a value, since > until, subscription ids, created_at sign) are passed over.
func valueBreaks(msg mocrelay.ClientMsg) []string {
	set := map[string]struct{}{}
	add := func(s string) { set[s] = struct{}{} }
	switch m := msg.(type) {
	case nil:
		add("a message that decoded to nil")
	case *mocrelay.ClientEventMsg:
		if m == nil {
			add("a message that decoded to nil")
		} else {
			eventBreaks(m.Event, add)
		}
	case *mocrelay.ClientAuthMsg:
		if m == nil {
			add("a message that decoded to nil")
		} else {
			eventBreaks(m.Event, add)
		}
	case *mocrelay.ClientReqMsg:
		if m == nil {
			add("a message that decoded to nil")
		} else {
			filtersBreak(m.ReqFilters, add)
		}
	case *mocrelay.ClientCountMsg:
		if m == nil {
			add("a message that decoded to nil")
		} else {
			filtersBreak(m.ReqFilters, add)
		}
	case *mocrelay.ClientCloseMsg:
		if m == nil {
			add("a message that decoded to nil")
		}
	default:
		add("a message of an unknown Go type")
	}
	out := make([]string, 0, len(set))
	for s := range set {
		out = append(out, s)
	}
	sort.Strings(out)
	return out
}

func eventBreaks(ev *mocrelay.Event, add func(string)) {
	if ev == nil {
		add("an EVENT/AUTH message without an event")
		return
	}
	if !lowerHex(ev.ID, 64) {
		add("event id not 64 lowercase hex")
	}
	if !lowerHex(ev.Pubkey, 64) {
		add("event pubkey not 64 lowercase hex")
	}
	if !lowerHex(ev.Sig, 128) {
		add("event sig not 128 lowercase hex")
	}
	if ev.Kind < 0 || ev.Kind > 65535 {
		add("event kind out of 0..65535")
	}
	for _, t := range ev.Tags {
		if len(t) == 0 {
			add("empty event tag")
		} else if t[0] == "" {
			add("event tag with empty name")
		}
	}
}

func filtersBreak(fs []*mocrelay.ReqFilter, add func(string)) {
	if len(fs) == 0 {
		add("REQ/COUNT without a filter")
	}
	for _, f := range fs {
		if f == nil {
			continue // a nil filter can only come from JSON null: unclaimed
		}
		for _, id := range f.IDs {
			if !lowerHex(id, 64) {
				add("filter ids value not 64 lowercase hex")
			}
		}
		for _, pk := range f.Authors {
			if !lowerHex(pk, 64) {
				add("filter authors value not 64 lowercase hex")
			}
		}
		for _, k := range f.Kinds {
			if k < 0 || k > 65535 {
				add("filter kind out of range")
			}
		}
		for name, vals := range f.Tags {
			switch {
			case name == "":
				continue // unclaimed
			case len(name) == 1 && asciiLetter(name[0]):
			case utf8.RuneCountInString(name) == 1:
				continue // non-ASCII single character: unclaimed
			default:
				add("tag filter name not a single letter")
				continue
			}
			for _, v := range vals {
				switch name {
				case "e", "p":
					if !lowerHex(v, 64) {
						add("#" + name + " value not 64 lowercase hex")
					}
				case "a":
					kind, pk, _, ok := naddrParts(v)
					if !ok {
						add("#a value not of the form kind:pubkey:d")
						continue
					}
					switch naddrKind(kind) {
					case kindOutOfRange:
						add("#a value with out-of-range kind")
					case kindNotInteger:
						add("#a value with non-integer kind")
					}
					if !lowerHex(pk, 64) {
						add("#a value with malformed pubkey")
					}
				}
			}
		}
		if f.Since != nil && *f.Since < 0 {
			add("negative since")
		}
		if f.Until != nil && *f.Until < 0 {
			add("negative until")
		}
		if f.Limit != nil && *f.Limit < 0 {
			add("negative limit")
		}
	}
}
