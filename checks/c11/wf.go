package main

import (
	"math/big"
	"strings"
)

// W: the independent, three-valued well-formedness predicate over a JSON text.
//
//   wfOK         the text is a well-formed client message in the sense of the property statement:
//                the gate must admit it.
//   wfIll        the text breaks one of the constraints the statement lists: the gate must not
//                admit it.
//   wfUnclaimed  the statement (and NIP-01) are silent or ambiguous: nothing is claimed.
//
// An unclaimed feature anywhere in the text makes the whole text unclaimed (it wins over "ill"),
// so that W never claims anything about a text that touches an ambiguous zone.

type wfStatus uint8

const (
	wfOK wfStatus = iota
	wfIll
	wfUnclaimed
)

func (s wfStatus) String() string { return [...]string{"well-formed", "ill-formed", "unclaimed"}[s] }

type verdict struct {
	st    wfStatus
	why   string // class of the (first) reason; stable, no positions or values
	label string // the message label when it is one of the five known ones
}

// fatal: ill-formed under every reading, even when the text also touches an unclaimed zone
// (an event member that is missing stays missing whatever extra or repeated members there are).
type acc struct{ fatal, ill, uncl string }

func (a *acc) dead(s string) {
	if a.fatal == "" {
		a.fatal = s
	}
}

func (a *acc) bad(s string) {
	if a.ill == "" {
		a.ill = s
	}
}
func (a *acc) skip(s string) {
	if a.uncl == "" {
		a.uncl = s
	}
}

func W(t []byte) verdict {
	root, err := parseJSON(t, false)
	if err != nil {
		if _, err2 := parseJSON(t, true); err2 == nil {
			return verdict{wfUnclaimed, "U+000C used as whitespace", "-"}
		}
		return verdict{wfIll, "not a JSON text", "-"}
	}
	var a acc
	wfMsg(root, &a)
	lab := "-"
	if root.k == jArr && len(root.elems) > 0 && root.elems[0].k == jStr && knownLabels[root.elems[0].str] {
		lab = root.elems[0].str
	}
	switch {
	case a.fatal != "":
		return verdict{wfIll, a.fatal, lab}
	case a.uncl != "":
		return verdict{wfUnclaimed, a.uncl, lab}
	case a.ill != "":
		return verdict{wfIll, a.ill, lab}
	}
	return verdict{wfOK, "", lab}
}

// want checks the JSON type of a node; null is always unclaimed.
func want(a *acc, n *jv, k jkind, role string) bool {
	if n.k == jNull {
		a.skip("null in place of " + role)
		return false
	}
	if n.k != k {
		a.bad("wrong JSON type at " + role)
		return false
	}
	return true
}

func hasEscape(n *jv) bool { return strings.IndexByte(n.raw, '\\') >= 0 }

func lowerHex(s string, n int) bool {
	if len(s) != n {
		return false
	}
	for i := 0; i < len(s); i++ {
		c := s[i]
		if !(c >= '0' && c <= '9' || c >= 'a' && c <= 'f') {
			return false
		}
	}
	return true
}

const (
	numCanonical   = iota // -?(0|[1-9][0-9]*), not "-0"
	numOddSpelling        // integral value written with a fraction / exponent, or "-0"
	numNonInteger
)

var (
	bigZero   = big.NewInt(0)
	bigMaxK   = big.NewInt(65535)
	bigMaxI64 = new(big.Int).SetUint64(1<<63 - 1)
)

func classifyNum(raw string) (*big.Int, int) {
	if strings.ContainsAny(raw, ".eE") {
		r, ok := new(big.Rat).SetString(raw)
		if !ok {
			return nil, numNonInteger
		}
		if r.IsInt() {
			return new(big.Int).Set(r.Num()), numOddSpelling
		}
		return nil, numNonInteger
	}
	v, ok := new(big.Int).SetString(raw, 10)
	if !ok {
		return nil, numNonInteger
	}
	if raw == "-0" {
		return v, numOddSpelling
	}
	return v, numCanonical
}

// integer reads a number node as an integer; ok=false when nothing more can be said about it.
func integer(a *acc, n *jv, role string) (*big.Int, bool) {
	if !want(a, n, jNum, role) {
		return nil, false
	}
	v, cl := classifyNum(n.raw)
	switch cl {
	case numNonInteger:
		a.bad(role + " is not an integer")
		return nil, false
	case numOddSpelling:
		a.skip("integer written with fraction, exponent or as -0")
		return nil, false
	}
	return v, true
}

var knownLabels = map[string]bool{"EVENT": true, "REQ": true, "CLOSE": true, "AUTH": true, "COUNT": true}

func wfMsg(root *jv, a *acc) {
	if !want(a, root, jArr, "message") {
		return
	}
	if len(root.elems) == 0 {
		a.bad("message array without a label")
		return
	}
	lab := root.elems[0]
	if !want(a, lab, jStr, "label") {
		return
	}
	if hasEscape(lab) {
		a.skip("escape sequence in the label")
		return
	}
	if !knownLabels[lab.str] {
		a.bad("unknown label")
		return
	}
	switch lab.str {
	case "EVENT", "AUTH":
		if len(root.elems) != 2 {
			a.bad("wrong number of elements in " + lab.str + " message")
			return
		}
		wfEvent(root.elems[1], a, lab.str == "AUTH")
	case "REQ", "COUNT":
		if len(root.elems) < 3 {
			a.bad("wrong number of elements in " + lab.str + " message")
			return
		}
		wfSubID(root.elems[1], a)
		for _, f := range root.elems[2:] {
			wfFilter(f, a)
		}
	case "CLOSE":
		if len(root.elems) != 2 {
			a.bad("wrong number of elements in CLOSE message")
			return
		}
		wfSubID(root.elems[1], a)
	}
}

func wfSubID(n *jv, a *acc) {
	if !want(a, n, jStr, "subscription id") {
		return
	}
	if l := len([]rune(n.str)); l == 0 || l > 64 || len(n.str) > 64 {
		a.skip("subscription id empty or longer than 64")
	}
}

var eventMembers = []string{"id", "pubkey", "created_at", "kind", "tags", "content", "sig"}

func members(n *jv, a *acc, what string) map[string]*jv {
	m := map[string]*jv{}
	for i, k := range n.keys {
		if hasEscape(k) {
			a.skip("escape sequence in a member name")
		}
		if _, dup := m[k.str]; dup {
			a.skip("duplicate " + what + " member")
		}
		m[k.str] = n.elems[i]
	}
	return m
}

func wfEvent(n *jv, a *acc, isAuth bool) {
	if !want(a, n, jObj, "event") {
		return
	}
	m := members(n, a, "event")
	known := 0
	for _, name := range eventMembers {
		if _, ok := m[name]; ok {
			known++
		} else {
			a.dead("event member missing")
		}
	}
	if len(m) > known {
		a.skip("extra event member")
	}
	if v, ok := m["id"]; ok && want(a, v, jStr, "event.id") && !lowerHex(v.str, 64) {
		a.bad("event id not 64 lowercase hex")
	}
	if v, ok := m["pubkey"]; ok && want(a, v, jStr, "event.pubkey") && !lowerHex(v.str, 64) {
		a.bad("event pubkey not 64 lowercase hex")
	}
	if v, ok := m["sig"]; ok && want(a, v, jStr, "event.sig") && !lowerHex(v.str, 128) {
		a.bad("event sig not 128 lowercase hex")
	}
	if v, ok := m["content"]; ok {
		want(a, v, jStr, "event.content")
	}
	if v, ok := m["created_at"]; ok {
		if x, ok := integer(a, v, "event.created_at"); ok {
			if x.Sign() < 0 {
				a.skip("negative created_at")
			} else if x.Cmp(bigMaxI64) > 0 {
				a.skip("created_at beyond int64")
			}
		}
	}
	if v, ok := m["kind"]; ok {
		if x, ok := integer(a, v, "event.kind"); ok {
			if x.Sign() < 0 || x.Cmp(bigMaxK) > 0 {
				a.bad("event kind out of 0..65535")
			} else if isAuth && x.Int64() != 22242 {
				a.skip("AUTH event of a kind other than 22242")
			}
		}
	}
	if v, ok := m["tags"]; ok && want(a, v, jArr, "event.tags") {
		for _, tag := range v.elems {
			if !want(a, tag, jArr, "event.tags[]") {
				continue
			}
			if len(tag.elems) == 0 {
				a.bad("empty event tag")
				continue
			}
			allStr := true
			for _, e := range tag.elems {
				if !want(a, e, jStr, "event.tags[][]") {
					allStr = false
				}
			}
			if allStr && tag.elems[0].str == "" {
				a.bad("event tag with empty name")
			}
		}
	}
}

func asciiLetter(c byte) bool { return c >= 'A' && c <= 'Z' || c >= 'a' && c <= 'z' }

func wfFilter(n *jv, a *acc) {
	if !want(a, n, jObj, "filter") {
		return
	}
	m := members(n, a, "filter")
	var since, until *big.Int
	for i, kn := range n.keys {
		k, v := kn.str, n.elems[i]
		switch {
		case k == "ids" || k == "authors":
			if !want(a, v, jArr, "filter."+k) {
				continue
			}
			for _, e := range v.elems {
				if want(a, e, jStr, "filter."+k+"[]") && !lowerHex(e.str, 64) {
					a.bad("filter " + k + " value not 64 lowercase hex")
				}
			}
		case k == "kinds":
			if !want(a, v, jArr, "filter.kinds") {
				continue
			}
			for _, e := range v.elems {
				if x, ok := integer(a, e, "filter.kinds[]"); ok && (x.Sign() < 0 || x.Cmp(bigMaxK) > 0) {
					a.bad("filter kind out of range")
				}
			}
		case k == "since" || k == "until" || k == "limit":
			x, ok := integer(a, v, "filter."+k)
			if !ok {
				continue
			}
			switch {
			case x.Sign() < 0:
				a.bad("negative " + k)
			case x.Cmp(bigMaxI64) > 0:
				a.skip(k + " beyond int64")
			case k == "limit" && x.Cmp(big.NewInt(500)) > 0:
				a.skip("limit above 500 (a relay maximum may apply)")
			}
			if k == "since" && x.Sign() >= 0 {
				since = x
			}
			if k == "until" && x.Sign() >= 0 {
				until = x
			}
		case strings.HasPrefix(k, "#"):
			name := k[1:]
			switch {
			case name == "":
				a.skip("empty tag name in a filter")
				continue
			case len(name) == 1 && asciiLetter(name[0]):
			case len([]rune(name)) == 1 && name[0] >= 0x80:
				a.skip("non-ASCII single-character tag filter name")
				continue
			default:
				a.bad("tag filter name not a single letter")
				continue
			}
			if !want(a, v, jArr, "filter.#"+name) {
				continue
			}
			for _, e := range v.elems {
				if !want(a, e, jStr, "filter.#"+name+"[]") {
					continue
				}
				switch name {
				case "e", "p":
					if !lowerHex(e.str, 64) {
						a.bad("#" + name + " value not 64 lowercase hex")
					}
				case "a":
					wfNaddr(e.str, a)
				}
			}
		default:
			a.skip("unknown filter member")
		}
	}
	_ = m
	if since != nil && until != nil && since.Cmp(until) > 0 {
		a.skip("since greater than until")
	}
}

// naddrParts splits kind:pubkey:d at the first two colons ("for any d": d may contain ':').
func naddrParts(s string) (kind, pk, d string, ok bool) {
	i := strings.IndexByte(s, ':')
	if i < 0 {
		return
	}
	j := strings.IndexByte(s[i+1:], ':')
	if j < 0 {
		return
	}
	return s[:i], s[i+1 : i+1+j], s[i+2+j:], true
}

const (
	kindOK = iota
	kindOutOfRange
	kindNotInteger
	kindOddSpelling // "+5", "007": an integer, but not in canonical decimal form -> unclaimed
)

func naddrKind(s string) int {
	if s == "" {
		return kindNotInteger
	}
	digits := s
	neg := false
	signed := false
	if s[0] == '-' || s[0] == '+' {
		neg = s[0] == '-'
		signed = true
		digits = s[1:]
	}
	if digits == "" {
		return kindNotInteger
	}
	for i := 0; i < len(digits); i++ {
		if !isDigit(digits[i]) {
			return kindNotInteger
		}
	}
	v, _ := new(big.Int).SetString(digits, 10)
	if neg && v.Sign() != 0 {
		return kindOutOfRange
	}
	if signed || (len(digits) > 1 && digits[0] == '0') {
		return kindOddSpelling
	}
	if v.Cmp(bigMaxK) > 0 {
		return kindOutOfRange
	}
	return kindOK
}

func wfNaddr(s string, a *acc) {
	kind, pk, _, ok := naddrParts(s)
	if !ok {
		a.bad("#a value not of the form kind:pubkey:d")
		return
	}
	switch naddrKind(kind) {
	case kindOutOfRange:
		a.bad("#a value with out-of-range kind")
	case kindNotInteger:
		a.bad("#a value with non-integer kind")
	case kindOddSpelling:
		a.skip("#a kind not in canonical decimal form")
	}
	if !lowerHex(pk, 64) {
		a.bad("#a value with malformed pubkey")
	}
}
