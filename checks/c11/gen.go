package main

import (
	"strconv"
	"strings"
)

// Generator of well-formed client messages. A message is described by a vector of choices; choice
// 0 of every dimension is the plain default, so a spec's "features" are its non-zero choices and
// the class of a rejected case can be named by the feature that is rejected on its own.

const (
	tEVENT = iota
	tAUTH
	tREQ
	tCOUNT
	tCLOSE
)

var typName = [...]string{"EVENT", "AUTH", "REQ", "COUNT", "CLOSE"}

var (
	hexMix64  = strings.Repeat("0123456789abcdef", 4)
	hexMixB64 = strings.Repeat("fedcba9876543210", 4)
	hexMix128 = strings.Repeat("89abcdef01234567", 8)
	hexX      = strings.Repeat("a1", 32)
	hexY      = strings.Repeat("b2", 32)
)

type dim struct {
	name   string
	labels []string // labels[0] == "" (default)
	prod   int      // number of leading choices that take part in the full products (0 = all); the
	// remaining choices are exercised as single features, in two-filter messages and under corruption
}

func (d dim) prodLen() int {
	if d.prod > 0 {
		return d.prod
	}
	return len(d.labels)
}

func kindLabels(prefix string, kinds []string) []string {
	out := make([]string, len(kinds))
	for i, k := range kinds {
		out[i] = prefix + k
	}
	return out
}

// ---- event dimensions ----
const (
	eKind = iota
	eCreated
	eTags
	eContent
	eOrder
	eHex
	nEvDims
)

var evDims = [nEvDims]dim{
	{"kind", append([]string{""}, kindLabels("event kind ", evKinds[1:])...), 6},
	{"created_at", []string{"", "created_at 0", "created_at 1"}, 0},
	{"tags", []string{"", "event with an e tag", "event with p and t tags", "event with an a tag", "event with a one-element tag", "event with relay and challenge tags"}, 0},
	{"content", []string{"", `content "a"`, "content with < > & and a space", "content with escaped newline and quote", "content with a non-ASCII character"}, 0},
	{"order", []string{"", "event members in reverse order", "event members with sig first", "event members interleaved"}, 0},
	{"hex", []string{"", "id/pubkey/sig made of '0' only", "id/pubkey/sig made of 'f' only"}, 0},
}

// evKinds: the first six take part in the event product; the others are the boundaries of the kind
// ranges NIP-01 names (regular / replaceable / ephemeral / addressable), tried one at a time.
var evKinds = []string{"1", "0", "5", "65535", "32767", "32768", "9999", "10000", "19999", "20000", "29999", "30000", "39999", "40000"}

var (
	evCreated  = []string{"1700000000", "0", "1"}
	evContents = []string{"", "a", "<>& ", "\n\"", "é"}
	evOrders   = [][7]int{{0, 1, 2, 3, 4, 5, 6}, {6, 5, 4, 3, 2, 1, 0}, {6, 0, 1, 2, 3, 4, 5}, {3, 5, 0, 4, 6, 1, 2}}
)

func evTags(choice int) *jv {
	switch choice {
	case 1:
		return A(SA("e", hexX))
	case 2:
		return A(SA("p", hexX), SA("t", "x"))
	case 3:
		return A(SA("a", "30023:"+hexX+":x"))
	case 4:
		return A(SA("x"))
	case 5:
		return A(SA("relay", "wss://r.example/"), SA("challenge", "c"))
	}
	return A()
}

func buildEvent(s [nEvDims]int, auth bool) *jv {
	id, pk, sig := hexMix64, hexMixB64, hexMix128
	switch s[eHex] {
	case 1:
		id, pk, sig = strings.Repeat("0", 64), strings.Repeat("0", 64), strings.Repeat("0", 128)
	case 2:
		id, pk, sig = strings.Repeat("f", 64), strings.Repeat("f", 64), strings.Repeat("f", 128)
	}
	kind := evKinds[s[eKind]]
	if auth {
		kind = "22242"
	}
	names := eventMembers
	vals := [7]*jv{S(id), S(pk), N(evCreated[s[eCreated]]), N(kind), evTags(s[eTags]), S(evContents[s[eContent]]), S(sig)}
	o := O()
	for _, i := range evOrders[s[eOrder]] {
		o.put(names[i], vals[i])
	}
	return o
}

// ---- filter dimensions ----
const (
	fIDs = iota
	fAuthors
	fKinds
	fE
	fP
	fT
	fA
	fUpE
	fSince
	fUntil
	fLimit
	fOrder
	nFDims
)

var fDims = [nFDims]dim{
	{"ids", []string{"", "ids with one value", "ids empty array", "ids with two values"}, 0},
	{"authors", []string{"", "authors with one value", "authors empty array", "authors with two values"}, 0},
	{"kinds", []string{"", "kinds [0]", "kinds [65535]", "kinds [1,7]", "kinds empty array", "kinds [32767,32768]", "kinds [9999,10000]", "kinds [19999,20000,29999]", "kinds [30000,39999,40000]"}, 6},
	{"#e", []string{"", "#e with one value", "#e empty array"}, 0},
	{"#p", []string{"", "#p with one value"}, 0},
	{"#t", []string{"", "#t with one value"}, 0},
	{"#a", append([]string{"", "#a value with empty d", `#a value with d "x"`, "#a value with ':' inside d", "#a value of a replaceable kind"}, kindLabels("#a value with kind part ", naddrKinds)...), 7},
	{"#E", []string{"", "#E (upper-case single letter)"}, 0},
	{"since", []string{"", "since 0", "since 5"}, 0},
	{"until", []string{"", "until 5", "until 9"}, 0},
	{"limit", []string{"", "limit 0", "limit 1", "limit 500"}, 0},
	{"order", []string{"", "filter members in reverse order"}, 0},
}

// naddrKinds: kind parts of #a values beyond 30023 / 10002 — every value in 0..65535 is a kind, the
// statement's only constraint. The first two take part in the filter product.
var naddrKinds = []string{"65535", "32768", "0", "1", "9999", "10000", "30000", "32767", "35000", "39999", "40000"}

var naddrChoices = func() []string {
	out := []string{"", "30023:" + hexX + ":", "30023:" + hexX + ":x", "30023:" + hexX + ":x:y:z", "10002:" + hexX + ":"}
	for i, k := range naddrKinds {
		d := "name"
		if i%2 == 0 {
			d = ""
		}
		out = append(out, k+":"+hexX+":"+d)
	}
	return out
}()

var fKindLists = [][]string{nil, {"0"}, {"65535"}, {"1", "7"}, {}, {"32767", "32768"}, {"9999", "10000"}, {"19999", "20000", "29999"}, {"30000", "39999", "40000"}}

func hexList(choice int) *jv {
	switch choice {
	case 1:
		return SA(hexX)
	case 2:
		return SA()
	case 3:
		return SA(hexX, hexY)
	}
	return nil
}

func buildFilter(s [nFDims]int) *jv {
	type kv struct {
		k string
		v *jv
	}
	var ms []kv
	if v := hexList(s[fIDs]); v != nil {
		ms = append(ms, kv{"ids", v})
	}
	if v := hexList(s[fAuthors]); v != nil {
		ms = append(ms, kv{"authors", v})
	}
	if s[fKinds] > 0 {
		ks := A()
		for _, k := range fKindLists[s[fKinds]] {
			ks.elems = append(ks.elems, N(k))
		}
		ms = append(ms, kv{"kinds", ks})
	}
	if v := hexList(s[fE]); v != nil {
		ms = append(ms, kv{"#e", v})
	}
	if s[fP] == 1 {
		ms = append(ms, kv{"#p", SA(hexY)})
	}
	if s[fT] == 1 {
		ms = append(ms, kv{"#t", SA("x")})
	}
	if s[fA] > 0 {
		ms = append(ms, kv{"#a", SA(naddrChoices[s[fA]])})
	}
	if s[fUpE] == 1 {
		ms = append(ms, kv{"#E", SA("x")})
	}
	if s[fSince] > 0 {
		ms = append(ms, kv{"since", N([]string{"", "0", "5"}[s[fSince]])})
	}
	if s[fUntil] > 0 {
		ms = append(ms, kv{"until", N([]string{"", "5", "9"}[s[fUntil]])})
	}
	if s[fLimit] > 0 {
		ms = append(ms, kv{"limit", N([]string{"", "0", "1", "500"}[s[fLimit]])})
	}
	o := O()
	if s[fOrder] == 1 {
		for i := len(ms) - 1; i >= 0; i-- {
			o.put(ms[i].k, ms[i].v)
		}
	} else {
		for _, m := range ms {
			o.put(m.k, m.v)
		}
	}
	return o
}

// fProductSize is the number of filters in the full product of the value dimensions (order excluded).
func fProductSize() int {
	n := 1
	for d := 0; d < fOrder; d++ {
		n *= fDims[d].prodLen()
	}
	return n
}

// fFromIndex decodes a mixed-radix index into a filter spec (order = 0).
func fFromIndex(idx int) (s [nFDims]int) {
	for d := 0; d < fOrder; d++ {
		r := fDims[d].prodLen()
		s[d] = idx % r
		idx /= r
	}
	return
}

func evProductSize() int {
	n := 1
	for d := 0; d < nEvDims; d++ {
		n *= evDims[d].prodLen()
	}
	return n
}

func evFromIndex(idx int) (s [nEvDims]int) {
	for d := 0; d < nEvDims; d++ {
		r := evDims[d].prodLen()
		s[d] = idx % r
		idx /= r
	}
	return
}

// ---- message spec ----

var subIDs = []string{"s", "sub:1-x_Y", strings.Repeat("z", 64)}
var subLabels = []string{"", "subscription id with punctuation", "subscription id of 64 characters"}

type spec struct {
	typ int
	sub int
	ev  [nEvDims]int
	fs  [][nFDims]int
}

func (sp spec) build() *jv {
	switch sp.typ {
	case tEVENT:
		return A(S("EVENT"), buildEvent(sp.ev, false))
	case tAUTH:
		return A(S("AUTH"), buildEvent(sp.ev, true))
	case tCLOSE:
		return A(S("CLOSE"), S(subIDs[sp.sub]))
	}
	m := A(S(typName[sp.typ]), S(subIDs[sp.sub]))
	for _, f := range sp.fs {
		m.elems = append(m.elems, buildFilter(f))
	}
	return m
}

const (
	scEv = iota
	scFilter
	scSub
	scNFilters
)

type feat struct {
	scope, dim, choice int
}

func (f feat) label() string {
	switch f.scope {
	case scEv:
		return evDims[f.dim].labels[f.choice]
	case scFilter:
		return fDims[f.dim].labels[f.choice]
	case scSub:
		return subLabels[f.choice]
	}
	return strconv.Itoa(f.choice) + " filters"
}

func (sp spec) features() []feat {
	var fs []feat
	switch sp.typ {
	case tEVENT, tAUTH:
		for d := 0; d < nEvDims; d++ {
			if sp.typ == tAUTH && d == eKind {
				continue
			}
			if sp.ev[d] != 0 {
				fs = append(fs, feat{scEv, d, sp.ev[d]})
			}
		}
	default:
		if sp.sub != 0 {
			fs = append(fs, feat{scSub, 0, sp.sub})
		}
		if sp.typ != tCLOSE {
			if len(sp.fs) != 1 {
				fs = append(fs, feat{scNFilters, 0, len(sp.fs)})
			}
			seen := map[feat]bool{}
			for _, f := range sp.fs {
				for d := 0; d < nFDims; d++ {
					ft := feat{scFilter, d, f[d]}
					if f[d] != 0 && !seen[ft] {
						seen[ft] = true
						fs = append(fs, ft)
					}
				}
			}
		}
	}
	return fs
}

// withOnly is the plain message of a type carrying only the given features (filter features go
// into the first filter; two features of the same filter dimension cannot be combined).
func withOnly(typ int, fts ...feat) (spec, bool) {
	sp := spec{typ: typ}
	if typ == tREQ || typ == tCOUNT {
		sp.fs = [][nFDims]int{{}}
	}
	for _, f := range fts {
		switch f.scope {
		case scEv:
			sp.ev[f.dim] = f.choice
		case scSub:
			sp.sub = f.choice
		case scNFilters:
			sp.fs = make([][nFDims]int, f.choice)
		}
	}
	for _, f := range fts {
		if f.scope == scFilter {
			if len(sp.fs) == 0 {
				return sp, false
			}
			if sp.fs[0][f.dim] != 0 {
				return sp, false
			}
			sp.fs[0][f.dim] = f.choice
		}
	}
	return sp, true
}

// ---- whitespace positions ----

var wsAlphabet = []string{" ", "\n", "\t\r"}

func tokCat(toks []string, i int) string {
	t := toks[i]
	switch t[0] {
	case '[', ']', '{', '}', ',', ':':
		return "'" + t + "'"
	case '"':
		if i+1 < len(toks) && toks[i+1] == ":" {
			return "a member name"
		}
		return "a string"
	case 't', 'f':
		return "a bool"
	case 'n':
		return "null"
	}
	return "a number"
}

// wsClass names the structural position p (0..len(toks)) of a whitespace insertion.
func wsClass(toks []string, p int) string {
	switch {
	case p == 0:
		return "leading whitespace before '['"
	case p == len(toks):
		return "trailing whitespace after the last ']'"
	}
	return "whitespace between " + tokCat(toks, p-1) + " and " + tokCat(toks, p)
}
