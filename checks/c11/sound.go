package main

import (
	"fmt"
	"strings"

	"verifkit/vk"
)

// Single-point corruptions of well-formed messages. Every corruption carries what the generator
// means it to be (ill-formed / unclaimed / still well-formed); W must agree (self-check) and W
// plus the value oracle decide.

type site struct {
	parent *jv // nil for the root
	idx    int
	node   *jv
	role   string
}

func collectSites(root *jv, typ int) []site {
	out := []site{{nil, 0, root, "message"}}
	for i, e := range root.elems {
		role := "filter"
		switch {
		case i == 0:
			role = "label"
		case i == 1 && (typ == tEVENT || typ == tAUTH):
			role = "event"
		case i == 1:
			role = "subscription id"
		}
		out = append(out, site{root, i, e, role})
		if e.k != jObj {
			continue
		}
		for j, v := range e.elems {
			r := role + "." + e.keys[j].str
			out = append(out, site{e, j, v, r})
			if v.k != jArr {
				continue
			}
			for k, x := range v.elems {
				out = append(out, site{v, k, x, r + "[]"})
				if x.k == jArr {
					for l, y := range x.elems {
						out = append(out, site{x, l, y, r + "[][]"})
					}
				}
			}
		}
	}
	return out
}

type strVar struct{ label, v string }

func hexVariants(h string) []strVar {
	vs := []strVar{
		{"one character short", h[:len(h)-1]},
		{"one character long", h + "0"},
		{"empty", ""},
		{"two characters short", h[:len(h)-2]},
		{"half length", h[:len(h)/2]},
		{"double length", h + h},
	}
	if up := strings.ToUpper(h); up != h {
		vs = append(vs, strVar{"all hex digits upper-case", up})
	}
	for i := 0; i < len(h); i++ {
		if h[i] >= 'a' && h[i] <= 'f' {
			vs = append(vs, strVar{"one upper-case hex digit", h[:i] + string(h[i]-32) + h[i+1:]})
		}
		vs = append(vs, strVar{"one non-hex character 'g'", h[:i] + "g" + h[i+1:]})
	}
	for _, i := range []int{0, len(h) / 2, len(h) - 1} {
		for _, ch := range []string{"G", "/", ":", "@", "`", " ", "é"} {
			vs = append(vs, strVar{"one non-hex character next to the hex ranges", h[:i] + ch + h[i+1:]})
		}
	}
	return vs
}

func corruptions(sp spec, emit func(label string, exp int, text string)) {
	root := sp.build()
	typ := sp.typ
	render := func() string { return root.text() }
	with := func(s site, repl *jv, f func()) {
		if s.parent == nil {
			old := *root
			*root = *repl
			f()
			*root = old
			return
		}
		old := s.parent.elems[s.idx]
		s.parent.elems[s.idx] = repl
		f()
		s.parent.elems[s.idx] = old
	}
	sites := collectSites(root, typ)
	isFilterMsg := typ == tREQ || typ == tCOUNT

	// 1. wrong JSON type at every node
	exemplars := []*jv{S("x"), N("1"), A(), A(N("1")), O(), O().put("a", N("1")), B(true), B(false), Null()}
	for _, s := range sites {
		for _, ex := range exemplars {
			if ex.k == s.node.k {
				continue
			}
			exp := expIll
			if ex.k == jNull {
				exp = expUnclaimed
			}
			with(s, ex, func() {
				emit("wrong JSON type at "+s.role+" ("+ex.k.String()+" for "+s.node.k.String()+")", exp, render())
			})
		}
	}

	// 2..4. field-level corruptions
	for _, s := range sites {
		s := s
		str := func(label string, exp int, v string) {
			with(s, S(v), func() { emit(s.role+": "+label, exp, render()) })
		}
		num := func(exp int, raws ...string) {
			for _, raw := range raws {
				with(s, N(raw), func() { emit(s.role+" = "+raw, exp, render()) })
			}
		}
		switch s.role {
		case "event.id", "event.pubkey", "event.sig", "filter.ids[]", "filter.authors[]", "filter.#e[]", "filter.#p[]":
			for _, v := range hexVariants(s.node.str) {
				str(v.label, expIll, v.v)
			}
		case "filter.#a[]":
			kind, pk, d, _ := naddrParts(s.node.str)
			for _, v := range hexVariants(pk) {
				str("pubkey part "+v.label, expIll, kind+":"+v.v+":"+d)
			}
			for _, k := range []string{"-1", "65536", "70000", "1.5", "", "x", "4294967297", "-30023", "99999999999999999999"} {
				str("kind part "+k, expIll, k+":"+pk+":"+d)
			}
			for _, k := range []string{"+5", "007", "+35000", "035000", "-0", "00"} {
				str("kind part "+k, expUnclaimed, k+":"+pk+":"+d)
			}
			for _, k := range []string{"0", "1", "32767", "32768", "35000", "65535"} {
				if k != kind {
					str("kind part "+k, expOK, k+":"+pk+":"+d)
				}
			}
			for _, v := range []string{kind + ":" + pk, kind, "", pk, "::", ":" + pk + ":" + d} {
				str("not of the form kind:pubkey:d", expIll, v)
			}
		case "event.kind", "filter.kinds[]":
			num(expIll, "-1", "65536", "70000", "1.5", "4294967297", "9223372036854775808", "-70000", "-9223372036854775808")
			num(expUnclaimed, "1e2", "1.0", "-0", "1E0", "0.0")
			if typ == tAUTH {
				num(expUnclaimed, "1")
			} else {
				for _, k := range []string{"0", "32767", "32768", "65535"} {
					if k != s.node.raw {
						num(expOK, k)
					}
				}
			}
		case "event.created_at":
			num(expIll, "1.5", "0.5", "-1.5")
			num(expUnclaimed, "-1", "1e2", "1.0", "-0", "9223372036854775808")
		case "filter.since", "filter.until", "filter.limit":
			num(expIll, "-1", "1.5", "-9223372036854775808", "-5")
			num(expUnclaimed, "1e2", "1.0", "-0", "9223372036854775808")
			switch s.role {
			case "filter.limit":
				num(expUnclaimed, "501", "5000", "9223372036854775807")
			case "filter.since":
				num(expAny, "10") // unclaimed when an until (5 or 9) is present, well-formed otherwise
			case "filter.until":
				num(expAny, "0")
			}
		case "subscription id":
			str("empty", expUnclaimed, "")
			str("65 characters", expUnclaimed, strings.Repeat("q", 65))
		case "label":
			for _, l := range []string{"FOO", "event", "Event", "EVENTS", "EVEN", "", "OK", "EOSE", "NOTICE", "CLOSED", "REQS", "req", "E VENT", " " + s.node.str, s.node.str + " "} {
				str("unknown label", expIll, l)
			}
			for _, l := range typName {
				if l != s.node.str {
					str("label of another message type", expAny, l)
				}
			}
			esc := &jv{k: jStr, raw: fmt.Sprintf(`"\u%04x%s"`, s.node.str[0], s.node.str[1:]), str: s.node.str}
			with(s, esc, func() { emit("label: first character as \\u escape", expUnclaimed, render()) })
		}
	}

	// 5. arity of the message array
	n := len(root.elems)
	for i := 0; i < n; i++ {
		old := root.elems
		exp := expIll
		if isFilterMsg && i >= 2 && n >= 4 {
			exp = expOK
		}
		root.elems = append(append([]*jv{}, old[:i]...), old[i+1:]...)
		emit(fmt.Sprintf("message element %d removed", i), exp, render())
		exp = expIll
		if isFilterMsg && i >= 2 {
			exp = expOK
		}
		root.elems = append(append(append([]*jv{}, old[:i+1]...), old[i]), old[i+1:]...)
		emit(fmt.Sprintf("message element %d duplicated", i), exp, render())
		root.elems = old
	}
	for _, ex := range []*jv{S("x"), N("1"), O(), A(), Null()} {
		old := root.elems
		exp := expIll
		if isFilterMsg {
			switch ex.k {
			case jObj:
				exp = expOK
			case jNull:
				exp = expUnclaimed
			}
		}
		root.elems = append(append([]*jv{}, old...), ex)
		emit("message with an extra "+ex.k.String()+" element", exp, render())
		root.elems = old
	}
	emit("empty message array", expIll, "[]")
	emit("message with the label only", expIll, A(root.elems[0]).text())

	// 6, 7, 9. members of the event / the filters; tags
	for _, s := range sites {
		if s.role != "event" && s.role != "filter" {
			continue
		}
		o := s.node
		keys, vals := o.keys, o.elems
		set := func(k []*jv, v []*jv) { o.keys, o.elems = k, v }
		insert := func(at int, k string, v *jv) {
			nk := append(append(append([]*jv{}, keys[:at]...), S(k)), keys[at:]...)
			nv := append(append(append([]*jv{}, vals[:at]...), v), vals[at:]...)
			set(nk, nv)
		}
		for i := range keys {
			exp := expIll
			if s.role == "filter" {
				exp = expOK
			}
			set(append(append([]*jv{}, keys[:i]...), keys[i+1:]...), append(append([]*jv{}, vals[:i]...), vals[i+1:]...))
			emit(s.role+" member removed", exp, render())
			for _, at := range []int{i + 1, len(keys)} {
				set(keys, vals)
				insert(at, keys[i].str, vals[i])
				emit(s.role+" member duplicated", expUnclaimed, render())
			}
			set(keys, vals)
			up := strings.ToUpper(keys[i].str)
			oldk := keys[i]
			keys[i] = S(up)
			exp = expAny // a filter "#e" becomes the well-formed "#E"; other renamed members are unknown ones
			if s.role == "event" {
				exp = expIll // the lower-case member is missing
			}
			emit(s.role+" member name in upper case", exp, render())
			keys[i] = oldk
		}
		positions := []int{0, len(keys) / 2, len(keys)}
		if s.role == "event" {
			for _, at := range positions {
				insert(at, "foo", N("1"))
				emit("extra event member", expUnclaimed, render())
				insert(at, "", S(""))
				emit("extra event member with empty name", expUnclaimed, render())
			}
		} else {
			type kvx struct {
				k   string
				v   *jv
				exp int
			}
			for _, x := range []kvx{
				{"foo", N("1"), expUnclaimed}, {"foo", A(), expUnclaimed}, {"IDS", SA(hexX), expUnclaimed}, {"e", SA(hexX), expUnclaimed},
				{"search", S("x"), expUnclaimed}, {"", A(), expUnclaimed},
				{"#ab", SA("x"), expIll}, {"#1", SA("x"), expIll}, {"##", SA("x"), expIll}, {"#_", SA("x"), expIll}, {"#e ", SA(hexX), expIll}, {"#ee", SA(hexX), expIll},
				{"#", SA("x"), expUnclaimed}, {"#é", SA("x"), expUnclaimed},
			} {
				for _, at := range positions {
					insert(at, x.k, x.v)
					emit("filter with member "+x.k, x.exp, render())
				}
			}
		}
		set(keys, vals)
	}
	for _, s := range sites {
		if s.role != "event.tags" {
			continue
		}
		tags := s.node
		old := tags.elems
		for i, tag := range old {
			tags.elems = append(append(append([]*jv{}, old[:i]...), A()), old[i+1:]...)
			emit("event tag replaced by []", expIll, render())
			tags.elems = append(append([]*jv{}, old[:i]...), old[i+1:]...)
			emit("event tag removed", expOK, render())
			tags.elems = old
			o0 := tag.elems[0]
			tag.elems[0] = S("")
			emit("event tag name emptied", expIll, render())
			tag.elems[0] = o0
		}
		for _, at := range []int{0, len(old)} {
			for _, x := range []struct {
				t   *jv
				exp int
			}{{A(), expIll}, {SA(""), expIll}, {SA("", "x"), expIll}, {A(N("1")), expIll}, {A(S("x"), N("1")), expIll}, {A(S("x"), Null()), expUnclaimed}, {SA("e"), expOK}, {SA("x", "", ""), expOK}} {
				tags.elems = append(append(append([]*jv{}, old[:at]...), x.t), old[at:]...)
				emit("event tag "+x.t.text()+" inserted", x.exp, render())
			}
		}
		tags.elems = old
	}

	// 10. not a single JSON text / other whitespace
	base := render()
	toks := root.tokens(nil)
	emit("last character dropped", expIll, base[:len(base)-1])
	emit("trailing comma", expIll, base+",")
	emit("two messages in one text", expIll, base+base)
	emit("trailing garbage", expIll, base+" x")
	emit("extra opening bracket", expIll, "["+base)
	emit("comma before the closing bracket", expIll, base[:len(base)-1]+",]")
	emit("U+00A0 as whitespace", expIll, "\u00a0"+base)
	emit("byte order mark", expIll, "\ufeff"+base)
	emit("U+000C as whitespace", expUnclaimed, "\f"+base)
	emit("U+000C as whitespace", expUnclaimed, toks[0]+"\f"+strings.Join(toks[1:], ""))
	emit("U+000C as whitespace", expUnclaimed, base+"\f")
}

// variantClass names the class of a rejected variant that is still well-formed because a kind was
// replaced by another kind of 0..65535: when the plain message carrying just that kind is turned
// away too, the kind is to blame (whatever the base message was).
func (r *runner) variantClass(cl string) string {
	var class, plain string
	switch {
	case strings.HasPrefix(cl, "filter.#a[]: kind part "):
		k := strings.TrimPrefix(cl, "filter.#a[]: kind part ")
		class, plain = "#a value with kind part "+k, `["REQ","s",{"#a":["`+k+":"+hexX+`:"]}]`
	case strings.HasPrefix(cl, "filter.kinds[] = "):
		k := strings.TrimPrefix(cl, "filter.kinds[] = ")
		class, plain = "kinds ["+k+"]", `["REQ","s",{"kinds":[`+k+`]}]`
	case strings.HasPrefix(cl, "event.kind = "):
		k := strings.TrimPrefix(cl, "event.kind = ")
		ev := spec{typ: tEVENT}.build()
		for i, key := range ev.elems[1].keys {
			if key.str == "kind" {
				ev.elems[1].elems[i] = N(k)
			}
		}
		class, plain = "event kind "+k, ev.text()
	default:
		return ""
	}
	if W([]byte(plain)).st != wfOK {
		return ""
	}
	r.admitMu.Lock()
	v, ok := r.admitOK["text:"+plain]
	r.admitMu.Unlock()
	if !ok {
		v = admit([]byte(plain)).ok
		r.admitMu.Lock()
		r.admitOK["text:"+plain] = v
		r.admitMu.Unlock()
	}
	if v {
		return ""
	}
	return class
}

func doCorrupt(w *worker, sp spec) {
	label := specLabel(sp)
	base := sp.build().text()
	baseClass := ""
	classBase := func() string {
		if baseClass == "" {
			baseClass = w.r.blame(sp)
		}
		return baseClass
	}
	r0, _ := w.eval(base, label, expOK, classBase)
	local := map[string]struct{}{}
	corruptions(sp, func(cl string, exp int, text string) {
		if _, dup := local[text]; dup {
			return
		}
		local[text] = struct{}{}
		w.eval(text, label+" | "+cl, exp, func() string {
			if c := w.r.variantClass(cl); c != "" {
				return c
			}
			if !r0.ok {
				return classBase()
			}
			// a corruption that leaves the message well-formed (e.g. a filter member removed)
			return "variant: " + cl
		})
	})
}

func c11Sound(c *vk.Ctx) {
	r := newRunner(c)
	nEv, nF := evProductSize(), fProductSize()
	strideEv := vk.Pick(c, 7, 1)
	strideF := vk.Pick(c, 1201, 61)

	c.P.Rule = fmt.Sprintf("every single-point corruption of well-formed base messages, every text through W and through the gate; an admitted text must have a decoded value that satisfies every constraint of the statement (checked on the Go value) and must not be ill-formed by W. "+
		"Corruptions: every node replaced by an exemplar of every other JSON type (string, number, [], [1], {}, {\"a\":1}, true, false; null is unclaimed); every hex field (event id/pubkey/sig, filter ids/authors/#e/#p values, pubkey part of #a values): 1 or 2 characters short, 1 long, half, double, empty, an upper-case digit at every letter position, 'g' at every position, range-boundary characters at 3 positions; event kind / filter kinds in {-1,65536,70000,1.5,2^32+1,2^63,..}; kind part of #a in {-1,65536,70000,1.5,empty,x,..}; #a values with fewer than three parts; since/until/limit in {-1,-5,1.5,-2^63}; created_at in {1.5,0.5,-1.5}; message elements removed/duplicated/appended; label replaced (15 unknown labels, the four other labels); event members removed/duplicated/renamed/extra; filter members removed/duplicated/renamed, 14 added member names (foo, #ab, #1, ##, #, ...); event tags replaced by [], name emptied, ill-typed tags inserted; texts that are not a single JSON value. "+
		"Bases: every plain and single-feature message of the five types, the all-members filters, every %d-th event of the %d-event product (EVENT; AUTH where applicable), every %d-th filter of the %d-filter product (REQ and COUNT), two-filter messages. "+
		"Non-trivial = distinct texts (64-bit hash set) on which W makes a claim; texts in an unclaimed zone are counted as unclaimed.",
		strideEv, nEv, strideF, nF)
	c.Assume("alphabet-bounded: corruptions are single-point and drawn from the stated alphabets")
	c.Assume("unclaimed zones (counted, never a violation): JSON null for any value, integers written with fraction/exponent or as -0, U+000C as whitespace, since > until, empty or over-long subscription ids, empty / non-ASCII tag names in filters, unknown non-# filter members, extra or duplicated object members, limit above 500, negative or > int64 created_at, escapes in labels or member names, AUTH events of another kind, non-canonical decimal kind inside an #a value")

	for _, t := range []string{
		`["EVENT",` + strings.Replace(spec{typ: tEVENT}.build().elems[1].text(), `"kind":1`, `"kind":70000`, 1) + `]`,
		`["REQ","s",{"kinds":[-1]}]`,
		`["REQ","s",{"#a":["70000:` + hexX + `:x"]}]`,
		`["REQ","s",{"ids":["` + hexX[:63] + `"]}]`,
		`["REQ","s",null]`,
		`["CLOSE","a","b"]`,
	} {
		v, res := W([]byte(t)), admit([]byte(t))
		s := map[string]any{"text": t, "W": v.st.String(), "W_reason": v.why, "admitted": res.ok, "stage": res.stage}
		if res.ok {
			s["value_breaks"] = valueBreaks(res.msg)
		}
		c.Sample(s)
	}

	bases := int64(0)
	sub := func(sp spec) {
		bases++
		r.submit(func(w *worker) { doCorrupt(w, sp) })
	}
	for _, sp := range singleFeatureSpecs() {
		sub(sp)
	}
	for _, typ := range []int{tREQ, tCOUNT} {
		for _, f := range fullFilters() {
			sub(spec{typ: typ, fs: [][nFDims]int{f}})
		}
		core := filterCore()
		for i, f1 := range core {
			sub(spec{typ: typ, fs: [][nFDims]int{f1, core[(i*7+3)%len(core)]}})
		}
		sub(spec{typ: typ, sub: 2, fs: [][nFDims]int{fullFilters()[4], fullFilters()[1]}})
	}
	for i := 0; i < nEv; i += strideEv {
		s := evFromIndex(i)
		sub(spec{typ: tEVENT, ev: s})
		if s[eKind] == 0 && (s[eTags] == 0 || s[eTags] == 5) {
			sub(spec{typ: tAUTH, ev: s})
		}
	}
	for i := 0; i < nF; i += strideF {
		f := fFromIndex(i)
		f[fOrder] = (i / strideF) % 2
		sub(spec{typ: tREQ, fs: [][nFDims]int{f}})
		g := fFromIndex((i + strideF/2) % nF)
		sub(spec{typ: tCOUNT, fs: [][nFDims]int{g}})
	}
	c.SetExtra("base_messages", bases)
	r.finish()
}
