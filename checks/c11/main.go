// Command c11 decides property C11 (admission: well-formed client messages are accepted, accepted
// ones are sound) by exhaustive enumeration of generated JSON texts against the composition the
// relay's read loop uses: utf8.Valid && json.Valid && ParseClientMsg == nil && ValidClientMsg.
//
// The reference is W (wf.go): an independent three-valued well-formedness predicate over the JSON
// text (own strict tokenizer, own constraint checks). A second, independent reference inspects the
// decoded *value* of every accepted message (oracle.go).
package main

import "verifkit/vk"

var parts = map[string]func(*vk.Ctx){
	"c11-complete": c11Complete,
	"c11-sound":    c11Sound,
}

func main() { vk.RunPart(parts) }
