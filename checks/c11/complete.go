package main

import (
	"fmt"
	"strconv"
	"strings"

	"verifkit/vk"
)

// blame names the class of a rejected well-formed base message: the first of its features that
// is rejected when it is the only feature of an otherwise plain message of the same type.
func (r *runner) blame(sp spec) string {
	fts := sp.features()
	if adm, _ := r.probe(sp.typ); !adm || len(fts) == 0 {
		// the plain message of this type is itself turned away: no feature is to blame
		return "plain " + typName[sp.typ] + " message"
	}
	for _, f := range fts {
		if adm, ok := r.probe(sp.typ, f); ok && !adm {
			return f.label()
		}
	}
	for i := range fts {
		for j := i + 1; j < len(fts); j++ {
			if adm, ok := r.probe(sp.typ, fts[i], fts[j]); ok && !adm {
				return "combination of " + fts[i].label() + " and " + fts[j].label()
			}
		}
	}
	ls := make([]string, len(fts))
	for i, f := range fts {
		ls[i] = f.label()
	}
	return "combination of " + strings.Join(ls, " + ")
}

func specLabel(sp spec) string {
	fts := sp.features()
	if len(fts) == 0 {
		return "plain " + typName[sp.typ]
	}
	ls := make([]string, len(fts))
	for i, f := range fts {
		ls[i] = f.label()
	}
	return typName[sp.typ] + " with " + strings.Join(ls, ", ")
}

const (
	wsNone   = 0 // the base text only
	wsSingle = 1 // + every alphabet whitespace at every single position, + "everywhere" variants
	wsPairs  = 2 // + every pair of positions with every pair of alphabet whitespaces
)

// doBase evaluates a well-formed base message and its whitespace variants.
func doBase(w *worker, sp spec, mode int) {
	root := sp.build()
	toks := root.tokens(nil)
	base := strings.Join(toks, "")
	label := specLabel(sp)
	baseClass := ""
	classBase := func() string {
		if baseClass == "" {
			baseClass = w.r.blame(sp)
		}
		return baseClass
	}
	r0, _ := w.eval(base, label, expOK, classBase)
	if mode == wsNone {
		return
	}
	n := len(toks)
	off := make([]int, n+1)
	for i, t := range toks {
		off[i+1] = off[i] + len(t)
	}
	accepted := make([][]bool, n+1)
	for p := 0; p <= n; p++ {
		accepted[p] = make([]bool, len(wsAlphabet))
		for wi, ws := range wsAlphabet {
			text := base[:off[p]] + ws + base[off[p]:]
			p := p
			res, _ := w.eval(text, label+" | "+strconv.Quote(ws)+" at position "+strconv.Itoa(p), expOK, func() string {
				if !r0.ok {
					return classBase()
				}
				return wsClass(toks, p)
			})
			accepted[p][wi] = res.ok
		}
	}
	// whitespace at every position at once, with and without the leading position
	for wi, ws := range wsAlphabet {
		for first := 0; first <= 1; first++ {
			var sb strings.Builder
			for p := 0; p <= n; p++ {
				if p >= first {
					sb.WriteString(ws)
				}
				if p < n {
					sb.WriteString(toks[p])
				}
			}
			first, wi := first, wi
			w.eval(sb.String(), label+" | "+strconv.Quote(ws)+" at every position from "+strconv.Itoa(first), expOK, func() string {
				if !r0.ok {
					return classBase()
				}
				for p := first; p <= n; p++ {
					if !accepted[p][wi] {
						return wsClass(toks, p)
					}
				}
				if first == 0 {
					return "whitespace at every position at once"
				}
				return "whitespace at every position but the leading one at once"
			})
		}
	}
	if mode < wsPairs {
		return
	}
	for p := 0; p <= n; p++ {
		for q := p + 1; q <= n; q++ {
			for wi, w1 := range wsAlphabet {
				for wj, w2 := range wsAlphabet {
					text := base[:off[p]] + w1 + base[off[p]:off[q]] + w2 + base[off[q]:]
					p, q, wi, wj := p, q, wi, wj
					w.eval(text, label+" | whitespace at positions "+strconv.Itoa(p)+" and "+strconv.Itoa(q), expOK, func() string {
						switch {
						case !r0.ok:
							return classBase()
						case !accepted[p][wi]:
							return wsClass(toks, p)
						case !accepted[q][wj]:
							return wsClass(toks, q)
						}
						return "whitespace at two positions at once"
					})
				}
			}
		}
	}
}

// singleFeatureSpecs: for every type the plain message and every message with exactly one feature.
func singleFeatureSpecs() []spec {
	var out []spec
	for typ := tEVENT; typ <= tCLOSE; typ++ {
		p, _ := withOnly(typ)
		out = append(out, p)
		switch typ {
		case tEVENT, tAUTH:
			for d := 0; d < nEvDims; d++ {
				if typ == tAUTH && d == eKind {
					continue
				}
				for ch := 1; ch < len(evDims[d].labels); ch++ {
					s, _ := withOnly(typ, feat{scEv, d, ch})
					out = append(out, s)
				}
			}
		default:
			for ch := 1; ch < len(subIDs); ch++ {
				s, _ := withOnly(typ, feat{scSub, 0, ch})
				out = append(out, s)
			}
			if typ == tCLOSE {
				continue
			}
			s2, _ := withOnly(typ, feat{scNFilters, 0, 2})
			out = append(out, s2)
			for d := 0; d < nFDims; d++ {
				for ch := 1; ch < len(fDims[d].labels); ch++ {
					s, _ := withOnly(typ, feat{scFilter, d, ch})
					out = append(out, s)
				}
			}
		}
	}
	return out
}

// fullFilters: filters with every member present (one per #a choice of the product and per member order).
func fullFilters() [][nFDims]int {
	var out [][nFDims]int
	for a := 1; a < fDims[fA].prodLen(); a++ {
		for ord := 0; ord <= 1; ord++ {
			out = append(out, [nFDims]int{fIDs: 3, fAuthors: 1, fKinds: 3, fE: 1, fP: 1, fT: 1, fA: a, fUpE: 1, fSince: 2, fUntil: 2, fLimit: 3, fOrder: ord})
		}
	}
	return out
}

// filterCore: the filters from which two-filter messages are formed.
func filterCore() [][nFDims]int {
	core := [][nFDims]int{{}}
	for d := 0; d < fOrder; d++ {
		for ch := 1; ch < len(fDims[d].labels); ch++ {
			var f [nFDims]int
			f[d] = ch
			core = append(core, f)
		}
	}
	core = append(core, fullFilters()[0], fullFilters()[5])
	return core
}

func c11Complete(c *vk.Ctx) {
	r := newRunner(c)
	th := c.Thorough()
	nEv, nF := evProductSize(), fProductSize()
	strideWS := vk.Pick(c, 211, 13) // every n-th filter of the product gets the whitespace treatment
	strideOrd := vk.Pick(c, 5, 1)   // every n-th filter of the product is also written in reverse member order
	stride2 := vk.Pick(c, 37, 1)    // every n-th two-filter message gets the whitespace treatment
	pairMode := vk.Pick(c, wsSingle, wsPairs)

	c.P.Rule = fmt.Sprintf("well-formed client messages x insignificant whitespace, every text through W (own strict tokenizer + the statement's constraints; must say well-formed) and through the gate utf8.Valid && json.Valid && ParseClientMsg && ValidClientMsg (must admit). "+
		"EVENT: full product of %d events (kind {1,0,5,65535,32767,32768} x created_at {1700000000,0,1} x 6 tag lists x 5 contents x 4 member orders x 3 hex alphabets); AUTH: kind 22242 x the same product restricted to tag lists {none, relay+challenge}; "+
		"REQ and COUNT: full product of %d single filters (ids/authors {absent,[x],[],[x,y]} x kinds {absent,[0],[65535],[1,7],[],[32767,32768]} x #e {absent,[x],[]} x #p x #t x #a {absent, 30023 with d empty / d=x / d=x:y:z, 10002, 65535, 32768} x #E x since {absent,0,5} x until {absent,5,9} x limit {absent,0,1,500}), every %d-th also with members in reverse order; one at a time also: event kinds at the NIP-01 range boundaries {9999,10000,19999,20000,29999,30000,39999,40000}, filter kinds lists of the same boundaries, #a values with kind part in {0,1,9999,10000,30000,32767,35000,39999,40000}; all two-filter messages over a core of %d filters (every single-choice filter); 3 subscription ids; CLOSE. "+
		"Whitespace {\" \",\"\\n\",\"\\t\\r\"} at every token boundary including before the first '[' and after the last ']' (one position at a time, and all positions at once with/without the leading one) for: every EVENT/AUTH/CLOSE message, every plain and single-feature message, the all-members filters, every %d-th filter of the product and every %d-th two-filter message%s. "+
		"Non-trivial = distinct texts (64-bit hash set) on which W makes a claim.",
		nEv, nF, strideOrd, len(filterCore()), strideWS, stride2,
		map[bool]string{false: "", true: "; plus every pair of positions x every pair of whitespaces for plain, single-feature, all-members and two-filter messages"}[th])
	c.Assume("alphabet-bounded: field values, tag lists, filter members and whitespace strings outside the stated alphabets are not enumerated; at most two filters per message, at most two values per list")
	c.Assume("the gate is exercised as the composition of the four calls of Relay.serveRead, not through a WebSocket (C12 covers the socket)")
	c.Assume("signature verification (Event.Verify) is outside C11: ids and signatures are well-formed hex, not valid signatures")

	// deterministic samples, evaluated up front
	for _, sp := range []spec{
		{typ: tEVENT, ev: [nEvDims]int{eKind: 3, eTags: 2, eContent: 3, eOrder: 3}},
		{typ: tREQ, fs: [][nFDims]int{fullFilters()[2]}},
		{typ: tCOUNT, fs: [][nFDims]int{{fA: 3}}},
		{typ: tCLOSE},
	} {
		t := sp.build().text()
		v, res := W([]byte(t)), admit([]byte(t))
		c.Sample(map[string]any{"case": specLabel(sp), "text": t, "W": v.st.String(), "admitted": res.ok, "stage": res.stage})
	}
	{
		sp := spec{typ: tREQ, fs: [][nFDims]int{{fKinds: 3, fSince: 1}}}
		toks := sp.build().tokens(nil)
		t := strings.Join(toks[:3], "") + "\t\r" + strings.Join(toks[3:], "")
		v, res := W([]byte(t)), admit([]byte(t))
		c.Sample(map[string]any{"case": specLabel(sp) + " | \"\\t\\r\" at position 3 (" + wsClass(toks, 3) + ")", "text": t, "W": v.st.String(), "admitted": res.ok, "stage": res.stage})
		t = " " + strings.Join(toks, "")
		v, res = W([]byte(t)), admit([]byte(t))
		c.Sample(map[string]any{"case": specLabel(sp) + " | \" \" at position 0 (" + wsClass(toks, 0) + ")", "text": t, "W": v.st.String(), "admitted": res.ok, "stage": res.stage})
	}

	bases := int64(0)
	sub := func(sp spec, mode int) {
		bases++
		r.submit(func(w *worker) { doBase(w, sp, mode) })
	}

	// plain and single-feature messages first (they also name the classes)
	for _, sp := range singleFeatureSpecs() {
		sub(sp, pairMode)
	}
	// all-members filters
	for _, typ := range []int{tREQ, tCOUNT} {
		for _, f := range fullFilters() {
			sub(spec{typ: typ, fs: [][nFDims]int{f}}, pairMode)
		}
	}
	// EVENT / AUTH products
	for i := 0; i < nEv; i++ {
		s := evFromIndex(i)
		sub(spec{typ: tEVENT, ev: s}, wsSingle)
		if s[eKind] == 0 && (s[eTags] == 0 || s[eTags] == 5) {
			sub(spec{typ: tAUTH, ev: s}, wsSingle)
		}
	}
	// REQ / COUNT: the full filter product (in chunks), subsets with reverse order and whitespace
	const chunk = 1024
	for _, typ := range []int{tREQ, tCOUNT} {
		typ := typ
		for lo := 0; lo < nF; lo += chunk {
			lo := lo
			hi := min(lo+chunk, nF)
			bases += int64(hi - lo)
			r.submit(func(w *worker) {
				for i := lo; i < hi; i++ {
					f := fFromIndex(i)
					doBase(w, spec{typ: typ, fs: [][nFDims]int{f}}, wsNone)
					if i%strideOrd == 0 {
						f[fOrder] = 1
						doBase(w, spec{typ: typ, fs: [][nFDims]int{f}}, wsNone)
					}
				}
			})
		}
		for i := 0; i < nF; i += strideWS {
			f := fFromIndex(i)
			f[fOrder] = (i / strideWS) % 2
			sub(spec{typ: typ, fs: [][nFDims]int{f}}, wsSingle)
		}
		// two filters
		core := filterCore()
		k := 0
		for _, f1 := range core {
			for _, f2 := range core {
				mode := wsNone
				if k%stride2 == 0 {
					mode = pairMode
					if mode == wsPairs && k%7 != 0 { // position pairs on every 7th two-filter message
						mode = wsSingle
					}
				}
				k++
				sub(spec{typ: typ, fs: [][nFDims]int{f1, f2}}, mode)
			}
		}
		// subscription ids on richer messages
		for ch := 1; ch < len(subIDs); ch++ {
			for _, f := range fullFilters()[:2] {
				sub(spec{typ: typ, sub: ch, fs: [][nFDims]int{f}}, wsSingle)
			}
		}
	}
	c.SetExtra("base_messages", bases)
	r.finish()
}
