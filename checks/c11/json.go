package main

import (
	"errors"
	"fmt"
	"strings"
	"unicode/utf16"
	"unicode/utf8"
)

// A tiny JSON tree that keeps the exact token text of scalars, the order of object members and
// duplicate members. It is used both to *write* texts (generator) and to *read* them (W).

type jkind uint8

const (
	jStr jkind = iota
	jNum
	jArr
	jObj
	jBool
	jNull
)

func (k jkind) String() string {
	return [...]string{"string", "number", "array", "object", "bool", "null"}[k]
}

type jv struct {
	k     jkind
	raw   string // scalars: exact token text (strings with their quotes)
	str   string // jStr: decoded value
	elems []*jv  // jArr: elements; jObj: member values
	keys  []*jv  // jObj: member names (jStr), parallel to elems
}

func encodeJSONString(s string) string {
	var sb strings.Builder
	sb.WriteByte('"')
	for _, r := range s {
		switch {
		case r == '"':
			sb.WriteString(`\"`)
		case r == '\\':
			sb.WriteString(`\\`)
		case r == '\n':
			sb.WriteString(`\n`)
		case r == '\r':
			sb.WriteString(`\r`)
		case r == '\t':
			sb.WriteString(`\t`)
		case r < 0x20:
			fmt.Fprintf(&sb, `\u%04x`, r)
		default:
			sb.WriteRune(r)
		}
	}
	sb.WriteByte('"')
	return sb.String()
}

func S(s string) *jv   { return &jv{k: jStr, raw: encodeJSONString(s), str: s} }
func N(raw string) *jv { return &jv{k: jNum, raw: raw} }
func B(b bool) *jv {
	if b {
		return &jv{k: jBool, raw: "true"}
	}
	return &jv{k: jBool, raw: "false"}
}
func Null() *jv       { return &jv{k: jNull, raw: "null"} }
func A(es ...*jv) *jv { return &jv{k: jArr, elems: append([]*jv{}, es...)} }
func SA(ss ...string) *jv {
	a := &jv{k: jArr, elems: []*jv{}}
	for _, s := range ss {
		a.elems = append(a.elems, S(s))
	}
	return a
}
func O() *jv { return &jv{k: jObj, elems: []*jv{}, keys: []*jv{}} }
func (o *jv) put(key string, v *jv) *jv {
	o.keys = append(o.keys, S(key))
	o.elems = append(o.elems, v)
	return o
}

func (v *jv) clone() *jv {
	c := &jv{k: v.k, raw: v.raw, str: v.str}
	if v.elems != nil {
		c.elems = make([]*jv, len(v.elems))
		for i, e := range v.elems {
			c.elems[i] = e.clone()
		}
	}
	if v.keys != nil {
		c.keys = make([]*jv, len(v.keys))
		for i, e := range v.keys {
			c.keys[i] = e.clone()
		}
	}
	return c
}

// tokens appends the JSON tokens of v: every boundary between two tokens (and before the first /
// after the last) is a position where insignificant whitespace may be written.
func (v *jv) tokens(out []string) []string {
	switch v.k {
	case jArr:
		out = append(out, "[")
		for i, e := range v.elems {
			if i > 0 {
				out = append(out, ",")
			}
			out = e.tokens(out)
		}
		return append(out, "]")
	case jObj:
		out = append(out, "{")
		for i, e := range v.elems {
			if i > 0 {
				out = append(out, ",")
			}
			out = append(out, v.keys[i].raw, ":")
			out = e.tokens(out)
		}
		return append(out, "}")
	default:
		return append(out, v.raw)
	}
}

func (v *jv) text() string { return strings.Join(v.tokens(nil), "") }

// ---- strict RFC 8259 reader -------------------------------------------------------------------

type jparser struct {
	b       []byte
	i       int
	allowFF bool // treat U+000C as whitespace (only to recognise the unclaimed zone)
	depth   int
}

var errJSON = errors.New("not a JSON text")

func parseJSON(b []byte, allowFF bool) (*jv, error) {
	if !utf8.Valid(b) {
		return nil, errJSON
	}
	p := &jparser{b: b, allowFF: allowFF}
	p.ws()
	v, err := p.value()
	if err != nil {
		return nil, err
	}
	p.ws()
	if p.i != len(p.b) {
		return nil, errJSON
	}
	return v, nil
}

func (p *jparser) ws() {
	for p.i < len(p.b) {
		switch p.b[p.i] {
		case ' ', '\t', '\n', '\r':
			p.i++
		case '\f':
			if !p.allowFF {
				return
			}
			p.i++
		default:
			return
		}
	}
}

func (p *jparser) lit(s string, k jkind) (*jv, error) {
	if p.i+len(s) <= len(p.b) && string(p.b[p.i:p.i+len(s)]) == s {
		p.i += len(s)
		return &jv{k: k, raw: s}, nil
	}
	return nil, errJSON
}

func (p *jparser) value() (*jv, error) {
	if p.i >= len(p.b) {
		return nil, errJSON
	}
	p.depth++
	defer func() { p.depth-- }()
	if p.depth > 200 {
		return nil, errJSON
	}
	switch c := p.b[p.i]; {
	case c == '{':
		p.i++
		o := O()
		p.ws()
		if p.i < len(p.b) && p.b[p.i] == '}' {
			p.i++
			return o, nil
		}
		for {
			p.ws()
			if p.i >= len(p.b) || p.b[p.i] != '"' {
				return nil, errJSON
			}
			k, err := p.str()
			if err != nil {
				return nil, err
			}
			p.ws()
			if p.i >= len(p.b) || p.b[p.i] != ':' {
				return nil, errJSON
			}
			p.i++
			p.ws()
			v, err := p.value()
			if err != nil {
				return nil, err
			}
			o.keys = append(o.keys, k)
			o.elems = append(o.elems, v)
			p.ws()
			if p.i >= len(p.b) {
				return nil, errJSON
			}
			if p.b[p.i] == ',' {
				p.i++
				continue
			}
			if p.b[p.i] == '}' {
				p.i++
				return o, nil
			}
			return nil, errJSON
		}
	case c == '[':
		p.i++
		a := A()
		p.ws()
		if p.i < len(p.b) && p.b[p.i] == ']' {
			p.i++
			return a, nil
		}
		for {
			p.ws()
			v, err := p.value()
			if err != nil {
				return nil, err
			}
			a.elems = append(a.elems, v)
			p.ws()
			if p.i >= len(p.b) {
				return nil, errJSON
			}
			if p.b[p.i] == ',' {
				p.i++
				continue
			}
			if p.b[p.i] == ']' {
				p.i++
				return a, nil
			}
			return nil, errJSON
		}
	case c == '"':
		return p.str()
	case c == 't':
		return p.lit("true", jBool)
	case c == 'f':
		return p.lit("false", jBool)
	case c == 'n':
		return p.lit("null", jNull)
	case c == '-' || (c >= '0' && c <= '9'):
		return p.num()
	}
	return nil, errJSON
}

func isDigit(c byte) bool { return c >= '0' && c <= '9' }

func (p *jparser) num() (*jv, error) {
	st := p.i
	if p.b[p.i] == '-' {
		p.i++
	}
	if p.i >= len(p.b) || !isDigit(p.b[p.i]) {
		return nil, errJSON
	}
	if p.b[p.i] == '0' {
		p.i++
	} else {
		for p.i < len(p.b) && isDigit(p.b[p.i]) {
			p.i++
		}
	}
	if p.i < len(p.b) && p.b[p.i] == '.' {
		p.i++
		if p.i >= len(p.b) || !isDigit(p.b[p.i]) {
			return nil, errJSON
		}
		for p.i < len(p.b) && isDigit(p.b[p.i]) {
			p.i++
		}
	}
	if p.i < len(p.b) && (p.b[p.i] == 'e' || p.b[p.i] == 'E') {
		p.i++
		if p.i < len(p.b) && (p.b[p.i] == '+' || p.b[p.i] == '-') {
			p.i++
		}
		if p.i >= len(p.b) || !isDigit(p.b[p.i]) {
			return nil, errJSON
		}
		for p.i < len(p.b) && isDigit(p.b[p.i]) {
			p.i++
		}
	}
	return &jv{k: jNum, raw: string(p.b[st:p.i])}, nil
}

func hexVal(c byte) int {
	switch {
	case c >= '0' && c <= '9':
		return int(c - '0')
	case c >= 'a' && c <= 'f':
		return int(c-'a') + 10
	case c >= 'A' && c <= 'F':
		return int(c-'A') + 10
	}
	return -1
}

func (p *jparser) u4() (rune, bool) {
	if p.i+4 > len(p.b) {
		return 0, false
	}
	var r rune
	for k := 0; k < 4; k++ {
		h := hexVal(p.b[p.i+k])
		if h < 0 {
			return 0, false
		}
		r = r<<4 | rune(h)
	}
	p.i += 4
	return r, true
}

func (p *jparser) str() (*jv, error) {
	st := p.i
	p.i++ // opening quote
	// fast path: no escape sequence up to the closing quote
	for j := p.i; j < len(p.b); j++ {
		c := p.b[j]
		if c == '"' {
			raw := string(p.b[st : j+1])
			p.i = j + 1
			return &jv{k: jStr, raw: raw, str: raw[1 : len(raw)-1]}, nil
		}
		if c < 0x20 {
			return nil, errJSON
		}
		if c == '\\' {
			break
		}
	}
	var sb strings.Builder
	for {
		if p.i >= len(p.b) {
			return nil, errJSON
		}
		c := p.b[p.i]
		switch {
		case c == '"':
			p.i++
			return &jv{k: jStr, raw: string(p.b[st:p.i]), str: sb.String()}, nil
		case c < 0x20:
			return nil, errJSON
		case c == '\\':
			p.i++
			if p.i >= len(p.b) {
				return nil, errJSON
			}
			e := p.b[p.i]
			p.i++
			switch e {
			case '"', '\\', '/':
				sb.WriteByte(e)
			case 'b':
				sb.WriteByte('\b')
			case 'f':
				sb.WriteByte('\f')
			case 'n':
				sb.WriteByte('\n')
			case 'r':
				sb.WriteByte('\r')
			case 't':
				sb.WriteByte('\t')
			case 'u':
				r, ok := p.u4()
				if !ok {
					return nil, errJSON
				}
				if utf16.IsSurrogate(r) {
					// a lone surrogate is tolerated by the JSON grammar; pair it when possible
					if p.i+6 <= len(p.b) && p.b[p.i] == '\\' && p.b[p.i+1] == 'u' {
						save := p.i
						p.i += 2
						r2, ok2 := p.u4()
						if ok2 {
							if d := utf16.DecodeRune(r, r2); d != utf8.RuneError {
								sb.WriteRune(d)
								continue
							}
						}
						p.i = save
					}
					sb.WriteRune(utf8.RuneError)
					continue
				}
				sb.WriteRune(r)
			default:
				return nil, errJSON
			}
		default:
			sb.WriteByte(c)
			p.i++
		}
	}
}
