package main

import (
	"fmt"
	"hash/maphash"
	"runtime"
	"runtime/debug"
	"sort"
	"strings"
	"sync"

	"verifkit/vk"
)

// ---- distinct-text set (sharded, 64-bit hashes) ----

type hset struct {
	seed maphash.Seed
	sh   [256]struct {
		mu sync.Mutex
		m  map[uint64]struct{}
	}
}

func newHset() *hset {
	h := &hset{seed: maphash.MakeSeed()}
	for i := range h.sh {
		h.sh[i].m = map[uint64]struct{}{}
	}
	return h
}

// add reports whether the text was new.
func (h *hset) add(s string) bool {
	x := maphash.String(h.seed, s)
	sh := &h.sh[x&255]
	sh.mu.Lock()
	_, had := sh.m[x]
	if !had {
		sh.m[x] = struct{}{}
	}
	sh.mu.Unlock()
	return !had
}

// ---- expectations of the generator (cross-checked against W, never used as an oracle) ----

const (
	expOK = iota
	expIll
	expUnclaimed
	expAny // W decides alone
)

// ---- per-worker accumulation ----

type violAgg struct {
	count  int
	text   string // shortest (then lexicographically least) failing input: deterministic across runs
	detail string
}

type worker struct {
	r        *runner
	evals    int64
	claimed  int64 // distinct texts with a claimed verdict (well-formed or ill-formed)
	uncl     int64 // distinct texts in an unclaimed zone
	outcomes map[string]int64
	viol     map[string]*violAgg
	selfErr  []string
}

type runner struct {
	c       *vk.Ctx
	seen    *hset
	work    chan func(*worker)
	wg      sync.WaitGroup
	workers []*worker
	admitMu sync.Mutex
	admitOK map[string]bool // cache for attribution probes
}

func newRunner(c *vk.Ctx) *runner {
	// the live heap is small (a hash set) and the garbage rate high: collect less often
	debug.SetGCPercent(400)
	debug.SetMemoryLimit(12 << 30)
	r := &runner{c: c, seen: newHset(), work: make(chan func(*worker), 4096), admitOK: map[string]bool{}}
	n := runtime.NumCPU()
	if n > 16 {
		n = 16
	}
	for i := 0; i < n; i++ {
		w := &worker{r: r, outcomes: map[string]int64{}, viol: map[string]*violAgg{}}
		r.workers = append(r.workers, w)
		r.wg.Add(1)
		go func() {
			defer r.wg.Done()
			for f := range r.work {
				f(w)
			}
		}()
	}
	return r
}

func (r *runner) submit(f func(*worker)) { r.work <- f }

// probe tells whether the plain message of a type carrying only the given features is admitted
// (cached); used only to name the class of a rejected case.
func (r *runner) probe(typ int, fts ...feat) (admitted, possible bool) {
	key := fmt.Sprint(typ, fts)
	r.admitMu.Lock()
	v, ok := r.admitOK[key]
	r.admitMu.Unlock()
	if ok {
		return v, true
	}
	sp, can := withOnly(typ, fts...)
	if !can {
		return false, false
	}
	v = admit([]byte(sp.build().text())).ok
	r.admitMu.Lock()
	r.admitOK[key] = v
	r.admitMu.Unlock()
	return v, true
}

func (w *worker) violate(sig, text, detail string) {
	a := w.viol[sig]
	if a == nil {
		w.viol[sig] = &violAgg{count: 1, text: text, detail: detail}
		return
	}
	a.count++
	if less(text, detail, a.text, a.detail) {
		a.text, a.detail = text, detail
	}
}

// less orders failing inputs: shortest text first, then the text, then the description, so that
// the reported example does not depend on the scheduling of the workers.
func less(t1, d1, t2, d2 string) bool {
	if len(t1) != len(t2) {
		return len(t1) < len(t2)
	}
	if t1 != t2 {
		return t1 < t2
	}
	return d1 < d2
}

func clip(s string) string {
	if len(s) > 700 {
		return s[:340] + " ...[" + fmt.Sprint(len(s)-680) + " bytes]... " + s[len(s)-340:]
	}
	return s
}

// eval judges one text: W's verdict, the gate's decision and, when admitted, the decoded value.
//
//	W well-formed & rejected            -> C11/complete violation, class named by classOf()
//	admitted & value breaks constraint  -> C11/sound violation, named by the constraint
//	W ill-formed & admitted             -> C11/sound violation, named by W's reason
//	W unclaimed                         -> counted, never a violation (the value is still looked at)
//
// exp is what the generator meant the text to be; a disagreement with W is an infrastructure
// error of this check (reported as INFRA, not as a violation).
func (w *worker) eval(text, genLabel string, exp int, classOf func() string) (admitRes, verdict) {
	b := []byte(text)
	v := W(b)
	res := admit(b)
	w.evals++
	fresh := w.r.seen.add(text)
	if fresh {
		if v.st == wfUnclaimed {
			w.uncl++
		} else {
			w.claimed++
		}
	}
	switch {
	case exp == expOK && v.st != wfOK,
		exp == expIll && v.st != wfIll,
		exp == expUnclaimed && v.st != wfUnclaimed:
		if len(w.selfErr) < 5 {
			w.selfErr = append(w.selfErr, fmt.Sprintf("generator meant %q to be %s but W says %s (%s): %s",
				genLabel, [...]string{"well-formed", "ill-formed", "unclaimed"}[exp], v.st, v.why, clip(text)))
		}
		return res, v
	}
	dec := "rejected@" + res.stage
	if res.ok {
		dec = "admitted"
	}
	w.outcomes[v.label+"|"+v.st.String()+"|"+v.why+"|"+dec]++

	if res.panicked != nil {
		w.violate("C11/gate panicked", text, fmt.Sprintf("input %s: panic %v", clip(text), res.panicked))
		return res, v
	}
	if res.ok {
		if br := valueBreaks(res.msg); len(br) > 0 {
			for _, b := range br {
				w.violate("C11/sound: accepted "+b, text,
					fmt.Sprintf("input %s was admitted (ParseClientMsg ok, ValidClientMsg true) but the decoded value has: %s [W: %s %s; case: %s]", clip(text), strings.Join(br, "; "), v.st, v.why, genLabel))
			}
			return res, v
		}
		if v.st == wfIll {
			w.violate("C11/sound: accepted ill-formed message: "+v.why, text,
				fmt.Sprintf("input %s was admitted although it is ill-formed: %s [case: %s]", clip(text), v.why, genLabel))
		}
		return res, v
	}
	if v.st == wfOK {
		cl := classOf()
		w.violate("C11/complete: rejected well-formed message: "+cl, text,
			fmt.Sprintf("input %s is well-formed but was rejected at stage %q (%s) [case: %s]", clip(text), res.stage, res.err, genLabel))
	}
	return res, v
}

// finish drains the workers and merges their results into the part.
func (r *runner) finish() {
	close(r.work)
	r.wg.Wait()
	c := r.c
	merged := map[string]*violAgg{}
	outc := map[string]int64{}
	var selfErr []string
	var evals, claimed, uncl int64
	for _, w := range r.workers {
		evals += w.evals
		claimed += w.claimed
		uncl += w.uncl
		selfErr = append(selfErr, w.selfErr...)
		for k, n := range w.outcomes {
			outc[k] += n
		}
		for sig, a := range w.viol {
			m := merged[sig]
			if m == nil {
				cp := *a
				merged[sig] = &cp
				continue
			}
			m.count += a.count
			if less(a.text, a.detail, m.text, m.detail) {
				m.text, m.detail = a.text, a.detail
			}
		}
	}
	c.Eval(evals)
	c.DistinctN(claimed)
	c.Unclaimed(uncl)
	keys := make([]string, 0, len(outc))
	for k := range outc {
		keys = append(keys, k)
		c.Outcome(k)
	}
	sort.Strings(keys)
	tab := map[string]int64{}
	for _, k := range keys {
		tab[k] = outc[k]
	}
	c.SetExtra("outcome_classes", tab)
	if len(selfErr) > 0 {
		sort.Strings(selfErr)
		c.Infra("self-check of the generator against W failed: %s", selfErr[0])
	}
	sigs := make([]string, 0, len(merged))
	for s := range merged {
		sigs = append(sigs, s)
	}
	sort.Strings(sigs)
	for _, s := range sigs {
		a := merged[s]
		// every violation is re-run from its recorded input before it is reported
		res := admit([]byte(a.text))
		v := W([]byte(a.text))
		again := (v.st == wfOK && !res.ok) || (res.ok && (v.st == wfIll || len(valueBreaks(res.msg)) > 0)) || res.panicked != nil
		if !again {
			// the admission of a text is a function of the text (and so is W): a verdict that flips
			// between two evaluations of the same bytes is itself a defect of the code under test
			// (state carried over, or an order it should not depend on, e.g. map iteration). Evaluate
			// it a few more times to show both verdicts.
			okN, rejN := 0, 0
			for i := 0; i < 64; i++ {
				if admit([]byte(a.text)).ok {
					okN++
				} else {
					rejN++
				}
			}
			c.Violate("C11: the verdict on one and the same text is not deterministic",
				fmt.Sprintf("first reported as %q; of 64 further evaluations of %s, %d admitted and %d rejected it", s, clip(a.text), okN, rejN), map[string]any{"text": a.text})
			continue
		}
		c.Violate(s, a.detail, map[string]any{"text": a.text})
		for i := 1; i < a.count; i++ {
			c.Violate(s, "", nil)
		}
	}
}
