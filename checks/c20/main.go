// Command c20 holds the sub-checks of property C20 (HTTP front door routing and the NIP-11
// document). Everything runs on httptest.ResponseRecorder and encoding/json: no sockets, no
// scheduler, no sampling -- the parts enumerate finite products completely.
package main

import (
	"fmt"
	"runtime/debug"
	"strings"

	"verifkit/vk"
)

var parts = map[string]func(*vk.Ctx){
	"c20-routing":   c20Routing,
	"c20-roundtrip": c20Roundtrip,
}

func main() { vk.RunPart(parts) }

// guard runs f and turns a panic into a C20/panic violation whose signature names only the site.
func guard(c *vk.Ctx, site string, replay any, f func()) (ok bool) {
	defer func() {
		if r := recover(); r != nil {
			ok = false
			st := string(debug.Stack())
			if i := strings.Index(st, "panic("); i >= 0 {
				st = st[i:]
			}
			if len(st) > 1500 {
				st = st[:1500]
			}
			c.Violate("C20/panic: "+site, fmt.Sprintf("panic: %v\n%s", r, st), replay)
		}
	}()
	f()
	return true
}
