package main

import (
	"bytes"
	"context"
	"encoding/json"
	"fmt"
	"mime"
	"net/http"
	"net/http/httptest"
	"reflect"
	"strings"
	"sync/atomic"

	"github.com/high-moctane/mocrelay"
	"verifkit/vk"
)

const (
	nostrJSON   = "application/nostr+json"
	defaultBody = "DEFAULT"
)

// hdr is one request header dimension value: absent, or present with one or more field lines.
type hdr struct {
	Present bool     `json:"present"`
	Values  []string `json:"values,omitempty"`
}

func absent() hdr            { return hdr{} }
func val(v ...string) hdr    { return hdr{Present: true, Values: v} }
func (h hdr) nonEmpty() bool { return h.Present && len(h.Values) > 0 && h.Values[0] != "" }
func (h hdr) String() string {
	if !h.Present {
		return "<absent>"
	}
	return fmt.Sprintf("%q", h.Values)
}

type routeCase struct {
	Upgrade   hdr    `json:"upgrade"`
	Handshake bool   `json:"full_handshake_headers"`
	Accept    hdr    `json:"accept"`
	Method    string `json:"method"`
	Path      string `json:"path"`
	NIP11     string `json:"nip11"`   // nil | populated | empty
	Default   bool   `json:"default"` // marker handler configured
}

type defaultMarker struct {
	calls  atomic.Int64
	method string
	path   string
}

func (d *defaultMarker) ServeHTTP(w http.ResponseWriter, r *http.Request) {
	d.calls.Add(1)
	d.method, d.path = r.Method, r.URL.RequestURI()
	w.Write([]byte(defaultBody))
}

type nostrMarker struct{ calls atomic.Int64 }

func (n *nostrMarker) ServeNostr(ctx context.Context, send chan<- mocrelay.ServerMsg, recv <-chan mocrelay.ClientMsg) error {
	n.calls.Add(1)
	<-ctx.Done()
	return ctx.Err()
}

func ip(v int) *int { return &v }

func populatedDoc() *mocrelay.NIP11 {
	return &mocrelay.NIP11{
		Name:          "relay <name> &   é",
		Description:   "desc \"quoted\"",
		Pubkey:        strings.Repeat("ab", 32),
		Contact:       "mailto:a@example.com",
		SupportedNIPs: []int{1, 11, 42},
		Software:      "https://example.com/sw",
		Version:       "v1.2.3",
		Limitation: &mocrelay.NIP11Limitation{MaxMessageLength: 100000, MaxSubscriptions: 20, MaxFilters: 10, MaxLimit: 500,
			MaxSubIDLength: 64, MaxEventTags: 100, MaxContentLength: 8196, MinPoWDifficulty: 3, AuthRequired: true,
			PaymentRequired: true, CreatedAtLowerLimit: 31536000, CreatedAtUpperLimit: 3},
		Retention:     &mocrelay.NIP11Retention{Kinds: []*mocrelay.Nip11Kind{{From: 0, To: 0}, {From: 40000, To: 49999}}, Time: ip(3600), Count: ip(0)},
		RelayContries: []string{"JP", "US"},
		LanguageTags:  []string{"ja"},
		Tags:          []string{"sfw-only", "x"},
		PostingPolicy: "https://example.com/policy",
		PaymentsURL:   "https://example.com/pay",
		Fees: &mocrelay.NIP11Fees{
			Admission:    []*mocrelay.Nip11Fee{{Amount: 1000000, Unit: "msats"}},
			Subscription: []*mocrelay.Nip11Fee{{Amount: 5000000, Unit: "msats", Period: ip(2592000)}},
			Publication:  []*mocrelay.Nip11Fee{{Kinds: []*mocrelay.Nip11Kind{{From: 4, To: 4}, {From: 1, To: 2}}, Amount: 0, Unit: "msats"}},
		},
		Icon: "https://example.com/icon.png",
	}
}

// acceptClass: "exact" (the single value application/nostr+json), "none" (absent, or no field
// line mentions nostr+json in any letter case), otherwise "unclaimed".
func acceptClass(h hdr) string {
	if !h.Present {
		return "none"
	}
	if len(h.Values) == 1 && h.Values[0] == nostrJSON {
		return "exact"
	}
	for _, v := range h.Values {
		if strings.Contains(strings.ToLower(v), "nostr+json") {
			return "unclaimed"
		}
	}
	return "none"
}

func buildRequest(rc routeCase) *http.Request {
	r := httptest.NewRequest(rc.Method, rc.Path, nil)
	if rc.Upgrade.Present {
		r.Header["Upgrade"] = append([]string(nil), rc.Upgrade.Values...)
	}
	if rc.Accept.Present {
		r.Header["Accept"] = append([]string(nil), rc.Accept.Values...)
	}
	if rc.Handshake {
		r.Header.Set("Connection", "Upgrade")
		r.Header.Set("Sec-WebSocket-Version", "13")
		r.Header.Set("Sec-WebSocket-Key", "dGhlIHNhbXBsZSBub25jZQ==")
	}
	return r
}

func clip(b []byte) string {
	if len(b) > 160 {
		return string(b[:160]) + "..."
	}
	return string(b)
}

// isJSONObject reports whether b is exactly one valid JSON value that is an object.
func isJSONObject(b []byte) bool {
	if !json.Valid(b) {
		return false
	}
	return strings.HasPrefix(strings.TrimSpace(string(b)), "{")
}

func c20Routing(c *vk.Ctx) {
	c.MaxSamples = 16
	c.P.Rule = "complete product of Upgrade × handshake headers × Accept × method × path × NIP11 config × Default config; a case counts once " +
		"it was served by a fresh ServeMux on a ResponseRecorder and its response was judged by the three-valued routing oracle " +
		"(relay path = response identical to Relay.ServeHTTP alone; NIP-11 path = decoded body equals configured document + both headers; " +
		"default path = marker called once / greeting)"
	c.Assume("websocket.Accept cannot hijack an httptest.ResponseRecorder, so every request handed to the relay ends in a deterministic 4xx/5xx refusal; " +
		"'handed to the relay' is recognised by equality with the response Relay.ServeHTTP alone gives to the same request")
	c.Assume("Upgrade present with an empty value is unclaimed; for Accept values that contain or differ in letter case from application/nostr+json it is unclaimed WHICH of the two answers is due, but the response must be one of them in full")
	c.Assume("HEAD/OPTIONS with exact Accept: an empty body is unclaimed (a body-less answer is legitimate HTTP); a non-empty body must be the document")

	upgrades := []hdr{absent(), val("websocket"), val("x"), val("WebSocket"), val("")}
	accepts := []hdr{absent(), val(nostrJSON), val("application/json"), val("text/html"), val(""), val("*/*"),
		val(nostrJSON + ", */*"), val("APPLICATION/NOSTR+JSON"), val(nostrJSON + ";q=0.9"), val("application/json", nostrJSON)}
	methods := []string{"GET", "POST", "OPTIONS", "HEAD"}
	paths := []string{"/", "/x"}
	if c.Thorough() {
		methods = append(methods, "PUT", "DELETE", "PATCH")
		paths = append(paths, "/a/b?q=1", "/.well-known/nostr.json")
		upgrades = append(upgrades, val("h2c"), val("websocket, x"))
		accepts = append(accepts, val("application/nostr"), val("application/json, text/html"), val(" "+nostrJSON))
	}
	nip11s := []string{"nil", "populated", "empty"}

	var n int64
	for _, up := range upgrades {
		for _, hs := range []bool{false, true} {
			for _, ac := range accepts {
				for _, m := range methods {
					for _, p := range paths {
						for _, nk := range nip11s {
							for _, df := range []bool{false, true} {
								rc := routeCase{Upgrade: up, Handshake: hs, Accept: ac, Method: m, Path: p, NIP11: nk, Default: df}
								guard(c, "ServeMux.ServeHTTP", rc, func() { routeOne(c, rc) })
								n++
							}
						}
					}
				}
			}
		}
	}
	c.Eval(n)
	c.DistinctN(n)
	c.P.Bound = fmt.Sprintf("%d upgrade × 2 handshake × %d accept × %d methods × %d paths × 3 nip11 × 2 default = %d requests",
		len(upgrades), len(accepts), len(methods), len(paths), n)
}

// sampled is only touched by the (sequential) routing enumeration.
var sampled = map[string]struct{}{}

func routeOne(c *vk.Ctx, rc routeCase) {
	nm := &nostrMarker{}
	relay := mocrelay.NewRelay(nm, nil)
	mux := &mocrelay.ServeMux{Relay: relay}
	var doc *mocrelay.NIP11
	switch rc.NIP11 {
	case "populated":
		doc = populatedDoc()
	case "empty":
		doc = &mocrelay.NIP11{}
	}
	mux.NIP11 = doc
	dm := &defaultMarker{}
	if rc.Default {
		mux.Default = dm
	}

	rec := httptest.NewRecorder()
	mux.ServeHTTP(rec, buildRequest(rc))
	relay.Wait()
	body := rec.Body.Bytes()
	status := rec.Code
	dcalls := dm.calls.Load()

	var want []byte // the configured document as JSON, for "must not be served" comparisons
	if doc != nil {
		want, _ = json.Marshal(populatedOrEmpty(rc.NIP11))
	}
	resp := func() string {
		return fmt.Sprintf("case=%+v -> status=%d headers=%v body=%q defaultCalls=%d", rc, status, rec.Header(), clip(body), dcalls)
	}
	// outcome records the class and keeps the first real case of every class as a sample
	outcome := func(key string) {
		c.Outcome(key)
		if _, seen := sampled[key]; !seen {
			sampled[key] = struct{}{}
			c.Sample(map[string]any{"class": key, "case": rc, "status": status, "body": clip(body), "default_calls": dcalls,
				"content_type": rec.Header().Get("Content-Type"), "acao": rec.Header().Get("Access-Control-Allow-Origin")})
		}
	}

	switch {
	case rc.Upgrade.Present && !rc.Upgrade.nonEmpty():
		// "Upgrade:" with an empty value -- is that "a request with an Upgrade header"? unclaimed.
		c.Unclaimed(1)
		outcome(fmt.Sprintf("unclaimed-empty-upgrade:status=%d,default=%d", status, dcalls))
		return

	case rc.Upgrade.nonEmpty():
		// (a) handed to the relay.
		ref := httptest.NewRecorder()
		refRelay := mocrelay.NewRelay(&nostrMarker{}, nil)
		refRelay.ServeHTTP(ref, buildRequest(rc))
		refRelay.Wait()
		if ref.Code < 400 {
			// the reference itself did not refuse: the recogniser has no basis; not a routing verdict
			c.Unclaimed(1)
			outcome(fmt.Sprintf("relay-reference-not-a-refusal:%d", ref.Code))
			return
		}
		bad := ""
		switch {
		case dcalls != 0:
			bad = "default handler was called"
		case doc != nil && bytes.Equal(body, want):
			bad = "NIP-11 document was served"
		case status != ref.Code || !bytes.Equal(body, ref.Body.Bytes()):
			bad = fmt.Sprintf("response differs from what Relay.ServeHTTP alone answers (status=%d body=%q)", ref.Code, clip(ref.Body.Bytes()))
		}
		if bad != "" {
			c.Violate("C20/routing: Upgrade request not handed to relay", bad+"; "+resp(), rc)
			return
		}
		outcome(fmt.Sprintf("relay:%d", status))
		return
	}

	// no Upgrade header from here on
	if nm.calls.Load() != 0 {
		c.Violate("C20/routing: nostr handler started without Upgrade header", resp(), rc)
	}
	// the two answers the statement defines for a request without Upgrade; each judge returns
	// ("", "", outcome) when the response is that answer in full, else the signature it would raise
	judgeDoc := func() (sig, detail, oc string) {
		// (b) the NIP-11 document
		if dcalls != 0 {
			return "C20/routing: default handler called for NIP-11 request", resp(), ""
		}
		if (rc.Method == "HEAD" || rc.Method == "OPTIONS") && len(body) == 0 {
			return "", "", "unclaimed-bodyless-" + rc.Method
		}
		if doc == nil {
			if !json.Valid(body) {
				return "C20/nip11: body is not valid JSON (no document configured)", resp(), ""
			}
			return "", "", "nip11-unconfigured:json"
		}
		if status != http.StatusOK {
			return "C20/nip11: status is not 200", resp(), ""
		}
		if !json.Valid(body) {
			return "C20/nip11: body is not valid JSON", resp(), ""
		}
		var got mocrelay.NIP11
		if err := json.Unmarshal(body, &got); err != nil {
			return "C20/nip11: body does not decode into NIP11", err.Error() + "; " + resp(), ""
		}
		wantDoc := populatedOrEmpty(rc.NIP11)
		if !reflect.DeepEqual(normDoc(&got), normDoc(wantDoc)) {
			return "C20/nip11: body differs from configured document", "fields: " + strings.Join(diffFields(&got, wantDoc), ",") + "; " + resp(), ""
		}
		mt, params, err := mime.ParseMediaType(rec.Header().Get("Content-Type"))
		if err != nil || mt != nostrJSON {
			return "C20/nip11: Content-Type is not application/nostr+json", resp(), ""
		}
		if len(params) > 0 {
			c.Unclaimed(1) // parameters on the media type are not spoken about
		}
		if rec.Header().Get("Access-Control-Allow-Origin") != "*" {
			return "C20/nip11: missing CORS header", resp(), ""
		}
		return "", "", "nip11:200"
	}
	judgeDefault := func() (sig, detail, oc string) {
		// (c) default handler or greeting; the document must not be served
		if rc.Default {
			if dcalls != 1 {
				return "C20/routing: default handler not reached", fmt.Sprintf("calls=%d; ", dcalls) + resp(), ""
			}
			if dm.method != rc.Method || dm.path != rc.Path {
				return "C20/routing: default handler saw a different request", fmt.Sprintf("saw %s %s; ", dm.method, dm.path) + resp(), ""
			}
			if string(body) != defaultBody {
				return "C20/routing: default handler response altered", resp(), ""
			}
			return "", "", "default"
		}
		mt, _, _ := mime.ParseMediaType(rec.Header().Get("Content-Type"))
		switch {
		case len(body) == 0:
			return "C20/routing: no greeting", resp(), ""
		case isJSONObject(body) || mt == nostrJSON:
			return "C20/routing: NIP-11 document served without the Accept header", resp(), ""
		}
		return "", "", "greeting"
	}
	switch acceptClass(rc.Accept) {
	case "unclaimed":
		// an Accept value that contains the media type, or differs from it in letter case: which of
		// the two answers is due is not decided here, but the response must be ONE of them in full —
		// the statement leaves no third kind of answer (an error page, half a document)
		c.Unclaimed(1)
		sd, _, od := judgeDoc()
		sf, _, of := judgeDefault()
		switch {
		case sf == "":
			outcome("unclaimed-accept:" + of)
		case sd == "":
			outcome("unclaimed-accept:" + od)
		default:
			c.Violate("C20/routing: request whose Accept merely contains (or differs in case from) the media type is answered neither with the document nor by the default handler / greeting",
				"as a document answer: "+sd+"; as a default answer: "+sf+"; "+resp(), rc)
		}
		return

	case "exact":
		sig, detail, oc := judgeDoc()
		if sig != "" {
			c.Violate(sig, detail, rc)
			return
		}
		if strings.HasPrefix(oc, "unclaimed-") {
			c.Unclaimed(1)
		}
		outcome(oc)
		return

	default:
		sig, detail, oc := judgeDefault()
		if sig != "" {
			c.Violate(sig, detail, rc)
			return
		}
		outcome(oc)
	}
}

func populatedOrEmpty(kind string) *mocrelay.NIP11 {
	if kind == "populated" {
		return populatedDoc()
	}
	return &mocrelay.NIP11{}
}
