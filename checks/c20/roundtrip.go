package main

import (
	"bytes"
	"encoding/json"
	"fmt"
	"math"
	"net/http"
	"net/http/httptest"
	"reflect"
	"runtime"
	"strings"
	"sync"
	"sync/atomic"

	"github.com/high-moctane/mocrelay"
	"verifkit/vk"
)

// ---------------------------------------------------------------------------------------------
// comparison up to nil/empty collections

// normValue returns a deep copy of v in which every empty slice is nil.
func normValue(v reflect.Value) reflect.Value {
	switch v.Kind() {
	case reflect.Pointer:
		if v.IsNil() {
			return reflect.Zero(v.Type())
		}
		n := reflect.New(v.Type().Elem())
		n.Elem().Set(normValue(v.Elem()))
		return n
	case reflect.Slice:
		if v.Len() == 0 {
			return reflect.Zero(v.Type())
		}
		n := reflect.MakeSlice(v.Type(), v.Len(), v.Len())
		for i := 0; i < v.Len(); i++ {
			n.Index(i).Set(normValue(v.Index(i)))
		}
		return n
	case reflect.Struct:
		n := reflect.New(v.Type()).Elem()
		for i := 0; i < v.NumField(); i++ {
			if n.Field(i).CanSet() {
				n.Field(i).Set(normValue(v.Field(i)))
			}
		}
		return n
	default:
		return v
	}
}

func normDoc(d *mocrelay.NIP11) *mocrelay.NIP11 {
	return normValue(reflect.ValueOf(d)).Interface().(*mocrelay.NIP11)
}

// diffFields names the top-level fields in which got differs from want (both normalised);
// a name gets the suffix " lost" when got's field is the zero value and " changed" otherwise.
func diffFields(got, want *mocrelay.NIP11) []string {
	g, w := reflect.ValueOf(normDoc(got)).Elem(), reflect.ValueOf(normDoc(want)).Elem()
	var out []string
	for i := 0; i < w.NumField(); i++ {
		if !reflect.DeepEqual(g.Field(i).Interface(), w.Field(i).Interface()) {
			if g.Field(i).IsZero() {
				out = append(out, w.Type().Field(i).Name+" lost")
			} else {
				out = append(out, w.Type().Field(i).Name+" changed")
			}
		}
	}
	return out
}

// ---------------------------------------------------------------------------------------------
// value domains

func kd(f, t int) *mocrelay.Nip11Kind { return &mocrelay.Nip11Kind{From: f, To: t} }

func baseKinds() []mocrelay.Nip11Kind {
	return []mocrelay.Nip11Kind{{From: 0, To: 0}, {From: 1, To: 1}, {From: 1, To: 2}, {From: 40000, To: 49999}, {From: -1, To: -1},
		{From: -5, To: 3}, {From: 1 << 40, To: 1 << 40}, {From: 5, To: 1}}
}

type kindList struct {
	ks    []*mocrelay.Nip11Kind
	claim bool // false: contains a nil element, only "no panic" is claimed
}

func kindLists() []kindList {
	out := []kindList{{nil, true}, {[]*mocrelay.Nip11Kind{}, true}}
	var all []*mocrelay.Nip11Kind
	for _, k := range baseKinds() {
		k := k
		out = append(out, kindList{[]*mocrelay.Nip11Kind{&k}, true})
		all = append(all, &k)
	}
	out = append(out,
		kindList{[]*mocrelay.Nip11Kind{kd(1, 2), kd(40000, 49999)}, true},
		kindList{[]*mocrelay.Nip11Kind{kd(0, 0), kd(1, 2), kd(1, 1)}, true},
		kindList{[]*mocrelay.Nip11Kind{kd(7, 7), kd(7, 7)}, true},
		kindList{all, true},
		kindList{[]*mocrelay.Nip11Kind{kd(1, 1), nil, kd(2, 3)}, false},
	)
	return out
}

func fullLimitation() *mocrelay.NIP11Limitation {
	return &mocrelay.NIP11Limitation{MaxMessageLength: 16384, MaxSubscriptions: 20, MaxFilters: 100, MaxLimit: 5000, MaxSubIDLength: 100,
		MaxEventTags: 100, MaxContentLength: 8196, MinPoWDifficulty: 30, AuthRequired: true, PaymentRequired: true,
		CreatedAtLowerLimit: 31536000, CreatedAtUpperLimit: 3}
}

type tdoc struct {
	label string
	doc   *mocrelay.NIP11
	claim bool
}

// topOptions gives, per top-level field (struct order), the values of that field in the big
// product; option 0 is always "absent" (the zero value). Quick uses the first two options of every
// field (2^16 documents), thorough all of them.
func topOptions() [][]func(*mocrelay.NIP11) {
	str := func(set func(*mocrelay.NIP11, string), v string) []func(*mocrelay.NIP11) {
		return []func(*mocrelay.NIP11){func(*mocrelay.NIP11) {}, func(d *mocrelay.NIP11) { set(d, v) }}
	}
	none := func(*mocrelay.NIP11) {}
	return [][]func(*mocrelay.NIP11){
		str(func(d *mocrelay.NIP11, v string) { d.Name = v }, "my <relay> & \"co\" é "),
		str(func(d *mocrelay.NIP11, v string) { d.Description = v }, "line1\nline2\ttab \\ back"),
		str(func(d *mocrelay.NIP11, v string) { d.Pubkey = v }, strings.Repeat("ab", 32)),
		str(func(d *mocrelay.NIP11, v string) { d.Contact = v }, "mailto:a@example.com"),
		{none, func(d *mocrelay.NIP11) { d.SupportedNIPs = []int{1, 11} }, func(d *mocrelay.NIP11) { d.SupportedNIPs = []int{0} }},
		str(func(d *mocrelay.NIP11, v string) { d.Software = v }, "https://example.com/sw"),
		str(func(d *mocrelay.NIP11, v string) { d.Version = v }, "v0.0.1"),
		{none, func(d *mocrelay.NIP11) { d.Limitation = fullLimitation() }, func(d *mocrelay.NIP11) { d.Limitation = &mocrelay.NIP11Limitation{} }},
		{none, func(d *mocrelay.NIP11) {
			d.Retention = &mocrelay.NIP11Retention{Kinds: []*mocrelay.Nip11Kind{kd(0, 0), kd(1, 2), kd(40000, 49999)}, Time: ip(3600), Count: ip(0)}
		}, func(d *mocrelay.NIP11) { d.Retention = &mocrelay.NIP11Retention{} }},
		{none, func(d *mocrelay.NIP11) { d.RelayContries = []string{"JP", "US"} }, func(d *mocrelay.NIP11) { d.RelayContries = []string{"CA"} }},
		{none, func(d *mocrelay.NIP11) { d.LanguageTags = []string{"ja", "en-419"} }, func(d *mocrelay.NIP11) { d.LanguageTags = []string{"*"} }},
		{none, func(d *mocrelay.NIP11) { d.Tags = []string{"sfw-only", "bitcoin-only"} }, func(d *mocrelay.NIP11) { d.Tags = []string{""} }},
		str(func(d *mocrelay.NIP11, v string) { d.PostingPolicy = v }, "https://example.com/policy"),
		str(func(d *mocrelay.NIP11, v string) { d.PaymentsURL = v }, "https://example.com/pay"),
		{none, func(d *mocrelay.NIP11) {
			d.Fees = &mocrelay.NIP11Fees{
				Admission:    []*mocrelay.Nip11Fee{{Amount: 1000000, Unit: "msats"}},
				Subscription: []*mocrelay.Nip11Fee{{Amount: 5000000, Unit: "msats", Period: ip(2592000)}, {Amount: 0, Unit: "sats", Period: ip(30)}},
				Publication:  []*mocrelay.Nip11Fee{{Kinds: []*mocrelay.Nip11Kind{kd(4, 4), kd(1, 2)}, Amount: 100, Unit: "msats"}},
			}
		}, func(d *mocrelay.NIP11) { d.Fees = &mocrelay.NIP11Fees{Publication: []*mocrelay.Nip11Fee{{Amount: 0}}} }},
		str(func(d *mocrelay.NIP11, v string) { d.Icon = v }, "https://example.com/icon.png"),
	}
}

func targetedDocs() []tdoc {
	var out []tdoc
	add := func(label string, claim bool, f func(d *mocrelay.NIP11)) {
		d := &mocrelay.NIP11{}
		f(d)
		out = append(out, tdoc{label, d, claim})
	}
	add("empty", true, func(*mocrelay.NIP11) {})
	out = append(out, tdoc{"populated", populatedDoc(), true})

	// Limitation
	add("lim-zero", true, func(d *mocrelay.NIP11) { d.Limitation = &mocrelay.NIP11Limitation{} })
	add("lim-full", true, func(d *mocrelay.NIP11) { d.Limitation = fullLimitation() })
	lt := reflect.TypeOf(mocrelay.NIP11Limitation{})
	for i := 0; i < lt.NumField(); i++ {
		i := i
		for _, iv := range []int64{1, -1, math.MaxInt32, math.MaxInt64, math.MinInt64} {
			iv := iv
			if lt.Field(i).Type.Kind() == reflect.Bool {
				if iv != 1 {
					continue
				}
				add("lim-only-"+lt.Field(i).Name, true, func(d *mocrelay.NIP11) {
					l := &mocrelay.NIP11Limitation{}
					reflect.ValueOf(l).Elem().Field(i).SetBool(true)
					d.Limitation = l
				})
				continue
			}
			add(fmt.Sprintf("lim-only-%s=%d", lt.Field(i).Name, iv), true, func(d *mocrelay.NIP11) {
				l := &mocrelay.NIP11Limitation{}
				reflect.ValueOf(l).Elem().Field(i).SetInt(iv)
				d.Limitation = l
			})
		}
	}
	for _, a := range []bool{false, true} {
		for _, p := range []bool{false, true} {
			a, p := a, p
			add(fmt.Sprintf("lim-bools-%v-%v", a, p), true, func(d *mocrelay.NIP11) {
				l := fullLimitation()
				l.AuthRequired, l.PaymentRequired = a, p
				d.Limitation = l
			})
		}
	}

	// Retention
	opt := []*int{nil, ip(0), ip(5)}
	for ki, kl := range kindLists() {
		for ti, t := range opt {
			for ci, cn := range opt {
				kl, t, cn := kl, t, cn
				add(fmt.Sprintf("ret-k%d-t%d-c%d", ki, ti, ci), kl.claim, func(d *mocrelay.NIP11) {
					d.Retention = &mocrelay.NIP11Retention{Kinds: kl.ks, Time: t, Count: cn}
				})
			}
		}
	}

	// Fees: every fee shape in each of the three lists
	var fees []*mocrelay.Nip11Fee
	var feeClaim []bool
	for _, kl := range kindLists() {
		for _, am := range []int{0, 1} {
			for _, un := range []string{"", "msats"} {
				for _, pe := range []*int{nil, ip(0), ip(30)} {
					fees = append(fees, &mocrelay.Nip11Fee{Kinds: kl.ks, Amount: am, Unit: un, Period: pe})
					feeClaim = append(feeClaim, kl.claim)
				}
			}
		}
	}
	for fi, f := range fees {
		for li := 0; li < 3; li++ {
			f, li := f, li
			add(fmt.Sprintf("fee%d-list%d", fi, li), feeClaim[fi], func(d *mocrelay.NIP11) {
				fs := &mocrelay.NIP11Fees{}
				l := []*mocrelay.Nip11Fee{f}
				switch li {
				case 0:
					fs.Admission = l
				case 1:
					fs.Subscription = l
				default:
					fs.Publication = l
				}
				d.Fees = fs
			})
		}
	}
	f1 := &mocrelay.Nip11Fee{Amount: 1, Unit: "msats", Period: ip(30)}
	f2 := &mocrelay.Nip11Fee{Kinds: []*mocrelay.Nip11Kind{kd(1, 1), kd(5, 9)}, Amount: 0, Unit: "sats"}
	shapes := [][]*mocrelay.Nip11Fee{nil, {}, {f1}, {f1, f2}}
	for a, sa := range shapes {
		for s, ss := range shapes {
			for p, sp := range shapes {
				sa, ss, sp := sa, ss, sp
				add(fmt.Sprintf("fees-shape-%d%d%d", a, s, p), true, func(d *mocrelay.NIP11) {
					d.Fees = &mocrelay.NIP11Fees{Admission: sa, Subscription: ss, Publication: sp}
				})
			}
		}
	}
	add("fees-nil-element", false, func(d *mocrelay.NIP11) { d.Fees = &mocrelay.NIP11Fees{Admission: []*mocrelay.Nip11Fee{f1, nil}} })

	// plain slices
	for _, ns := range [][]int{{}, {0}, {1}, {1, 11}, {-1, 0, 65535}, {1, 1}} {
		ns := ns
		add(fmt.Sprintf("nips-%v", ns), true, func(d *mocrelay.NIP11) { d.SupportedNIPs = ns })
	}
	for _, ss := range [][]string{{}, {""}, {"a"}, {"a", "b"}, {"", ""}, {"<", "é "}} {
		ss := ss
		add(fmt.Sprintf("countries-%q", ss), true, func(d *mocrelay.NIP11) { d.RelayContries = ss })
		add(fmt.Sprintf("langs-%q", ss), true, func(d *mocrelay.NIP11) { d.LanguageTags = ss })
		add(fmt.Sprintf("tags-%q", ss), true, func(d *mocrelay.NIP11) { d.Tags = ss })
	}

	// strings: every string field with every awkward (valid UTF-8) text
	nt := reflect.TypeOf(mocrelay.NIP11{})
	for i := 0; i < nt.NumField(); i++ {
		if nt.Field(i).Type.Kind() != reflect.String {
			continue
		}
		i := i
		for si, s := range []string{"a", " ", "\"", "\\", "<>&", "  ", "é日本語😀", "\x00\x1f", "null", "{}", strings.Repeat("x", 5000)} {
			s := s
			add(fmt.Sprintf("str-%s-%d", nt.Field(i).Name, si), true, func(d *mocrelay.NIP11) { reflect.ValueOf(d).Elem().Field(i).SetString(s) })
		}
		// invalid UTF-8 is not text; encoding/json replaces it. Unclaimed (no panic only).
		add("str-"+nt.Field(i).Name+"-invalid-utf8", false, func(d *mocrelay.NIP11) { reflect.ValueOf(d).Elem().Field(i).SetString("a\xffb") })
	}
	return out
}

// ---------------------------------------------------------------------------------------------
// the oracle for one document

type docJob struct {
	label string
	doc   *mocrelay.NIP11
	claim bool
	serve bool
}

func roundtripDoc(c *vk.Ctx, j docJob) {
	rp := func() any {
		b, _ := json.Marshal(j.doc)
		return map[string]any{"label": j.label, "doc_json": clip2(b), "doc_go": fmt.Sprintf("%+v", *j.doc)}
	}
	guard(c, "json round trip of NIP11", map[string]any{"label": j.label}, func() {
		b1, err := json.Marshal(j.doc)
		if !j.claim {
			// nil list elements / invalid UTF-8: only absence of a panic is claimed
			var got mocrelay.NIP11
			if err == nil {
				_ = json.Unmarshal(b1, &got)
			}
			c.Unclaimed(1)
			c.Outcome("unclaimed-config")
			return
		}
		if err != nil {
			c.Violate("C20/roundtrip: marshal failed", err.Error(), rp())
			return
		}
		if !json.Valid(b1) {
			c.Violate("C20/roundtrip: marshal output is not valid JSON", clip2(b1), rp())
			return
		}
		var got mocrelay.NIP11
		if err := json.Unmarshal(b1, &got); err != nil {
			c.Violate("C20/roundtrip: unmarshal of own output failed", err.Error()+" json="+clip2(b1), rp())
			return
		}
		if df := diffFields(&got, j.doc); len(df) > 0 {
			for _, f := range df {
				gb, _ := json.Marshal(&got)
				c.Violate("C20/roundtrip: document field "+f, fmt.Sprintf("label=%s json=%s decoded-and-remarshalled=%s", j.label, clip2(b1), clip2(gb)), rp())
			}
			return
		}
		b2, err := json.Marshal(&got)
		if err != nil || !bytes.Equal(b1, b2) {
			c.Violate("C20/roundtrip: re-marshal not byte-identical", fmt.Sprintf("first=%s second=%s err=%v", clip2(b1), clip2(b2), err), rp())
			return
		}
		var top map[string]json.RawMessage
		_ = json.Unmarshal(b1, &top)
		c.Outcome(fmt.Sprintf("roundtrip-ok:keys=%d", len(top)))
	})
	if !j.serve || !j.claim {
		return
	}
	guard(c, "serving NIP11", map[string]any{"label": j.label}, func() {
		for _, via := range []string{"NIP11.ServeHTTP", "ServeMux.ServeHTTP"} {
			rec := httptest.NewRecorder()
			req := httptest.NewRequest("GET", "/", nil)
			req.Header.Set("Accept", nostrJSON)
			var h http.Handler = j.doc
			if via == "ServeMux.ServeHTTP" {
				h = &mocrelay.ServeMux{Relay: mocrelay.NewRelay(&nostrMarker{}, nil), NIP11: j.doc}
			}
			h.ServeHTTP(rec, req)
			body := rec.Body.Bytes()
			var got mocrelay.NIP11
			switch {
			case rec.Code != http.StatusOK:
				c.Violate("C20/roundtrip: served document status is not 200 ("+via+")", fmt.Sprintf("status=%d body=%s", rec.Code, clip2(body)), rp())
			case !json.Valid(body):
				c.Violate("C20/roundtrip: served document is not valid JSON ("+via+")", clip2(body), rp())
			case json.Unmarshal(body, &got) != nil:
				c.Violate("C20/roundtrip: served document does not decode ("+via+")", clip2(body), rp())
			case len(diffFields(&got, j.doc)) > 0:
				c.Violate("C20/roundtrip: served document differs from configuration ("+via+")",
					fmt.Sprintf("fields=%v body=%s", diffFields(&got, j.doc), clip2(body)), rp())
			case rec.Header().Get("Access-Control-Allow-Origin") != "*":
				c.Violate("C20/nip11: missing CORS header", "via "+via, rp())
			case !strings.HasPrefix(rec.Header().Get("Content-Type"), nostrJSON):
				c.Violate("C20/nip11: Content-Type is not application/nostr+json", "via "+via+": "+rec.Header().Get("Content-Type"), rp())
			default:
				c.Outcome("served-ok:" + via)
			}
		}
	})
}

func clip2(b []byte) string {
	if len(b) > 600 {
		return string(b[:600]) + "..."
	}
	return string(b)
}

// ---------------------------------------------------------------------------------------------
// Nip11Kind on its own

func kindDomain(c *vk.Ctx) []mocrelay.Nip11Kind {
	ks := baseKinds()
	vals := []int{-5, -1, 0, 1, 2, 3}
	if c.Thorough() {
		vals = []int{math.MinInt64, math.MinInt32, -5, -1, 0, 1, 2, 3, 5, 9, 10, 40000, 49999, 65535, math.MaxInt32, 1 << 40, 1<<53 + 1, math.MaxInt64}
	}
	for _, f := range vals {
		for _, t := range vals {
			ks = append(ks, mocrelay.Nip11Kind{From: f, To: t})
		}
	}
	return ks
}

// jsonShape decodes b independently of mocrelay: ("number", [n]) or ("array", elements) or other.
func jsonShape(b []byte) (string, []string) {
	dec := json.NewDecoder(bytes.NewReader(b))
	dec.UseNumber()
	var v any
	if err := dec.Decode(&v); err != nil || dec.More() {
		return "invalid", nil
	}
	switch x := v.(type) {
	case json.Number:
		return "number", []string{x.String()}
	case []any:
		var el []string
		for _, e := range x {
			n, ok := e.(json.Number)
			if !ok {
				return "array-of-other", nil
			}
			el = append(el, n.String())
		}
		return "array", el
	}
	return "other", nil
}

func checkKinds(c *vk.Ctx) int64 {
	var n int64
	for _, k := range kindDomain(c) {
		k := k
		n++
		guard(c, "Nip11Kind round trip", k, func() {
			b, err := json.Marshal(k)
			if err != nil {
				c.Violate("C20/roundtrip: Nip11Kind marshal failed", err.Error(), k)
				return
			}
			bp, err := json.Marshal(&k)
			if err != nil || !bytes.Equal(b, bp) {
				c.Violate("C20/roundtrip: Nip11Kind marshals differently by pointer", fmt.Sprintf("%s vs %s err=%v", b, bp, err), k)
				return
			}
			shape, el := jsonShape(b)
			if k.From == k.To {
				if shape != "number" || el[0] != fmt.Sprint(k.From) {
					c.Violate("C20/roundtrip: Nip11Kind single kind not written as one number", fmt.Sprintf("%+v -> %s", k, b), k)
					return
				}
			} else if shape != "array" || len(el) != 2 || el[0] != fmt.Sprint(k.From) || el[1] != fmt.Sprint(k.To) {
				c.Violate("C20/roundtrip: Nip11Kind range not written as [from,to]", fmt.Sprintf("%+v -> %s", k, b), k)
				return
			}
			var got mocrelay.Nip11Kind
			if err := json.Unmarshal(b, &got); err != nil {
				c.Violate("C20/roundtrip: Nip11Kind unmarshal of own output failed", fmt.Sprintf("%+v -> %s: %v", k, b, err), k)
				return
			}
			if got != k {
				sig := "C20/roundtrip: Nip11Kind pair decodes to different value"
				if k.From == k.To {
					sig = "C20/roundtrip: Nip11Kind single number decodes to different value"
				}
				c.Violate(sig, fmt.Sprintf("%+v -> %s -> %+v", k, b, got), k)
				return
			}
			// text forms, written by hand: k, [k,k], [k,m], with and without blanks
			type form struct {
				txt  string
				want mocrelay.Nip11Kind
			}
			forms := []form{
				{fmt.Sprintf("[%d,%d]", k.From, k.To), k},
				{fmt.Sprintf(" [ %d ,\n %d ] ", k.From, k.To), k},
				{fmt.Sprintf("%d", k.From), mocrelay.Nip11Kind{From: k.From, To: k.From}},
				{fmt.Sprintf("[%d,%d]", k.To, k.To), mocrelay.Nip11Kind{From: k.To, To: k.To}},
			}
			for _, fm := range forms {
				txt, want := fm.txt, fm.want
				var g mocrelay.Nip11Kind
				if err := json.Unmarshal([]byte(txt), &g); err != nil {
					c.Violate("C20/roundtrip: Nip11Kind well-formed text rejected", fmt.Sprintf("%q: %v", txt, err), txt)
					continue
				}
				if g != want {
					sig := "C20/roundtrip: Nip11Kind pair decodes to different value"
					if !strings.Contains(txt, "[") {
						sig = "C20/roundtrip: Nip11Kind single number decodes to different value"
					}
					c.Violate(sig, fmt.Sprintf("%q -> %+v, want %+v", txt, g, want), txt)
				}
				// the same text inside a document, where the element type is *Nip11Kind
				var d mocrelay.NIP11
				dt := `{"retention":{"kinds":[` + txt + `]},"fees":{"publication":[{"kinds":[` + txt + `],"amount":1}]}}`
				if err := json.Unmarshal([]byte(dt), &d); err != nil {
					c.Violate("C20/roundtrip: Nip11Kind well-formed text rejected", fmt.Sprintf("in document %q: %v", dt, err), dt)
					continue
				}
				if d.Retention == nil || len(d.Retention.Kinds) != 1 || d.Retention.Kinds[0] == nil || *d.Retention.Kinds[0] != want ||
					d.Fees == nil || len(d.Fees.Publication) != 1 || len(d.Fees.Publication[0].Kinds) != 1 || d.Fees.Publication[0].Kinds[0] == nil ||
					*d.Fees.Publication[0].Kinds[0] != want {
					db, _ := json.Marshal(&d)
					c.Violate("C20/roundtrip: Nip11Kind inside a document decodes to different value", fmt.Sprintf("%q -> %s", dt, db), dt)
				}
			}
			if k.From == k.To {
				c.Outcome("kind:number")
			} else {
				c.Outcome("kind:pair")
			}
		})
	}
	// malformed / out-of-grammar inputs: nothing but "does not panic" is claimed
	bad := []string{`[1,2,3]`, `"x"`, `[1]`, `{}`, `null`, `1.5`, `[1,"a"]`, `[]`, `true`, `[1.5,2]`, `1e3`, `[null,1]`, `[1,null]`,
		`99999999999999999999`, `[1,99999999999999999999]`, `[[1],2]`, ``, `[1,2`, `-`, `[1,2]x`, `"1"`, `["1","2"]`, `{"From":1,"To":2}`, `-0`, `[1e2,3]`}
	for _, s := range bad {
		s := s
		n++
		guard(c, "Nip11Kind decoding malformed text", s, func() {
			var g mocrelay.Nip11Kind
			err := json.Unmarshal([]byte(s), &g)
			var direct mocrelay.Nip11Kind
			_ = direct.UnmarshalJSON([]byte(s))
			var d mocrelay.NIP11
			_ = json.Unmarshal([]byte(`{"retention":{"kinds":[`+s+`]}}`), &d)
			_ = json.Unmarshal([]byte(`{"fees":{"admission":[{"kinds":[`+s+`]}]}}`), &d)
			c.Unclaimed(1)
			if err != nil {
				c.Outcome("malformed-kind:error")
			} else {
				c.Outcome("malformed-kind:accepted")
			}
		})
	}
	// out-of-grammar documents: no panic
	for _, s := range []string{`null`, `{}`, `[]`, `{"limitation":null}`, `{"limitation":[]}`, `{"fees":{"admission":[null]}}`, `{"fees":null}`,
		`{"supported_nips":null}`, `{"supported_nips":[1.5]}`, `{"retention":{"kinds":null,"time":null}}`, `{"retention":[]}`, `{"name":1}`,
		`{"retention":{"kinds":[[1,2],3,[4,4]]}}`, `{"name":"a","name":"b"}`} {
		s := s
		n++
		guard(c, "NIP11 decoding out-of-grammar text", s, func() {
			var d mocrelay.NIP11
			err := json.Unmarshal([]byte(s), &d)
			if err == nil {
				_, _ = json.Marshal(&d)
			}
			c.Unclaimed(1)
			c.Outcome("odd-document:no-panic")
		})
	}
	return n
}

// ---------------------------------------------------------------------------------------------

func c20Roundtrip(c *vk.Ctx) {
	c.MaxSamples = 8
	c.P.Rule = "a document counts once json.Marshal, json.Unmarshal into a fresh NIP11, field-by-field comparison (nil = empty collections) and " +
		"re-marshal (byte-identical) were all executed on it; documents: complete product of per-field options for the 16 top-level fields " +
		"(quick: absent/present = 2^16; thorough: 3 options for the 7 structured fields = 2^9*3^7) plus targeted variants of Limitation, Retention, " +
		"Fees, slices and strings; kinds: every Nip11Kind of the domain marshalled, shape-checked by an independent decoder, unmarshalled, and decoded " +
		"from hand-written text alone and inside a document"
	c.Assume("documents with nil list elements or invalid UTF-8 strings, and malformed Nip11Kind texts, are unclaimed except that nothing panics")
	c.Assume("equality is up to nil versus empty collections (omitempty drops empty lists); pointers to zero structs must come back as non-nil pointers because the JSON carries {}")

	opts := topOptions()
	radix := make([]int, len(opts))
	total := 1
	for i, o := range opts {
		radix[i] = 2
		if c.Thorough() {
			radix[i] = len(o)
		}
		total *= radix[i]
	}
	if len(opts) != reflect.TypeOf(mocrelay.NIP11{}).NumField() {
		c.Infra("NIP11 has %d fields, the enumerator covers %d", reflect.TypeOf(mocrelay.NIP11{}).NumField(), len(opts))
	}
	build := func(idx int) *mocrelay.NIP11 {
		d := &mocrelay.NIP11{}
		for i := range opts {
			opts[i][idx%radix[i]](d)
			idx /= radix[i]
		}
		return d
	}
	serveStride := vk.Pick(c, 64, 16)
	if v := c.ArgInt("serve_stride", 0); v > 0 {
		serveStride = v
	}

	var evals, served atomic.Int64

	// 1. kinds alone
	evals.Add(checkKinds(c))

	// 2. targeted documents (all served)
	td := targetedDocs()
	for _, t := range td {
		roundtripDoc(c, docJob{t.label, t.doc, t.claim, true})
		if t.claim {
			served.Add(1)
		}
	}
	evals.Add(int64(len(td)))
	for _, i := range []int{1, 2, len(td) / 3, len(td) / 2, len(td) - 100} {
		if i >= 0 && i < len(td) {
			b, _ := json.Marshal(td[i].doc)
			c.Sample(map[string]any{"label": td[i].label, "json": clip2(b)})
		}
	}

	// 3. the big product, in parallel
	workers := runtime.NumCPU()
	if workers > 16 {
		workers = 16
	}
	const chunk = 512
	var next atomic.Int64
	var wg sync.WaitGroup
	for w := 0; w < workers; w++ {
		wg.Add(1)
		go func() {
			defer wg.Done()
			for {
				lo := int(next.Add(chunk)) - chunk
				if lo >= total {
					return
				}
				hi := min(lo+chunk, total)
				for idx := lo; idx < hi; idx++ {
					serve := idx%serveStride == 0 || idx == total-1
					roundtripDoc(c, docJob{fmt.Sprintf("product#%d", idx), build(idx), true, serve})
					if serve {
						served.Add(1)
					}
				}
				evals.Add(int64(hi - lo))
			}
		}()
	}
	wg.Wait()
	for _, idx := range []int{total - 1, total / 3, 12345 % total} {
		b, _ := json.Marshal(build(idx))
		c.Sample(map[string]any{"label": fmt.Sprintf("product#%d", idx), "json": clip2(b)})
	}

	c.Eval(evals.Load())
	c.DistinctN(evals.Load())
	c.SetExtra("documents_in_product", total)
	c.SetExtra("targeted_documents", len(td))
	c.SetExtra("documents_served_through_NIP11_and_ServeMux", served.Load())
	c.P.Bound = fmt.Sprintf("product of %d documents (radices %v) + %d targeted documents + %d kinds; %d documents also served over HTTP handlers",
		total, radix, len(td), len(kindDomain(c)), served.Load())
}
