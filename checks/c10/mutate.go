package main

import (
	"bufio"
	"bytes"
	"crypto/sha256"
	"fmt"
	"os"
	"path/filepath"
	"sort"
	"strconv"
	"strings"
	"sync"
	"sync/atomic"

	"verifkit/vk"
)

func init() { parts["c10-mutate"] = c10Mutate }

// seenSet deduplicates inputs by content (128 bits of SHA-256).
type seenSet struct {
	sh [64]struct {
		mu sync.Mutex
		m  map[[16]byte]struct{}
	}
}

func newSeenSet() *seenSet {
	s := &seenSet{}
	for i := range s.sh {
		s.sh[i].m = map[[16]byte]struct{}{}
	}
	return s
}

func (s *seenSet) add(b []byte) bool {
	h := sha256.Sum256(b)
	var k [16]byte
	copy(k[:], h[:16])
	sh := &s.sh[h[31]&63]
	sh.mu.Lock()
	defer sh.mu.Unlock()
	if _, ok := sh.m[k]; ok {
		return false
	}
	sh.m[k] = struct{}{}
	return true
}

func (s *seenSet) len() int64 {
	var n int64
	for i := range s.sh {
		s.sh[i].mu.Lock()
		n += int64(len(s.sh[i].m))
		s.sh[i].mu.Unlock()
	}
	return n
}

type seed struct {
	name string // file:line or generated:<n>
	typ  string
	text []byte
}

var testdataType = map[string]string{
	"clientauthmsgs": "ClientAuthMsg", "clientclosemsgs": "ClientCloseMsg", "clientcountmsgs": "ClientCountMsg", "clienteventmsgs": "ClientEventMsg",
	"clientreqmsgs": "ClientReqMsg", "events": "Event", "reqfilter": "ReqFilter", "serverauthmsgs": "ServerAuthMsg", "serverclosedmsgs": "ServerClosedMsg",
	"servercountmsgs": "ServerCountMsg", "servereosemsgs": "ServerEOSEMsg", "servereventmsgs": "ServerEventMsg", "servernoticemsgs": "ServerNoticeMsg", "serverokmsgs": "ServerOKMsg",
}

func testdataSeeds(c *vk.Ctx) []seed {
	files, err := filepath.Glob("/repo/testdata/*_valid.jsonl")
	if err != nil || len(files) == 0 {
		c.Infra("no /repo/testdata/*_valid.jsonl files: %v", err)
	}
	sort.Strings(files)
	var out []seed
	for _, f := range files {
		base := strings.TrimSuffix(filepath.Base(f), "_valid.jsonl")
		typ, ok := testdataType[base]
		if !ok {
			typ = "unknown"
		}
		fh, err := os.Open(f)
		if err != nil {
			c.Infra("cannot read %s: %v", f, err)
		}
		sc := bufio.NewScanner(fh)
		sc.Buffer(make([]byte, 1<<20), 1<<24)
		ln := 0
		for sc.Scan() {
			ln++
			line := bytes.TrimRight(sc.Bytes(), "\r\n")
			if len(bytes.TrimSpace(line)) == 0 {
				continue
			}
			out = append(out, seed{fmt.Sprintf("%s:%d", filepath.Base(f), ln), typ, append([]byte{}, line...)})
		}
		fh.Close()
	}
	return out
}

// generatedSeeds: hand-written valid texts of all 14 types + Event + ReqFilter, with the
// features testdata lacks (whitespace, escapes, every filter key, negative numbers, prefixes).
func generatedSeeds() []seed {
	ev1 := eventText(nil)
	ev2 := eventText(map[string]string{"tags": `[["e","` + sampleID + `","wss://r.example"],["p","` + samplePK + `"],["d",""],["t"]]`, "content": `"line\nbreak \"quoted\" \\ \u00e9 \ud83d\ude00 <&>"`, "kind": "30023", "created_at": "0"})
	ev3 := "{ \"sig\" : " + q(sampleSig) + " ,\n\t\"content\":\"\\u0041\", \"tags\":[ [ \"a\" , \"30023:" + samplePK + ":x:y\" ] ], \"kind\":65535, \"created_at\":9223372036854775807, \"pubkey\":" + q(samplePK) + ", \"id\":" + q(sampleID) + " }"
	fAll := `{"ids":["` + sampleID + `"],"authors":["` + samplePK + `","` + sampleID + `"],"kinds":[0,1,65535],"#e":["` + sampleID + `"],"#p":[],"#T":["x","y"],"since":0,"until":9223372036854775807,"limit":1}`
	mk := func(typ, s string) seed { return seed{"", typ, []byte(s)} }
	out := []seed{
		mk("Event", ev1), mk("Event", ev2), mk("Event", ev3),
		mk("ReqFilter", `{}`), mk("ReqFilter", fAll), mk("ReqFilter", `{"kinds":[]}`), mk("ReqFilter", "{ \"since\" : 5 , \"#e\" : [ \"a\" ] }"), mk("ReqFilter", `{"limit":-1,"since":-9223372036854775808}`),
		mk("ClientEventMsg", `["EVENT",`+ev2+`]`), mk("ClientEventMsg", "[ \"EVENT\" ,\n"+ev3+" ]"),
		mk("ClientReqMsg", `["REQ","",{}]`), mk("ClientReqMsg", `["REQ","sub \"1\"",`+fAll+`,{},{"kinds":[1]}]`), mk("ClientReqMsg", "[\n\"REQ\", \"s\", { \"limit\" : 0 } ]"),
		mk("ClientCloseMsg", `["CLOSE",""]`), mk("ClientCloseMsg", `[ "CLOSE" , "\u00e9\n" ]`),
		mk("ClientAuthMsg", `["AUTH",`+eventText(map[string]string{"kind": "22242", "tags": `[["relay","wss://r"],["challenge","c"]]`})+`]`),
		mk("ClientCountMsg", `["COUNT","c",`+fAll+`]`), mk("ClientCountMsg", `["COUNT","c",{"kinds":[7]},{"#e":["`+sampleID+`"]}]`),
		mk("ServerEOSEMsg", `["EOSE",""]`), mk("ServerEOSEMsg", `["EOSE","sub:1"]`),
		mk("ServerEventMsg", `["EVENT","s",`+ev2+`]`), mk("ServerEventMsg", `[ "EVENT", "", `+ev3+`]`),
		mk("ServerNoticeMsg", `["NOTICE",""]`), mk("ServerNoticeMsg", `["NOTICE","error: \"x\" \\ \u2028"]`),
		mk("ServerOKMsg", `["OK","",false,"rate-limited: slow down"]`), mk("ServerOKMsg", `[ "OK" , "`+sampleID+`" , true , "duplicate: duplicate: x" ]`), mk("ServerOKMsg", `["OK","a",false,"pow:no blank"]`),
		mk("ServerAuthMsg", `["AUTH",""]`), mk("ServerAuthMsg", `["AUTH","\"\\\/\b\f\n\r\t"]`),
		mk("ServerCountMsg", `["COUNT","",{"count":0}]`), mk("ServerCountMsg", `["COUNT","s",{"approximate":true,"count":18446744073709551615}]`), mk("ServerCountMsg", `[ "COUNT" , "s" , { "count" : 1 , "approximate" : false } ]`),
		mk("ServerClosedMsg", `["CLOSED","","error: "]`), mk("ServerClosedMsg", `["CLOSED","s","auth-required: unknown prefix"]`),
	}
	for i := range out {
		out[i].name = fmt.Sprintf("generated:%d(%s)", i, out[i].typ)
	}
	return out
}

func joinBytes(parts ...[]byte) []byte {
	n := 0
	for _, p := range parts {
		n += len(p)
	}
	b := make([]byte, 0, n)
	for _, p := range parts {
		b = append(b, p...)
	}
	return b
}

// tokenMutants calls emit for every token-level single-point mutant of t.
func tokenMutants(t []byte, emit func(kind string, b []byte)) {
	toks := tokenize(t)
	for _, tk := range toks {
		emit("token delete", joinBytes(t[:tk.s], t[tk.e:]))
		emit("token duplicate", joinBytes(t[:tk.e], t[tk.s:tk.e], t[tk.e:]))
		for _, a := range alphabet {
			emit("token replace", joinBytes(t[:tk.s], []byte(a), t[tk.e:]))
			emit("token insert", joinBytes(t[:tk.s], []byte(a), t[tk.s:]))
		}
	}
	for _, a := range alphabet {
		emit("token insert", joinBytes(t, []byte(a)))
	}
}

// mutants calls emit for every single-point mutant of the seed. stride applies to byte-level
// mutations only.
func mutants(sd *seed, stride int, emit func(kind string, b []byte)) {
	t := sd.text
	tokenMutants(t, emit)
	for _, m := range memberSpans(t, tokenize(t)) {
		emit("member duplicate", joinBytes(t[:m.e], []byte(","), t[m.s:m.e], t[m.e:]))
		emit("member delete", deleteMember(t, m))
	}
	for i := 0; i < len(t); i += stride {
		emit("byte delete", joinBytes(t[:i], t[i+1:]))
		for _, r := range []byte{'"', '\\', 0x00, 0xFF} {
			emit("byte replace", joinBytes(t[:i], []byte{r}, t[i+1:]))
		}
	}
}

// deleteMember removes an object member together with one adjacent comma.
func deleteMember(t []byte, m span) []byte {
	s, e := m.s, m.e
	j := e
	for j < len(t) && (t[j] == ' ' || t[j] == '\n' || t[j] == '\t' || t[j] == '\r') {
		j++
	}
	if j < len(t) && t[j] == ',' {
		e = j + 1
	} else {
		i := s - 1
		for i >= 0 && (t[i] == ' ' || t[i] == '\n' || t[i] == '\t' || t[i] == '\r') {
			i--
		}
		if i >= 0 && t[i] == ',' {
			s = i
		}
	}
	return append(append([]byte{}, t[:s]...), t[e:]...)
}

func c10Mutate(c *vk.Ctx) {
	stride := c.ArgInt("stride", 1) // both tiers afford every byte position; stride=3 is available as an argument
	seeds := append(testdataSeeds(c), generatedSeeds()...)
	es := allEntries()
	ck := &checker{col: newCollector()}
	seen := newSeenSet()

	// the seeds themselves: record whether the decoder of their type accepts them (not a claim of
	// this property: acceptance of well-formed texts is C11)
	accepted := 0
	for i := range seeds {
		for _, e := range entriesOf(seeds[i].typ) {
			if _, err, pan := safeDecode(e, seeds[i].text); err == nil && pan == nil {
				accepted++
				break
			}
		}
	}
	c.SetExtra("seeds", len(seeds))
	c.SetExtra("seeds_accepted_by_their_decoder", accepted)

	var kindMu sync.Mutex
	kinds := map[string]int64{}
	total := parallel(int64(len(seeds)), 1, func(st *stats, lo, hi int64) {
		local := map[string]int64{}
		for i := lo; i < hi; i++ {
			sd := &seeds[i]
			// every distinct mutant of a seed is evaluated (a text that is a mutant of several
			// seeds is evaluated once per seed: keeps the run independent of goroutine timing);
			// the global set only counts distinct texts
			mine := map[string]struct{}{string(sd.text): {}}
			seen.add(sd.text)
			ck.checkInput(st, sd.text, "seed "+sd.name, es)
			mutants(sd, stride, func(kind string, b []byte) {
				if _, dup := mine[string(b)]; dup {
					return
				}
				mine[string(b)] = struct{}{}
				seen.add(b)
				local[kind]++
				ck.checkInput(st, b, kind+" of "+sd.name, es)
			})
		}
		kindMu.Lock()
		for k, v := range local {
			kinds[k] += v
		}
		kindMu.Unlock()
	})
	c.DistinctN(seen.len())
	c.SetExtra("mutants_by_kind_distinct_per_seed", kinds)

	// thorough: the two-point token-level neighbourhood of the short seeds (every token-level
	// mutant of every token-level mutant). Too many to deduplicate globally: they are evaluated
	// and counted in evaluations, not in the distinct count.
	t2 := c.ArgInt("t2", vk.Pick(c, 0, 9))
	if t2 > 0 {
		type job struct {
			sd    *seed
			first []byte
		}
		var jobs []job
		short := 0
		for i := range seeds {
			sd := &seeds[i]
			if len(tokenize(sd.text)) > t2 {
				continue
			}
			short++
			mine := map[string]struct{}{}
			tokenMutants(sd.text, func(_ string, b []byte) {
				if _, dup := mine[string(b)]; !dup {
					mine[string(b)] = struct{}{}
					jobs = append(jobs, job{sd, b})
				}
			})
		}
		var second atomic.Int64
		st2 := parallel(int64(len(jobs)), 4, func(st *stats, lo, hi int64) {
			for i := lo; i < hi; i++ {
				j := jobs[i]
				mine := map[string]struct{}{}
				tokenMutants(j.first, func(_ string, b []byte) {
					if _, dup := mine[string(b)]; dup {
						return
					}
					mine[string(b)] = struct{}{}
					ck.checkInput(st, b, "two token mutations of "+j.sd.name, es)
				})
				second.Add(int64(len(mine)))
			}
		})
		total.merge(st2)
		c.SetExtra("two_point_seeds", short)
		c.SetExtra("two_point_first_order_mutants", len(jobs))
		c.SetExtra("two_point_mutants_evaluated_not_in_distinct_count", second.Load())
	}
	total.publish(c)
	ck.col.flush(c)

	byteRule := "every byte position"
	if stride > 1 {
		byteRule = fmt.Sprintf("every %d. byte position", stride)
		c.Cap(fmt.Sprintf("byte-level mutations at every %d. byte only (stride argument); token- and member-level mutations are complete", stride))
	}
	c.P.Rule = fmt.Sprintf("complete single-point mutation neighbourhood of %d seed texts (every line of /repo/testdata/*_valid.jsonl plus %d hand-written valid texts covering all 14 message types, Event and ReqFilter): at every token: delete, duplicate, replace by each of the %d alphabet tokens, insert each alphabet token before it (and after the last); every object member: duplicate, delete; %s: delete, replace by '\"', '\\', 0x00, 0xFF; every distinct mutant is decoded by all 29 entry points [thorough: plus every token-level mutant of every token-level mutant of the seeds with at most 9 tokens]; distinct = distinct byte strings among seeds and single-point mutants",
		len(seeds), len(generatedSeeds()), len(alphabet), byteRule)
	c.P.Bound = "single-point mutations"
	if t2 > 0 {
		c.P.Bound = fmt.Sprintf("single-point mutations; two-point token mutations of seeds with <= %d tokens", t2)
	}
	sd := seeds[len(seeds)-3]
	shown := map[string]bool{}
	n := 0
	mutants(&sd, 1, func(kind string, b []byte) {
		n++
		if string(b) == string(sd.text) {
			return
		}
		if !shown[kind] && n%7 == 3 && len(shown) < 4 {
			shown[kind] = true
			c.Sample(map[string]any{"seed": sd.name, "seed_text": string(sd.text), "mutation": kind, "input": clip(strconv.Quote(string(b)), 160)})
		}
	})
	for _, i := range []int{5, len(seeds) - 12} {
		sd := seeds[i]
		toks := tokenize(sd.text)
		c.Sample(map[string]any{"seed": sd.name, "type": sd.typ, "tokens": len(toks), "bytes": len(sd.text), "text": clip(string(sd.text), 160)})
	}
	c.Assume("bounded: one mutation per text; mutations are drawn from the stated operators and alphabet")
	c.Assume("encoding/json (standard library) is trusted to read a JSON text into a generic tree; the check's field claims are derived from that tree")
	c.Assume("unclaimed: top-level null, null in place of a nested value, duplicate object keys (which one wins), numbers not spelled as plain decimal integers, server COUNT payloads without \"count\" or with differently-cased keys, whether a mutated text is accepted at all (C11)")
}
