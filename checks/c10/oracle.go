package main

import (
	"crypto/sha256"
	"encoding/hex"
	"encoding/json"
	"fmt"
	"regexp"
	"runtime"
	"sort"
	"strconv"
	"strings"
	"sync"
	"sync/atomic"

	"github.com/high-moctane/mocrelay"
	"verifkit/vk"
)

// ---- decoder entry points -------------------------------------------------------------------------

type entry struct {
	name string // "ClientReqMsg.UnmarshalJSON", "json.Unmarshal(*ClientReqMsg)", "ParseClientMsg"
	typ  string // Go type name; "ParseClientMsg" for the dispatcher
	dec  func([]byte) (any, error)
}

type unmarshaler[T any] interface {
	*T
	UnmarshalJSON([]byte) error
}

func mkEntries[T any, PT unmarshaler[T]](typ string) []entry {
	return []entry{
		{typ + ".UnmarshalJSON", typ, func(b []byte) (any, error) { v := PT(new(T)); err := v.UnmarshalJSON(b); return v, err }},
		{"json.Unmarshal(*" + typ + ")", typ, func(b []byte) (any, error) { v := new(T); err := json.Unmarshal(b, v); return v, err }},
	}
}

var entries = func() []entry {
	var es []entry
	es = append(es, mkEntries[mocrelay.Event]("Event")...)
	es = append(es, mkEntries[mocrelay.ReqFilter]("ReqFilter")...)
	es = append(es, mkEntries[mocrelay.ClientEventMsg]("ClientEventMsg")...)
	es = append(es, mkEntries[mocrelay.ClientReqMsg]("ClientReqMsg")...)
	es = append(es, mkEntries[mocrelay.ClientCloseMsg]("ClientCloseMsg")...)
	es = append(es, mkEntries[mocrelay.ClientAuthMsg]("ClientAuthMsg")...)
	es = append(es, mkEntries[mocrelay.ClientCountMsg]("ClientCountMsg")...)
	es = append(es, mkEntries[mocrelay.ServerEOSEMsg]("ServerEOSEMsg")...)
	es = append(es, mkEntries[mocrelay.ServerEventMsg]("ServerEventMsg")...)
	es = append(es, mkEntries[mocrelay.ServerNoticeMsg]("ServerNoticeMsg")...)
	es = append(es, mkEntries[mocrelay.ServerOKMsg]("ServerOKMsg")...)
	es = append(es, mkEntries[mocrelay.ServerAuthMsg]("ServerAuthMsg")...)
	es = append(es, mkEntries[mocrelay.ServerCountMsg]("ServerCountMsg")...)
	es = append(es, mkEntries[mocrelay.ServerClosedMsg]("ServerClosedMsg")...)
	es = append(es, entry{"ParseClientMsg", "ParseClientMsg", func(b []byte) (any, error) {
		m, err := mocrelay.ParseClientMsg(b)
		if m == nil {
			return nil, err
		}
		return m, err
	}})
	return es
}()

func entriesOf(typ string) []*entry {
	var out []*entry
	for i := range entries {
		if entries[i].typ == typ {
			out = append(out, &entries[i])
		}
	}
	return out
}

var parseEntry = &entries[len(entries)-1]

// label and arity of each message type
var typeLabel = map[string]string{
	"ClientEventMsg": "EVENT", "ClientReqMsg": "REQ", "ClientCloseMsg": "CLOSE", "ClientAuthMsg": "AUTH", "ClientCountMsg": "COUNT",
	"ServerEOSEMsg": "EOSE", "ServerEventMsg": "EVENT", "ServerNoticeMsg": "NOTICE", "ServerOKMsg": "OK", "ServerAuthMsg": "AUTH",
	"ServerCountMsg": "COUNT", "ServerClosedMsg": "CLOSED",
}

var clientTypeOfLabel = map[string]string{"EVENT": "ClientEventMsg", "REQ": "ClientReqMsg", "CLOSE": "ClientCloseMsg", "AUTH": "ClientAuthMsg", "COUNT": "ClientCountMsg"}

func typeName(v any) string {
	switch v.(type) {
	case *mocrelay.Event:
		return "Event"
	case *mocrelay.ReqFilter:
		return "ReqFilter"
	case *mocrelay.ClientEventMsg:
		return "ClientEventMsg"
	case *mocrelay.ClientReqMsg:
		return "ClientReqMsg"
	case *mocrelay.ClientCloseMsg:
		return "ClientCloseMsg"
	case *mocrelay.ClientAuthMsg:
		return "ClientAuthMsg"
	case *mocrelay.ClientCountMsg:
		return "ClientCountMsg"
	case *mocrelay.ServerEOSEMsg:
		return "ServerEOSEMsg"
	case *mocrelay.ServerEventMsg:
		return "ServerEventMsg"
	case *mocrelay.ServerNoticeMsg:
		return "ServerNoticeMsg"
	case *mocrelay.ServerOKMsg:
		return "ServerOKMsg"
	case *mocrelay.ServerAuthMsg:
		return "ServerAuthMsg"
	case *mocrelay.ServerCountMsg:
		return "ServerCountMsg"
	case *mocrelay.ServerClosedMsg:
		return "ServerClosedMsg"
	}
	return fmt.Sprintf("%T", v)
}

func safeDecode(e *entry, b []byte) (v any, err error, pan any) {
	defer func() {
		if r := recover(); r != nil {
			pan, v, err = r, nil, nil
		}
	}()
	v, err = e.dec(b)
	return
}

func safeMarshal(v any) (b []byte, err error, pan any) {
	defer func() {
		if r := recover(); r != nil {
			pan, b, err = r, nil, nil
		}
	}()
	b, err = json.Marshal(v)
	return
}

// ---- protocol-value view ---------------------------------------------------------------------------
//
// fieldsOf flattens a value into named fields whose textual form identifies what the protocol
// identifies: nil and empty tag lists of an event / nil and empty tag maps of a filter are the
// same; OK and CLOSED carry one message text (prefix splitting is representation only). What the
// protocol distinguishes stays distinct: a filter without "ids" vs. one with "ids":[] (MarshalJSON
// writes the key exactly when the slice is non-nil).

type kv struct{ k, v string }

func q(s string) string { return strconv.Quote(s) }

func strList(xs []string) string {
	var sb strings.Builder
	sb.WriteByte('[')
	for i, x := range xs {
		if i > 0 {
			sb.WriteByte(',')
		}
		sb.WriteString(q(x))
	}
	sb.WriteByte(']')
	return sb.String()
}

func intList(xs []int64) string {
	var sb strings.Builder
	sb.WriteByte('[')
	for i, x := range xs {
		if i > 0 {
			sb.WriteByte(',')
		}
		sb.WriteString(strconv.FormatInt(x, 10))
	}
	sb.WriteByte(']')
	return sb.String()
}

func tagsRepr(tags []mocrelay.Tag) string {
	var sb strings.Builder
	sb.WriteByte('[')
	for i, t := range tags {
		if i > 0 {
			sb.WriteByte(',')
		}
		sb.WriteString(strList(t))
	}
	sb.WriteByte(']')
	return sb.String()
}

func eventFields(out []kv, p string, ev *mocrelay.Event) []kv {
	if ev == nil {
		return append(out, kv{p + "event", "nil"})
	}
	return append(out,
		kv{p + "id", q(ev.ID)}, kv{p + "pubkey", q(ev.Pubkey)},
		kv{p + "created_at", strconv.FormatInt(ev.CreatedAt, 10)}, kv{p + "kind", strconv.FormatInt(ev.Kind, 10)},
		kv{p + "tags", tagsRepr(ev.Tags)}, kv{p + "content", q(ev.Content)}, kv{p + "sig", q(ev.Sig)})
}

func optInt(p *int64) string {
	if p == nil {
		return "absent"
	}
	return strconv.FormatInt(*p, 10)
}

func filterFields(out []kv, p string, f *mocrelay.ReqFilter) []kv {
	if f == nil {
		return append(out, kv{p + "filter", "nil"})
	}
	ids, authors, kinds := "absent", "absent", "absent"
	if f.IDs != nil {
		ids = strList(f.IDs)
	}
	if f.Authors != nil {
		authors = strList(f.Authors)
	}
	if f.Kinds != nil {
		kinds = intList(f.Kinds)
	}
	out = append(out, kv{p + "ids", ids}, kv{p + "authors", authors}, kv{p + "kinds", kinds})
	ks := make([]string, 0, len(f.Tags))
	for k := range f.Tags {
		ks = append(ks, k)
	}
	sort.Strings(ks)
	for _, k := range ks {
		v := "nil"
		if f.Tags[k] != nil {
			v = strList(f.Tags[k])
		}
		out = append(out, kv{p + "#" + k, v})
	}
	return append(out, kv{p + "since", optInt(f.Since)}, kv{p + "until", optInt(f.Until)}, kv{p + "limit", optInt(f.Limit)})
}

func filtersFields(out []kv, fs []*mocrelay.ReqFilter) []kv {
	out = append(out, kv{"nfilters", strconv.Itoa(len(fs))})
	for i, f := range fs {
		out = filterFields(out, fmt.Sprintf("filter[%d].", i), f)
	}
	return out
}

func fieldsOf(v any) []kv {
	var out []kv
	switch m := v.(type) {
	case *mocrelay.Event:
		return eventFields(out, "", m)
	case *mocrelay.ReqFilter:
		return filterFields(out, "", m)
	case *mocrelay.ClientEventMsg:
		return eventFields(out, "event.", m.Event)
	case *mocrelay.ClientAuthMsg:
		return eventFields(out, "event.", m.Event)
	case *mocrelay.ClientReqMsg:
		return filtersFields(append(out, kv{"subid", q(m.SubscriptionID)}), m.ReqFilters)
	case *mocrelay.ClientCountMsg:
		return filtersFields(append(out, kv{"subid", q(m.SubscriptionID)}), m.ReqFilters)
	case *mocrelay.ClientCloseMsg:
		return append(out, kv{"subid", q(m.SubscriptionID)})
	case *mocrelay.ServerEOSEMsg:
		return append(out, kv{"subid", q(m.SubscriptionID)})
	case *mocrelay.ServerEventMsg:
		return eventFields(append(out, kv{"subid", q(m.SubscriptionID)}), "event.", m.Event)
	case *mocrelay.ServerNoticeMsg:
		return append(out, kv{"message", q(m.Message)})
	case *mocrelay.ServerOKMsg:
		return append(out, kv{"eventid", q(m.EventID)}, kv{"accepted", strconv.FormatBool(m.Accepted)}, kv{"message", q(m.Message())})
	case *mocrelay.ServerAuthMsg:
		return append(out, kv{"challenge", q(m.Challenge)})
	case *mocrelay.ServerCountMsg:
		a := "absent"
		if m.Approximate != nil {
			a = strconv.FormatBool(*m.Approximate)
		}
		return append(out, kv{"subid", q(m.SubscriptionID)}, kv{"count", strconv.FormatUint(m.Count, 10)}, kv{"approximate", a})
	case *mocrelay.ServerClosedMsg:
		return append(out, kv{"subid", q(m.SubscriptionID)}, kv{"message", q(m.Message())})
	}
	return append(out, kv{"?", fmt.Sprintf("%T", v)})
}

// diffFields returns the name of the first field on which two views differ ("" when equal).
func diffFields(a, b []kv) (name, av, bv string) {
	am := make(map[string]string, len(a))
	for _, x := range a {
		am[x.k] = x.v
	}
	bm := make(map[string]string, len(b))
	for _, x := range b {
		bm[x.k] = x.v
	}
	for _, x := range a {
		if y, ok := bm[x.k]; !ok || y != x.v {
			if !ok {
				y = "<no such field>"
			}
			return x.k, x.v, y
		}
	}
	for _, x := range b {
		if _, ok := am[x.k]; !ok {
			return x.k, "<no such field>", x.v
		}
	}
	return "", "", ""
}

var idxRe = regexp.MustCompile(`\[\d+\]`)

func sigField(name string) string { return idxRe.ReplaceAllString(name, "[i]") }

// nilProblems lists required parts that are nil in a decoded value ("nothing required is nil").
func nilProblems(v any) []string {
	var out []string
	ev := func(p string, e *mocrelay.Event) {
		if e == nil {
			out = append(out, p+"Event is nil")
		} else if e.Tags == nil {
			out = append(out, p+"Event.Tags is nil")
		}
	}
	fs := func(f []*mocrelay.ReqFilter) {
		if f == nil {
			out = append(out, "ReqFilters is nil")
		}
		for _, x := range f {
			if x == nil {
				out = append(out, "ReqFilters has a nil element")
				break
			}
		}
	}
	switch m := v.(type) {
	case nil:
		out = append(out, "message is nil")
	case *mocrelay.Event:
		if m == nil {
			out = append(out, "value is nil")
		} else if m.Tags == nil {
			out = append(out, "Event.Tags is nil")
		}
	case *mocrelay.ClientEventMsg:
		if m == nil {
			out = append(out, "message is nil")
		} else {
			ev("", m.Event)
		}
	case *mocrelay.ClientAuthMsg:
		if m == nil {
			out = append(out, "message is nil")
		} else {
			ev("", m.Event)
		}
	case *mocrelay.ServerEventMsg:
		if m == nil {
			out = append(out, "message is nil")
		} else {
			ev("", m.Event)
		}
	case *mocrelay.ClientReqMsg:
		if m == nil {
			out = append(out, "message is nil")
		} else {
			fs(m.ReqFilters)
		}
	case *mocrelay.ClientCountMsg:
		if m == nil {
			out = append(out, "message is nil")
		} else {
			fs(m.ReqFilters)
		}
	case *mocrelay.ClientCloseMsg:
		if m == nil {
			out = append(out, "message is nil")
		}
	}
	return out
}

// ---- reference claims: what the text says, field by field ------------------------------------------
//
// refClaims reads the generic tree and returns, for every part of the text whose shape is
// unambiguous (right JSON type, plain integer spelling, no null, no duplicate key in the object),
// the field value a decoder that accepted the text must report. Parts of any other shape produce
// no claim. missing lists required event members that are absent from an accepted event object.

var eventKeys = []string{"id", "pubkey", "created_at", "kind", "tags", "content", "sig"}

type claims struct {
	kv      []kv
	missing []string
	skipped int // parts left unclaimed
}

func (cl *claims) event(p string, n *node) {
	if n == nil || n.kind != 'o' {
		cl.skipped++
		return
	}
	for _, k := range eventKeys {
		if n.member(k) == nil {
			cl.missing = append(cl.missing, p+k)
		}
	}
	if n.hasDupKeys() {
		cl.skipped++
		return
	}
	for i, k := range n.keys {
		v := n.vals[i]
		switch k {
		case "id", "pubkey", "content", "sig":
			if v.kind == 's' {
				cl.kv = append(cl.kv, kv{p + k, q(v.str)})
			} else {
				cl.skipped++
			}
		case "created_at", "kind":
			if x, ok := v.plainInt64(); ok {
				cl.kv = append(cl.kv, kv{p + k, strconv.FormatInt(x, 10)})
			} else {
				cl.skipped++
			}
		case "tags":
			ok := v.kind == 'a'
			if ok {
				for _, t := range v.elems {
					if !t.isStrings() {
						ok = false
					}
				}
			}
			if !ok {
				cl.skipped++
				break
			}
			tags := make([]mocrelay.Tag, len(v.elems))
			for j, t := range v.elems {
				tags[j] = make(mocrelay.Tag, len(t.elems))
				for l, s := range t.elems {
					tags[j][l] = s.str
				}
			}
			cl.kv = append(cl.kv, kv{p + "tags", tagsRepr(tags)})
		}
	}
}

func nodeStrings(n *node) []string {
	out := make([]string, len(n.elems))
	for i, e := range n.elems {
		out[i] = e.str
	}
	return out
}

func (cl *claims) filter(p string, n *node) {
	if n == nil || n.kind != 'o' || n.hasDupKeys() {
		cl.skipped++
		return
	}
	for i, k := range n.keys {
		v := n.vals[i]
		switch {
		case k == "ids" || k == "authors" || (len(k) == 2 && k[0] == '#' && (('a' <= k[1] && k[1] <= 'z') || ('A' <= k[1] && k[1] <= 'Z'))):
			if v.isStrings() {
				cl.kv = append(cl.kv, kv{p + k, strList(nodeStrings(v))})
			} else {
				cl.skipped++
			}
		case k == "kinds":
			if v.isPlainInts() {
				xs := make([]int64, len(v.elems))
				for j, e := range v.elems {
					xs[j], _ = e.plainInt64()
				}
				cl.kv = append(cl.kv, kv{p + k, intList(xs)})
			} else {
				cl.skipped++
			}
		case k == "since" || k == "until" || k == "limit":
			if x, ok := v.plainInt64(); ok {
				cl.kv = append(cl.kv, kv{p + k, strconv.FormatInt(x, 10)})
			} else {
				cl.skipped++
			}
		default:
			cl.skipped++
		}
	}
}

func (cl *claims) str(name string, n *node) {
	if n.kind == 's' {
		cl.kv = append(cl.kv, kv{name, q(n.str)})
	} else {
		cl.skipped++
	}
}

// refClaims: root is the tree of an accepted text, typ the Go type the decoder produced.
func refClaims(typ string, root *node) *claims {
	cl := &claims{}
	switch typ {
	case "Event":
		cl.event("", root)
		return cl
	case "ReqFilter":
		cl.filter("", root)
		return cl
	}
	if root.kind != 'a' {
		cl.skipped++
		return cl
	}
	el := root.elems
	n := len(el)
	switch typ {
	case "ClientEventMsg", "ClientAuthMsg":
		if n == 2 {
			cl.event("event.", el[1])
		} else {
			cl.skipped++
		}
	case "ClientReqMsg", "ClientCountMsg":
		if n >= 3 {
			cl.str("subid", el[1])
			cl.kv = append(cl.kv, kv{"nfilters", strconv.Itoa(n - 2)})
			for i := 2; i < n; i++ {
				cl.filter(fmt.Sprintf("filter[%d].", i-2), el[i])
			}
		} else {
			cl.skipped++
		}
	case "ClientCloseMsg", "ServerEOSEMsg":
		if n == 2 {
			cl.str("subid", el[1])
		} else {
			cl.skipped++
		}
	case "ServerNoticeMsg":
		if n == 2 {
			cl.str("message", el[1])
		} else {
			cl.skipped++
		}
	case "ServerAuthMsg":
		if n == 2 {
			cl.str("challenge", el[1])
		} else {
			cl.skipped++
		}
	case "ServerEventMsg":
		if n == 3 {
			cl.str("subid", el[1])
			cl.event("event.", el[2])
		} else {
			cl.skipped++
		}
	case "ServerOKMsg":
		if n == 4 {
			cl.str("eventid", el[1])
			if el[2].kind == 'b' {
				cl.kv = append(cl.kv, kv{"accepted", strconv.FormatBool(el[2].b)})
			} else {
				cl.skipped++
			}
			cl.str("message", el[3])
		} else {
			cl.skipped++
		}
	case "ServerClosedMsg":
		if n == 3 {
			cl.str("subid", el[1])
			cl.str("message", el[2])
		} else {
			cl.skipped++
		}
	case "ServerCountMsg":
		if n == 3 {
			cl.str("subid", el[1])
			p := el[2]
			// encoding/json matches struct keys case-insensitively; only the exact spellings are claimed
			exact := p.kind == 'o' && !p.hasDupKeys()
			if exact {
				for _, k := range p.keys {
					if k != "count" && k != "approximate" {
						exact = false
					}
				}
			}
			if !exact {
				cl.skipped++
				break
			}
			if c := p.member("count"); c != nil {
				if x, ok := c.plainUint64(); ok {
					cl.kv = append(cl.kv, kv{"count", strconv.FormatUint(x, 10)})
				} else {
					cl.skipped++
				}
			} else {
				cl.skipped++ // a payload without "count": accepted as 0; not claimed either way
			}
			if a := p.member("approximate"); a != nil {
				if a.kind == 'b' {
					cl.kv = append(cl.kv, kv{"approximate", strconv.FormatBool(a.b)})
				} else {
					cl.skipped++
				}
			}
		} else {
			cl.skipped++
		}
	}
	return cl
}

// ---- input description (stable violation signatures) ----------------------------------------------

var knownLabels = map[string]bool{"EVENT": true, "REQ": true, "CLOSE": true, "AUTH": true, "COUNT": true, "EOSE": true, "NOTICE": true, "OK": true, "CLOSED": true}

// inputClass names the shape of an input coarsely: stable across neighbouring inputs, specific
// enough to tell code paths apart.
func inputClass(b []byte, tree *node, treeTried bool) string {
	if !treeTried {
		tree = parseTree(b)
	}
	if tree == nil {
		t := strings.TrimLeft(string(b[:min(len(b), 64)]), " \t\r\n")
		switch {
		case len(b) == 0:
			return "empty input"
		case t == "":
			return "whitespace only"
		case t[0] == '[':
			return "malformed text starting with ["
		case t[0] == '{':
			return "malformed text starting with {"
		}
		return "malformed text"
	}
	switch tree.kind {
	case 'z':
		return "null"
	case 'o':
		return "object"
	case 'a':
		lab := "no label"
		if len(tree.elems) > 0 {
			lab = "label not a string"
			if tree.elems[0].kind == 's' {
				lab = "unknown label"
				if knownLabels[tree.elems[0].str] {
					lab = "label " + tree.elems[0].str
				}
			}
		}
		n := strconv.Itoa(len(tree.elems))
		if len(tree.elems) > 5 {
			n = "6+"
		}
		return "array of " + n + ", " + lab
	}
	return "scalar"
}

func replayOf(e string, b []byte, extra map[string]any) map[string]any {
	r := map[string]any{"entry": e, "input_len": len(b)}
	if len(b) <= 8192 {
		r["input"] = strconv.Quote(string(b))
	} else {
		h := sha256.Sum256(b)
		r["input_sha256"] = hex.EncodeToString(h[:])
		r["input_head"] = strconv.Quote(string(b[:200]))
		r["input_tail"] = strconv.Quote(string(b[len(b)-100:]))
	}
	for k, v := range extra {
		r[k] = v
	}
	return r
}

func clip(s string, n int) string {
	if len(s) <= n {
		return s
	}
	return s[:n] + fmt.Sprintf("…(+%d bytes)", len(s)-n)
}

// ---- collector: deterministic violation reporting across goroutines -------------------------------

type found struct {
	sig, detail string
	replay      map[string]any
	key         string // ordering key: the smallest (length, bytes) input wins
	count       int64
}

type collector struct {
	mu sync.Mutex
	m  map[string]*found
}

func newCollector() *collector { return &collector{m: map[string]*found{}} }

func (col *collector) add(sig string, input []byte, gen string, mk func() (string, map[string]any)) {
	key := fmt.Sprintf("%012d", len(input)) + string(input[:min(len(input), 4096)]) + "\x00" + gen
	col.mu.Lock()
	defer col.mu.Unlock()
	f, ok := col.m[sig]
	if !ok {
		d, r := mk()
		col.m[sig] = &found{sig: sig, detail: d, replay: r, key: key, count: 1}
		return
	}
	f.count++
	if key < f.key {
		f.detail, f.replay = mk()
		f.key = key
	}
}

func (col *collector) flush(c *vk.Ctx) {
	sigs := make([]string, 0, len(col.m))
	for s := range col.m {
		sigs = append(sigs, s)
	}
	sort.Strings(sigs)
	for _, s := range sigs {
		f := col.m[s]
		d := fmt.Sprintf("%s [%d inputs of this run hit this signature; shown: the shortest]", f.detail, f.count)
		for i := int64(0); i < min(f.count, 1000); i++ {
			c.Violate(f.sig, d, f.replay)
		}
	}
}

// ---- per-worker statistics --------------------------------------------------------------------------

type stats struct {
	evals     int64
	succ      int64
	unclaimed int64
	claimsChk int64
	redecodes int64
	outcomes  map[string]int64
	unclWhy   map[string]int64
}

func newStats() *stats { return &stats{outcomes: map[string]int64{}, unclWhy: map[string]int64{}} }

func (s *stats) uncl(why string) { s.unclaimed++; s.unclWhy[why]++ }

func (s *stats) merge(o *stats) {
	s.evals += o.evals
	s.succ += o.succ
	s.unclaimed += o.unclaimed
	s.claimsChk += o.claimsChk
	s.redecodes += o.redecodes
	for k, v := range o.outcomes {
		s.outcomes[k] += v
	}
	for k, v := range o.unclWhy {
		s.unclWhy[k] += v
	}
}

func (s *stats) publish(c *vk.Ctx) {
	c.Eval(s.evals)
	c.Unclaimed(s.unclaimed)
	for k := range s.outcomes {
		c.Outcome(k)
	}
	c.SetExtra("outcome_counts", s.outcomes)
	c.SetExtra("unclaimed_by_reason", s.unclWhy)
	c.SetExtra("successful_decodes", s.succ)
	c.SetExtra("field_claims_checked", s.claimsChk)
	c.SetExtra("decode_encode_decode_checked", s.redecodes)
}

// ---- the decode oracle ------------------------------------------------------------------------------

type checker struct {
	col *collector
}

// checkInput runs the given entry points on one input and applies (a) no panic, (b) completely
// filled value of the labelled type, (c) decode(encode(decode(t))) = decode(t).
func (ck *checker) checkInput(st *stats, input []byte, gen string, es []*entry) {
	var tree *node
	treeTried := false
	getTree := func() *node {
		if !treeTried {
			tree, treeTried = parseTree(input), true
		}
		return tree
	}
	for _, e := range es {
		v, err, pan := safeDecode(e, input)
		st.evals++
		if pan != nil {
			cls := inputClass(input, getTree(), true)
			st.outcomes[e.typ+":PANIC"]++
			ck.col.add("C10/panic: "+e.name+" on "+cls, input, gen, func() (string, map[string]any) {
				return fmt.Sprintf("%s panicked with %q on input %s", e.name, fmt.Sprint(pan), clip(strconv.Quote(string(input)), 300)),
					replayOf(e.name, input, map[string]any{"panic": fmt.Sprint(pan), "generator": gen})
			})
			continue
		}
		if err != nil {
			st.outcomes[e.typ+":error"]++
			continue
		}
		st.succ++
		ck.checkSuccess(st, e, input, gen, getTree(), v)
	}
}

func (ck *checker) violate(sig string, e *entry, input []byte, gen, detail string) {
	ck.col.add(sig, input, gen, func() (string, map[string]any) {
		return fmt.Sprintf("%s on input %s: %s", e.name, clip(strconv.Quote(string(input)), 300), detail),
			replayOf(e.name, input, map[string]any{"generator": gen})
	})
}

func (ck *checker) checkSuccess(st *stats, e *entry, input []byte, gen string, tree *node, v any) {
	okey := e.typ
	if e.typ == "ParseClientMsg" && v != nil {
		okey = "ParseClientMsg->" + typeName(v)
	}
	if tree != nil && tree.kind == 'z' {
		// Go convention: null means "leave the value alone". Unclaimed.
		st.outcomes[okey+":ok(top-level null)"]++
		st.uncl("top-level null accepted")
		return
	}
	st.outcomes[okey+":ok"]++

	// (b1) nothing required is nil
	for _, p := range nilProblems(v) {
		ck.violate("C10/filled: "+e.name+" succeeds but "+p, e, input, gen, "decode returned no error but "+p)
	}
	if v == nil {
		return
	}
	typ := typeName(v)

	if tree == nil {
		st.uncl("accepted text is not a single JSON value")
	} else {
		// (b2) the value has the type the label names
		if typ != "Event" && typ != "ReqFilter" {
			if tree.kind == 'a' && len(tree.elems) > 0 && tree.elems[0].kind == 's' {
				lab := tree.elems[0].str
				want := typeLabel[typ]
				if e.typ == "ParseClientMsg" {
					if wt, ok := clientTypeOfLabel[lab]; !ok || wt != typ {
						ck.violate("C10/label: ParseClientMsg returns "+typ+" for a text labelled otherwise", e, input, gen, fmt.Sprintf("text is labelled %q, returned type %s", lab, typ))
					}
					if cm, ok := v.(mocrelay.ClientMsg); ok && cm.ClientMsgLabel() != lab {
						ck.violate("C10/label: ParseClientMsg value reports another label than the text", e, input, gen, fmt.Sprintf("text is labelled %q, value says %q", lab, cm.ClientMsgLabel()))
					}
				} else if lab != want {
					ck.violate("C10/label: "+e.name+" accepts a text with another label", e, input, gen, fmt.Sprintf("text is labelled %q, type's label is %q", lab, want))
				}
			} else {
				st.uncl("accepted message text has no string label")
			}
		}
		// (b3) every unambiguous part of the text is reflected in the value
		cl := refClaims(typ, tree)
		for _, m := range cl.missing {
			ck.violate("C10/filled: "+e.name+" accepts an event object without "+sigField(m), e, input, gen, "event member "+m+" is absent from the text, the decoded field cannot have come from the input")
		}
		if cl.skipped > 0 {
			st.uncl("part of accepted text has ambiguous shape (null / duplicate key / non-plain number / unexpected arity)")
		}
		if len(cl.kv) > 0 {
			got := map[string]string{}
			for _, x := range fieldsOf(v) {
				got[x.k] = x.v
			}
			for _, x := range cl.kv {
				st.claimsChk++
				if g, ok := got[x.k]; !ok || g != x.v {
					if !ok {
						g = "<absent>"
					}
					ck.violate("C10/filled: "+e.name+" does not reflect "+sigField(x.k)+" of the text", e, input, gen, fmt.Sprintf("text says %s = %s, value has %s", x.k, clip(x.v, 200), clip(g, 200)))
				}
			}
		}
	}

	// (c) decode(encode(decode(t))) = decode(t)
	enc, merr, mpan := safeMarshal(v)
	if mpan != nil {
		ck.violate("C10/panic: json.Marshal("+typ+") of a value decoded by "+e.name, e, input, gen, fmt.Sprintf("json.Marshal panicked with %q", fmt.Sprint(mpan)))
		return
	}
	if merr != nil {
		st.uncl("encoding of a decoded value fails")
		st.outcomes[okey+":ok, encode error"]++
		return
	}
	st.redecodes++
	v2, err2, pan2 := safeDecode(e, enc)
	st.evals++
	switch {
	case pan2 != nil:
		ck.violate("C10/panic: "+e.name+" on its own re-encoding", e, input, gen, fmt.Sprintf("re-decoding %s panicked with %q", clip(strconv.Quote(string(enc)), 300), fmt.Sprint(pan2)))
	case err2 != nil:
		ck.violate("C10/redecode: "+e.name+" rejects the encoding of the value it decoded", e, input, gen, fmt.Sprintf("encoding %s is rejected: %v", clip(strconv.Quote(string(enc)), 300), err2))
	case v2 == nil || typeName(v2) != typ:
		ck.violate("C10/redecode: "+e.name+" yields another type after decode-encode-decode", e, input, gen, fmt.Sprintf("first %s, then %s", typ, typeName(v2)))
	default:
		if name, a, b := diffFields(fieldsOf(v), fieldsOf(v2)); name != "" {
			ck.violate("C10/redecode: "+e.name+" differs after decode-encode-decode ("+sigField(name)+")", e, input, gen, fmt.Sprintf("field %s: decode(t)=%s, decode(encode(decode(t)))=%s via encoding %s", name, clip(a, 200), clip(b, 200), clip(strconv.Quote(string(enc)), 300)))
		}
	}
}

// ---- parallel driver ----------------------------------------------------------------------------------

// parallel runs work(i) for i in [0,n) on all cores in chunks; every worker has its own stats.
func parallel(n int64, chunk int64, work func(st *stats, lo, hi int64)) *stats {
	workers := runtime.NumCPU()
	var next atomic.Int64
	all := make([]*stats, workers)
	var wg sync.WaitGroup
	for w := 0; w < workers; w++ {
		st := newStats()
		all[w] = st
		wg.Add(1)
		go func() {
			defer wg.Done()
			for {
				lo := next.Add(chunk) - chunk
				if lo >= n {
					return
				}
				work(st, lo, min(lo+chunk, n))
			}
		}()
	}
	wg.Wait()
	total := newStats()
	for _, st := range all {
		total.merge(st)
	}
	return total
}

func allEntries() []*entry {
	out := make([]*entry, len(entries))
	for i := range entries {
		out[i] = &entries[i]
	}
	return out
}
