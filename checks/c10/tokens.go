package main

import (
	"fmt"
	"strconv"
	"strings"

	"verifkit/vk"
)

func init() { parts["c10-tokens"] = c10Tokens }

// tokenString returns the idx-th token string of exactly L tokens (base-len(alphabet) digits).
func tokenString(L int, idx int64) []byte {
	n := int64(len(alphabet))
	var digits [8]int
	for i := L - 1; i >= 0; i-- {
		digits[i] = int(idx % n)
		idx /= n
	}
	size := 0
	for i := 0; i < L; i++ {
		size += len(alphabet[digits[i]])
	}
	b := make([]byte, 0, size)
	for i := 0; i < L; i++ {
		b = append(b, alphabet[digits[i]]...)
	}
	return b
}

func pow(b, e int) int64 {
	r := int64(1)
	for i := 0; i < e; i++ {
		r *= int64(b)
	}
	return r
}

type namedInput struct {
	name string
	b    []byte
}

const (
	sampleID  = "dc097cd6bd76f2d8816f8a2d294e8442173228e5b24fb946aa05dd89339c9168"
	samplePK  = "79be667ef9dcbbac55a06295ce870b07029bfcdb2dce28d959f2815b16f81798"
	sampleSig = "5d2f49649a4f448d13757ee563fd1b8fa04e4dc1931dd34763fb7df40a082cbdc4e136c733177d3b96a0321f8783fd6b218fea046e039a23d99b1ab9e2d8b45f"
)

// eventText builds an event object text from raw member values (already JSON); key order as in
// the NIP.
func eventText(over map[string]string) string {
	def := map[string]string{"id": q(sampleID), "pubkey": q(samplePK), "created_at": "1723212754", "kind": "1", "tags": "[]", "content": `""`, "sig": q(sampleSig)}
	var sb strings.Builder
	sb.WriteByte('{')
	for i, k := range eventKeys {
		if i > 0 {
			sb.WriteByte(',')
		}
		v := def[k]
		if o, ok := over[k]; ok {
			v = o
		}
		sb.WriteString(q(k) + ":" + v)
	}
	sb.WriteByte('}')
	return sb.String()
}

func deepArray(n int) string { return strings.Repeat("[", n) + strings.Repeat("]", n) }

func deepObject(n int) string { return strings.Repeat(`{"a":`, n) + "0" + strings.Repeat("}", n) }

// pathological: fixed inputs outside the token enumeration.
func pathological() []namedInput {
	var out []namedInput
	add := func(name, s string) { out = append(out, namedInput{name, []byte(s)}) }

	add("empty", "")
	add("whitespace", " \t\r\n")
	add("ff-only", "\xff")
	add("bom", "\xef\xbb\xbf[\"CLOSE\",\"a\"]")

	// nesting around encoding/json's limit of 10000
	for _, n := range []int{9999, 10000, 10001} {
		add(fmt.Sprintf("array nest %d closed", n), deepArray(n))
		add(fmt.Sprintf("object nest %d closed", n), deepObject(n))
	}
	add("array nest 10001 open", strings.Repeat("[", 10001))
	add("object nest 10001 open", strings.Repeat(`{"a":`, 10001))
	add("array nest 100000 open", strings.Repeat("[", 100000))
	for _, n := range []int{9990, 10001} {
		d := deepArray(n)
		o := deepObject(n)
		tag := fmt.Sprintf(" nest %d", n)
		add("REQ filter=array"+tag, `["REQ","s",`+d+`]`)
		add("REQ filter=object"+tag, `["REQ","s",`+o+`]`)
		add("REQ ids=array"+tag, `["REQ","s",{"ids":`+d+`}]`)
		add("REQ unknown member=array"+tag, `["REQ","s",{"zz":`+d+`}]`)
		add("REQ #e=array"+tag, `["REQ","s",{"#e":`+d+`}]`)
		add("filter unknown member=object"+tag, `{"zz":`+o+`}`)
		add("filter kinds=array"+tag, `{"kinds":`+d+`}`)
		add("REQ subid=array"+tag, `["REQ",`+d+`,{}]`)
		add("label=array"+tag, `[`+d+`,"a"]`)
		add("CLOSE subid=array"+tag, `["CLOSE",`+d+`]`)
		add("OK id=array"+tag, `["OK",`+d+`,true,""]`)
		add("COUNT count=array"+tag, `["COUNT","s",{"count":`+d+`}]`)
		add("COUNT payload=object"+tag, `["COUNT","s",`+o+`]`)
		add("event id=array"+tag, eventText(map[string]string{"id": d}))
		add("event tags=array"+tag, eventText(map[string]string{"tags": d}))
		add("event tags=[[array]]"+tag, eventText(map[string]string{"tags": "[[" + d + "]]"}))
		add("event content=object"+tag, eventText(map[string]string{"content": o}))
		add("EVENT event=array"+tag, `["EVENT",`+d+`]`)
		add("EVENT event.tags=array"+tag, `["EVENT",`+eventText(map[string]string{"tags": d})+`]`)
		add("server EVENT event.tags=array"+tag, `["EVENT","s",`+eventText(map[string]string{"tags": d})+`]`)
		add("AUTH event.kind=object"+tag, `["AUTH",`+eventText(map[string]string{"kind": o})+`]`)
	}

	// long strings
	mb := strings.Repeat("a", 1<<20)
	add("1MB string", `"`+mb+`"`)
	add("1MB string unterminated", `"`+mb)
	add("1MB of \\u escapes", `"`+strings.Repeat("\\u0041", (1<<20)/6)+`"`)
	add("1MB of 0xFF in a string", `["NOTICE","`+strings.Repeat("\xff", 1<<20)+`"]`)
	add("NOTICE 1MB", `["NOTICE","`+mb+`"]`)
	add("REQ subid 1MB", `["REQ","`+mb+`",{}]`)
	add("CLOSE subid 1MB", `["CLOSE","`+mb+`"]`)
	add("OK message 1MB", `["OK","`+sampleID+`",false,"blocked: `+mb+`"]`)
	add("CLOSED message 1MB", `["CLOSED","s","`+mb+`"]`)
	add("filter ids 1MB", `{"ids":["`+mb+`"]}`)
	add("filter key 1MB", `{"`+mb+`":1}`)
	add("event content 1MB", eventText(map[string]string{"content": `"` + mb + `"`}))
	add("EVENT content 1MB", `["EVENT",`+eventText(map[string]string{"content": `"` + mb + `"`})+`]`)
	add("event 100000 tags", eventText(map[string]string{"tags": "[" + strings.Repeat(`["e","a"],`, 100000) + `["e"]]`}))
	add("REQ 20000 filters", `["REQ","s"`+strings.Repeat(`,{}`, 20000)+`]`)
	add("filter 20000 kinds", `{"kinds":[`+strings.Repeat(`1,`, 20000)+`1]}`)
	add("1MB whitespace then CLOSE", strings.Repeat(" ", 1<<20)+`["CLOSE","a"]`)
	add("label 1MB", `["`+mb+`","a"]`)
	add("label 1MB word then junk", `["`+mb)

	// trailing garbage after a complete value
	ev := eventText(nil)
	for _, base := range []struct{ n, s string }{
		{"event", ev}, {"filter", `{"kinds":[1]}`}, {"empty filter", `{}`}, {"CLOSE", `["CLOSE","a"]`}, {"REQ", `["REQ","s",{}]`},
		{"EVENT", `["EVENT",` + ev + `]`}, {"OK", `["OK","` + sampleID + `",true,""]`}, {"server COUNT", `["COUNT","s",{"count":1}]`}, {"null", `null`},
	} {
		for _, g := range []string{"x", " x", "]", "}", ",", " {}", "{}", "[]", " null", "null", "0", "\x00", "\xff", "\n[\"CLOSE\",\"b\"]", " \n", "\f", "\v", "\xc2\xa0", "\xe2\x80\xa8", "//c", "/**/"} {
			add(base.n+" + trailing "+strconv.Quote(g), base.s+g)
		}
		for _, g := range []string{" ", "\n", "\t", "\r", "\f", "\v", "\xc2\xa0", "\xef\xbb\xbf", "x", "\x00", ","} {
			add(strconv.Quote(g)+" + "+base.n, g+base.s)
		}
	}
	// garbage between the values of a message
	for _, g := range []string{`["EVENT",` + ev + `,]`, `["EVENT",,` + ev + `]`, `["REQ","s",{},]`, `["REQ","s",{}{}]`, `["REQ","s",{},{},]`, `["REQ","s" {}]`,
		`["EVENT"` + ev + `]`, `["EVENT":` + ev + `]`, `{"EVENT":` + ev + `}`, `["CLOSE","a",]`, `["CLOSE";"a"]`} {
		add("garbage inside "+clip(g, 24), g)
	}

	// duplicate keys
	dupEv := func(name string, members ...string) { add("event dup: "+name, "{"+strings.Join(members, ",")+"}") }
	mem := func(k string) string {
		def := map[string]string{"id": q(sampleID), "pubkey": q(samplePK), "created_at": "1723212754", "kind": "1", "tags": "[]", "content": `""`, "sig": q(sampleSig)}
		return q(k) + ":" + def[k]
	}
	all7 := []string{mem("id"), mem("pubkey"), mem("created_at"), mem("kind"), mem("tags"), mem("content"), mem("sig")}
	for _, k := range eventKeys {
		for _, alt := range []string{`"x"`, `7`, `null`, `[]`, `[["a"]]`, `{}`, `true`} {
			dupEv(k+" first="+alt, append([]string{q(k) + ":" + alt}, all7...)...)
			dupEv(k+" last="+alt, append(append([]string{}, all7...), q(k)+":"+alt)...)
		}
		// seven members, one of them a repetition: a required member is missing
		var six []string
		for _, m := range all7 {
			if !strings.HasPrefix(m, q(k)+":") {
				six = append(six, m)
			}
		}
		for _, other := range eventKeys {
			if other != k {
				dupEv("without "+k+", "+other+" twice", append(append([]string{}, six...), mem(other))...)
			}
		}
		// wrong-case and escaped spellings of a key
		for _, alias := range []string{strings.ToUpper(k), strings.Title(k), " " + k, k + " ", `\u00` + fmt.Sprintf("%02x", k[0]) + k[1:]} {
			dupEv("alias "+alias+" instead of "+k, append(append([]string{}, six...), `"`+alias+`":`+strings.SplitN(mem(k), ":", 2)[1])...)
			dupEv("alias "+alias+" next to "+k, append(append([]string{}, all7...), `"`+alias+`":`+strings.SplitN(mem(k), ":", 2)[1])...)
		}
	}
	for _, f := range []string{
		`{"kinds":[1],"kinds":[2]}`, `{"kinds":[1],"kinds":"x"}`, `{"kinds":"x","kinds":[1]}`, `{"since":1,"since":"x"}`, `{"since":"x","since":1}`,
		`{"since":1,"since":2}`, `{"#e":["a"],"#e":["b"]}`, `{"#e":["a"],"#E":["b"]}`, `{"ids":[],"ids":["a"]}`, `{"ids":["a"],"ids":null}`,
		`{"limit":1,"limit":null}`, `{"limit":null,"limit":1}`, `{"ids":["a"],"IDS":["b"]}`, `{"ids":["a"]}`, `{"ids":["a"],"ids":["b"]}`,
		`{"#e":["a"],"#e":["b"]}`, `{"":[]}`, `{"#":[]}`, `{"#ee":[]}`, `{"#1":[]}`, `{"#é":[]}`, `{"#\u00e9":[]}`, `{"#e":{}}`, `{"#e":[[]]}`, `{"##":[]}`,
		`{"authors":["a"],"authors":["b","c"]}`, `{"until":0,"until":-1}`, `{"search":"x"}`,
	} {
		add("filter "+f, f)
		add("REQ filter "+f, `["REQ","s",`+f+`]`)
		add("COUNT filter "+f, `["COUNT","s",`+f+`,{}]`)
	}
	for _, p := range []string{
		`{"count":1,"count":2}`, `{"count":1,"COUNT":2}`, `{"COUNT":2,"count":1}`, `{"Count":1}`, `{"count":1,"approximate":null}`, `{"count":1,"extra":1}`,
		`{}`, `{"approximate":true}`, `{"count":null}`, `{"count":1,"approximate":true,"approximate":false}`, `{"count":1,"Approximate":true}`,
		`{"count":"1"}`, `{"count":1,"approximate":"true"}`, `{"count":1,"approximate":0}`, `[]`, `[1]`, `1`, `"1"`, `true`,
	} {
		add("server COUNT payload "+p, `["COUNT","s",`+p+`]`)
	}

	// number spellings in every numeric position
	nums := []string{"1e2", "1E2", "1e+2", "1.0", "1.00", "1E0", "1e0", "1e-0", "-0", "0.0", "-0.0", "0e0", "01", "00", "+1", "1.", ".5", "0x10", "Infinity", "NaN", "-",
		"1e999999", "1e-999999", "-1e999", "65535", "65536", "-1", "9223372036854775807", "9223372036854775808", "-9223372036854775808", "-9223372036854775809",
		"18446744073709551615", "18446744073709551616", "9007199254740993", "1.5", "-1.5", "1e1", "10e-1", "100e-2", "0.1e1", "1_0", "1,0", "\xef\xbc\x91",
		strings.Repeat("9", 10000), "-" + strings.Repeat("9", 10000), "0." + strings.Repeat("0", 10000) + "1", "1" + strings.Repeat("0", 10000) + "e-10000", "1e" + strings.Repeat("9", 1000),
		strings.Repeat("0", 100) + "1", "1" + strings.Repeat("0", 400), `"1"`, "true", "null", "[1]", "{}"}
	for _, n := range nums {
		nm := clip(n, 24)
		add("event kind="+nm, eventText(map[string]string{"kind": n}))
		add("event created_at="+nm, eventText(map[string]string{"created_at": n}))
		add("EVENT kind="+nm, `["EVENT",`+eventText(map[string]string{"kind": n})+`]`)
		add("server EVENT created_at="+nm, `["EVENT","s",`+eventText(map[string]string{"created_at": n})+`]`)
		add("filter kinds=["+nm+"]", `{"kinds":[`+n+`]}`)
		add("filter kinds=[1,"+nm+"]", `{"kinds":[1,`+n+`]}`)
		add("filter since="+nm, `{"since":`+n+`}`)
		add("filter until="+nm, `{"until":`+n+`}`)
		add("filter limit="+nm, `{"limit":`+n+`}`)
		add("REQ limit="+nm, `["REQ","s",{"limit":`+n+`}]`)
		add("server COUNT count="+nm, `["COUNT","s",{"count":`+n+`}]`)
		add("server COUNT approximate="+nm, `["COUNT","s",{"count":1,"approximate":`+n+`}]`)
		add("OK accepted="+nm, `["OK","`+sampleID+`",`+n+`,""]`)
		add("bare "+nm, n)
	}

	// null in every position
	for _, s := range []string{`["REQ",null,{}]`, `["REQ","s",null]`, `["REQ","s",null,null]`, `["REQ","s",{},null]`, `["REQ",null,null]`, `["COUNT","s",null]`, `["COUNT",null,{"count":1}]`,
		`["EVENT",null]`, `["AUTH",null]`, `["EVENT","s",null]`, `["EVENT",null,` + ev + `]`, `["OK",null,null,null]`, `["OK","a",true,null]`, `["OK","a",null,""]`, `["OK",null,true,""]`,
		`["CLOSE",null]`, `["EOSE",null]`, `["NOTICE",null]`, `["AUTH",null]`, `["CLOSED",null,null]`, `["CLOSED","s",null]`, `[null,"a"]`, `[null,null]`, `[null]`, `null`, ` null`, `null `, "\nnull\n",
		`{"ids":[null]}`, `{"kinds":[null]}`, `{"#e":[null]}`, `{"#e":null}`, `{"ids":null}`, `{"kinds":null}`, `{"since":null}`, `{"until":null}`, `{"limit":null}`, `{"authors":null}`,
		`{null:1}`, `[null,"CLOSE","a"]`} {
		add("null: "+s, s)
	}
	for _, k := range eventKeys {
		add("event "+k+"=null", eventText(map[string]string{k: "null"}))
		add("EVENT "+k+"=null", `["EVENT",`+eventText(map[string]string{k: "null"})+`]`)
	}
	for _, tg := range []string{`[null]`, `[[null]]`, `[["a",null]]`, `[[],null]`, `[[]]`, `[[],[]]`, `[[""]]`, `[["a"],"b"]`, `[["a"],1]`, `[[1]]`, `[["a",1]]`, `[["a",["b"]]]`, `[{}]`, `{}`, `""`, `0`, `[[true]]`} {
		add("event tags="+tg, eventText(map[string]string{"tags": tg}))
		add("AUTH tags="+tg, `["AUTH",`+eventText(map[string]string{"tags": tg})+`]`)
	}

	// labels: case, escapes, whitespace the dispatcher's regular expression sees
	for _, s := range []string{`["EVENT",` + ev + `]`, `["event",` + ev + `]`, `["EVENT ",` + ev + `]`, `[ "EVENT",` + ev + `]`, "[\n\"EVENT\"," + ev + `]`, "[\t\"CLOSE\",\"a\"]", "[\f\"CLOSE\",\"a\"]", "[\v\"CLOSE\",\"a\"]",
		"[\xc2\xa0\"CLOSE\",\"a\"]", "[\xe2\x80\x83\"CLOSE\",\"a\"]", `["CLOSE" ,"a"]`, `["CLOSE", "a" ]`, ` ["CLOSE","a"]`, "\n[\"CLOSE\",\"a\"]", `["CLOSE","a"] `, `["CLOSE","a"]`, `["CLOSED","a"]`, `["CLOSE_","a"]`, `["_","a"]`, `["","a"]`,
		`["REQ"`, `["REQ",`, `["REQ"]`, `["REQ","s"]`, `["COUNT"]`, `["COUNT","s"]`, `["EVENT"]`, `["AUTH"]`, `["CLOSE"]`, `["CLOSE","a","b"]`, `["OK"]`, `["OK","a"]`, `["OK","a",true]`, `["OK","a",true,"","x"]`, `[]`, `[[]]`, `[[],[]]`, `["EOSE"]`, `["NOTICE"]`, `["CLOSED"]`, `["CLOSED","a"]`,
		`["REQ","s",{}]x`, `["REQ"]]`, `[["REQ"],"s",{}]`, `["REQ",["s"],{}]`, `["REQ",{"s":1},{}]`, `["REQ",1,{}]`, `["REQ",true,{}]`, `["REQ","s",[]]`, `["REQ","s","x"]`, `["REQ","s",1]`, `["REQ","s",true]`, `["REQ","s",{},[]]`,
		`["EVENT",[]]`, `["EVENT","x"]`, `["EVENT",1]`, `["EVENT",{}]`, `["EVENT","s",{}]`, `["EVENT","s",[]]`, `["EVENT",1,` + ev + `]`, `["AUTH","challenge"]`, `["AUTH",1]`, `["AUTH",{}]`, `["COUNT","s",{"count":1}]`, `["COUNT","s",{}]`,
		`["\ud800","a"]`, "[\"\xff\",\"a\"]", "[\"CLOSE\",\"\xff\"]", `["CLOSE","\ud800"]`, `["CLOSE","\udc00\ud800"]`, `["CLOSE","😀"]`, `["CLOSE","\ud83d\ude00"]`, `["CLOSE","\u0000"]`, "[\"CLOSE\",\"\x00\"]", "[\"CLOSE\",\"\x1f\"]", "[\"CLOSE\",\"\x7f\"]", `["CLOSE","\x41"]`, `["CLOSE","\u00"]`, `["CLOSE","\"]`, `["CLOSE","\\"]`,
		"[\"CLOSE\",\"\xc0\xaf\"]", "[\"CLOSE\",\"\xed\xa0\x80\"]", "[\"CLOSE\",\"\xf4\x90\x80\x80\"]", "[\"NOTICE\",\"\xe2\x80\xa8\"]", `["OK","a",true,"pow: "]`, `["OK","a",true,"pow:"]`, `["OK","a",true,"pow: pow: x"]`, `["OK","a",true," pow: x"]`, `["OK","a",true,"POW: x"]`,
		`["OK","a",true,"duplicate: blocked: x"]`, `["CLOSED","a","error: "]`, `["CLOSED","a","error: error: "]`, `["CLOSED","a","rate-limited: \ud800"]`, `["OK","a",1,""]`, `["OK","a","true",""]`, `["OK",1,true,""]`, `["OK","a",true,1]`,
	} {
		add("shape: "+clip(s, 40), s)
	}
	return out
}

// contexts: a fixed frame with a hole; the hole is filled with every token string of length <= M.
type context struct{ name, pre, suf string }

func contexts() []context {
	var cs []context
	add := func(name, pre, suf string) { cs = append(cs, context{name, pre, suf}) }
	add("REQ filter position", `["REQ","a",`, `]`)
	add("REQ second filter", `["REQ","a",{},`, `]`)
	add("COUNT filter position", `["COUNT","a",`, `]`)
	add("EVENT/AUTH payload", `["EVENT",`, `]`)
	add("AUTH payload", `["AUTH",`, `]`)
	add("server EVENT payload", `["EVENT","a",`, `]`)
	add("CLOSE tail", `["CLOSE",`, `]`)
	add("EOSE tail", `["EOSE",`, `]`)
	add("NOTICE tail", `["NOTICE",`, `]`)
	add("CLOSED tail", `["CLOSED","a",`, `]`)
	add("OK tail", `["OK",`+hex64tok+`,`, `]`)
	add("OK message", `["OK",`+hex64tok+`,true,`, `]`)
	add("server COUNT payload", `["COUNT","a",`, `]`)
	add("server COUNT payload members", `["COUNT","a",{`, `}]`)
	add("server COUNT count value", `["COUNT","a",{"count":`, `}]`)
	add("server COUNT approximate value", `["COUNT","a",{"count":0,"approximate":`, `}]`)
	add("REQ filter members", `["REQ","a",{`, `}]`)
	add("REQ subid", `["REQ",`, `,{}]`)
	add("label", `[`, `,"a"]`)
	add("label of 3", `[`, `,"a",{}]`)
	add("filter kinds value", `{"kinds":`, `}`)
	add("filter kinds element", `{"kinds":[`, `]}`)
	add("filter #e value", `{"#e":`, `}`)
	add("filter ids element", `{"ids":[`, `]}`)
	add("filter since value", `{"since":`, `}`)
	add("filter key", `{`, `:[]}`)
	add("filter second member", `{"limit":0,`, `}`)
	evHole := func(k string) (string, string) {
		t := eventText(map[string]string{k: "\x01"})
		i := strings.IndexByte(t, 1)
		return t[:i], t[i+1:]
	}
	for _, k := range []string{"id", "created_at", "kind", "tags", "content"} {
		p, s := evHole(k)
		add("event "+k+" value", p, s)
	}
	p, s := evHole("tags")
	add("event tags element", p+"[", "]"+s)
	add("event tag element", p+"[[", "]]"+s)
	add("EVENT event.kind value", `["EVENT",`+func() string { p, _ := evHole("kind"); return p }(), func() string { _, s := evHole("kind"); return s }()+`]`)
	// an eighth / replaced member
	full := eventText(nil)
	add("event extra member", full[:len(full)-1]+`,`, `}`)
	six := eventText(nil)
	six = six[:strings.Index(six, `,"sig"`)]
	add("event seventh member", six+`,`, `}`)
	return cs
}

// alphaTokens decodes b as a concatenation of alphabet tokens (the alphabet is a prefix code, so
// the decoding is unique); ok is false when b is not such a concatenation.
func alphaTokens(b []byte) (n int, first string, ok bool) {
	i := 0
outer:
	for i < len(b) {
		for _, a := range alphabet {
			if len(b)-i >= len(a) && string(b[i:i+len(a)]) == a {
				if n == 0 {
					first = a
				}
				n++
				i += len(a)
				continue outer
			}
		}
		return n, first, false
	}
	return n, first, true
}

func c10Tokens(c *vk.Ctx) {
	N := c.ArgInt("n", vk.Pick(c, 3, 4))
	M := c.ArgInt("m", 3)
	A := len(alphabet)
	es := allEntries()
	ck := &checker{col: newCollector()}
	total := newStats()

	c.P.Rule = fmt.Sprintf("every string of 0..%d tokens over a %d-token alphabet (punctuation, the 9 labels, key strings, hex64, hex128, short strings, 5 number spellings, true, null, a lone-surrogate escape, a raw 0xFF byte, a blank); [thorough: also every string of one more token that begins with [ or {]; every string of 0..%d tokens inside each of %d message frames (e.g. [\"REQ\",\"a\",<hole>]); %d fixed pathological texts (nesting 9999..100000, 1 MB strings, trailing garbage, duplicate keys, number spellings, null in every position); each input is decoded by 29 entry points (Event, ReqFilter, 5 client and 7 server message types, each directly via UnmarshalJSON and via json.Unmarshal, plus ParseClientMsg); distinct = distinct input byte strings (the alphabet is a prefix code, frames are deduplicated by content)",
		N, A, M, len(contexts()), len(pathological()))

	// (1) plain token strings
	var offs []int64
	var tot int64
	for L := 0; L <= N; L++ {
		offs = append(offs, tot)
		tot += pow(A, L)
	}
	st := parallel(tot, 512, func(st *stats, lo, hi int64) {
		for i := lo; i < hi; i++ {
			L := 0
			for L+1 <= N && i >= offs[L+1] {
				L++
			}
			in := tokenString(L, i-offs[L])
			ck.checkInput(st, in, fmt.Sprintf("tokens L=%d #%d", L, i-offs[L]), es)
		}
	})
	total.merge(st)
	c.DistinctN(tot)
	c.SetExtra("token_strings", tot)

	// (1b) thorough: every string of N+1 tokens that begins with '[' or '{' (no other first token
	// can start a text that any decoder accepts, apart from blanks)
	heads := []string{"[", "{"}
	deep := c.ArgInt("deep", vk.Pick(c, 0, 1)) == 1
	if deep {
		per := pow(A, N)
		st = parallel(int64(len(heads))*per, 512, func(st *stats, lo, hi int64) {
			for i := lo; i < hi; i++ {
				in := append([]byte(heads[i/per]), tokenString(N, i%per)...)
				ck.checkInput(st, in, fmt.Sprintf("tokens %s + L=%d #%d", heads[i/per], N, i%per), es)
			}
		})
		total.merge(st)
		c.DistinctN(int64(len(heads)) * per)
		c.SetExtra("token_strings_one_longer_with_opening_bracket", int64(len(heads))*per)
	}
	// covered reports whether an input already belongs to the passes above
	covered := func(b []byte) bool {
		n, first, ok := alphaTokens(b)
		return ok && (n <= N || (deep && n == N+1 && (first == "[" || first == "{")))
	}

	// (2) token strings inside frames
	cs := contexts()
	var mtot int64
	var moffs []int64
	for L := 0; L <= M; L++ {
		moffs = append(moffs, mtot)
		mtot += pow(A, L)
	}
	seen := newSeenSet()
	st = parallel(int64(len(cs))*mtot, 256, func(st *stats, lo, hi int64) {
		for i := lo; i < hi; i++ {
			cx := cs[i/mtot]
			j := i % mtot
			L := 0
			for L+1 <= M && j >= moffs[L+1] {
				L++
			}
			mid := tokenString(L, j-moffs[L])
			in := make([]byte, 0, len(cx.pre)+len(mid)+len(cx.suf))
			in = append(append(append(in, cx.pre...), mid...), cx.suf...)
			if covered(in) {
				continue
			}
			seen.add(in) // counts distinct texts; a text produced by two frames is evaluated twice
			ck.checkInput(st, in, "frame "+cx.name, es)
		}
	})
	total.merge(st)
	c.SetExtra("framed_token_strings_not_in_plain_enumeration", seen.len())

	// (3) pathological inputs
	ps := pathological()
	st = parallel(int64(len(ps)), 1, func(st *stats, lo, hi int64) {
		for i := lo; i < hi; i++ {
			if !covered(ps[i].b) {
				seen.add(ps[i].b)
			}
			ck.checkInput(st, ps[i].b, "pathological: "+ps[i].name, es)
		}
	})
	total.merge(st)
	c.DistinctN(seen.len())
	c.SetExtra("pathological_inputs", len(ps))

	total.publish(c)
	ck.col.flush(c)
	c.P.Bound = fmt.Sprintf("token strings of length <= %d; framed token strings of length <= %d", N, M)
	if deep {
		c.P.Bound += fmt.Sprintf("; token strings of length %d that begin with [ or {", N+1)
	}

	c.Sample(map[string]any{"input": strconv.Quote(string(tokenString(3, 0*int64(A*A)+7*int64(A)+1))), "generator": "tokens L=3", "decoders": 29})
	c.Sample(map[string]any{"input": `["REQ","a",` + string(tokenString(2, 2*int64(A)+3)) + `]`, "generator": "frame REQ filter position (accepted by ClientReqMsg and ParseClientMsg)"})
	c.Sample(map[string]any{"input": strconv.Quote(`{"kinds":` + string(tokenString(3, 0*int64(A*A)+24*int64(A)+1)) + `}`), "generator": "frame filter kinds value"})
	c.Sample(map[string]any{"input": "10001 x '[' + 10001 x ']'", "generator": "pathological: array nest 10001 closed"})
	c.Sample(map[string]any{"input": clip(strconv.Quote(eventText(map[string]string{"kind": "1e2"})), 120), "generator": "pathological: event kind=1e2"})
	c.Assume("bounded: token strings longer than the bound and texts outside the alphabet/frames/pathological list are not enumerated")
	c.Assume("encoding/json (standard library) is trusted to read a JSON text into a generic tree; the check's field claims are derived from that tree, not from a second parser")
	c.Assume("unclaimed: top-level null (Go convention: no-op), null in place of a nested value, duplicate object keys (which one wins), numbers not spelled as plain decimal integers, a server COUNT payload without \"count\" or with differently-cased keys, messages whose arity differs from the type's, whether ill-typed or out-of-range values are rejected (validation, not codec)")
}
