package main

import (
	"encoding/json"
	"fmt"
	"math"
	"strconv"
	"strings"

	"github.com/high-moctane/mocrelay"
	"verifkit/vk"
)

func init() { parts["c10-roundtrip"] = c10Roundtrip }

func p64(v int64) *int64 { return &v }
func pb(v bool) *bool    { return &v }

var (
	hexA = strings.Repeat("ab", 32)
	hexB = strings.Repeat("0f", 32)
	sigA = strings.Repeat("cd", 64)
)

// rtStrings: the string domain (all valid UTF-8: well-formed protocol values are JSON texts, and
// JSON texts are Unicode).
func rtStrings() []string {
	return []string{"", "a", "\"", "<", "\u00e9", " ", "duplicate: x", "blocked: y", "\u2028", "\n", "\\", "\x00", "\U0001F600", "&>", "\u007f", "\ufffd"}
}

var okPrefixes = []string{"", mocrelay.MachineReadablePrefixPoW, mocrelay.MachineReadablePrefixDuplicate, mocrelay.MachineReadablePrefixBlocked,
	mocrelay.MachineReadablePrefixRateLimited, mocrelay.MachineReadablePrefixInvalid, mocrelay.MachineReadablePrefixError, "auth-required: "}

type rtCase struct {
	v       any    // pointer to a message / event / filter built through the Go API
	claimed bool   // false: not a well-formed protocol value (nil where the wire has no spelling); run, never a violation
	why     string // for unclaimed cases
}

func rtEvents(c *vk.Ctx) []*mocrelay.Event {
	ids := []string{hexA, "", "a", "\""}
	pks := []string{hexB, "é"}
	times := []int64{0, 1, -1, 1 << 53, math.MaxInt64, math.MinInt64}
	kinds := []int64{0, 1, 65535, 1 << 53, math.MaxInt64, -1}
	tagLists := [][]mocrelay.Tag{
		{}, {{"a"}}, {{"e", hexA}}, {{"e", hexA}, {"p", hexB, "wss://r"}}, {{"", ""}}, {{"d", ""}, {"d", ""}}, {{"t", "\"", "<", " "}}, {{"a"}, {"b"}},
	}
	contents := rtStrings()
	sigs := []string{sigA, "", "<"}
	if !c.Thorough() {
		times = []int64{0, 1 << 53, math.MaxInt64, math.MinInt64}
		kinds = []int64{0, 65535, math.MaxInt64, -1}
	}
	var out []*mocrelay.Event
	for _, id := range ids {
		for _, pk := range pks {
			for _, ts := range times {
				for _, k := range kinds {
					for _, tl := range tagLists {
						for _, co := range contents {
							for _, sg := range sigs {
								out = append(out, &mocrelay.Event{ID: id, Pubkey: pk, CreatedAt: ts, Kind: k, Tags: tl, Content: co, Sig: sg})
							}
						}
					}
				}
			}
		}
	}
	return out
}

func rtFilters(c *vk.Ctx) []*mocrelay.ReqFilter {
	strOpts := [][]string{nil, {}, {hexA}, {hexA, "\""}}
	if c.Thorough() {
		strOpts = append(strOpts, []string{""}, []string{"é", "<", "a"})
	}
	kindOpts := [][]int64{nil, {}, {0}, {1, 65535}, {math.MaxInt64, -1}}
	tagOpts := []map[string][]string{nil, {}, {"e": {}}, {"e": {hexA}}, {"e": {hexA, hexB}, "p": {"\""}}, {"E": {"x"}, "e": {"y"}}, {"z": {"", ""}}}
	numOpts := []*int64{nil, p64(0), p64(1), p64(1 << 53), p64(math.MaxInt64)}
	if c.Thorough() {
		numOpts = append(numOpts, p64(-1), p64(math.MinInt64))
	}
	var out []*mocrelay.ReqFilter
	for _, ids := range strOpts {
		for _, au := range strOpts {
			for _, ks := range kindOpts {
				for _, tg := range tagOpts {
					for _, si := range numOpts {
						for _, un := range numOpts {
							for _, li := range numOpts {
								out = append(out, &mocrelay.ReqFilter{IDs: ids, Authors: au, Kinds: ks, Tags: tg, Since: si, Until: un, Limit: li})
							}
						}
					}
				}
			}
		}
	}
	return out
}

func rtCases(c *vk.Ctx) []rtCase {
	S := rtStrings()
	var out []rtCase
	add := func(v any) { out = append(out, rtCase{v: v, claimed: true}) }
	skip := func(v any, why string) { out = append(out, rtCase{v: v, why: why}) }

	events := rtEvents(c)
	for _, e := range events {
		add(e)
	}
	filters := rtFilters(c)
	for _, f := range filters {
		add(f)
	}
	// cores for the composite messages: a spread over the products plus extremes
	var evCore []*mocrelay.Event
	for i := 0; i < len(events); i += len(events)/211 + 1 {
		evCore = append(evCore, events[i])
	}
	evCore = append(evCore, events[len(events)-1])
	var fCore []*mocrelay.ReqFilter
	for i := 0; i < len(filters); i += len(filters)/13 + 1 {
		fCore = append(fCore, filters[i])
	}
	fCore = append(fCore, &mocrelay.ReqFilter{}, filters[len(filters)-1])

	for _, s := range S {
		add(&mocrelay.ClientCloseMsg{SubscriptionID: s})
		add(&mocrelay.ServerEOSEMsg{SubscriptionID: s})
		add(&mocrelay.ServerNoticeMsg{Message: s})
		add(&mocrelay.ServerAuthMsg{Challenge: s})
		for _, cnt := range []uint64{0, 1, 1 << 53, math.MaxUint64} {
			for _, ap := range []*bool{nil, pb(true), pb(false)} {
				add(&mocrelay.ServerCountMsg{SubscriptionID: s, Count: cnt, Approximate: ap})
			}
		}
		for _, pre := range okPrefixes {
			for _, m := range S {
				add(&mocrelay.ServerClosedMsg{SubscriptionID: s, MsgPrefix: pre, Msg: m})
				for _, acc := range []bool{true, false} {
					for _, id := range []string{hexA, s} {
						add(&mocrelay.ServerOKMsg{EventID: id, Accepted: acc, MsgPrefix: pre, Msg: m})
					}
				}
			}
		}
	}
	subs := S
	if !c.Thorough() {
		subs = S[:8]
	}
	for _, e := range evCore {
		add(&mocrelay.ClientEventMsg{Event: e})
		add(&mocrelay.ClientAuthMsg{Event: e})
	}
	for _, s := range subs {
		for _, e := range evCore {
			add(&mocrelay.ServerEventMsg{SubscriptionID: s, Event: e})
		}
		for _, f1 := range fCore {
			add(&mocrelay.ClientReqMsg{SubscriptionID: s, ReqFilters: []*mocrelay.ReqFilter{f1}})
			add(&mocrelay.ClientCountMsg{SubscriptionID: s, ReqFilters: []*mocrelay.ReqFilter{f1}})
			for _, f2 := range fCore {
				add(&mocrelay.ClientReqMsg{SubscriptionID: s, ReqFilters: []*mocrelay.ReqFilter{f1, f2}})
				add(&mocrelay.ClientCountMsg{SubscriptionID: s, ReqFilters: []*mocrelay.ReqFilter{f1, f2}})
			}
		}
	}
	add(&mocrelay.ClientReqMsg{SubscriptionID: "s", ReqFilters: []*mocrelay.ReqFilter{fCore[1], fCore[2], fCore[3]}})

	// values the Go API can build but the wire format cannot spell: run, count, never a violation
	skip(&mocrelay.Event{ID: hexA, Pubkey: hexB, Sig: sigA}, "Event with nil Tags")
	skip(&mocrelay.Event{ID: hexA, Pubkey: hexB, Sig: sigA, Tags: []mocrelay.Tag{nil}}, "Event with a nil tag")
	skip(&mocrelay.Event{ID: hexA, Pubkey: hexB, Sig: sigA, Tags: []mocrelay.Tag{{}}}, "Event with an empty tag")
	skip(&mocrelay.ClientEventMsg{}, "EVENT with nil Event")
	skip(&mocrelay.ClientAuthMsg{}, "AUTH with nil Event")
	skip(&mocrelay.ServerEventMsg{SubscriptionID: "s"}, "EVENT with nil Event")
	skip(&mocrelay.ClientEventMsg{Event: &mocrelay.Event{}}, "EVENT whose Event has nil Tags")
	skip(&mocrelay.ClientReqMsg{SubscriptionID: "s"}, "REQ without filters")
	skip(&mocrelay.ClientReqMsg{SubscriptionID: "s", ReqFilters: []*mocrelay.ReqFilter{}}, "REQ without filters")
	skip(&mocrelay.ClientCountMsg{SubscriptionID: "s"}, "COUNT without filters")
	skip(&mocrelay.ClientReqMsg{SubscriptionID: "s", ReqFilters: []*mocrelay.ReqFilter{nil}}, "REQ with a nil filter")
	skip(&mocrelay.ClientCountMsg{SubscriptionID: "s", ReqFilters: []*mocrelay.ReqFilter{{}, nil}}, "COUNT with a nil filter")
	skip(&mocrelay.ReqFilter{Tags: map[string][]string{"e": nil}}, "filter tag with nil value list")
	skip(&mocrelay.ReqFilter{Tags: map[string][]string{"ee": {"x"}}}, "filter tag name of two letters")
	skip(&mocrelay.ReqFilter{Tags: map[string][]string{"": {"x"}}}, "filter tag with empty name")
	skip(&mocrelay.ReqFilter{Tags: map[string][]string{"1": {"x"}}}, "filter tag name that is not a letter")
	skip(&mocrelay.ServerNoticeMsg{Message: "\xff"}, "string that is not UTF-8")
	skip(&mocrelay.ClientCloseMsg{SubscriptionID: "\xc0\xaf"}, "string that is not UTF-8")
	return out
}

func directMarshal(v any) (b []byte, err error, pan any, has bool) {
	m, ok := v.(json.Marshaler)
	if !ok {
		return nil, nil, nil, false
	}
	defer func() {
		if r := recover(); r != nil {
			pan, b, err = r, nil, nil
		}
	}()
	b, err = m.MarshalJSON()
	return b, err, nil, true
}

func c10Roundtrip(c *vk.Ctx) {
	cases := rtCases(c)
	col := newCollector()
	byType := map[string]int64{}
	for _, cs := range cases {
		byType[typeName(cs.v)]++
	}
	isClient := map[string]bool{"ClientEventMsg": true, "ClientReqMsg": true, "ClientCloseMsg": true, "ClientAuthMsg": true, "ClientCountMsg": true}

	total := parallel(int64(len(cases)), 64, func(st *stats, lo, hi int64) {
		for i := lo; i < hi; i++ {
			cs := cases[i]
			typ := typeName(cs.v)
			want := fieldsOf(cs.v)
			describe := func() string {
				var sb strings.Builder
				for _, x := range want {
					fmt.Fprintf(&sb, "%s=%s ", x.k, clip(x.v, 80))
				}
				return typ + "{" + strings.TrimSpace(sb.String()) + "}"
			}
			viol := func(sig, detail string, enc []byte) {
				if !cs.claimed {
					st.uncl("Go-API value with no wire spelling: " + cs.why)
					return
				}
				col.add(sig, []byte(describe()), fmt.Sprintf("%09d", i), func() (string, map[string]any) {
					return describe() + ": " + detail, map[string]any{"type": typ, "value": describe(), "go_value": fmt.Sprintf("%#v", cs.v), "encoding": strconv.Quote(string(enc)), "case_index": i}
				})
			}
			if !cs.claimed {
				st.outcomes[typ+":unclaimed value"]++
			}

			// encodings: json.Marshal(pointer) and, where the type has one, MarshalJSON directly
			var encs [][]byte
			b, err, pan := safeMarshal(cs.v)
			st.evals++
			switch {
			case pan != nil:
				viol("C10/roundtrip: json.Marshal("+typ+") panics", fmt.Sprintf("panic %q", fmt.Sprint(pan)), nil)
			case err != nil:
				viol("C10/roundtrip: "+typ+" cannot be encoded", fmt.Sprintf("json.Marshal: %v", err), nil)
			default:
				encs = append(encs, b)
			}
			if b2, err, pan, has := directMarshal(cs.v); has {
				st.evals++
				switch {
				case pan != nil:
					viol("C10/roundtrip: "+typ+".MarshalJSON panics", fmt.Sprintf("panic %q", fmt.Sprint(pan)), nil)
				case err != nil:
					viol("C10/roundtrip: "+typ+" cannot be encoded", fmt.Sprintf("MarshalJSON: %v", err), nil)
				default:
					if len(encs) == 0 || string(encs[0]) != string(b2) {
						encs = append(encs, b2)
					}
				}
			}
			okAll := len(encs) > 0
			for _, enc := range encs {
				if !json.Valid(enc) {
					viol("C10/roundtrip: encoding of "+typ+" is not a JSON text", "encoder output is not valid JSON", enc)
					okAll = false
					continue
				}
				des := entriesOf(typ)
				if isClient[typ] {
					des = append(des, parseEntry)
				}
				for _, e := range des {
					v2, err, pan := safeDecode(e, enc)
					st.evals++
					switch {
					case pan != nil:
						okAll = false
						viol("C10/roundtrip: "+e.name+" panics on the encoding of a "+typ, fmt.Sprintf("panic %q", fmt.Sprint(pan)), enc)
					case err != nil:
						okAll = false
						viol("C10/roundtrip: encoding of "+typ+" is rejected by "+e.name, fmt.Sprintf("error: %v", err), enc)
					case v2 == nil || typeName(v2) != typ:
						okAll = false
						viol("C10/roundtrip: "+e.name+" returns another type for the encoding of a "+typ, "got "+typeName(v2), enc)
					default:
						if np := nilProblems(v2); len(np) > 0 {
							okAll = false
							viol("C10/roundtrip: "+typ+" decoded by "+e.name+" has "+np[0], np[0], enc)
						}
						if name, a, b := diffFields(want, fieldsOf(v2)); name != "" {
							okAll = false
							viol("C10/roundtrip: "+typ+" differs after encode/decode ("+sigField(name)+")", fmt.Sprintf("via %s: field %s was %s, is %s", e.name, name, clip(a, 200), clip(b, 200)), enc)
						}
					}
				}
			}
			if cs.claimed {
				if okAll {
					st.outcomes[typ+":round trip equal"]++
				} else {
					st.outcomes[typ+":round trip FAILS"]++
				}
			}
		}
	})
	// distinct = distinct protocol values among the claimed cases (measured)
	var claimed int64
	distinct := map[string]struct{}{}
	for _, cs := range cases {
		if cs.claimed {
			claimed++
			var sb strings.Builder
			sb.WriteString(typeName(cs.v))
			for _, x := range fieldsOf(cs.v) {
				sb.WriteString("|" + x.k + "=" + x.v)
			}
			distinct[sb.String()] = struct{}{}
		}
	}
	c.DistinctN(int64(len(distinct)))
	c.SetExtra("values_claimed", claimed)
	c.SetExtra("values_by_type", byType)
	c.SetExtra("values_unclaimed", int64(len(cases))-claimed)
	total.publish(c)
	col.flush(c)

	c.P.Rule = "product of small field domains built through the Go API: 16 strings (empty, quote, <, &>, non-ASCII, astral, U+2028, NUL, DEL, newline, backslash, texts starting with a machine-readable prefix), numbers {0,1,-1,2^53,max,min}, events = 4 ids x 2 pubkeys x created_at x kind x 8 tag lists x 16 contents x 3 sigs, filters = ids/authors in {absent,[],1,2 values} x kinds in 5 shapes x 7 tag maps (absent, empty, empty list, 1-2 names, e/E) x since/until/limit in {absent,0,1,2^53,max,...}; OK and CLOSED = every machine-readable prefix (and none, and an unknown one) x every string; COUNT = 4 counts x approximate {absent,true,false}; REQ/COUNT with 1-2 (one case 3) filters over a core, EVENT/AUTH over a 200-event core; each value v: json.Marshal(&v) and v.MarshalJSON() succeed, give JSON, and every decoder of the type (direct, via json.Unmarshal, ParseClientMsg for client types) returns a value equal to v as a protocol value; distinct = distinct protocol values among them (measured; e.g. prefix \"\" + \"duplicate: x\" and prefix \"duplicate: \" + \"x\" are one value)"
	c.P.Bound = "field domains as listed"
	for _, i := range []int{0, len(cases) / 3, len(cases) / 2, len(cases) - 40} {
		b, _, _ := safeMarshal(cases[i].v)
		c.Sample(map[string]any{"type": typeName(cases[i].v), "encoding": clip(string(b), 200)})
	}
	c.Assume("equality is on protocol values: nil and empty tag list of an event / tag map of a filter are the same value; OK and CLOSED are compared by their full message text (how the text is split into prefix and rest is representation); a filter without ids/authors/kinds differs from one with an empty list (MarshalJSON writes the key exactly when the slice is non-nil)")
	c.Assume("unclaimed (run, counted, never a violation): values the wire cannot spell: nil Event, nil Tags, nil or empty tag, nil filter, REQ/COUNT without filters, filter tag names that are not one letter, nil tag value list, strings that are not UTF-8")
	c.Assume("bounded: field values outside the stated domains are not enumerated")
}
