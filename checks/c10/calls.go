package main

import (
	"bytes"
	"encoding/json"
	"fmt"
	"strconv"

	"verifkit/vk"
)

func init() { parts["c10-calls"] = c10Calls }

// c10Calls: encodings must not depend on, or be changed by, other encodings. For every ordered pair
// (x, y) of a core of values of every type: x is encoded (directly through MarshalJSON, whose result
// the caller owns, and through json.Marshal), y is encoded, then x's bytes must still be what they
// were and still decode to x. One goroutine: what encoders share (a scratch buffer) is handed from
// one call to the next deterministically.
func c10Calls(c *vk.Ctx) {
	cases := rtCases(c)
	// a core: up to 6 claimed values per type, spread over the product
	byType := map[string][]rtCase{}
	var order []string
	for _, cs := range cases {
		if !cs.claimed {
			continue
		}
		if _, ok := cs.v.(json.Marshaler); !ok {
			continue
		}
		t := typeName(cs.v)
		if _, seen := byType[t]; !seen {
			order = append(order, t)
		}
		byType[t] = append(byType[t], cs)
	}
	var core []rtCase
	for _, t := range order {
		l := byType[t]
		step := len(l)/6 + 1
		for i := 0; i < len(l); i += step {
			core = append(core, l[i])
		}
		core = append(core, l[len(l)-1])
	}
	c.P.Bound = fmt.Sprintf("all ordered pairs over a core of %d values (%d types)", len(core), len(order))
	c.P.Rule = "E2: for every ordered pair (x, y) of the core: b := x.MarshalJSON(); y.MarshalJSON(); b must be byte-identical to what it was and to a fresh encoding of x; in one goroutine"
	var n int64
	for i, x := range core {
		xm := x.v.(json.Marshaler)
		for j, y := range core {
			if c.NViolations() >= 8 {
				break
			}
			ym := y.v.(json.Marshaler)
			b, err := xm.MarshalJSON()
			if err != nil {
				continue // encodability is c10-roundtrip's business
			}
			keep := bytes.Clone(b)
			if _, err := ym.MarshalJSON(); err != nil {
				continue
			}
			n++
			if !bytes.Equal(b, keep) {
				c.Violate("C10/calls: the encoding returned for one message changed when another message was encoded",
					fmt.Sprintf("%s #%d encoded to %s; after encoding %s #%d the same bytes read %s", typeName(x.v), i, strconv.Quote(clip(string(keep), 160)), typeName(y.v), j, strconv.Quote(clip(string(b), 160))),
					map[string]any{"first": fmt.Sprintf("%#v", x.v), "second": fmt.Sprintf("%#v", y.v)})
				continue
			}
			again, err := xm.MarshalJSON()
			if err != nil || !bytes.Equal(again, keep) {
				c.Violate("C10/calls: encoding the same value twice gives different bytes",
					fmt.Sprintf("%s #%d: first %s, later %s (err %v)", typeName(x.v), i, strconv.Quote(clip(string(keep), 160)), strconv.Quote(clip(string(again), 160)), err), nil)
			}
		}
	}
	c.Eval(n)
	c.DistinctN(n)
	c.Outcome("encodings independent of each other")
}
