package main

import (
	"bytes"
	"encoding/json"
	"regexp"
	"strconv"
	"strings"
)

// node is a generic JSON tree that keeps object members in text order (so that duplicate keys
// stay visible). It is the check's own reading of a text and is only consulted for texts that a
// decoder of /repo accepted.
type node struct {
	kind  byte // 'o' object, 'a' array, 's' string, 'n' number, 'b' bool, 'z' null
	str   string
	b     bool
	keys  []string
	vals  []*node
	elems []*node
}

// parseTree returns nil when the text is not exactly one JSON value (RFC 8259, surrounded by
// optional whitespace).
func parseTree(b []byte) *node {
	if !json.Valid(b) {
		return nil
	}
	dec := json.NewDecoder(bytes.NewReader(b))
	dec.UseNumber()
	n, ok := buildNode(dec)
	if !ok {
		return nil
	}
	return n
}

func buildNode(dec *json.Decoder) (*node, bool) {
	t, err := dec.Token()
	if err != nil {
		return nil, false
	}
	switch v := t.(type) {
	case json.Delim:
		switch v {
		case '[':
			n := &node{kind: 'a'}
			for dec.More() {
				e, ok := buildNode(dec)
				if !ok {
					return nil, false
				}
				n.elems = append(n.elems, e)
			}
			if _, err := dec.Token(); err != nil {
				return nil, false
			}
			return n, true
		case '{':
			n := &node{kind: 'o'}
			for dec.More() {
				kt, err := dec.Token()
				if err != nil {
					return nil, false
				}
				k, ok := kt.(string)
				if !ok {
					return nil, false
				}
				e, ok := buildNode(dec)
				if !ok {
					return nil, false
				}
				n.keys = append(n.keys, k)
				n.vals = append(n.vals, e)
			}
			if _, err := dec.Token(); err != nil {
				return nil, false
			}
			return n, true
		}
		return nil, false
	case string:
		return &node{kind: 's', str: v}, true
	case json.Number:
		return &node{kind: 'n', str: string(v)}, true
	case bool:
		return &node{kind: 'b', b: v}, true
	case nil:
		return &node{kind: 'z'}, true
	}
	return nil, false
}

func (n *node) hasDupKeys() bool {
	seen := make(map[string]struct{}, len(n.keys))
	for _, k := range n.keys {
		if _, ok := seen[k]; ok {
			return true
		}
		seen[k] = struct{}{}
	}
	return false
}

func (n *node) member(k string) *node {
	for i, kk := range n.keys {
		if kk == k {
			return n.vals[i]
		}
	}
	return nil
}

func (n *node) isStrings() bool {
	if n.kind != 'a' {
		return false
	}
	for _, e := range n.elems {
		if e.kind != 's' {
			return false
		}
	}
	return true
}

var plainIntRe = regexp.MustCompile(`^-?(0|[1-9][0-9]*)$`)

// plainInt64 reports the value of a number node that is spelled as a plain decimal integer in
// int64 range; every other spelling (fraction, exponent, out of range) is left unclaimed.
func (n *node) plainInt64() (int64, bool) {
	if n.kind != 'n' || !plainIntRe.MatchString(n.str) {
		return 0, false
	}
	v, err := strconv.ParseInt(n.str, 10, 64)
	return v, err == nil
}

func (n *node) plainUint64() (uint64, bool) {
	if n.kind != 'n' || !plainIntRe.MatchString(n.str) || strings.HasPrefix(n.str, "-") {
		return 0, false
	}
	v, err := strconv.ParseUint(n.str, 10, 64)
	return v, err == nil
}

func (n *node) isPlainInts() bool {
	if n.kind != 'a' {
		return false
	}
	for _, e := range n.elems {
		if _, ok := e.plainInt64(); !ok {
			return false
		}
	}
	return true
}

// ---- the token alphabet ------------------------------------------------------------------------

var (
	hex64tok  = `"` + strings.Repeat("ab", 32) + `"`
	hex128tok = `"` + strings.Repeat("cd", 64) + `"`
)

// alphabet is a prefix code (no token is a prefix of another and a token's first byte decides
// where it ends), so distinct token sequences are distinct byte strings.
var alphabet = []string{
	"[", "]", "{", "}", ",", ":",
	`"EVENT"`, `"REQ"`, `"CLOSE"`, `"AUTH"`, `"COUNT"`, `"EOSE"`, `"NOTICE"`, `"OK"`, `"CLOSED"`,
	`"id"`, `"kinds"`, `"#e"`, `"since"`, `"limit"`,
	hex64tok, hex128tok, `""`, `"a"`,
	"0", "-1", "1e999", "9223372036854775808", "1.5",
	"true", "null",
	`"\ud800"`, "\xff", " ",
}

// ---- tokenizer of valid JSON texts (for the mutation neighbourhood) ----------------------------

type span struct{ s, e int }

// tokenize splits a JSON text into strings, numbers, literals and punctuation; whitespace is
// skipped. It is only used on seed texts.
func tokenize(b []byte) []span {
	var out []span
	i := 0
	for i < len(b) {
		ch := b[i]
		switch {
		case ch == ' ' || ch == '\t' || ch == '\n' || ch == '\r':
			i++
		case ch == '"':
			j := i + 1
			for j < len(b) && b[j] != '"' {
				if b[j] == '\\' {
					j++
				}
				j++
			}
			if j < len(b) {
				j++
			} else {
				j = len(b)
			}
			out = append(out, span{i, j})
			i = j
		case ch == '-' || ch == '+' || ch == '.' || ('0' <= ch && ch <= '9'):
			j := i
			for j < len(b) && (b[j] == '-' || b[j] == '+' || b[j] == '.' || b[j] == 'e' || b[j] == 'E' || ('0' <= b[j] && b[j] <= '9')) {
				j++
			}
			out = append(out, span{i, j})
			i = j
		case ('a' <= ch && ch <= 'z') || ('A' <= ch && ch <= 'Z'):
			j := i
			for j < len(b) && (('a' <= b[j] && b[j] <= 'z') || ('A' <= b[j] && b[j] <= 'Z')) {
				j++
			}
			out = append(out, span{i, j})
			i = j
		default:
			out = append(out, span{i, i + 1})
			i++
		}
	}
	return out
}

// memberSpans returns the byte span [key start, value end) of every member of every object in
// the text (at any depth).
func memberSpans(b []byte, toks []span) []span {
	var out []span
	var value func(i int) int
	value = func(i int) int {
		if i >= len(toks) {
			return i
		}
		switch b[toks[i].s] {
		case '{':
			i++
			for i < len(toks) && b[toks[i].s] != '}' {
				ks := i
				i++ // key
				if i < len(toks) && b[toks[i].s] == ':' {
					i++
				}
				j := value(i)
				if j > ks && j-1 < len(toks) {
					out = append(out, span{toks[ks].s, toks[j-1].e})
				}
				i = j
				if i < len(toks) && b[toks[i].s] == ',' {
					i++
				}
			}
			return i + 1
		case '[':
			i++
			for i < len(toks) && b[toks[i].s] != ']' {
				i = value(i)
				if i < len(toks) && b[toks[i].s] == ',' {
					i++
				}
			}
			return i + 1
		default:
			return i + 1
		}
	}
	value(0)
	return out
}
