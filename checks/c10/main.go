// Command c10 holds the sub-checks of property C10 (wire codec: decoding never panics and yields
// completely filled values; encode/decode round-trips). Everything is a deterministic, exhaustive
// enumeration: all token strings up to a length bound, the complete single-point mutation
// neighbourhood of valid texts, and a product of small field domains built through the Go API.
package main

import (
	"runtime/debug"

	"verifkit/vk"
)

var parts = map[string]func(*vk.Ctx){}

func main() {
	// The checks allocate many short-lived objects on all cores with a tiny live heap; with the
	// default pacing the collector would run thousands of cycles per second. Collect by limit only.
	debug.SetGCPercent(-1)
	debug.SetMemoryLimit(1 << 30)
	vk.RunPart(parts)
}
