package main

import (
	"verifkit/harness"
	"verifkit/vk"
)

func init() { parts["c07-router"] = c07Router }

func c07Router(c *vk.Ctx) {
	if rp := c.Arg("replay", ""); rp != "" {
		replayPart(c, rp)
		return
	}
	var jobs []Job
	budget := vk.Pick(c, 8.0, 120.0)
	fb := vk.Pick(c, 3, 6)
	for sc := 0; sc < harness.C07Scenarios; sc++ {
		for _, bl := range []int{1, 2} {
			if sc == 8 || sc == 12 || sc == 15 {
				for k := 0; k <= 2; k++ {
					jobs = append(jobs, Job{Harness: "RouterScenario", Bound: -1, BudgetS: budget, FallbackDelay: fb, Params: map[string]int{"sc": sc, "buflen": bl, "k": k}})
				}
				continue
			}
			jobs = append(jobs, Job{Harness: "RouterScenario", Bound: -1, BudgetS: budget, FallbackDelay: fb, Params: map[string]int{"sc": sc, "buflen": bl}})
			// the same with a scheduling point before every message a writer sends: the moment a client
			// decides to send is then independent of when its previous message was taken (more real-time
			// orders for the must / must-not clauses of the oracle)
			if c.Thorough() || (bl == 1 && sc != 4 && sc != 5 && sc != 11 && sc != 15) {
				jobs = append(jobs, Job{Harness: "RouterScenario", Bound: -1, BudgetS: budget, FallbackDelay: fb, Params: map[string]int{"sc": sc, "buflen": bl, "think": 1}})
			}
		}
	}
	c.P.Rule = "E1: every schedule of one real RouterHandler with 2-3 client connections (each: session, writer script, reader) in 18 scenarios (subscribe/publish, matching and non-matching, replacement, CLOSE, two subscribers with the same id, two publishers, disconnect by cancel or inbound close at every cut point, stalled subscriber with buflen+2 publications, self-delivery, a REQ with three filters of which two match, the publisher disconnecting at every cut point, a stalled and a healthy subscriber with one publication per phase, a second publication after the first phase is quiescent following REQ/CLOSE/REQ or a first REQ racing with a publication) x buflen {1,2}, plus variants with a scheduling point before every message a client sends; map iteration order in Publish is an explored choice; unbounded within a per-job budget, else complete up to a delay bound; oracle by real-time order of call/return stamps (must / may / must-not)"
	res := runJobs(c, jobs)
	for i, r := range res {
		if i%6 == 0 {
			c.Sample(map[string]any{"job": r.Job.String(), "executions": r.Executions, "states": r.States, "outcomes": len(r.Outcomes)})
		}
	}
	c.SetExtra("jobs", len(jobs))
	c.Assume("scheduling points are the synchronisation operations; sound for data-race-free code")
	c.Assume("'open at that moment' is judged by real-time order: EOSE received before the EVENT was sent => must deliver; REQ sent after the OK => must not; otherwise may; a delivery may be missing only if >= buflen other deliveries to that connection were unread")
}
