package main

import (
	"verifkit/harness"
	"verifkit/vk"
)

func init() { parts["c01-concurrent"] = c01Concurrent }

// c01Concurrent: Verify / Serialize of different events by concurrent tasks (statement-point build).
func c01Concurrent(c *vk.Ctx) {
	if rp := c.Arg("replay", ""); rp != "" {
		replayPart(c, rp)
		return
	}
	const (
		serA, verA, serB, verB, serAt, verAt = 0, 1, 2, 3, 4, 5
	)
	var jobs []Job
	add := func(bound int, scripts ...[]int) {
		p := map[string]int{}
		for i, s := range scripts {
			p["s"+string(rune('0'+i))] = harness.EncodeScript(s...)
		}
		jobs = append(jobs, Job{Harness: "VerifyConcurrent", Bound: bound, BudgetS: vk.Pick(c, 60.0, 600.0), Params: p})
	}
	ops := []int{serA, verA, serB, verB, serAt, verAt}
	b2 := vk.Pick(c, 2, 4)
	for _, x := range ops {
		for _, y := range ops {
			add(b2, []int{x}, []int{y})
		}
	}
	// two calls per task, verdict-bearing combinations
	for _, s0 := range [][]int{{verAt, verAt}, {verA, verAt}, {serA, verAt}, {verAt, serB}} {
		for _, s1 := range [][]int{{verA, verB}, {verB, verA}, {serB, serA}, {verAt, verA}} {
			add(vk.Pick(c, 1, 3), s0, s1)
		}
	}
	// three tasks
	add(vk.Pick(c, 1, 2), []int{verAt}, []int{verA}, []int{verB})
	add(vk.Pick(c, 1, 2), []int{serA}, []int{serB}, []int{verAt})
	c.P.Rule = "E1 (statement-point build: a scheduling point before every statement of Event.Serialize, Event.Verify and unescapeNIP01; sync.Pool replaced by a deterministic LIFO pool): 2-3 tasks call Verify / Serialize on their own events (A and B correctly signed with different keys and lengths, A' = A with its content altered at equal length) — all 36 pairs of single calls, 16 pairs of two-call scripts, 2 three-task jobs; every schedule up to the stated preemption bound; oracle: every verdict is that of the event alone (A, B authentic; A' not), every returned serialization equals the NIP-01 reference after all tasks finished"
	c.Assume("btcec's schnorr verification and crypto/sha256 are not instrumented: they run atomically between two statements of Verify (they share no mutable state between calls)")
	runJobs(c, jobs)
	c.SetExtra("jobs", len(jobs))
}
