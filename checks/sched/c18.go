package main

import (
	"strings"

	"verifkit/harness"
	"verifkit/vk"
)

func init() { parts["c18-stateful"] = c18Stateful }

func pow(b, e int) int {
	r := 1
	for i := 0; i < e; i++ {
		r *= b
	}
	return r
}

func c18Stateful(c *vk.Ctx) {
	if rp := c.Arg("replay", ""); rp != "" {
		replayPart(c, rp)
		return
	}
	var jobs []Job
	// every history on ALL schedules (unbounded search with state caching: a single session over the
	// stub is small); the budget/fallback only guards against a change that makes a job explode
	maxLen := c.ArgInt("max_len", vk.Pick(c, 5, 6))
	ns := []int{1, 2}
	if c.Thorough() {
		ns = append(ns, 3)
	}
	hist := func(harness string, p map[string]int) Job {
		return Job{Harness: harness, Bound: -1, BudgetS: 30, FallbackDelay: 3, Params: p}
	}
	for _, n := range ns {
		for L := 1; L <= maxLen; L++ {
			for code := 0; code < pow(5, L); code++ {
				jobs = append(jobs, hist("QuotaHistory", map[string]int{"n": n, "len": L, "code": code}))
			}
		}
	}
	for side := 0; side < 2; side++ {
		for _, size := range []int{1, 2} {
			for L := 1; L <= maxLen; L++ {
				for code := 0; code < pow(3, L); code++ {
					jobs = append(jobs, hist("UniqueHistory", map[string]int{"side": side, "size": size, "len": L, "code": code}))
				}
			}
		}
	}
	nHist := len(jobs)
	// the quota above another limit middleware: all histories up to length 3/4 over 5 symbols, N = 1, 2
	var over []Job
	for _, n := range []int{1, 2} {
		for L := 1; L <= vk.Pick(c, 3, 4); L++ {
			for code := 0; code < pow(5, L); code++ {
				over = append(over, Job{Harness: "QuotaOverFilters", Bound: -1, BudgetS: 60, FallbackDelay: 3, Params: map[string]int{"n": n, "len": L, "code": code}})
			}
		}
	}
	// isolation: two sessions on one middleware value, all schedules
	iso := []Job{}
	for mw := range harness.C18IsolationNames {
		for v := 0; v < c.ArgInt("iso_variants", harness.C18IsolationVariants); v++ {
			iso = append(iso, Job{Harness: "StatefulIsolation", Bound: -1, BudgetS: vk.Pick(c, 60.0, 900.0), FallbackDelay: vk.Pick(c, 3, 4), Params: map[string]int{"mw": mw, "variant": v}})
			// the same two scripts one after the other: the second session starts when the first has ended
			iso = append(iso, Job{Harness: "StatefulIsolation", Bound: -1, BudgetS: vk.Pick(c, 60.0, 900.0), FallbackDelay: vk.Pick(c, 3, 4), Params: map[string]int{"mw": mw, "variant": v, "seq": 1}})
		}
	}
	for i := len(iso) - 1; i >= 0; i-- { // longest first
		jobs = append([]Job{iso[i]}, jobs...)
	}
	jobs = append(jobs, over...)
	c.P.Rule = "E1 on the real middlewares around a recording downstream stub. Quota: N in {1,2} (thorough: 3 too) x ALL client histories of length <= 5 (thorough: 6) over {REQ a, REQ b, REQ c, CLOSE a, CLOSE b} (3905 per N for length <= 5), one history per job; oracle = set model computed from the history (forward iff id open or fewer than N open, else exactly one CLOSED naming the id; CLOSE forwarded and frees; |open downstream| <= N at every prefix; downstream receives exactly the forwarded messages in order; one EOSE per forwarded REQ). Unique filters: side in {recv, send} x window in {1,2} x ALL EVENT-id histories of length <= 5 (thorough: 6) over 3 ids (363 each for length <= 5), between non-EVENT messages that must pass unchanged; three-valued oracle per position (must block while among the last `window` distinct ids seen, must pass if never seen, else unclaimed; exactly one OK false with the duplicate: prefix per blocked client EVENT). Schedules: ALL interleavings of every history (unbounded search with state caching). Isolation: two sessions with colliding ids - concurrent, and one after the other has ended - on ONE middleware value (MaxSubscriptions(1), RecvEventUniqueFilter(2), SendEventUniqueFilter(2); 3 script pairs each) over one shared stub, all schedules within the budget else a delay bound; oracle: each session's outcome equals the model's outcome for that session alone. Quota above another limit: MaxSubscriptions(N) over MaxReqFilters(1), ALL histories of length <= 3/4 over {REQ a, REQ b, REQ a with 2 filters, REQ b with 2 filters, CLOSE a}: at every prefix of what the downstream handler received at most N distinct ids are open"
	res := runJobs(c, jobs)
	var unclaimed int64
	sample := func(r JobResult) {
		c.Sample(map[string]any{"job": r.Job.String(), "executions": r.Executions, "states": r.States, "outcomes": r.Outcomes, "wall_s": r.WallS})
	}
	for _, r := range res { // the isolation jobs first (the sample list is capped)
		if r.Job.Harness == "StatefulIsolation" && r.Job.Params["variant"] != 1 {
			sample(r)
		}
	}
	for i, r := range res {
		for o, n := range r.Outcomes {
			if strings.HasPrefix(o, "unclaimed=") && o != "unclaimed=0" {
				unclaimed += n
			}
		}
		if i%997 == 0 {
			sample(r)
		}
	}
	c.Unclaimed(unclaimed)
	c.SetExtra("jobs", len(jobs))
	c.SetExtra("history_jobs", nHist)
	c.SetExtra("isolation_jobs", len(iso))
	c.Assume("scheduling points are the synchronisation operations (channel ops, select, go, mutex lock, context cancel); sound for data-race-free code")
	c.Assume("the downstream stub answers every REQ with EOSE and never closes a subscription itself (the quota counts client-side REQ/CLOSE only)")
	c.Assume("unclaimed: a repeated event id that has left the window of the last `window` distinct ids (the filter may pass or block it)")
}
