package main

import (
	"fmt"
	"sort"
	"strings"

	"verifkit/vk"
)

func init() { parts["engine-selfcheck"] = engineSelfcheck }

// engineSelfcheck guards the soundness of happens-before state caching: a set of small jobs is
// explored twice — with the cache and without it (plain stateless DFS over every schedule within
// the same bound) — and the sets of distinct outcomes and of failure signatures must coincide.
// A difference is an infrastructure error of the explorer, never a property violation.
func engineSelfcheck(c *vk.Ctx) {
	type cfg struct {
		h      string
		p      map[string]int
		bound  int
		delay  bool
		flat   bool
		budget float64
	}
	cfgs := []cfg{
		{"MergeOKCount", map[string]int{"n": 2, "v0": 1, "v1": 2, "script": 0}, 3, true, false, 120},
		{"MergeOKCount", map[string]int{"n": 2, "v0": 4, "v1": 5, "script": 2}, 2, true, false, 120},
		{"MergeOKCount", map[string]int{"n": 2, "v0": 0, "v1": 3, "script": 1}, 2, false, true, 120},
		{"MergeReq", map[string]int{"n": 2, "m0": 0, "m1": 0, "script": 0, "filt": 0}, 3, true, false, 120},
		{"MergeReq", map[string]int{"n": 2, "m0": 3, "m1": 0, "script": 0, "filt": 1}, 2, true, false, 120},
		{"RouterScenario", map[string]int{"sc": 0, "buflen": 1}, 2, true, false, 120},
		{"RouterScenario", map[string]int{"sc": 10, "buflen": 1}, 1, false, true, 120},
		{"CacheConcurrent", map[string]int{"cap": 2, "s0": 33, "s1": 102}, -1, false, false, 120},
		{"CacheConcurrent", map[string]int{"cap": 1, "s0": 67, "s1": 22, "s2": 6}, -1, false, false, 120},
		{"SessionEnd", map[string]int{"base": 2, "wrap": 0, "end": 0, "k": 1}, 1, true, false, 120},
	}
	if !c.Thorough() {
		cfgs = append(cfgs[:3], cfgs[5], cfgs[7], cfgs[8])
	}
	var jobs []Job
	for _, x := range cfgs {
		for _, nc := range []bool{false, true} {
			jobs = append(jobs, Job{Harness: x.h, Params: x.p, Bound: x.bound, Delay: x.delay, Flat: x.flat, NoCache: nc, BudgetS: x.budget})
		}
	}
	res := runJobsQuiet(c, jobs)
	byKey := map[string][2]*JobResult{}
	for i := range res {
		r := &res[i]
		k := r.Job.String()
		e := byKey[k]
		if r.Job.NoCache {
			e[1] = r
		} else {
			e[0] = r
		}
		byKey[k] = e
	}
	compared := 0
	for k, e := range byKey {
		if e[0] == nil || e[1] == nil {
			c.Infra("selfcheck: missing result for %s", k)
		}
		if e[1].Capped != "" || e[0].Capped != "" {
			c.Cap(fmt.Sprintf("selfcheck %s: uncached search hit its budget after %d executions (comparison skipped)", k, e[1].Executions))
			continue
		}
		set := func(r *JobResult) (o, f []string) {
			for x := range r.Outcomes {
				o = append(o, x)
			}
			for _, x := range r.Failures {
				f = append(f, x.Signature)
			}
			sort.Strings(o)
			sort.Strings(f)
			return
		}
		o0, f0 := set(e[0])
		o1, f1 := set(e[1])
		if strings.Join(o0, "\n") != strings.Join(o1, "\n") || strings.Join(f0, "\n") != strings.Join(f1, "\n") {
			c.Infra("state caching is unsound for %s: cached search saw %d outcomes / %d failures in %d executions, uncached %d / %d in %d", k, len(o0), len(f0), e[0].Executions, len(o1), len(f1), e[1].Executions)
		}
		compared++
		c.Sample(map[string]any{"job": k, "executions_cached": e[0].Executions, "executions_uncached": e[1].Executions, "outcomes": len(o0)})
		c.Distinct(k)
	}
	c.DistinctN(int64(compared)) // (Distinct above counts the same keys; keep the measured number explicit)
	c.P.Rule = "engine self-check: each job explored with happens-before state caching and again without any caching (plain stateless DFS within the same bound); outcome sets and failure signatures must be identical"
	c.SetExtra("jobs_compared", compared)
}
