package main

import (
	"verifkit/harness"
	"verifkit/vk"
)

func init() { parts["c16-replies"] = c16Replies }

func c16Replies(c *vk.Ctx) {
	if rp := c.Arg("replay", ""); rp != "" {
		replayPart(c, rp)
		return
	}
	var jobs []Job
	pow := func(b, e int) int {
		r := 1
		for ; e > 0; e-- {
			r *= b
		}
		return r
	}
	// cache handler: every sequence up to length Lc on the canonical schedule (one execution each) …
	Lc := vk.Pick(c, 3, 4)
	for L := 1; L <= Lc; L++ {
		for code := 0; code < pow(harness.C16Msgs, L); code++ {
			jobs = append(jobs, Job{Harness: "StorageSeq", Bound: 0, Delay: true, Params: map[string]int{"store": 0, "L": L, "code": code}})
		}
	}
	// … and every schedule (writer / session / reader) for all sequences of length 2, and of length 3 over a core
	for code := 0; code < pow(harness.C16Msgs, 2); code++ {
		jobs = append(jobs, Job{Harness: "StorageSeq", Bound: -1, BudgetS: 60, FallbackDelay: 3, Params: map[string]int{"store": 0, "L": 2, "code": code}})
	}
	core := []int{0, 2, 4, 6, 8, 10, 12, 13}
	for _, a := range core {
		for _, b := range core {
			for _, d := range core {
				jobs = append(jobs, Job{Harness: "StorageSeq", Bound: -1, BudgetS: 60, FallbackDelay: 3, Params: map[string]int{"store": 0, "L": 3, "code": a + harness.C16Msgs*b + harness.C16Msgs*harness.C16Msgs*d}})
			}
		}
	}
	// … and deeper histories of EVENTs only (an event may leave the store and become storable again: deletion
	// of its deletion request, replacement, eviction), ended by one REQ: canonical schedule, length <= 5/6
	evs := []int{0, 2, 3, 4, 5, 14}
	deep := vk.Pick(c, 5, 6)
	var gen func(prefix []int)
	gen = func(prefix []int) {
		if len(prefix) >= 4 { // shorter ones are covered above
			code, mul := 0, 1
			for _, d := range append(append([]int{}, prefix...), 6) {
				code += d * mul
				mul *= harness.C16Msgs
			}
			jobs = append(jobs, Job{Harness: "StorageSeq", Bound: 0, Delay: true, Params: map[string]int{"store": 0, "L": len(prefix) + 1, "code": code}})
		}
		if len(prefix) == deep {
			return
		}
		for _, d := range evs {
			gen(append(prefix, d))
		}
	}
	gen(nil)
	// (whether a deletion request deletes another deletion request in the SQLite store is not claimed
	// by C06; the message is left out of the SQLite sequences)
	usesDel2 := func(code, L int) bool {
		for i := 0; i < L; i++ {
			if code%harness.C16Msgs == 14 {
				return true
			}
			code /= harness.C16Msgs
		}
		return false
	}
	// sqlite handler: stepwise (the asynchronous insertion completes at every quiescence)
	Ls := vk.Pick(c, 2, 3)
	for L := 1; L <= Ls; L++ {
		for code := 0; code < pow(harness.C16Msgs, L); code++ {
			if usesDel2(code, L) {
				continue
			}
			jobs = append(jobs, Job{Harness: "StorageSeq", Bound: 0, Delay: true, Params: map[string]int{"store": 1, "L": L, "code": code, "step": 1}})
		}
	}
	// sqlite pipelined: replies in order, one per request, whatever the insertion goroutine does (every
	// schedule: the writer, the session, the reader and the bulk-insert goroutine with its 2-slot queue)
	for L := 2; L <= 3; L++ {
		for code := 0; code < pow(harness.C16Msgs, L); code++ {
			if usesDel2(code, L) {
				continue
			}
			jobs = append(jobs, Job{Harness: "StorageSeq", Bound: -1, BudgetS: 60, FallbackDelay: 3, Params: map[string]int{"store": 1, "L": L, "code": code}})
		}
	}
	if c.Thorough() {
		for _, a := range core {
			for _, b := range core {
				for _, d := range core {
					for _, e := range core {
						m := harness.C16Msgs
						jobs = append(jobs, Job{Harness: "StorageSeq", Bound: -1, BudgetS: 120, FallbackDelay: 3, Params: map[string]int{"store": 1, "L": 4, "code": a + m*b + m*m*d + m*m*m*e}})
					}
				}
			}
		}
	}
	c.P.Rule = "E1: every client message sequence up to length 3/4 over 15 messages (EVENT new / same again / newer version / older version / deletion request / deletion request for that request / ephemeral; REQ all / filtered / limit 1 / two filters of which one has limit 0 / with an undecodable id, for which the SQLite query fails; COUNT; CLOSE; AUTH) through the real CacheHandler.ServeNostr (canonical schedule; all schedules for every length-2 sequence and an 8-message core at length 3; every sequence of 4-5/6 EVENTs followed by one REQ on the canonical schedule) and up to length 2/3 through the real SQLite handler (in-memory database, stepwise with quiescence after each message; pipelined: every schedule of writer, session, reader and the bulk-insert goroutine behind its 2-slot queue, for all sequences of length 2 and 3, and of length 4 over the core in the thorough tier); oracle: the reply stream is the concatenation, in request order, of the per-request replies"
	res := runJobs(c, jobs)
	for i, r := range res {
		if i%700 == 0 {
			c.Sample(map[string]any{"job": r.Job.String(), "executions": r.Executions, "outcomes": r.Outcomes})
		}
	}
	c.SetExtra("jobs", len(jobs))
	c.Assume("cache: 'newly stored' and the stored matches are taken from the cache run sequentially on the same messages (the cache itself is decided against the specification by C03-C05)")
}
