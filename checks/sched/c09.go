package main

import (
	"fmt"

	"verifkit/harness"
	"verifkit/vk"
)

func init() { parts["c09-merge"] = c09Merge }

func c09Merge(c *vk.Ctx) {
	if rp := c.Arg("replay", ""); rp != "" {
		replayPart(c, rp)
		return
	}
	var jobs []Job
	bound := -1
	// n=2: every combination of verdicts (static accept / three kinds of rejection, reject-only-the-first, accept-only-the-first, accept with a text) x every script; counts vary with the COUNT scripts
	for v0 := 0; v0 < harness.C09VerdictModes; v0++ {
		for v1 := 0; v1 < harness.C09VerdictModes; v1++ {
			for s := 0; s < harness.C09Scripts; s++ {
				if s == 4 || s == 5 || s >= 7 {
					continue
				}
				jobs = append(jobs, Job{Harness: "MergeOKCount", Bound: bound, BudgetS: vk.Pick(c, 8.0, 300.0), FallbackDelay: vk.Pick(c, 4, 7), Params: map[string]int{"n": 2, "v0": v0, "v1": v1, "script": s}})
			}
		}
	}
	for k0 := 0; k0 < 3; k0++ {
		for k1 := 0; k1 < 3; k1++ {
			for _, s := range []int{4, 5, 6, 7, 8, 9} {
				jobs = append(jobs, Job{Harness: "MergeOKCount", Bound: bound, BudgetS: vk.Pick(c, 8.0, 300.0), FallbackDelay: vk.Pick(c, 4, 7), Params: map[string]int{"n": 2, "k0": k0, "k1": k1, "script": s, "v0": k0 % 2, "v1": 0}})
			}
		}
	}
	// n=3
	b3 := -1
	for _, vs := range [][3]int{{0, 0, 0}, {0, 1, 0}, {1, 2, 3}, {0, 0, 3}, {2, 0, 1}, {4, 5, 0}, {5, 0, 4}, {6, 1, 0}, {0, 6, 2}, {6, 6, 3}} {
		for _, s := range []int{0, 1, 2, 5, 6} {
			jobs = append(jobs, Job{Harness: "MergeOKCount", Bound: b3, BudgetS: vk.Pick(c, 8.0, 300.0), FallbackDelay: vk.Pick(c, 3, 6), Params: map[string]int{"n": 3, "v0": vs[0], "v1": vs[1], "v2": vs[2], "k0": 1, "k1": 2, "k2": 0, "script": s}})
		}
	}
	// n=3, COUNT: every order of three different counts (the maximum in every position)
	for _, ks := range [][3]int{{1, 2, 3}, {1, 3, 2}, {2, 1, 3}, {2, 3, 1}, {3, 1, 2}, {3, 2, 1}, {0, 3, 1}} {
		jobs = append(jobs, Job{Harness: "MergeOKCount", Bound: b3, BudgetS: vk.Pick(c, 8.0, 300.0), FallbackDelay: vk.Pick(c, 3, 6), Params: map[string]int{"n": 3, "k0": ks[0], "k1": ks[1], "k2": ks[2], "script": 4}})
	}
	// two sessions on ONE merge handler with the same event id / COUNT id in flight: per-request state is per session
	for v0 := 0; v0 < 4; v0++ {
		for v1 := 0; v1 < 4; v1++ {
			for s := 0; s < 3; s++ {
				jobs = append(jobs, Job{Harness: "MergeTwoSessions", Bound: bound, BudgetS: vk.Pick(c, 8.0, 300.0), FallbackDelay: vk.Pick(c, 3, 5), Params: map[string]int{"v0": v0, "v1": v1, "k0": v0 % 3, "k1": (v1 + 1) % 3, "script": s}})
			}
		}
	}
	c.P.Rule = "E1: every schedule (within the stated preemption bound; unbounded = all, up to happens-before state caching) of one merge session over n scripted children, for every verdict/count table and client script listed in the harness, and of two sessions on one merge handler submitting the same event / COUNT id (4x4 verdict tables x 3 scripts); a job = (children, verdict table, script); distinct_nontrivial = jobs, distinct_outcomes = distinct client-visible reply streams"
	res := runJobs(c, jobs)
	for i, r := range res {
		if i%37 == 0 {
			c.Sample(map[string]any{"job": r.Job.String(), "executions": r.Executions, "states": r.States, "outcomes": r.Outcomes})
		}
	}
	c.SetExtra("jobs", len(jobs))
	c.Assume("scheduling points are the synchronisation operations (channel ops, select, go, mutex lock, context cancel); sound for data-race-free code (races are sampled separately by the -race pass)")
	c.Assume(fmt.Sprintf("children answer every EVENT with exactly one OK and every COUNT with one COUNT (the property's premise)"))
}
