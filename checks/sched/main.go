// Command sched holds the sub-checks that run under engine E1 (vsched).
package main

import (
	"os"

	"verifkit/harness"
	"verifkit/vk"
	"verifkit/vsched"
)

var parts = map[string]func(*vk.Ctx){}

var harnesses = map[string]func(*vsched.H){
	"MergeOKCount":         harness.MergeOKCount,
	"MergeReq":             harness.MergeReq,
	"MergeReqTwoSessions":  harness.MergeReqTwoSessions,
	"RouterScenario":       harness.RouterScenario,
	"SessionEnd":           harness.SessionEnd,
	"StorageSeq":           harness.StorageSeq,
	"LimitCase":            harness.LimitCase,
	"QuotaHistory":         harness.QuotaHistory,
	"UniqueHistory":        harness.UniqueHistory,
	"StatefulIsolation":    harness.StatefulIsolation,
	"PromSessions":         harness.PromSessions,
	"LimitStack":           harness.LimitStack,
	"NIP11Chain":           harness.NIP11Chain,
	"CacheConcurrent":      harness.CacheConcurrent,
	"VerifyConcurrent":     harness.VerifyConcurrent,
	"MergeTwoSessions":     harness.MergeTwoSessions,
	"NIP11Concurrent":      harness.NIP11Concurrent,
	"QuotaOverFilters":     harness.QuotaOverFilters,
	"CacheHandlerSessions": harness.CacheHandlerSessions,
}

func main() {
	if len(os.Args) > 1 && os.Args[1] == "__worker" {
		workerMain()
		return
	}
	vk.RunPart(parts)
}
