package main

import (
	"verifkit/harness"
	"verifkit/vk"
)

func init() {
	parts["c15-cache"] = func(c *vk.Ctx) { c15Cache(c, false) }
	parts["c15-cache-stmt"] = func(c *vk.Ctx) { c15Cache(c, true) }
}

// C15Jobs is shared with the free-running race pass (checks/race).
func c15Scripts() (a, b [][]int) {
	h := harness.OpAddV1
	_ = h
	a = [][]int{
		{harness.OpAddV1, harness.OpAddV2}, {harness.OpAddV2, harness.OpAddV1}, {harness.OpAddR, harness.OpAddDelR}, {harness.OpAddDelR, harness.OpAddR},
		{harness.OpAddR, harness.OpAddQ}, {harness.OpAddQ, harness.OpAddV2}, {harness.OpAddV1}, {harness.OpAddDelR},
	}
	b = [][]int{
		{harness.OpFindAll, harness.OpFindAll}, {harness.OpFindKind0, harness.OpFindAll}, {harness.OpFindAll, harness.OpLen}, {harness.OpFindPLimit1, harness.OpFindAll},
		{harness.OpAddV2, harness.OpFindAll}, {harness.OpAddDelR, harness.OpFindAll}, {harness.OpAddQ, harness.OpFindKind0}, {harness.OpAddR, harness.OpAddDelR}, {harness.OpFindSince2, harness.OpFindAll}, {harness.OpFindMulti, harness.OpFindMulti}, {harness.OpFindMulti},
	}
	return
}

func c15Cache(c *vk.Ctx, stmt bool) {
	if rp := c.Arg("replay", ""); rp != "" {
		replayPart(c, rp)
		return
	}
	a, b := c15Scripts()
	pres := [][]int{{}, {harness.OpAddV1, harness.OpAddR}}
	var jobs []Job
	mk := func(params map[string]int) Job {
		if stmt {
			// statement-point mode: every statement of event_cache.go / data_structure.go is a scheduling point
			return Job{Harness: "CacheConcurrent", Bound: vk.Pick(c, 1, 3), Delay: false, BudgetS: vk.Pick(c, 20.0, 300.0), Params: params}
		}
		return Job{Harness: "CacheConcurrent", Bound: -1, BudgetS: vk.Pick(c, 20.0, 300.0), FallbackDelay: 4, Params: params}
	}
	for _, pre := range pres {
		for _, sa := range a {
			for _, sb := range b {
				jobs = append(jobs, mk(map[string]int{"cap": 2, "pre": harness.EncodeScript(pre...), "s0": harness.EncodeScript(sa...), "s1": harness.EncodeScript(sb...)}))
			}
		}
	}
	// two readers on a populated cache (queries through the index with different conditions, the scan
	// path, several filters): readers share the lock, so whatever they share besides must be read-only
	readers := [][]int{{harness.OpFindKind0}, {harness.OpFindPLimit1}, {harness.OpFindMulti}, {harness.OpFindSince2}, {harness.OpFindKind0, harness.OpFindPLimit1}, {harness.OpFindAll, harness.OpFindKind0}}
	full := []int{harness.OpAddV1, harness.OpAddR, harness.OpAddQ}
	for i, ra := range readers {
		for j, rb := range readers {
			if j < i {
				continue
			}
			jobs = append(jobs, mk(map[string]int{"cap": 3, "pre": harness.EncodeScript(full...), "s0": harness.EncodeScript(ra...), "s1": harness.EncodeScript(rb...)}))
		}
	}
	// three tasks (statement-point mode: thorough tier only — they need a larger budget)
	for i, sa := range a {
		if stmt && !c.Thorough() {
			break
		}
		sb := b[i%len(b)]
		sc := a[(i+3)%len(a)]
		jobs = append(jobs, mk(map[string]int{"cap": 2, "s0": harness.EncodeScript(sa...), "s1": harness.EncodeScript(sb...), "s2": harness.EncodeScript(sc...)}))
		jobs = append(jobs, mk(map[string]int{"cap": 1, "s0": harness.EncodeScript(sa...), "s1": harness.EncodeScript(sb...), "s2": harness.EncodeScript(b[(i+5)%len(b)]...)}))
	}
	if !stmt {
		// two CacheHandler sessions on one cache
		for a0 := 0; a0 < 5; a0++ {
			for b0 := 0; b0 < 5; b0++ {
				for _, q := range [][2]int{{5, 5}, {6, 5}} {
					jobs = append(jobs, Job{Harness: "CacheHandlerSessions", Bound: -1, BudgetS: vk.Pick(c, 20.0, 300.0), FallbackDelay: 3, Params: map[string]int{"cap": 2, "a0": a0, "a1": q[0], "b0": b0, "b1": q[1]}})
				}
			}
		}
	}
	mode := "lock granularity (scheduling points at lock operations): all schedules"
	if stmt {
		mode = "statement-point mode (every statement of event_cache.go and data_structure.go is a scheduling point touching one pseudo-object, so a changed lock scope becomes a real atomicity violation): all schedules up to the preemption bound"
	}
	c.P.Rule = "E1: 2-3 tasks x 1-2 operations (Add of related events: two versions of one address, an event and a deletion request for it, an evicting insertion; Find through the scan and the index path; Len) on ONE shared EventCache (capacity 1-2), starting from an empty and from a populated cache, and pairs of readers on a populated cache; the state left behind is queried once more at the end and is part of the history; " + mode + "; oracle: brute-force linearizability against the cache itself run sequentially (every total order consistent with the call/return stamps), plus per-result invariants; and two CacheHandler sessions on one cache"
	res := runJobs(c, jobs)
	for i, r := range res {
		if i%50 == 0 {
			c.Sample(map[string]any{"job": r.Job.String(), "s0": harness.DecodeScript(r.Job.Params["s0"]), "s1": harness.DecodeScript(r.Job.Params["s1"]), "executions": r.Executions, "outcomes": len(r.Outcomes)})
		}
	}
	c.SetExtra("jobs", len(jobs))
	c.Assume("sequentially consistent interleavings at the scheduling points; unsynchronised accesses are looked for separately by the free-running -race pass (sampling)")
}
