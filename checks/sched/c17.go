package main

import (
	"fmt"
	"math/bits"

	"verifkit/harness"
	"verifkit/vk"
)

func init() { parts["c17-limits"] = c17Limits }

// c17Jobs enumerates: (c) every NIP-11 document (2^7 subsets of the limits, a nil document, a
// document without a limitation block), (b) every ordered pair of different middlewares, (a) every
// middleware x limit x probe kind x probe size (thorough: every pair of probes in one session).
// The longest jobs come first.
func c17Jobs(c *vk.Ctx) (jobs []Job, nCase, nStack, nDoc, nUnclaimed, nOffenders int) {
	// ---- NIP-11: chains of depth <= 1 are explored completely; deeper chains (14 messages through
	// up to 7 stacked middlewares = 18 tasks) complete up to a delay bound
	nip := func(doc, mask int) {
		depth := bits.OnesCount(uint(mask))
		j := Job{Harness: "NIP11Chain", Params: map[string]int{"doc": doc, "mask": mask}}
		switch {
		case depth <= 1:
			j.Bound, j.BudgetS, j.FallbackDelay = -1, vk.Pick(c, 60.0, 600.0), 3
		case depth <= 3:
			j.Bound, j.Delay = vk.Pick(c, 2, 4), true
		case depth <= 5:
			j.Bound, j.Delay = vk.Pick(c, 2, 3), true
		default:
			j.Bound, j.Delay = vk.Pick(c, 1, 3), true
		}
		jobs = append(jobs, j)
		nDoc++
		if doc == harness.C17DocMask && mask&1 != 0 && mask&6 != 0 {
			// max_subscriptions together with max_filters / max_limit: the refusals-first script
			j2 := j
			j2.Params = map[string]int{"doc": doc, "mask": mask, "script": 1}
			jobs = append(jobs, j2)
			nDoc++
		}
	}
	for depth := len(harness.C17NIP11Fields); depth >= 0; depth-- {
		for mask := 0; mask < 1<<len(harness.C17NIP11Fields); mask++ {
			if bits.OnesCount(uint(mask)) == depth {
				nip(harness.C17DocMask, mask)
			}
		}
	}
	nip(harness.C17DocNil, 0)
	nip(harness.C17DocNoLimitation, 0)
	// the chain is one value serving every connection: two sessions (concurrent, and one after the
	// other has ended) must each get their own subscription quota
	for v := 0; v < harness.C18IsolationVariants; v++ {
		for seq := 0; seq < 2; seq++ {
			jobs = append(jobs, Job{Harness: "StatefulIsolation", Bound: -1, BudgetS: vk.Pick(c, 60.0, 600.0), FallbackDelay: 3, Params: map[string]int{"mw": 3, "variant": v, "seq": seq}})
			nDoc++
		}
	}
	// ---- stacks
	for a := 0; a < harness.C17Middlewares; a++ {
		for b := 0; b < harness.C17Middlewares; b++ {
			if a == b {
				continue
			}
			jobs = append(jobs, Job{Harness: "LimitStack", Bound: -1, BudgetS: vk.Pick(c, 60.0, 600.0), FallbackDelay: vk.Pick(c, 3, 5),
				Params: map[string]int{"outer": a, "inner": b}})
			nStack++
		}
	}
	// ---- single middlewares
	lims := vk.Pick(c, []int{1, 2, 3}, []int{1, 2, 3, 4})
	type probe struct{ kind, size int }
	for mw := 0; mw < harness.C17Middlewares; mw++ {
		for _, l := range lims {
			if !harness.C17HasLimit(mw) && l != lims[0] {
				continue // the allow/deny filters have no numeric limit
			}
			var probes []probe
			for kind := 0; kind < harness.C17Kinds; kind++ {
				for size := 0; size < harness.C17ProbeSizes(mw, l, kind); size++ {
					probes = append(probes, probe{kind, size})
				}
			}
			for _, p := range probes {
				jobs = append(jobs, Job{Harness: "LimitCase", Bound: -1, BudgetS: vk.Pick(c, 60.0, 600.0), FallbackDelay: 3,
					Params: map[string]int{"mw": mw, "lim": l, "kind": p.kind, "size": p.size}})
				nCase++
				if harness.C17ProbeUnclaimed(mw, l, p.kind, p.size) {
					nUnclaimed++
				}
				if harness.C17ProbeOffends(mw, l, p.kind, p.size) {
					nOffenders++
				}
				if !c.Thorough() {
					continue
				}
				for _, q := range probes { // two probes in one session: [CLOSE z, P, Q, REQ e]
					jobs = append(jobs, Job{Harness: "LimitCase", Bound: -1, BudgetS: 600, FallbackDelay: 3,
						Params: map[string]int{"mw": mw, "lim": l, "kind": p.kind, "size": p.size, "kind2": q.kind, "size2": q.size}})
					nCase++
					if harness.C17ProbeUnclaimed(mw, l, p.kind, p.size) || harness.C17ProbeUnclaimed(mw, l, q.kind, q.size) {
						nUnclaimed++
					}
				}
			}
		}
	}
	return
}

func c17Limits(c *vk.Ctx) {
	if rp := c.Arg("replay", ""); rp != "" {
		replayPart(c, rp)
		return
	}
	jobs, nCase, nStack, nDoc, nUnclaimed, nOff := c17Jobs(c)
	c.P.Rule = "E1, real NewSimpleMiddleware plumbing around a recording stub, every schedule of one client session per job. " +
		"Schedules: LimitCase, LimitStack and NIP-11 chains of depth <= 1: all (complete up to happens-before state caching); deeper NIP-11 chains: complete up to the delay bound in the job name. (a) LimitCase: each of the 10 limit middlewares (MaxReqFilters, MaxLimit, MaxSubIDLength, MaxEventTags, MaxContentLength, CreatedAtLowerLimit, CreatedAtUpperLimit, EventCreatedAt(-L,+L), RecvEventAllowFilter, RecvEventDenyFilter) x limit L x probe type (REQ, COUNT, EVENT, CLOSE, AUTH) x every probe size 0..L+2 in the limited dimension (number of filters; per-filter limit absent / 0..L+2 / several filters where only the first, only the second or none offends; sub-id bytes; tags; content bytes; created_at offset -(L+2)..+(L+2) s around the virtual now; matcher matches or not) and three shapes for the types the middleware does not limit; script [CLOSE z, PROBE, REQ e], the stub emits all seven server message types on REQ e. " +
		"(b) LimitStack: every ordered pair of different middlewares on a 7-message script (offender and boundary-conforming message of each, one offending both or an AUTH, bystanders). " +
		"(thorough tier: L up to 4 and every ordered pair of probes in one session [CLOSE z, P, Q, REQ e].) " +
		"(c) NIP11Chain: BuildMiddlewareFromNIP11 for every subset of the seven limits (value 2, created_at 100 s), a nil document and a document without a limitation block, on an 18-message session (and, where max_subscriptions meets max_filters or max_limit, a second 12-message session in which REQs refused by those limits come first and must not take subscription slots) (quota crossing, CLOSE frees, re-REQ of an open id, 3 filters, limit 3, COUNT with 3 filters, 3 tags, content 3, +-1000 s, boundary-conforming ones) against a stub that replies to every message; plus two sessions (concurrent / one after the other) through ONE chain with max_subscriptions 1: each gets its own quota. " +
		"Oracle at quiescence: downstream saw, pointer-identical, deep-equal to a reference copy and in order, exactly the messages that respect every configured limit; each offender got exactly one rejection of its type (OK false <event id> / CLOSED <sub id>) and nothing else did; the client saw every downstream server message pointer-identical and in order. " +
		"distinct_nontrivial = jobs (distinct (configuration, message) cases by construction); distinct_outcomes = distinct per-message fates"
	res := runJobs(c, jobs)
	var maxStates int64
	var maxWall float64
	perHarness := map[string]int{}
	for _, r := range res {
		perHarness[r.Job.Harness]++
	}
	seen := map[string]int{}
	samples := map[string][]map[string]any{}
	for _, r := range res {
		k, n := seen[r.Job.Harness], perHarness[r.Job.Harness]
		seen[r.Job.Harness]++
		if k == n/3 || k == n-1 { // two jobs of every harness
			samples[r.Job.Harness] = append(samples[r.Job.Harness], map[string]any{"job": r.Job.String(), "executions": r.Executions, "states": r.States, "outcomes": r.Outcomes})
		}
		if r.States > maxStates {
			maxStates = r.States
		}
		if r.WallS > maxWall {
			maxWall = r.WallS
		}
	}
	for _, hn := range []string{"NIP11Chain", "LimitStack", "LimitCase"} {
		for _, sm := range samples[hn] {
			c.Sample(sm)
		}
	}
	c.Unclaimed(int64(nUnclaimed))
	c.SetExtra("jobs", len(jobs))
	c.SetExtra("jobs_limit_case", nCase)
	c.SetExtra("jobs_limit_case_claimed_offenders", nOff)
	c.SetExtra("jobs_limit_case_unclaimed_zone", nUnclaimed)
	c.SetExtra("jobs_stack_pairs", nStack)
	c.SetExtra("jobs_nip11_documents", nDoc)
	c.SetExtra("max_states_in_one_job", maxStates)
	c.SetExtra("max_job_wall_s", maxWall)
	c.Assume("scheduling points are the synchronisation operations (channel ops, select, go, mutex lock, context cancel); sound for data-race-free code")
	c.Assume("time.Now/Since/Until inside the instrumented repository files is a virtual clock fixed at Unix 1700000000, so created_at offsets are exact")
	c.Assume(fmt.Sprintf("created_at windows: only offsets at least %d s away from the boundary are claimed (as the statement asks for a safety margin around the moving boundary); offsets within +-1 s are observed and only required to be either cleanly forwarded or cleanly rejected", harness.C17Margin))
	c.Assume("a CLOSE whose subscription id exceeds MaxSubIDLength is unclaimed (the protocol has no rejection for CLOSE)")
	c.Assume(fmt.Sprintf("LimitStack uses limit 1 for the size limits and a %d s window for the created_at middlewares (with a 1 s window no timestamp is inside the claimed zone of both bounds)", harness.C17StackWindow))
	c.Assume("max_subscriptions is judged by its quota semantics only (forwarded iff the id is already open or fewer than N are open, CLOSE frees); REQs rejected by another limit of the chain do not take a slot because the quota middleware is innermost")
}
