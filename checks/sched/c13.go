package main

import (
	"verifkit/harness"
	"verifkit/vk"
)

func init() { parts["c13-handlers"] = c13Handlers }

func c13Handlers(c *vk.Ctx) {
	if rp := c.Arg("replay", ""); rp != "" {
		replayPart(c, rp)
		return
	}
	var jobs []Job
	add := func(base, wrap, end, k, bound int, flat bool, budget float64) {
		jobs = append(jobs, Job{Harness: "SessionEnd", Bound: bound, Delay: !flat, Flat: flat, BudgetS: budget, Params: map[string]int{"base": base, "wrap": wrap, "end": end, "k": k}})
	}
	small := map[int]bool{0: true, 1: true, 2: true}
	for base := range harness.C13BaseNames {
		for wrap := 0; wrap <= 5; wrap++ {
			for end := 0; end < 3; end++ {
				if base == harness.C13BaseStoppedStore && end == 2 {
					// a session blocked on a store that takes nothing any more does not read its inbound
					// channel: closing it cannot end the session (only the cancel clause applies here)
					continue
				}
				switch {
				case small[base] && wrap == 0:
					// the bare handlers are small enough for three deviations (a seeded change needed exactly
					// three free switches among the goroutines of one router session)
					add(base, wrap, end, 1, vk.Pick(c, 3, 4), true, vk.Pick(c, 120.0, 400.0))
				case small[base] && wrap <= 2:
					// deviation bound: any non-default choice costs one (the order in which the goroutines
					// of a session notice the cancellation is decided by such choices)
					add(base, wrap, end, 1, vk.Pick(c, 1, 2), true, vk.Pick(c, 200.0, 400.0))
				case small[base] && wrap == 4:
					add(base, wrap, end, 1, vk.Pick(c, 1, 2), true, vk.Pick(c, 60.0, 300.0))
				case small[base]: // deep middleware stacks: many goroutines per session
					add(base, wrap, end, 1, vk.Pick(c, 0, 1), true, vk.Pick(c, 60.0, 300.0))
				default:
					add(base, wrap, end, 1, vk.Pick(c, 0, 1), false, vk.Pick(c, 60.0, 300.0)) // every cut point (+ delays)
					if c.Thorough() {
						add(base, wrap, end, 1, 1, true, 300.0)
					}
				}
			}
		}
	}
	// every provided middleware singly over the router
	for wrap := 6; wrap < harness.C13FirstRefusingWrap; wrap++ {
		for end := 0; end < 3; end++ {
			add(2, wrap, end, 1, vk.Pick(c, 1, 2), true, vk.Pick(c, 120.0, 300.0))
		}
	}
	// wrappers that refuse part of the history: the rejection is produced by the middleware itself and
	// must not outlive the session either, whichever reply the stalled peer stops before
	for wrap := harness.C13FirstRefusingWrap; wrap < len(harness.C13WrapNames); wrap++ {
		for _, base := range []int{0, 2} {
			add(base, wrap, 0, 1, vk.Pick(c, 1, 2), true, vk.Pick(c, 60.0, 300.0))
			add(base, wrap, 2, 1, vk.Pick(c, 1, 2), true, vk.Pick(c, 60.0, 300.0))
			for k := 0; k <= 3; k++ {
				add(base, wrap, 1, k, vk.Pick(c, 1, 2), true, vk.Pick(c, 60.0, 300.0))
			}
		}
	}
	// stalled peer after 0 and 2 reads
	for _, base := range []int{2, 3, 4} {
		for _, k := range []int{0, 2} {
			add(base, 0, 1, k, vk.Pick(c, 1, 2), true, vk.Pick(c, 60.0, 300.0))
			add(base, 4, 1, k, vk.Pick(c, 0, 1), true, vk.Pick(c, 60.0, 300.0))
		}
	}
	c.P.Rule = "E1: real handler compositions (10 bases: Default, Cache, Router, merges of them, SQLite in memory, the composition of cmd/mocrelay, SQLite whose bulk-insert goroutine has stopped so that its 2-slot queue fills up, a merge with two default handlers so that every REQ is answered by two CLOSED) x wrappers (none, MaxSubscriptions, unique filters, NIP-11 chain, Prometheus, a 3-deep stack; every provided middleware singly over the router; four wrappers configured to REFUSE the EVENT, the REQs/COUNT or everything, so that the middleware's own rejection is the reply in flight, with the peer stalling after 0-3 reads) serving the client history [REQ, EVENT, COUNT, CLOSE, REQ] while a second connection publishes; the session is ended by an environment task that is enabled from the start and whose step costs nothing wherever it is taken (every cut point of every explored schedule is reached), by cancel with a draining or stalled peer, or by closing the inbound channel; schedules: complete up to the stated deviation bound (any non-default scheduling choice counts one) or delay bound per job; oracle at quiescence: ServeNostr returned, no task spawned under the session alive, router registry and Prometheus gauges back to their previous values"
	res := runJobs(c, jobs)
	for i, r := range res {
		if i%40 == 0 {
			c.Sample(map[string]any{"job": r.Job.String(), "composition": harness.C13BaseNames[r.Job.Params["base"]] + " / " + harness.C13WrapNames[r.Job.Params["wrap"]], "executions": r.Executions, "states": r.States})
		}
	}
	c.SetExtra("jobs", len(jobs))
	c.Assume("scheduling points are the synchronisation operations of the instrumented repository files; goroutines inside database/sql, go-sqlite3, slog and the Prometheus client are not scheduled (they do not communicate with session goroutines through channels)")
	c.Assume("'goroutines the session started' = tasks spawned transitively by the task that calls ServeNostr; the SQLite bulk-insert goroutine belongs to the constructor")
}
