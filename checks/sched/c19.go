package main

import (
	"strings"

	"verifkit/harness"
	"verifkit/vk"
)

func init() { parts["c19-prom"] = c19Prom }

func c19Prom(c *vk.Ctx) {
	if rp := c.Arg("replay", ""); rp != "" {
		replayPart(c, rp)
		return
	}
	var jobs []Job
	maxLen := c.ArgInt("max_len", vk.Pick(c, 3, 4))
	two := func(pair, end, bound int, budget float64) Job {
		return Job{Harness: "PromSessions", Bound: bound, Delay: true, BudgetS: budget, Params: map[string]int{"mode": 2, "pair": pair, "end": end}}
	}
	// (2a) the serving phase alone (no teardown): the smallest pairs on ALL schedules (thorough), every pair
	// within a generous delay bound
	if c.Thorough() {
		for _, pair := range []int{8, 9} {
			jobs = append(jobs, Job{Harness: "PromSessions", Bound: -1, BudgetS: 1200, FallbackDelay: 8, Params: map[string]int{"mode": 2, "pair": pair, "end": 3}})
		}
	}
	for pair := 0; pair < harness.C19Pairs; pair++ {
		jobs = append(jobs, two(pair, 3, c.ArgInt("delays_serve", vk.Pick(c, 5, 7)), vk.Pick(c, 60.0, 1200.0)))
	}
	// (2b) two concurrent sessions, session A ends with subscriptions open: delay-bounded (the teardown is part of the scenario)
	dCut := c.ArgInt("delays_cut", vk.Pick(c, 2, 4))
	dEnd := c.ArgInt("delays_end", vk.Pick(c, 3, 5))
	budget := vk.Pick(c, 60.0, 1200.0)
	for pair := 0; pair < harness.C19Pairs; pair++ {
		jobs = append(jobs, two(pair, 0, dCut, budget))
	}
	for pair := 0; pair < harness.C19Pairs; pair++ {
		jobs = append(jobs, two(pair, 1, dEnd, budget), two(pair, 2, dEnd, budget))
	}
	// (2c) the same pairs one after the other: session B starts when session A has ended (in both orders)
	for pair := 0; pair < harness.C19Pairs; pair++ {
		jobs = append(jobs, Job{Harness: "PromSessions", Bound: -1, BudgetS: vk.Pick(c, 60.0, 600.0), FallbackDelay: 4, Params: map[string]int{"mode": 2, "pair": pair, "end": 4}})
	}
	n2 := len(jobs)
	// (1) all single-session histories: ALL schedules incl. the teardown by cancel; inbound close and the
	// cancel at every cut point within a delay bound
	for L := maxLen; L >= 1; L-- {
		for code := 0; code < pow(harness.C19Symbols, L); code++ {
			jobs = append(jobs, Job{Harness: "PromSessions", Bound: -1, BudgetS: vk.Pick(c, 30.0, 300.0), FallbackDelay: 3, Params: map[string]int{"mode": 1, "len": L, "code": code, "end": 1}})
			jobs = append(jobs, Job{Harness: "PromSessions", Bound: vk.Pick(c, 1, 2), Delay: true, Params: map[string]int{"mode": 1, "len": L, "code": code, "end": 2}})
			if L < maxLen {
				jobs = append(jobs, Job{Harness: "PromSessions", Bound: vk.Pick(c, 2, 3), Delay: true, Params: map[string]int{"mode": 1, "len": L, "code": code, "end": 0}})
			}
		}
	}
	c.P.Rule = "E1: one Prometheus registry + NewPrometheusMiddleware per execution around a scripted downstream (REQ x* -> CLOSED, REQ live -> EOSE + EVENT, other REQ -> EOSE, EVENT -> OK, COUNT -> COUNT). (1) ALL single-session client histories up to the stated length over {" + strings.Join(harness.C19SymbolNames, ", ") + "}: on ALL schedules (unbounded, state caching) incl. the teardown by cancel after the history was served; with inbound close, and (all but the longest histories) with a canceller enabled from the start (every cut point), within a delay bound. (2) 10 pairs of concurrent sessions over one middleware value x 3 endings of session A while it has subscriptions open (environment task cancels at every cut point; cancel after the scripts; inbound close), all schedules within the stated delay bound; the serving phase alone (no teardown) within a larger delay bound and, thorough tier, the two smallest pairs on ALL schedules; and the same pairs with the sessions run one after the other (B starts when A, possibly with subscriptions open, has ended). Oracle at every quiescence (scripts served / A ended / all ended), registry read with Gather(): both message streams unaltered and in order (complete for live sessions, an in-order subsequence for ended ones); connection gauge = sessions whose ServeNostr has not returned; subscription gauge = a sum of per-session values each explained by some interleaving of that session's REQ/CLOSE sequence with the downstream's CLOSED messages (ended sessions contribute 0); recv/send counters per type and the per-kind event counter = messages taken by the middleware"
	res := runJobs(c, jobs)
	var unclaimed int64
	sample := func(r JobResult) {
		c.Sample(map[string]any{"job": r.Job.String(), "executions": r.Executions, "states": r.States, "outcomes": r.Outcomes, "wall_s": r.WallS})
	}
	for _, r := range res { // the two-session jobs first (the sample list is capped)
		if r.Job.Params["mode"] == 2 && r.Job.Params["pair"]%4 == 1 {
			sample(r)
		}
	}
	for i, r := range res {
		for o, n := range r.Outcomes {
			if strings.HasPrefix(o, "unclaimed") {
				unclaimed += n
			}
		}
		if i%701 == 0 {
			sample(r)
		}
	}
	c.Unclaimed(unclaimed)
	c.SetExtra("jobs", len(jobs))
	c.SetExtra("two_session_jobs", n2)
	c.Assume("scheduling points are the synchronisation operations of handler.go and middleware/prometheus/prometheus.go; the Prometheus client library is not scheduled (it is read only at quiescence)")
	c.Assume("unclaimed: a message the middleware took from a session that ended before the message was passed on may or may not be counted")
}
