package main

import (
	"bufio"
	"encoding/json"
	"fmt"
	"os"
	"os/exec"
	"runtime"
	"sort"
	"strings"
	"sync"
	"time"

	"verifkit/vk"
	"verifkit/vsched"
)

// Job is one (harness, parameters, bound) exploration; jobs are independent and are spread over
// worker processes (one scheduler per process, GOMAXPROCS=1 each).
type Job struct {
	Harness       string         `json:"harness"`
	Params        map[string]int `json:"params"`
	Bound         int            `json:"bound"`
	MaxExecs      int64          `json:"max_execs,omitempty"`
	BudgetS       float64        `json:"budget_s,omitempty"`
	Shard         int            `json:"shard,omitempty"`
	NShards       int            `json:"nshards,omitempty"`
	NoCache       bool           `json:"nocache,omitempty"`
	Delay         bool           `json:"delay,omitempty"`          // bound counts delays instead of preemptions
	Flat          bool           `json:"flat,omitempty"`           // bound counts deviations: any non-default choice costs one
	FallbackDelay int            `json:"fallback_delay,omitempty"` // if the unbounded search hits its budget: complete a delay-bounded search with this bound instead (0 = none)
	Choices       []int          `json:"choices,omitempty"`        // replay only
}

type JobResult struct {
	Job         Job              `json:"job"`
	Executions  int64            `json:"executions"`
	Complete    int64            `json:"complete"`
	Transitions int64            `json:"transitions"`
	States      int64            `json:"states"`
	Pruned      int64            `json:"pruned"`
	MaxPoints   int              `json:"max_points"`
	MaxTasks    int              `json:"max_tasks"`
	Outcomes    map[string]int64 `json:"outcomes"`
	Failures    []vsched.Found   `json:"failures"`
	Capped      string           `json:"capped,omitempty"`
	Diverged    string           `json:"diverged,omitempty"`
	HorizonHits int64            `json:"horizon_hits,omitempty"`
	WallS       float64          `json:"wall_s"`
}

func (j Job) String() string {
	ks := make([]string, 0, len(j.Params))
	for k := range j.Params {
		ks = append(ks, k)
	}
	sort.Strings(ks)
	var sb strings.Builder
	sb.WriteString(j.Harness)
	for _, k := range ks {
		fmt.Fprintf(&sb, " %s=%d", k, j.Params[k])
	}
	if j.Bound < 0 {
		sb.WriteString(" bound=unbounded")
	} else if j.Flat {
		fmt.Fprintf(&sb, " deviations<=%d", j.Bound)
	} else if j.Delay {
		fmt.Fprintf(&sb, " delays<=%d", j.Bound)
	} else {
		fmt.Fprintf(&sb, " preemptions<=%d", j.Bound)
	}
	return sb.String()
}

func runJob(j Job) JobResult {
	h, ok := harnesses[j.Harness]
	if !ok {
		fmt.Fprintf(os.Stderr, "INFRA: unknown harness %q\n", j.Harness)
		os.Exit(2)
	}
	cfg := vsched.Config{Bound: j.Bound, Params: j.Params, MaxExecs: j.MaxExecs, Shard: j.Shard, NShards: j.NShards, NoCache: j.NoCache, Delay: j.Delay, Flat: j.Flat}
	if j.BudgetS > 0 {
		cfg.Deadline = time.Now().Add(time.Duration(j.BudgetS * float64(time.Second)))
	}
	start := time.Now()
	r := vsched.Explore(cfg, h)
	if r.Capped != "" && j.FallbackDelay > 0 && len(r.Failures) == 0 {
		// the unbounded search did not finish in its budget: complete a delay-bounded one and report that bound
		j.Bound, j.Delay = j.FallbackDelay, true
		cfg.Bound, cfg.Delay, cfg.Deadline = j.FallbackDelay, true, time.Time{}
		r2 := vsched.Explore(cfg, h)
		r2.Executions += r.Executions
		r2.Transitions += r.Transitions
		for o, n := range r.Outcomes {
			r2.Outcomes[o] += n
		}
		r = r2
	}
	return JobResult{Job: j, Executions: r.Executions, Complete: r.Complete, Transitions: r.Transitions, States: r.States, Pruned: r.Pruned,
		MaxPoints: r.MaxPoints, MaxTasks: r.MaxTasks, Outcomes: r.Outcomes, Failures: r.Failures, Capped: r.Capped, Diverged: r.Diverged,
		HorizonHits: r.HorizonHits, WallS: time.Since(start).Seconds()}
}

// workerMain: read jobs (JSON lines) from stdin, write results (JSON lines) to stdout.
func workerMain() {
	runtime.GOMAXPROCS(1)
	in := bufio.NewReaderSize(os.Stdin, 1<<20)
	out := bufio.NewWriter(os.Stdout)
	for {
		line, err := in.ReadBytes('\n')
		if len(line) > 0 {
			var j Job
			if jerr := json.Unmarshal(line, &j); jerr != nil {
				fmt.Fprintf(os.Stderr, "INFRA: bad job: %v\n", jerr)
				os.Exit(2)
			}
			r := runJob(j)
			b, _ := json.Marshal(&r)
			out.Write(b)
			out.WriteByte('\n')
			out.Flush()
		}
		if err != nil {
			return
		}
	}
}

// runJobs spreads jobs over worker processes and folds the results into the part report.
// Violation signatures are prefixed with the property they belong to (e.g. "C09/..."); a
// signature's property prefix decides which property it is reported under.
func runJobs(c *vk.Ctx, jobs []Job) []JobResult {
	nw := runtime.NumCPU()
	if v := c.ArgInt("workers", 0); v > 0 {
		nw = v
	}
	if nw > len(jobs) {
		nw = len(jobs)
	}
	jobCh := make(chan Job)
	resCh := make(chan JobResult, len(jobs))
	var wg sync.WaitGroup
	var failMu sync.Mutex
	infra := ""
	for w := 0; w < nw; w++ {
		wg.Add(1)
		go func() {
			defer wg.Done()
			cmd := exec.Command(os.Args[0], "__worker")
			cmd.Stderr = os.Stderr
			stdin, _ := cmd.StdinPipe()
			stdout, _ := cmd.StdoutPipe()
			if err := cmd.Start(); err != nil {
				failMu.Lock()
				infra = err.Error()
				failMu.Unlock()
				for range jobCh {
				}
				return
			}
			rd := bufio.NewReaderSize(stdout, 1<<20)
			for j := range jobCh {
				b, _ := json.Marshal(&j)
				stdin.Write(append(b, '\n'))
				line, err := rd.ReadBytes('\n')
				if err != nil {
					failMu.Lock()
					infra = fmt.Sprintf("worker died on job %s: %v", j, err)
					failMu.Unlock()
					for range jobCh {
					}
					break
				}
				var r JobResult
				if err := json.Unmarshal(line, &r); err != nil {
					failMu.Lock()
					infra = fmt.Sprintf("bad worker result: %v", err)
					failMu.Unlock()
					continue
				}
				resCh <- r
			}
			stdin.Close()
			cmd.Wait()
		}()
	}
	// longest jobs first would be better; the caller orders them
	for _, j := range jobs {
		jobCh <- j
	}
	close(jobCh)
	wg.Wait()
	close(resCh)
	if infra != "" {
		c.Infra("%s", infra)
	}
	var results []JobResult
	for r := range resCh {
		results = append(results, r)
	}
	sort.Slice(results, func(i, k int) bool { return results[i].Job.String() < results[k].Job.String() })
	minBound := 1 << 30
	unbounded := true
	nBounded := 0
	anyDelay, anyPre := false, false
	for _, r := range results {
		c.P.TracesValidated += r.Executions
		c.P.Transitions += r.Transitions
		c.P.States += r.States
		c.Eval(r.Executions)
		if r.Diverged != "" {
			c.Infra("nondeterminism in %s: %s", r.Job, r.Diverged)
		}
		if r.Capped != "" {
			c.Cap(fmt.Sprintf("%s: %s after %d executions", r.Job, r.Capped, r.Executions))
		}
		if r.HorizonHits > 0 {
			c.Cap(fmt.Sprintf("%s: step horizon hit in %d executions", r.Job, r.HorizonHits))
		}
		if r.Job.Bound >= 0 {
			unbounded = false
			nBounded++
			if r.Job.Bound < minBound {
				minBound = r.Job.Bound
			}
			if r.Job.Delay || r.Job.Flat {
				anyDelay = true
			} else {
				anyPre = true
			}
		}
		for o := range r.Outcomes {
			c.Outcome(r.Job.Harness + "|" + o)
		}
		c.Distinct(r.Job.String())
		for _, f := range r.Failures {
			prop := c.Prop
			if i := strings.IndexByte(f.Signature, '/'); i > 0 && i <= 4 && f.Signature[0] == 'C' {
				prop = f.Signature[:i]
			}
			detail := fmt.Sprintf("job: %s\npreemptions: %d\n%s\nschedule (%d choices): %v\n%s", r.Job, f.Pre, f.Detail, len(f.Choices), f.Choices, strings.Join(tail(f.Log, 60), "\n"))
			rj := r.Job
			rj.Choices = f.Choices
			c.ViolateProp(prop, f.Signature, detail, rj)
		}
	}
	if unbounded {
		c.P.Bound = "unbounded (complete up to happens-before state caching)"
	} else {
		kind := "preemptions"
		if anyDelay && !anyPre {
			kind = "delays/deviations"
		} else if anyDelay {
			kind = "preemptions/delays"
		}
		c.P.Bound = fmt.Sprintf("%d of %d jobs unbounded (complete); the other %d complete up to %s <= %d (smallest bound; per-job bounds in the job names)", len(results)-nBounded, len(results), nBounded, kind, minBound)
	}
	return results
}

// runJobsQuiet runs jobs and only accounts executions; failures are left to the caller.
func runJobsQuiet(c *vk.Ctx, jobs []Job) []JobResult {
	sub := vk.NewCtx(c.Prop, c.Name)
	sub.Args = c.Args
	res := runJobs(sub, jobs)
	c.Eval(sub.P.Evaluations)
	c.P.TracesValidated += sub.P.TracesValidated
	c.P.Transitions += sub.P.Transitions
	c.P.States += sub.P.States
	return res
}

func tail(s []string, n int) []string {
	if len(s) > n {
		return append([]string{fmt.Sprintf("... (%d earlier steps)", len(s)-n)}, s[len(s)-n:]...)
	}
	return s
}

// replayPart re-executes the schedule stored in a replay file.
func replayPart(c *vk.Ctx, path string) {
	b, err := os.ReadFile(path)
	if err != nil {
		c.Infra("%v", err)
	}
	var rf struct {
		Replay Job `json:"replay"`
	}
	if err := json.Unmarshal(b, &rf); err != nil {
		c.Infra("bad replay file: %v", err)
	}
	j := rf.Replay
	h, ok := harnesses[j.Harness]
	if !ok {
		c.Infra("unknown harness %q", j.Harness)
	}
	fails, log, div := vsched.Replay(vsched.Config{Bound: j.Bound, Params: j.Params}, h, j.Choices)
	fmt.Fprintf(os.Stderr, "replay of %s, %d choices\n%s\n", j, len(j.Choices), strings.Join(log, "\n"))
	if div != "" {
		c.Infra("replay diverged: %s", div)
	}
	c.Eval(1)
	c.P.TracesValidated = 1
	for _, f := range fails {
		prop := c.Prop
		if i := strings.IndexByte(f.Signature, '/'); i > 0 && i <= 4 && f.Signature[0] == 'C' {
			prop = f.Signature[:i]
		}
		c.ViolateProp(prop, f.Signature, f.Detail, j)
	}
}
