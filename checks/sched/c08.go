package main

import (
	"verifkit/harness"
	"verifkit/vk"
)

func init() { parts["c08-merge"] = c08Merge }

func c08Jobs(c *vk.Ctx) []Job {
	var jobs []Job
	filts := vk.Pick(c, []int{0, 1, 3}, []int{0, 1, 2, 3})
	for m0 := 0; m0 < harness.ReqModes; m0++ {
		for m1 := 0; m1 < harness.ReqModes; m1++ {
			for s := 0; s < harness.C08Scripts; s++ {
				live := m0 == harness.ReqEOSEThenLive || m1 == harness.ReqEOSEThenLive
				late := m0 == harness.ReqLateEOSE || m1 == harness.ReqLateEOSE
				if s == 2 && (live || late) {
					continue // a re-issued id while a child still streams for the old instance is outside the quantifier
				}
				if late && s == 3 {
					continue
				}
				for _, f := range filts {
					if s == 4 && f != 0 && !c.Thorough() {
						continue
					}
					jobs = append(jobs, Job{Harness: "MergeReq", Bound: -1, BudgetS: vk.Pick(c, 6.0, 90.0), FallbackDelay: vk.Pick(c, 3, 6), Params: map[string]int{"n": 2, "m0": m0, "m1": m1, "script": s, "filt": f}})
				}
			}
		}
	}
	// three children: a selection of mode triples, bounded by preemptions
	b3 := vk.Pick(c, 2, 4)
	for _, ms := range [][3]int{{0, 0, 0}, {0, 2, 4}, {1, 0, 5}, {3, 0, 0}, {6, 6, 6}, {1, 1, 1}, {0, 4, 1}} {
		for _, s := range []int{0, 1} {
			for _, f := range []int{0, 2} {
				jobs = append(jobs, Job{Harness: "MergeReq", Bound: b3, Delay: true, Params: map[string]int{"n": 3, "m0": ms[0], "m1": ms[1], "m2": ms[2], "script": s, "filt": f}})
			}
		}
	}
	// two sessions on ONE merge handler using the same subscription id at the same time: the merge
	// state of a subscription belongs to its session (delay-bounded: two sessions are ~25 tasks)
	b2 := vk.Pick(c, 2, 3)
	for _, ms := range [][2]int{{0, 0}, {0, 1}, {1, 0}, {2, 5}, {5, 5}, {1, 1}, {0, 6}} {
		for _, s := range []int{0, 1} {
			for _, f := range []int{0, 1} {
				jobs = append(jobs, Job{Harness: "MergeReqTwoSessions", Bound: b2, Delay: true, Params: map[string]int{"m0": ms[0], "m1": ms[1], "script": s, "filt": f}})
			}
		}
	}
	return jobs
}

func c08Merge(c *vk.Ctx) {
	if rp := c.Arg("replay", ""); rp != "" {
		replayPart(c, rp)
		return
	}
	jobs := c08Jobs(c)
	c.P.Rule = "E1: every schedule of one merge session over n scripted REQ children (menu: stored+EOSE, EOSE+live, unsorted, non-matching, duplicate-of-sibling, EOSE-only, late-EOSE) for every pair of child modes x 5 client scripts ([REQ s], [REQ s, CLOSE s], [REQ s, after EOSE: REQ s], [REQ s, REQ t], [REQ s, CLOSE s, REQ t]) x filter sets (no limit, limit 1, limit 2, two filters); n=2 unbounded (complete up to happens-before state caching) within a per-job time budget, else complete up to a delay bound (deviations from the deterministic default scheduler); n=3 delay-bounded; two sessions on one merge handler, both using id s at once (7 mode pairs x 2 scripts x 2 filter sets, delay-bounded), each judged by the single-session oracle; a job = (modes, script, filters); distinct_outcomes = distinct client-visible streams"
	res := runJobs(c, jobs)
	for i, r := range res {
		if i%131 == 0 {
			c.Sample(map[string]any{"job": r.Job.String(), "executions": r.Executions, "states": r.States, "outcomes": len(r.Outcomes)})
		}
	}
	c.SetExtra("jobs", len(jobs))
	c.Assume("scheduling points are the synchronisation operations; sound for data-race-free code")
	c.Assume("client histories do not re-issue a subscription id before its EOSE (the property's quantifier); events between a child's own EOSE and the merged EOSE are unclaimed")
}
