package main

import "verifkit/vk"

func init() { parts["c20-concurrent"] = c20Concurrent }

// c20Concurrent: concurrent NIP-11 requests (statement-point build).
func c20Concurrent(c *vk.Ctx) {
	if rp := c.Arg("replay", ""); rp != "" {
		replayPart(c, rp)
		return
	}
	var jobs []Job
	for _, p := range []map[string]int{{"n": 2}, {"n": 2, "same": 1}, {"n": 3}} {
		b := vk.Pick(c, 2, 4)
		if p["n"] == 3 {
			b = vk.Pick(c, 2, 3)
		}
		jobs = append(jobs, Job{Harness: "NIP11Concurrent", Bound: b, BudgetS: vk.Pick(c, 60.0, 600.0), Params: p})
	}
	c.P.Rule = "E1 (statement-point build: a scheduling point before every statement of NIP11.ServeHTTP; sync.Pool replaced by a deterministic LIFO pool): 2-3 tasks ask for the information documents of different relays (and of the same relay) at the same time, every schedule up to the stated preemption bound; oracle: every response is the complete answer for its own document"
	c.Assume("encoding/json, net/http header handling and the response recorder are not instrumented: they run atomically between two statements of ServeHTTP")
	runJobs(c, jobs)
	c.SetExtra("jobs", len(jobs))
}
