package main

import (
	"fmt"
	"strings"

	"github.com/high-moctane/mocrelay"
	"verifkit/refmodel"
	"verifkit/vk"
)

func init() {
	parts["c02-match"] = c02Match
	parts["c02-limit"] = c02Limit
}

func hex64(c byte) string { return strings.Repeat(string(c), 64) }

func p64(v int64) *int64 { return &v }

var (
	c02IDA, c02IDB = hex64('a'), hex64('b')
	c02P, c02Q     = hex64('1'), hex64('2')
	c02X, c02Y     = hex64('c'), hex64('d')
)

func c02Events() []*mocrelay.Event {
	X, Y := c02X, c02Y
	tagLists := [][]mocrelay.Tag{
		{},
		{{"e", X}},
		{{"e", Y}},
		{{"e", Y}, {"e", X}}, // X only as 2nd occurrence of the name
		{{"p", X}},
		{{"e", X}, {"p", Y}},
		{{"e"}}, // no value
		{{"e", X, "extra"}},
		{{"t", X}},
		{{"e", X}, {"e", X}},
		// names that merely share a prefix, a case variant or nothing with a filter letter
		{{"emoji", X}},
		{{"ep", X}, {"pe", Y}},
		{{"E", X}},
		{{"", X}},
		{{"proxy", Y}, {"e", X}},
	}
	var evs []*mocrelay.Event
	for _, id := range []string{c02IDA, c02IDB} {
		for _, pk := range []string{c02P, c02Q} {
			for _, kind := range []int64{1, 7} {
				for _, ts := range []int64{10, 20, 30} {
					for _, tl := range tagLists {
						evs = append(evs, &mocrelay.Event{ID: id, Pubkey: pk, Kind: kind, CreatedAt: ts, Tags: tl, Content: "", Sig: strings.Repeat("0", 128)})
					}
				}
			}
		}
	}
	return evs
}

func strOpts(a, b string) [][]string {
	return [][]string{nil, {}, {a}, {b}, {a, b}}
}

func c02Filters() []*mocrelay.ReqFilter {
	var fs []*mocrelay.ReqFilter
	kindOpts := [][]int64{nil, {}, {1}, {7}, {1, 7}}
	sinceOpts := []*int64{nil, p64(0), p64(10), p64(20), p64(21)} // 0 is a bound like any other, not "absent"
	untilOpts := []*int64{nil, p64(0), p64(9), p64(20), p64(30)}
	for _, ids := range strOpts(c02IDA, c02IDB) {
		for _, au := range strOpts(c02P, c02Q) {
			for _, ks := range kindOpts {
				for _, te := range strOpts(c02X, c02Y) {
					for _, tp := range [][]string{nil, {c02X}} {
						for _, si := range sinceOpts {
							for _, un := range untilOpts {
								f := &mocrelay.ReqFilter{IDs: ids, Authors: au, Kinds: ks, Since: si, Until: un}
								if te != nil || tp != nil {
									f.Tags = map[string][]string{}
									if te != nil {
										f.Tags["e"] = te
									}
									if tp != nil {
										f.Tags["p"] = tp
									}
								}
								fs = append(fs, f)
							}
						}
					}
				}
			}
		}
	}
	// a tag map that is present but empty constrains nothing
	fs = append(fs, &mocrelay.ReqFilter{Tags: map[string][]string{}})
	fs = append(fs, &mocrelay.ReqFilter{Tags: map[string][]string{}, Kinds: []int64{1}})
	return fs
}

func fstr(f *mocrelay.ReqFilter) string {
	var sb strings.Builder
	sb.WriteString("{")
	if f.IDs != nil {
		fmt.Fprintf(&sb, "ids:%v ", short(f.IDs))
	}
	if f.Authors != nil {
		fmt.Fprintf(&sb, "authors:%v ", short(f.Authors))
	}
	if f.Kinds != nil {
		fmt.Fprintf(&sb, "kinds:%v ", f.Kinds)
	}
	if f.Tags != nil {
		for _, k := range sortedKeys(f.Tags) {
			fmt.Fprintf(&sb, "#%s:%v ", k, short(f.Tags[k]))
		}
		if len(f.Tags) == 0 {
			sb.WriteString("tags:{} ")
		}
	}
	if f.Since != nil {
		fmt.Fprintf(&sb, "since:%d ", *f.Since)
	}
	if f.Until != nil {
		fmt.Fprintf(&sb, "until:%d ", *f.Until)
	}
	if f.Limit != nil {
		fmt.Fprintf(&sb, "limit:%d ", *f.Limit)
	}
	return strings.TrimSpace(sb.String()) + "}"
}

func fsstr(fs []*mocrelay.ReqFilter) string {
	var ss []string
	for _, f := range fs {
		ss = append(ss, fstr(f))
	}
	return "[" + strings.Join(ss, ",") + "]"
}

func sortedKeys[V any](m map[string]V) []string {
	ks := make([]string, 0, len(m))
	for k := range m {
		ks = append(ks, k)
	}
	for i := range ks {
		for j := i + 1; j < len(ks); j++ {
			if ks[j] < ks[i] {
				ks[i], ks[j] = ks[j], ks[i]
			}
		}
	}
	return ks
}

func short(xs []string) []string {
	out := make([]string, len(xs))
	for i, x := range xs {
		if len(x) > 4 {
			out[i] = x[:2] + ".."
		} else {
			out[i] = x
		}
	}
	return out
}

func estr(e *mocrelay.Event) string {
	var tags []string
	for _, t := range e.Tags {
		tags = append(tags, fmt.Sprint(short(t)))
	}
	id := e.ID
	if len(id) > 6 {
		id = id[:4]
	}
	pk := e.Pubkey
	if len(pk) > 6 {
		pk = pk[:4]
	}
	return fmt.Sprintf("ev(id=%s pk=%s k=%d t=%d tags=%s)", id, pk, e.Kind, e.CreatedAt, strings.Join(tags, ""))
}

func safeMatch(f func() bool) (res bool, panicked any) {
	defer func() {
		if r := recover(); r != nil {
			panicked = r
		}
	}()
	return f(), nil
}

// c02Match: every (filter, event) pair of the alphabet, through the single-filter matcher and
// through the list matcher; then every filter list of length 0..3 over a 40-filter core.
func c02Match(c *vk.Ctx) {
	evs := c02Events()
	fs := c02Filters()
	c.P.Rule = "cartesian product: 240 events (2 ids x 2 pubkeys x 2 kinds x 3 timestamps x 10 tag lists) x 20002 single filters (ids/authors/kinds/#e in {absent,[],[a],[b],[a,b]} x #p x since x until) and all filter lists of length 0..L over a 40-filter core; a case is non-trivial when the reference predicate is true for it (matching pairs) — mismatching pairs are counted in evaluations"
	matches := int64(0)
	for fi, f := range fs {
		m1 := mocrelay.NewReqFilterMatcher(f)
		ml := mocrelay.NewReqFiltersEventLimitMatcher([]*mocrelay.ReqFilter{f})
		for _, ev := range evs {
			want := refmodel.MatchFilter(f, ev)
			got1, p1 := safeMatch(func() bool { return m1.Match(ev) })
			got2, p2 := safeMatch(func() bool { return ml.Match(ev) })
			c.Eval(1)
			if want {
				matches++
			}
			if p1 != nil || p2 != nil {
				c.Violate("C02/panic single filter", fmt.Sprintf("filter %s event %s panicked: %v %v", fstr(f), estr(ev), p1, p2), map[string]any{"filter": f, "event": ev})
				continue
			}
			if got1 != want || got2 != want {
				kind := "false-positive"
				if want {
					kind = "false-negative"
				}
				c.Violate("C02/single filter "+kind+" "+c02Dim(f, ev), fmt.Sprintf("filter %s event %s: reference=%v Match=%v listMatch=%v", fstr(f), estr(ev), want, got1, got2), map[string]any{"filter": f, "event": ev})
			}
		}
		if fi == 777 || fi == 12345 {
			c.Sample(map[string]any{"filter": fstr(f), "event": estr(evs[41]), "match": refmodel.MatchFilter(f, evs[41])})
		}
	}
	c.DistinctN(matches)

	// filter lists over a core of 40 filters, chosen to overlap and to include never-matching members
	core := c02Core(fs)
	L := vk.Pick(c, 2, 3)
	var rec func(prefix []*mocrelay.ReqFilter)
	lists := int64(0)
	lmatches := int64(0)
	rec = func(prefix []*mocrelay.ReqFilter) {
		lists++
		fl := append([]*mocrelay.ReqFilter{}, prefix...)
		m := mocrelay.NewReqFiltersEventLimitMatcher(fl)
		for _, ev := range evs {
			want := refmodel.MatchFilters(fl, ev)
			got, p := safeMatch(func() bool { return m.Match(ev) })
			c.Eval(1)
			if want {
				lmatches++
			}
			if p != nil {
				c.Violate("C02/panic filter list", fmt.Sprintf("filters %s event %s panicked: %v", fsstr(fl), estr(ev), p), map[string]any{"filters": fl, "event": ev})
			} else if got != want {
				c.Violate(fmt.Sprintf("C02/filter list of %d: list decision differs from OR of members", len(fl)), fmt.Sprintf("filters %s event %s: reference=%v got=%v", fsstr(fl), estr(ev), want, got), map[string]any{"filters": fl, "event": ev})
			}
		}
		if len(prefix) == L {
			return
		}
		for _, f := range core {
			rec(append(prefix, f))
		}
	}
	rec(nil)
	c.DistinctN(lmatches)
	c.SetExtra("filter_lists", lists)
	c.SetExtra("max_list_len", L)
	c.Sample(map[string]any{"filters": fsstr([]*mocrelay.ReqFilter{core[3], core[17]}), "event": estr(evs[100]), "match": refmodel.MatchFilters([]*mocrelay.ReqFilter{core[3], core[17]}, evs[100])})
	c.Assume("alphabet-bounded: ids/pubkeys/kinds/tag values/timestamps outside the stated alphabet are not enumerated")
	c.Assume("a filter tag entry whose value list is nil (Go API only) is not claimed")
}

// c02Dim names the first condition on which reference and implementation can disagree, to make
// violation signatures specific but stable.
func c02Dim(f *mocrelay.ReqFilter, ev *mocrelay.Event) string {
	var dims []string
	if f.IDs != nil {
		dims = append(dims, fmt.Sprintf("ids(%d)", len(f.IDs)))
	}
	if f.Authors != nil {
		dims = append(dims, fmt.Sprintf("authors(%d)", len(f.Authors)))
	}
	if f.Kinds != nil {
		dims = append(dims, fmt.Sprintf("kinds(%d)", len(f.Kinds)))
	}
	for _, k := range sortedKeys(f.Tags) {
		dims = append(dims, fmt.Sprintf("#%s(%d)", k, len(f.Tags[k])))
	}
	if f.Since != nil {
		dims = append(dims, fmt.Sprintf("since%+d", ev.CreatedAt-*f.Since))
	}
	if f.Until != nil {
		dims = append(dims, fmt.Sprintf("until%+d", ev.CreatedAt-*f.Until))
	}
	return strings.Join(dims, ",")
}

func c02Core(fs []*mocrelay.ReqFilter) []*mocrelay.ReqFilter {
	// every 500th filter of the product (a spread over all dimensions) plus hand-picked extremes
	var core []*mocrelay.ReqFilter
	for i := 0; i < len(fs) && len(core) < 34; i += 601 {
		core = append(core, fs[i])
	}
	core = append(core,
		&mocrelay.ReqFilter{},
		&mocrelay.ReqFilter{IDs: []string{}},
		&mocrelay.ReqFilter{Kinds: []int64{7}, Tags: map[string][]string{"e": {c02X}}},
		&mocrelay.ReqFilter{Tags: map[string][]string{"e": {c02Y}, "p": {c02Y}}},
		&mocrelay.ReqFilter{Since: p64(20), Until: p64(20)},
		&mocrelay.ReqFilter{Authors: []string{c02Q}, Until: p64(10)},
	)
	return core
}

// c02Limit: the limit-counting matcher against "exhausted iff every filter has a limit and has
// matched at least that many events", after every prefix of every event sequence.
func c02Limit(c *vk.Ctx) {
	X := c02X
	evs := []*mocrelay.Event{
		{ID: c02IDA, Pubkey: c02P, Kind: 1, CreatedAt: 10, Tags: []mocrelay.Tag{}},
		{ID: c02IDB, Pubkey: c02P, Kind: 7, CreatedAt: 20, Tags: []mocrelay.Tag{{"e", X}}},
		{ID: hex64('e'), Pubkey: c02Q, Kind: 1, CreatedAt: 20, Tags: []mocrelay.Tag{}},
		{ID: hex64('f'), Pubkey: c02Q, Kind: 7, CreatedAt: 30, Tags: []mocrelay.Tag{{"e", X}}},
		{ID: hex64('9'), Pubkey: c02P, Kind: 1, CreatedAt: 30, Tags: []mocrelay.Tag{{"p", X}}},
		{ID: hex64('8'), Pubkey: c02Q, Kind: 3, CreatedAt: 5, Tags: []mocrelay.Tag{}},
	}
	bases := []*mocrelay.ReqFilter{
		{},
		{Kinds: []int64{1}},
		{Authors: []string{c02P}},
		{Tags: map[string][]string{"e": {X}}},
		{Since: p64(20)},
		{IDs: []string{}},
		{Kinds: []int64{1, 7}, Until: p64(20)},
	}
	limits := []*int64{nil, p64(0), p64(1), p64(2)}
	var fl []*mocrelay.ReqFilter
	for _, b := range bases {
		for _, l := range limits {
			f := *b
			f.Limit = l
			fl = append(fl, &f)
		}
	}
	var lists [][]*mocrelay.ReqFilter
	lists = append(lists, []*mocrelay.ReqFilter{})
	for _, a := range fl {
		lists = append(lists, []*mocrelay.ReqFilter{a})
	}
	for _, a := range fl {
		for _, b := range fl {
			lists = append(lists, []*mocrelay.ReqFilter{a, b})
		}
	}
	if c.Thorough() {
		for i := 0; i < len(fl); i += 3 {
			for j := 1; j < len(fl); j += 4 {
				for k := 2; k < len(fl); k += 5 {
					lists = append(lists, []*mocrelay.ReqFilter{fl[i], fl[j], fl[k]})
				}
			}
		}
	}
	maxLen := vk.Pick(c, 4, 5)
	c.P.Rule = fmt.Sprintf("all filter lists of length 0..2 over 28 filters (7 conditions x limit in {absent,0,1,2}) [thorough: plus a lattice of triples] x all event sequences of length <= %d over 6 events; Done() and LimitMatch() compared with the specification after every prefix; non-trivial = (list, sequence) runs in which the exhausted flag flips to true at some prefix", maxLen)
	seqs := int64(0)
	flips := int64(0)
	for _, lst := range lists {
		// only maximal sequences need replaying (every prefix is checked on the way); enumerate them
		var full func(seq []int)
		full = func(seq []int) {
			if len(seq) == maxLen {
				recOnce(c, lst, evs, seq, &seqs, &flips)
				return
			}
			for i := range evs {
				full(append(seq, i))
			}
		}
		full(nil)
	}
	c.DistinctN(flips)
	c.SetExtra("filter_lists", len(lists))
	c.SetExtra("maximal_sequences", seqs)
	c.Sample(map[string]any{"filters": fsstr(lists[30]), "sequence": []string{estr(evs[0]), estr(evs[1]), estr(evs[3])}})
}

func recOnce(c *vk.Ctx, lst []*mocrelay.ReqFilter, evs []*mocrelay.Event, seq []int, seqs, flips *int64) {
	m := mocrelay.NewReqFiltersEventLimitMatcher(lst)
	cnt := make([]int64, len(lst))
	wantDone := func() bool {
		for i, f := range lst {
			if f.Limit == nil || cnt[i] < *f.Limit {
				return false
			}
		}
		return true
	}
	flipped := false
	prev := wantDone()
	if got := m.Done(); got != prev {
		c.Violate("C02/limit: Done() wrong before any event", fmt.Sprintf("filters %s: Done()=%v want %v", fsstr(lst), got, prev), map[string]any{"filters": lst, "seq": seq})
	}
	for step, ei := range seq {
		ev := evs[ei]
		want := false
		for i, f := range lst {
			if refmodel.MatchFilter(f, ev) {
				want = true
				cnt[i]++
			}
		}
		got := m.LimitMatch(ev)
		c.Eval(1)
		if got != want {
			c.Violate("C02/limit: LimitMatch differs from OR of member predicates", fmt.Sprintf("filters %s seq %v step %d: LimitMatch=%v want %v", fsstr(lst), seq, step, got, want), map[string]any{"filters": lst, "seq": seq})
		}
		wd := wantDone()
		if gd := m.Done(); gd != wd {
			c.Violate(fmt.Sprintf("C02/limit: Done()=%v but specification says %v", gd, wd), fmt.Sprintf("filters %s seq %v after step %d: Done()=%v want %v (counts %v)", fsstr(lst), seq, step, gd, wd, cnt), map[string]any{"filters": lst, "seq": seq})
		}
		if wd && !prev {
			flipped = true
		}
		prev = wd
	}
	*seqs++
	if flipped {
		*flips++
	}
}
