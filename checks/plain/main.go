// Command plain holds the sub-checks that need no scheduler: exhaustive enumerators over input
// alphabets and breadth-first explorations of operation histories on fresh real objects.
package main

import "verifkit/vk"

var parts = map[string]func(*vk.Ctx){}

func main() { vk.RunPart(parts) }
