// Command race is the free-running complement of engine E1: the same harness bodies as the
// scheduled C15 checks, compiled un-instrumented (build tags verif,vpass) with -race, and run
// many times on all cores. It is SAMPLING by nature and is used only for the "no data races"
// clause of C15 and as the side condition of happens-before state caching; the evidence says so.
package main

import (
	"bytes"
	"encoding/json"
	"fmt"
	"os"
	"os/exec"
	"runtime"
	"strings"
	"sync"
	"time"

	"verifkit/harness"
	"verifkit/vk"
	"verifkit/vsched"
)

type raceJob struct {
	Params map[string]int `json:"params"`
	Iters  int            `json:"iters"`
}

func scripts() (a, b [][]int) {
	a = [][]int{
		{harness.OpAddV1, harness.OpAddV2}, {harness.OpAddV2, harness.OpAddV1}, {harness.OpAddR, harness.OpAddDelR}, {harness.OpAddDelR, harness.OpAddR},
		{harness.OpAddR, harness.OpAddQ}, {harness.OpAddQ, harness.OpAddV2}, {harness.OpAddV1}, {harness.OpAddDelR},
	}
	b = [][]int{
		{harness.OpFindAll, harness.OpFindAll}, {harness.OpFindKind0, harness.OpFindAll}, {harness.OpFindAll, harness.OpLen}, {harness.OpFindPLimit1, harness.OpFindAll},
		{harness.OpAddV2, harness.OpFindAll}, {harness.OpAddDelR, harness.OpFindAll}, {harness.OpAddQ, harness.OpFindKind0}, {harness.OpAddR, harness.OpAddDelR}, {harness.OpFindSince2, harness.OpFindAll}, {harness.OpFindMulti, harness.OpFindMulti}, {harness.OpFindMulti},
	}
	return
}

// child: run the jobs given on stdin; print one line per failure signature.
func child() {
	var jobs []raceJob
	if err := json.NewDecoder(os.Stdin).Decode(&jobs); err != nil {
		fmt.Fprintln(os.Stderr, "INFRA:", err)
		os.Exit(2)
	}
	n := 0
	for _, j := range jobs {
		for i := 0; i < j.Iters; i++ {
			h := &vsched.H{Params: j.Params}
			// a run takes microseconds; one that has not returned after two minutes is stuck for good
			// (free-running goroutines cannot be killed: report and end this child)
			done := make(chan struct{})
			go func() { harness.CacheConcurrent(h); close(done) }()
			select {
			case <-done:
			case <-time.After(2 * time.Minute):
				fmt.Printf("FAIL\t%s\t%s\n", "C15/an operation on the shared cache never returned", fmt.Sprintf("free-running run with params %v did not finish within 2 minutes (deadlock)", j.Params))
				fmt.Printf("RUNS\t%d\n", n)
				os.Exit(0)
			}
			n++
			for _, f := range h.Fails {
				fmt.Printf("FAIL\t%s\t%s\n", f.Signature, f.Detail)
			}
		}
	}
	fmt.Printf("RUNS\t%d\n", n)
}

func main() {
	if len(os.Args) > 1 && os.Args[1] == "__child" {
		child()
		return
	}
	vk.RunPart(map[string]func(*vk.Ctx){"c15-race": racePart})
}

func racePart(c *vk.Ctx) {
	a, b := scripts()
	iters := vk.Pick(c, 150, 1500)
	var jobs []raceJob
	for _, pre := range [][]int{{}, {harness.OpAddV1, harness.OpAddR}} {
		for _, sa := range a {
			for _, sb := range b {
				jobs = append(jobs, raceJob{Params: map[string]int{"cap": 2, "pre": harness.EncodeScript(pre...), "s0": harness.EncodeScript(sa...), "s1": harness.EncodeScript(sb...)}, Iters: iters})
			}
		}
	}
	for i, sa := range a {
		jobs = append(jobs, raceJob{Params: map[string]int{"cap": 1, "s0": harness.EncodeScript(sa...), "s1": harness.EncodeScript(b[i%len(b)]...), "s2": harness.EncodeScript(a[(i+3)%len(a)]...)}, Iters: iters})
	}
	nw := runtime.NumCPU()
	chunks := make([][]raceJob, nw)
	for i, j := range jobs {
		chunks[i%nw] = append(chunks[i%nw], j)
	}
	var wg sync.WaitGroup
	var mu sync.Mutex
	runs := int64(0)
	for _, ch := range chunks {
		if len(ch) == 0 {
			continue
		}
		wg.Add(1)
		go func() {
			defer wg.Done()
			in, _ := json.Marshal(ch)
			cmd := exec.Command(os.Args[0], "__child")
			cmd.Stdin = bytes.NewReader(in)
			cmd.Env = append(os.Environ(), "GORACE=halt_on_error=0 exitcode=0", "GOMAXPROCS=4")
			var out, errb bytes.Buffer
			cmd.Stdout, cmd.Stderr = &out, &errb
			err := cmd.Run()
			mu.Lock()
			defer mu.Unlock()
			if err != nil && !strings.Contains(errb.String(), "DATA RACE") {
				c.Infra("race child failed: %v\n%s", err, tailStr(errb.String(), 2000))
			}
			for _, line := range strings.Split(out.String(), "\n") {
				f := strings.SplitN(line, "\t", 3)
				switch f[0] {
				case "RUNS":
					var n int64
					fmt.Sscan(f[1], &n)
					runs += n
				case "FAIL":
					c.Violate(f[1]+" [free-running]", f[2], nil)
				}
			}
			if i := strings.Index(errb.String(), "WARNING: DATA RACE"); i >= 0 {
				rep := errb.String()[i:]
				c.Violate("C15/data race reported by the Go race detector in the free-running pass: "+raceSite(rep), tailStr(rep, 3000), nil)
			}
		}()
	}
	wg.Wait()
	c.Eval(runs)
	c.DistinctN(int64(len(jobs)))
	c.P.Exhaustive = false
	c.P.Rule = fmt.Sprintf("free-running -race pass (SAMPLING, not enumeration): %d harness configurations (the C15 task scripts) x %d iterations each with real goroutines under the Go race detector; complements the scheduled exploration, whose hand-offs would hide races from the detector", len(jobs), iters)
	c.Sample(map[string]any{"config": jobs[3].Params, "iterations": iters})
	c.Assume("the race detector only sees races that occur in the sampled runs")
}

func raceSite(rep string) string {
	// first mocrelay frame of the report
	for _, line := range strings.Split(rep, "\n") {
		line = strings.TrimSpace(line)
		if strings.Contains(line, "mocrelay.") && strings.Contains(line, "(") {
			if i := strings.IndexByte(line, '('); i > 0 {
				return line[:i]
			}
		}
	}
	return "unknown site"
}

func tailStr(s string, n int) string {
	if len(s) > n {
		return s[:n] + "…"
	}
	return s
}
