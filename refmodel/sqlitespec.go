package refmodel

// Reference relations for properties C06/C14 (SQLite store), written from the property text:
//
//	stored  = every non-ephemeral inserted event; per replaceable address (pubkey, kind) and per
//	          addressable address (pubkey, kind, d) only the newest created_at survives
//	          (equal timestamps: exactly one of the tied versions, which one is unclaimed);
//	live    = stored minus the events referenced (id through an e tag, address through an a tag)
//	          by an inserted deletion request (kind 5) of the same author, whatever arrived first;
//	answer  = duplicate-free, non-increasing in created_at, a union of per-filter
//	          "limit newest live matches" (DESIGN A.5; ties at the cut are never resolved).
//
// The relation is three-valued. Unclaimed: addressable events without a d tag, deletion requests
// that are themselves referenced by a deletion request, `a` references to plain replaceable kinds
// ("kind:pubkey:" / "kind:pubkey"), equal-timestamp versions of one address. Unclaimed facts are
// enumerated as alternative "worlds"; an observation is acceptable when some world explains it.

import (
	"fmt"
	"sort"

	"github.com/high-moctane/mocrelay"
)

// StoreClass names the storage class of an event (used in violation signatures).
func StoreClass(ev *mocrelay.Event) string {
	k := ev.Kind
	switch {
	case k == 5:
		return "deletion request"
	case k == 0 || k == 3 || (10000 <= k && k < 20000):
		return "replaceable"
	case 20000 <= k && k < 30000:
		return "ephemeral"
	case 30000 <= k && k < 40000:
		if _, ok := dValue(ev); !ok {
			return "addressable without d"
		}
		return "addressable"
	}
	return "regular"
}

func dValue(ev *mocrelay.Event) (string, bool) {
	for _, t := range ev.Tags {
		if len(t) >= 1 && t[0] == "d" {
			if len(t) >= 2 {
				return t[1], true
			}
			return "", true
		}
	}
	return "", false
}

// address returns the replacement address of an event ("" for classes that are never replaced).
func address(ev *mocrelay.Event) string {
	switch StoreClass(ev) {
	case "replaceable":
		return fmt.Sprintf("%d:%s", ev.Kind, ev.Pubkey)
	case "addressable":
		d, _ := dValue(ev)
		return fmt.Sprintf("%d:%s:%s", ev.Kind, ev.Pubkey, d)
	}
	return ""
}

// Liveness of one inserted event.
type Liveness struct {
	Class string
	// NotLive is non-empty when the event must not be returned in any world; it says why
	// ("ephemeral", "superseded version", "deleted by e reference", "deleted by a reference",
	// "deleted by e reference with extra elements", "deleted by a reference with extra elements").
	NotLive string
	// Unclaimed is non-empty when the event is live in some worlds only; it names the zone.
	Unclaimed string
}

// StoreWorlds computes, for a set of inserted events (distinct ids), every world the property
// allows: worlds[w][i] tells whether evs[i] is live in world w. info[i] classifies evs[i].
func StoreWorlds(evs []*mocrelay.Event) (worlds [][]bool, info []Liveness) {
	n := len(evs)
	info = make([]Liveness, n)
	type choice struct{ alts [][]int } // each alternative = indices that are live
	var choices []choice

	// newest per address
	groups := map[string][]int{}
	for i, ev := range evs {
		info[i].Class = StoreClass(ev)
		if a := address(ev); a != "" {
			groups[a] = append(groups[a], i)
		}
	}
	candidate := make([]bool, n) // may be stored
	for i, ev := range evs {
		switch info[i].Class {
		case "ephemeral":
			info[i].NotLive = "ephemeral"
		case "regular", "deletion request":
			candidate[i] = true
		case "addressable without d":
			candidate[i] = true
			info[i].Unclaimed = "addressable event without d tag"
		default:
			newest := int64(-1 << 62)
			for _, j := range groups[address(ev)] {
				if evs[j].CreatedAt > newest {
					newest = evs[j].CreatedAt
				}
			}
			if ev.CreatedAt == newest {
				candidate[i] = true
			} else {
				info[i].NotLive = "superseded version"
			}
		}
	}

	// deletion references
	for i, ev := range evs {
		if !candidate[i] {
			continue
		}
		var plainE, extraE, plainA, extraA, mayA bool
		addr := address(ev)
		for j, k := range evs {
			if j == i || k.Kind != 5 || k.Pubkey != ev.Pubkey {
				continue
			}
			for _, t := range k.Tags {
				if len(t) < 2 {
					continue
				}
				switch {
				case t[0] == "e" && t[1] == ev.ID:
					if len(t) == 2 {
						plainE = true
					} else {
						extraE = true
					}
				case t[0] == "a" && addr != "":
					if info[i].Class == "addressable" && t[1] == addr {
						if len(t) == 2 {
							plainA = true
						} else {
							extraA = true
						}
					} else if info[i].Class == "replaceable" && (t[1] == addr || t[1] == addr+":") {
						mayA = true
					}
				}
			}
		}
		why := ""
		switch {
		case plainE:
			why = "deleted by e reference"
		case plainA:
			why = "deleted by a reference"
		case extraE:
			why = "deleted by e reference with extra elements"
		case extraA:
			why = "deleted by a reference with extra elements"
		}
		if why != "" {
			if ev.Kind == 5 {
				if info[i].Unclaimed == "" {
					info[i].Unclaimed = "deletion request that is itself deleted"
				}
			} else {
				info[i].NotLive = why
				candidate[i] = false
			}
		} else if mayA && info[i].Unclaimed == "" {
			info[i].Unclaimed = "a reference to a plain replaceable kind"
		}
	}

	// choices: tie groups pick exactly one version; unclaimed events are optional
	inTie := make([]bool, n)
	addrs := make([]string, 0, len(groups))
	for a := range groups {
		addrs = append(addrs, a)
	}
	sort.Strings(addrs)
	for _, a := range addrs {
		var newest []int // all versions at the newest timestamp, deleted or not
		top := int64(-1 << 62)
		for _, j := range groups[a] {
			if evs[j].CreatedAt > top {
				top = evs[j].CreatedAt
			}
		}
		for _, j := range groups[a] {
			if evs[j].CreatedAt == top {
				newest = append(newest, j)
			}
		}
		if len(newest) < 2 {
			continue
		}
		var alts [][]int
		for _, j := range newest {
			inTie[j] = true
			if info[j].Unclaimed == "" && info[j].NotLive == "" {
				info[j].Unclaimed = "equal-timestamp versions of one address"
			}
			switch {
			case !candidate[j]: // the surviving version is a deleted one: nothing of the group is live
				alts = append(alts, nil)
			case info[j].Unclaimed == "a reference to a plain replaceable kind":
				alts = append(alts, nil, []int{j})
			default:
				alts = append(alts, []int{j})
			}
		}
		choices = append(choices, choice{alts})
	}
	base := make([]bool, n)
	for i := range evs {
		if !candidate[i] || inTie[i] {
			continue
		}
		if info[i].Unclaimed != "" {
			choices = append(choices, choice{[][]int{nil, {i}}})
		} else {
			base[i] = true
		}
	}
	var rec func(ci int, cur []bool)
	rec = func(ci int, cur []bool) {
		if ci == len(choices) {
			worlds = append(worlds, append([]bool(nil), cur...))
			return
		}
		for _, alt := range choices[ci].alts {
			for _, j := range alt {
				cur[j] = true
			}
			rec(ci+1, cur)
			for _, j := range alt {
				cur[j] = false
			}
		}
	}
	rec(0, base)
	return worlds, info
}

// UnionVerdict is the result of LimitNewestUnion.
type UnionVerdict struct {
	OK      bool
	Excess  []int // returned but in no filter's admissible set A∪B
	Missing []int // in some filter's mandatory set A but not returned
	CutFail bool  // between the bounds, but no per-filter choice at the tied cut explains it
	Tie     bool  // some filter had a tie at its cut (an unclaimed choice was involved)
	// Mandatory[i] / Optional[i] are the sets A_i and B_i of filter i.
	Mandatory [][]int
	Optional  [][]int
}

// LimitNewestUnion decides DESIGN A.5. matches[i] are the live matches of filter i (indices into
// an event universe), limit[i] its limit (nil = absent), ts gives created_at of an index, got is
// the duplicate-free answer. For filter i with limit n over M (newest first): A = the matches
// strictly newer than the n-th timestamp, B = those at that timestamp, k = n-|A|; got is legal
// iff there are S_i ⊆ B_i with |S_i| = k_i and ⋃(A_i ∪ S_i) = got.
func LimitNewestUnion(matches [][]int, limit []*int64, ts func(int) int64, got []int) UnionVerdict {
	type part struct {
		a, b []int
		k    int
	}
	parts := make([]part, len(matches))
	var v UnionVerdict
	admissible := map[int]bool{}
	mandatory := map[int]bool{}
	for i, m := range matches {
		m = append([]int(nil), m...)
		sort.SliceStable(m, func(x, y int) bool { return ts(m[x]) > ts(m[y]) })
		p := part{}
		if limit[i] == nil || int64(len(m)) <= *limit[i] {
			p.a = m
		} else if n := int(*limit[i]); n > 0 {
			cut := ts(m[n-1])
			for _, e := range m {
				if ts(e) > cut {
					p.a = append(p.a, e)
				} else if ts(e) == cut {
					p.b = append(p.b, e)
				}
			}
			p.k = n - len(p.a)
			if p.k == len(p.b) {
				p.a, p.b, p.k = append(p.a, p.b...), nil, 0
			} else {
				v.Tie = true
			}
		}
		for _, e := range p.a {
			admissible[e], mandatory[e] = true, true
		}
		for _, e := range p.b {
			admissible[e] = true
		}
		parts[i] = p
		v.Mandatory = append(v.Mandatory, p.a)
		v.Optional = append(v.Optional, p.b)
	}
	gotSet := map[int]bool{}
	for _, g := range got {
		gotSet[g] = true
		if !admissible[g] {
			v.Excess = append(v.Excess, g)
		}
	}
	var miss []int
	for e := range mandatory {
		if !gotSet[e] {
			miss = append(miss, e)
		}
	}
	sort.Ints(miss)
	v.Missing = miss
	if len(v.Excess) > 0 || len(v.Missing) > 0 {
		return v
	}
	// brute force over the tied choices
	union := map[int]int{}
	for _, p := range parts {
		for _, e := range p.a {
			union[e]++
		}
	}
	var rec func(i int) bool
	rec = func(i int) bool {
		if i == len(parts) {
			if len(union) != len(gotSet) {
				return false
			}
			for e := range union {
				if !gotSet[e] {
					return false
				}
			}
			return true
		}
		p := parts[i]
		if len(p.b) == 0 {
			return rec(i + 1)
		}
		// choose k of b
		idx := make([]int, 0, p.k)
		var choose func(from int) bool
		choose = func(from int) bool {
			if len(idx) == p.k {
				for _, j := range idx {
					union[p.b[j]]++
				}
				ok := rec(i + 1)
				for _, j := range idx {
					union[p.b[j]]--
					if union[p.b[j]] == 0 {
						delete(union, p.b[j])
					}
				}
				return ok
			}
			for j := from; j < len(p.b); j++ {
				idx = append(idx, j)
				if choose(j + 1) {
					return true
				}
				idx = idx[:len(idx)-1]
			}
			return false
		}
		return choose(0)
	}
	if rec(0) {
		v.OK = true
	} else {
		v.CutFail = true
	}
	return v
}
