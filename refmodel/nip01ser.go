package refmodel

import "strconv"

// NIP-01 canonical serialization, written from the NIP text and deliberately WITHOUT
// encoding/json:
//
//	[0,<pubkey as string>,<created_at as number>,<kind as number>,<tags as array of arrays of
//	strings>,<content as string>]
//
// UTF-8, no whitespace or line breaks between tokens, and inside strings exactly these escapes:
//
//	0x0A -> \n   0x22 -> \"   0x5C -> \\   0x0D -> \r   0x09 -> \t   0x08 -> \b   0x0C -> \f
//
// "all other characters must be included verbatim". A raw C0 control other than the five above
// cannot appear verbatim inside a JSON string (RFC 8259 §7), so those are written as \u00xx with
// lowercase hex digits (the form every JSON encoder in use produces and the property text
// states). Everything else — DEL, '<', '>', '&', U+2028, U+2029, astral planes — is copied byte for
// byte.

const nip01hex = "0123456789abcdef"

// AppendNIP01String appends s as a NIP-01 JSON string (with the surrounding quotes). s is
// treated as a byte string: bytes >= 0x20 other than '"' and '\\' are copied unchanged, so valid
// UTF-8 stays exactly as it is. (Invalid UTF-8 is outside what this reference claims.)
func AppendNIP01String(dst []byte, s string) []byte {
	dst = append(dst, '"')
	for i := 0; i < len(s); i++ {
		b := s[i]
		switch {
		case b == '\n':
			dst = append(dst, '\\', 'n')
		case b == '"':
			dst = append(dst, '\\', '"')
		case b == '\\':
			dst = append(dst, '\\', '\\')
		case b == '\r':
			dst = append(dst, '\\', 'r')
		case b == '\t':
			dst = append(dst, '\\', 't')
		case b == '\b':
			dst = append(dst, '\\', 'b')
		case b == '\f':
			dst = append(dst, '\\', 'f')
		case b < 0x20:
			dst = append(dst, '\\', 'u', '0', '0', nip01hex[b>>4], nip01hex[b&0xf])
		default:
			dst = append(dst, b)
		}
	}
	return append(dst, '"')
}

// SerializeNIP01 returns the canonical byte string whose SHA-256 is the event id. A nil tag list
// is written as [] and a nil tag as [] (callers of the checks never pass either; the reference
// just has to be total).
func SerializeNIP01(pubkey string, createdAt, kind int64, tags [][]string, content string) []byte {
	dst := make([]byte, 0, 96+len(pubkey)+len(content))
	dst = append(dst, '[', '0', ',')
	dst = AppendNIP01String(dst, pubkey)
	dst = append(dst, ',')
	dst = strconv.AppendInt(dst, createdAt, 10)
	dst = append(dst, ',')
	dst = strconv.AppendInt(dst, kind, 10)
	dst = append(dst, ',', '[')
	for i, t := range tags {
		if i > 0 {
			dst = append(dst, ',')
		}
		dst = append(dst, '[')
		for j, v := range t {
			if j > 0 {
				dst = append(dst, ',')
			}
			dst = AppendNIP01String(dst, v)
		}
		dst = append(dst, ']')
	}
	dst = append(dst, ']', ',')
	dst = AppendNIP01String(dst, content)
	return append(dst, ']')
}
