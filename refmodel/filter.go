// Package refmodel holds the reference oracles: small, boring re-statements of the properties,
// written from the property text and NIP-01, sharing no code with mocrelay's implementation
// (only its data types).
package refmodel

import (
	"github.com/high-moctane/mocrelay"
)

func inS(xs []string, x string) bool {
	for _, y := range xs {
		if y == x {
			return true
		}
	}
	return false
}

func inI(xs []int64, x int64) bool {
	for _, y := range xs {
		if y == x {
			return true
		}
	}
	return false
}

// MatchFilter is the NIP-01 predicate of property C02: every present condition must hold,
// absent (nil) conditions do not constrain, an empty list matches nothing.
func MatchFilter(f *mocrelay.ReqFilter, ev *mocrelay.Event) bool {
	if f.IDs != nil && !inS(f.IDs, ev.ID) {
		return false
	}
	if f.Authors != nil && !inS(f.Authors, ev.Pubkey) {
		return false
	}
	if f.Kinds != nil && !inI(f.Kinds, ev.Kind) {
		return false
	}
	for name, vals := range f.Tags {
		ok := false
		for _, t := range ev.Tags {
			if len(t) >= 2 && t[0] == name && inS(vals, t[1]) {
				ok = true
				break
			}
		}
		if !ok {
			return false
		}
	}
	if f.Since != nil && !(*f.Since <= ev.CreatedAt) {
		return false
	}
	if f.Until != nil && !(ev.CreatedAt <= *f.Until) {
		return false
	}
	return true
}

// MatchFilterValueless is MatchFilter under the other reading of a tag that has a name but no
// value element (["t"]): it counts as carrying the empty string as its value. The statements do
// not decide between the two readings; a check that meets a pair on which they differ treats it as
// an unclaimed zone and demands only that the code is consistent with itself there.
func MatchFilterValueless(f *mocrelay.ReqFilter, ev *mocrelay.Event) bool {
	padded := *ev
	padded.Tags = make([]mocrelay.Tag, len(ev.Tags))
	for i, t := range ev.Tags {
		if len(t) == 1 {
			t = mocrelay.Tag{t[0], ""}
		}
		padded.Tags[i] = t
	}
	return MatchFilter(f, &padded)
}

// MatchFilters: a filter list matches when any member matches.
func MatchFilters(fs []*mocrelay.ReqFilter, ev *mocrelay.Event) bool {
	for _, f := range fs {
		if MatchFilter(f, ev) {
			return true
		}
	}
	return false
}
