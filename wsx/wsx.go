// Package wsx is engine E3: the real Relay.ServeHTTP behind a real net/http server, reached by a
// real coder/websocket client over in-memory net.Pipe connections, everything inside a
// testing/synctest bubble (virtual time, exact quiescence detection, leak detection).
//
// The package knows nothing about properties; it only provides
//   - Main/RunBubble: how a normal binary (package main, no `go test`) gets a *testing.T and
//     runs one bubble per session, surviving a bubble that cannot end (leaked goroutines);
//   - Session: server + client wiring, a frame-recording reader, virtual-time stamps;
//   - Leftover: the goroutines of the current bubble that are still alive (the leak detector).
//
// No TCP socket is ever opened: the listener hands out one end of net.Pipe(), the HTTP client's
// DialContext takes the other end. net.Pipe has no buffer, so a peer that stops reading blocks
// the very next write of the other side.
package wsx

import (
	"context"
	"errors"
	"fmt"
	"net"
	"net/http"
	"regexp"
	"runtime"
	"runtime/debug"
	"strconv"
	"strings"
	"sync"
	"testing"
	"testing/synctest"
	"time"

	"github.com/coder/websocket"
	"github.com/high-moctane/mocrelay"
)

// ---------------------------------------------------------------------------------------------
// driving bubbles from a normal binary

// Harness carries the *testing.T that testing/synctest insists on.
type Harness struct{ t *testing.T }

// Main obtains a *testing.T outside `go test`, runs body with it and EXITS the process (0 when the
// single pseudo-test passed). testing.Main is the exported entry point "for systems that simulate
// go test"; testing.RunTests alone runs nothing because the -test.cpu list is only initialised by
// M.Run. The testing package prints "PASS" on stdout at the end, so callers that report on
// stdout must mark their own lines.
func Main(body func(h *Harness)) {
	testing.Main(func(pat, str string) (bool, error) { return true, nil },
		[]testing.InternalTest{{Name: "E3", F: func(t *testing.T) { body(&Harness{t: t}) }}}, nil, nil)
}

// BubbleResult says how a bubble ended.
type BubbleResult struct {
	// Panic is non-empty when body panicked (value and stack).
	Panic string
	// Deadlock is non-empty when the bubble could not end: either body blocked forever with no
	// timer pending, or body returned while goroutines of the bubble were still blocked.
	Deadlock string
}

// RunBubble runs body in a fresh bubble. A bubble that cannot end is reported, not fatal: the
// runtime's deadlock panic is raised on the goroutine that called synctest.Test (this one) and
// is recovered here; the stuck goroutines stay parked for the rest of the process.
func (h *Harness) RunBubble(body func()) (res BubbleResult) {
	defer func() {
		if r := recover(); r != nil {
			res.Deadlock = fmt.Sprint(r)
		}
	}()
	synctest.Test(h.t, func(*testing.T) {
		defer func() {
			if r := recover(); r != nil {
				res.Panic = fmt.Sprintf("%v\n%s", r, debug.Stack())
			}
		}()
		body()
	})
	return
}

// Wait is synctest.Wait: returns when every other goroutine of the bubble is durably blocked.
func Wait() { synctest.Wait() }

// ---------------------------------------------------------------------------------------------
// in-memory listener

type PipeListener struct {
	ch     chan net.Conn
	closed chan struct{}
	once   sync.Once
}

func NewPipeListener() *PipeListener {
	return &PipeListener{ch: make(chan net.Conn), closed: make(chan struct{})}
}

func (l *PipeListener) Accept() (net.Conn, error) {
	select {
	case c := <-l.ch:
		return c, nil
	case <-l.closed:
		return nil, net.ErrClosed
	}
}

func (l *PipeListener) Close() error { l.once.Do(func() { close(l.closed) }); return nil }

type pipeAddr struct{}

func (pipeAddr) Network() string { return "pipe" }
func (pipeAddr) String() string  { return "pipe" }

func (l *PipeListener) Addr() net.Addr { return pipeAddr{} }

// Dial returns the client end of a fresh pipe whose server end is handed to Accept.
func (l *PipeListener) Dial(ctx context.Context) (net.Conn, error) {
	c, s := net.Pipe()
	select {
	case l.ch <- s:
		return c, nil
	case <-l.closed:
		c.Close()
		s.Close()
		return nil, net.ErrClosed
	case <-ctx.Done():
		c.Close()
		s.Close()
		return nil, ctx.Err()
	}
}

// ---------------------------------------------------------------------------------------------
// session

// Frame is one data frame read by the client.
type Frame struct {
	Type websocket.MessageType
	Data []byte
	At   time.Duration // virtual time since the session's epoch
}

type Session struct {
	Epoch time.Time
	Relay *mocrelay.Relay
	Srv   *http.Server
	Ln    *PipeListener
	Tr    *http.Transport
	Conn  *websocket.Conn // client side
	Raw   net.Conn        // client end of the pipe (for cutting the connection)

	mu             sync.Mutex
	serveStarted   bool
	serveReturned  bool
	serveReturnAt  time.Duration
	servePanic     string
	serveGoroutine int64
	frames         []Frame
	readErr        error
	readErrAt      time.Duration
	readerRunning  bool
}

// Now is the virtual time since the session's epoch.
func (s *Session) Now() time.Duration { return time.Since(s.Epoch) }

// Start builds relay, server and client and performs the WebSocket handshake. Must be called
// inside a bubble.
func Start(h mocrelay.Handler, opt *mocrelay.RelayOption) (*Session, error) {
	s := &Session{Epoch: time.Now()}
	s.Relay = mocrelay.NewRelay(h, opt)
	s.Ln = NewPipeListener()
	s.Srv = &http.Server{Handler: http.HandlerFunc(func(w http.ResponseWriter, r *http.Request) {
		s.mu.Lock()
		s.serveStarted = true
		s.serveGoroutine = curGoroutineID()
		s.mu.Unlock()
		defer func() {
			r := recover()
			s.mu.Lock()
			s.serveReturned = true
			s.serveReturnAt = s.Now()
			if r != nil {
				s.servePanic = fmt.Sprintf("%v\n%s", r, debug.Stack())
			}
			s.mu.Unlock()
		}()
		s.Relay.ServeHTTP(w, r)
	})}
	go s.Srv.Serve(s.Ln)

	s.Tr = &http.Transport{
		DialContext: func(ctx context.Context, network, addr string) (net.Conn, error) {
			c, err := s.Ln.Dial(ctx)
			if err == nil {
				s.Raw = c
			}
			return c, err
		},
		DisableKeepAlives: true,
	}
	conn, _, err := websocket.Dial(context.Background(), "ws://relay.invalid/", &websocket.DialOptions{
		HTTPClient:      &http.Client{Transport: s.Tr},
		CompressionMode: websocket.CompressionDisabled,
	})
	if err != nil {
		s.Srv.Close()
		return nil, err
	}
	conn.SetReadLimit(-1)
	s.Conn = conn
	return s, nil
}

// StartReader starts the client's reading goroutine: it reads at most max data frames (max < 0:
// no bound) and then never calls Read again ("the peer stops reading"; control frames are only
// processed inside Read, so pings are not answered afterwards either).
func (s *Session) StartReader(max int) {
	s.mu.Lock()
	s.readerRunning = true
	s.mu.Unlock()
	go func() {
		defer func() {
			s.mu.Lock()
			s.readerRunning = false
			s.mu.Unlock()
		}()
		for n := 0; max < 0 || n < max; n++ {
			typ, data, err := s.Conn.Read(context.Background())
			at := s.Now()
			s.mu.Lock()
			if err != nil {
				s.readErr, s.readErrAt = err, at
				s.mu.Unlock()
				return
			}
			s.frames = append(s.frames, Frame{Type: typ, Data: data, At: at})
			s.mu.Unlock()
		}
	}()
}

// ReaderStopped reports that the reading goroutine has returned (its quota is used up or the
// connection failed): from then on nothing reads the client end of the pipe.
func (s *Session) ReaderStopped() bool { s.mu.Lock(); defer s.mu.Unlock(); return !s.readerRunning }

// Frames returns a copy of the frames read so far.
func (s *Session) Frames() []Frame {
	s.mu.Lock()
	defer s.mu.Unlock()
	return append([]Frame(nil), s.frames...)
}

func (s *Session) NFrames() int { s.mu.Lock(); defer s.mu.Unlock(); return len(s.frames) }

// ReadErr is the error that ended the client's reader (nil while it is still reading).
func (s *Session) ReadErr() (error, time.Duration) {
	s.mu.Lock()
	defer s.mu.Unlock()
	return s.readErr, s.readErrAt
}

// Send writes one frame from the client.
func (s *Session) Send(typ websocket.MessageType, payload []byte) error {
	return s.Conn.Write(context.Background(), typ, payload)
}

// ServeReturned reports whether Relay.ServeHTTP has returned, and when.
func (s *Session) ServeReturned() (bool, time.Duration) {
	s.mu.Lock()
	defer s.mu.Unlock()
	return s.serveReturned, s.serveReturnAt
}

func (s *Session) ServePanic() string { s.mu.Lock(); defer s.mu.Unlock(); return s.servePanic }

// Cut closes the client end of the pipe abruptly (no close frame).
func (s *Session) Cut() { s.Raw.Close() }

// Shutdown releases everything the rig itself owns (client connection, server, transport) and
// lets settle virtual time pass. What is alive afterwards was left behind by the session.
func (s *Session) Shutdown(settle time.Duration) {
	s.Conn.CloseNow()
	s.Raw.Close()
	s.Srv.Close()
	s.Ln.Close()
	s.Tr.CloseIdleConnections()
	if settle > 0 {
		time.Sleep(settle)
	}
	synctest.Wait()
}

// ---------------------------------------------------------------------------------------------
// leak detector: goroutines of the current bubble

type Goroutine struct {
	ID        int64
	State     string
	CreatedBy string
	Parent    int64
	Stack     string
	Session   bool // started (transitively, as far as visible) by the goroutine that ran ServeHTTP, or has mocrelay frames
}

var (
	reHeader  = regexp.MustCompile(`^goroutine (\d+) (?:gp=\S+ m=\S+ (?:mp=\S+ )?)?\[([^\]]*)\]:`)
	reBubble  = regexp.MustCompile(`synctest bubble (\d+)`)
	reCreated = regexp.MustCompile(`(?m)^created by (\S+) in goroutine (\d+)`)
)

func curGoroutineID() int64 {
	var buf [64]byte
	n := runtime.Stack(buf[:], false)
	f := strings.Fields(string(buf[:n]))
	if len(f) >= 2 {
		id, _ := strconv.ParseInt(f[1], 10, 64)
		return id
	}
	return -1
}

func allStacks() string {
	buf := make([]byte, 1<<20)
	for {
		n := runtime.Stack(buf, true)
		if n < len(buf) {
			return string(buf[:n])
		}
		buf = make([]byte, 2*len(buf))
	}
}

// Leftover lists the goroutines of the caller's bubble other than the caller, the bubble's root
// (the goroutine inside synctest.Run) and the bubble's main goroutine (waiting for the caller).
// Call it after Shutdown: on a session that released everything the list is empty.
func (s *Session) Leftover() ([]Goroutine, error) {
	synctest.Wait()
	dump := allStacks()
	blocks := strings.Split(strings.TrimSpace(dump), "\n\n")
	if len(blocks) == 0 {
		return nil, errors.New("empty goroutine dump")
	}
	m := reBubble.FindStringSubmatch(firstLine(blocks[0]))
	if m == nil {
		return nil, fmt.Errorf("calling goroutine is not in a bubble: %q", firstLine(blocks[0]))
	}
	bubble := m[1]
	self := curGoroutineID()
	s.mu.Lock()
	serveG := s.serveGoroutine
	s.mu.Unlock()

	var gs []Goroutine
	for _, b := range blocks {
		hd := reHeader.FindStringSubmatch(firstLine(b))
		if hd == nil {
			continue
		}
		bm := reBubble.FindStringSubmatch(hd[2])
		if bm == nil || bm[1] != bubble {
			continue
		}
		id, _ := strconv.ParseInt(hd[1], 10, 64)
		if id == self {
			continue
		}
		if strings.Contains(b, "synctest.Run(") || strings.Contains(b, "testingSynctestTest(") {
			continue
		}
		g := Goroutine{ID: id, State: hd[2], Stack: b}
		if cm := reCreated.FindStringSubmatch(b); cm != nil {
			g.CreatedBy = cm[1]
			g.Parent, _ = strconv.ParseInt(cm[2], 10, 64)
		}
		gs = append(gs, g)
	}
	// attribution to the session
	sess := map[int64]bool{serveG: true}
	for changed := true; changed; {
		changed = false
		for i := range gs {
			if !sess[gs[i].ID] && (sess[gs[i].Parent] || strings.Contains(gs[i].Stack, "github.com/high-moctane/mocrelay.")) {
				sess[gs[i].ID] = true
				changed = true
			}
		}
	}
	for i := range gs {
		gs[i].Session = sess[gs[i].ID]
	}
	return gs, nil
}

func firstLine(s string) string {
	if i := strings.IndexByte(s, '\n'); i >= 0 {
		return s[:i]
	}
	return s
}

// TopFrames is a short description of a goroutine for reports: its state and first frames.
func (g Goroutine) TopFrames(n int) string {
	lines := strings.Split(g.Stack, "\n")
	var fn []string
	for _, l := range lines[1:] {
		if l == "" || l[0] == '\t' || strings.HasPrefix(l, "created by") {
			continue
		}
		if i := strings.LastIndexByte(l, '('); i > 0 {
			l = l[:i]
		}
		fn = append(fn, l)
		if len(fn) == n {
			break
		}
	}
	return fmt.Sprintf("[%s] %s (created by %s)", g.State, strings.Join(fn, " <- "), g.CreatedBy)
}
