//go:build verif

package mocrelay

// VerifSessions returns the number of connections that have an entry in the router's
// subscription registry (read without locking: call it at quiescence only).
func (router *RouterHandler) VerifSessions() int { return len(router.subs.subs.m) }

// VerifSubscriptions returns the total number of registered subscriptions.
func (router *RouterHandler) VerifSubscriptions() int {
	n := 0
	for _, m := range router.subs.subs.m {
		n += len(m.m)
	}
	return n
}
