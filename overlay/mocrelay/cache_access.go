//go:build verif

package mocrelay

// White-box accessor for the E2 exploration of EventCache (properties C03, C04, C05, C16).
// Added to package mocrelay through `go build -overlay` only; /repo is not modified.

import (
	"fmt"
	"sort"
	"strings"
)

// VerifDump renders the COMPLETE internal state of the cache canonically (every map sorted):
// Cap, index capacity hint, evs (key -> id), evsCreatedAt (ordered (created_at,id) keys and the
// id each one points to), every bucket of evsIndex.idx (index key -> sorted ids) and the
// deletion registry ((key,pubkey) -> sorted kind-5 ids). Two caches with equal dumps hold the
// same events (by id) in every structure, so for deterministic code they have equal futures.
func (c *EventCache) VerifDump() string {
	// no locking on purpose: the explorations own their caches (one goroutine per cache), and the
	// file must stay independent of how the E1 instrumenter rewrites the mutex field.
	var sb strings.Builder
	fmt.Fprintf(&sb, "cap=%d total=%d\n", c.Cap, c.evsIndex.total)

	// evs
	{
		keys := make([]string, 0, len(c.evs))
		for k := range c.evs {
			keys = append(keys, k)
		}
		sort.Strings(keys)
		sb.WriteString("evs:\n")
		for _, k := range keys {
			ev := c.evs[k]
			if ev == nil {
				fmt.Fprintf(&sb, " %q -> <nil>\n", k)
				continue
			}
			fmt.Fprintf(&sb, " %q -> %s\n", k, ev.ID)
		}
	}

	// evsCreatedAt, in tree order
	sb.WriteString("createdAt:\n")
	for it := c.evsCreatedAt.Iterator(); it.Valid(); it.Next() {
		k := it.Key()
		v := it.Value()
		vid := "<nil>"
		if v != nil {
			vid = v.ID
		}
		fmt.Fprintf(&sb, " (%d,%s) -> %s\n", k.CreatedAt, k.ID, vid)
	}

	// evsIndex
	{
		lines := make([]string, 0, len(c.evsIndex.idx))
		for k, bucket := range c.evsIndex.idx {
			ids := make([]string, 0, len(bucket))
			for ev, b := range bucket {
				id := "<nil>"
				if ev != nil {
					id = ev.ID
				}
				if !b {
					id += "(false)"
				}
				ids = append(ids, id)
			}
			sort.Strings(ids)
			lines = append(lines, fmt.Sprintf(" %d|%T|%v -> %s", k.What, k.Value, k.Value, strings.Join(ids, ",")))
		}
		sort.Strings(lines)
		sb.WriteString("index:\n")
		for _, l := range lines {
			sb.WriteString(l)
			sb.WriteByte('\n')
		}
	}

	// deletion registry
	{
		lines := make([]string, 0, len(c.deleted))
		for k, m := range c.deleted {
			ids := make([]string, 0, len(m))
			for id, b := range m {
				if !b {
					id += "(false)"
				}
				ids = append(ids, id)
			}
			sort.Strings(ids)
			lines = append(lines, fmt.Sprintf(" %q by %s -> %s", k.EventKey, k.Pubkey, strings.Join(ids, ",")))
		}
		sort.Strings(lines)
		sb.WriteString("deleted:\n")
		for _, l := range lines {
			sb.WriteString(l)
			sb.WriteByte('\n')
		}
	}

	return sb.String()
}

// VerifCache exposes the cache behind a CacheHandler so that an exploration can drive it with
// EventCache.Add directly and then exercise Dump/Restore of the handler.
func (h CacheHandler) VerifCache() *EventCache { return h.h.c }
