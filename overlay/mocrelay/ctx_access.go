//go:build verif

package mocrelay

import (
	"context"
	"net/http"
)

// VerifCtxWithRequest attaches an upgrade request to a session context exactly as Relay.ServeHTTP
// does, so that a harness that drives a handler directly gives it the context a real session has.
func VerifCtxWithRequest(ctx context.Context, r *http.Request) context.Context {
	return ctxWithRequest(ctx, r)
}
