//go:build verif

package sqlite

// White-box accessors for the verification framework (/verif). This file is never part of a
// normal build: it is added to package sqlite through `go build -overlay` with the tag `verif`.

import (
	"context"
	"database/sql"

	"github.com/high-moctane/mocrelay"
)

func VerifInsertEvents(ctx context.Context, db *sql.DB, seed uint32, events []*mocrelay.Event) error {
	return insertEvents(ctx, db, seed, events)
}

func VerifQueryEvent(ctx context.Context, db *sql.DB, seed uint32, fs []*mocrelay.ReqFilter, maxLimit uint) ([]*mocrelay.Event, error) {
	return queryEvent(ctx, db, seed, fs, maxLimit)
}

func VerifSetOrLoadSeed(ctx context.Context, db *sql.DB) (uint32, error) {
	return setOrLoadXXHashSeed(ctx, db)
}

func VerifGetEventKey(seed uint32, ev *mocrelay.Event) (int64, bool) {
	return getEventKey(seed, ev)
}
