//go:build !vpass

package vsched

import (
	"fmt"
	"sort"
	"strings"
)

// H is the harness's handle on the execution in progress. Harness bodies are plain Go (they
// are instrumented together with the code under test); H is their only scheduler-specific API,
// and it has a passthrough implementation (build tag vpass) for the free-running race pass.
type H struct {
	e      *Exec
	params map[string]int
}

// Cleanup registers f to run after the execution is over and every task has unwound (outside the
// scheduler: f must not touch instrumented synchronisation). For process resources such as
// database handles, which an aborted execution would otherwise leak.
func (h *H) Cleanup(f func()) { h.e.cleanups = append(h.e.cleanups, f) }

func (h *H) Param(name string, def int) int {
	if v, ok := h.params[name]; ok {
		return v
	}
	return def
}

// Fail records a violation for this execution. The signature must be stable across schedules.
func (h *H) Fail(signature, detail string) {
	h.e.fails = append(h.e.fails, Failure{Signature: signature, Detail: detail})
}

func (h *H) Failf(signature, format string, a ...any) { h.Fail(signature, fmt.Sprintf(format, a...)) }

// Observe classifies the outcome of this execution (distinct outcomes are counted).
func (h *H) Observe(outcome string) { h.e.outcomes = append(h.e.outcomes, outcome) }

// WaitQuiescent parks the caller until no other transition is enabled.
func (h *H) WaitQuiescent() { h.e.park(&op{kind: opQuiescent}) }

// Stamp returns a logical time. Stamps are totally ordered accesses to one shared clock object,
// so that executions which differ in the real-time order of stamped events are different states.
func (h *H) Stamp() int64 {
	h.e.inline("stamp", "clock", &h.e.clockVer)
	return int64(h.e.clockVer)
}

func (h *H) Choose(n int) int { return choose(n) }

// Spawn starts f as a task and returns a handle (use plain `go` when no handle is needed).
func (h *H) Spawn(f func()) *Task { return h.e.spawn(curTask(), false, f) }

// SpawnFree starts an environment task: the explorer switches to it at no preemption cost, so
// every cut point of the history is reached even at bound 0.
func (h *H) SpawnFree(f func()) *Task { return h.e.spawn(curTask(), true, f) }

func (t *Task) Done() bool { return t == nil || t.done }

func under(t, root *Task) bool {
	for ; t != nil; t = t.Parent {
		if t == root {
			return true
		}
	}
	return false
}

// LiveUnder lists the tasks spawned (transitively) by root, root included, that have not
// finished, with the site each is parked at.
func (h *H) LiveUnder(root *Task) []string {
	var out []string
	for _, t := range h.e.tasks {
		if !t.done && under(t, root) {
			site := "running"
			if t.pend != nil {
				site = opNames[t.pend.kind] + "@" + siteOf(t.pend.pc)
			}
			out = append(out, site)
		}
	}
	sort.Strings(out)
	return out
}

// Live lists all unfinished tasks except the caller.
func (h *H) Live() []string {
	var out []string
	for _, t := range h.e.tasks {
		if !t.done && t != h.e.cur {
			site := "running"
			if t.pend != nil {
				site = opNames[t.pend.kind] + "@" + siteOf(t.pend.pc)
			}
			out = append(out, t.Name+":"+site)
		}
	}
	return out
}

func JoinSites(s []string) string { return strings.Join(s, " ") }
