//go:build !vpass

// Package vsched is engine E1: a cooperative scheduler that owns every synchronisation
// operation of the instrumented code (channel send/receive/select/close, go statements,
// mutexes, wait groups, context cancellation, map iteration order, clock, ids) plus a stateless
// depth-first explorer over schedules with preemption bounding and happens-before state
// caching. Tasks are real goroutines; exactly one of them runs at a time (one baton).
package vsched

import (
	"fmt"
	"reflect"
	"runtime"
	"sort"
	"strings"
	"time"
	"unsafe"
)

type opKind uint8

const (
	opStart opKind = iota
	opSend
	opRecv
	opSelect
	opLock
	opRLock
	opYield // always enabled: before cancel(), statement points, explicit yields
	opChoose
	opWaitZero  // WaitGroup.Wait
	opOnceWait  // Once.Do while another task runs the function
	opQuiescent // enabled only when nothing else is
)

var opNames = [...]string{"start", "send", "recv", "select", "lock", "rlock", "yield", "choose", "wgwait", "oncewait", "quiescent"}

type selCase struct {
	send bool
	ch   *chanState
	val  any
	id   uintptr
}

type op struct {
	kind  opKind
	ch    *chanState
	val   any
	cases []selCase
	hasDf bool
	mu    *lockState
	n     int    // opChoose: number of alternatives
	obj   string // opYield: pseudo-object touched ("" = none)
	pc    uintptr
}

type chanState struct {
	name    string
	cap     int
	buf     []any
	closed  bool
	ver     uint64
	pin     any
	foreign bool        // std-owned channel (ctx.Done()): state is probed, never carries data
	probe   func() bool // foreign: is it closed?
	dead    bool        // foreign non-done channel (timers): never ready
}

type lockState struct {
	pin     unsafe.Pointer // keeps the address from being reused within an execution
	name    string
	writer  *Task
	readers int
	ver     uint64
	// WaitGroup
	count int
	// Once
	onceDone    bool
	onceRunning *Task
}

// Task is one goroutine under the scheduler.
type Task struct {
	ID     int
	Name   string // path of spawn indices from the root: canonical across interleavings
	Parent *Task
	Free   bool // environment task: switching to/from it costs no preemption
	nchild int
	wake   chan struct{}
	pend   *op
	done   bool
	killed bool
	step   int
	nobj   int
	// results handed over by the scheduler
	got    any
	gotOK  bool
	selIdx int
	chosen int
	acc    sigKey // hashes of local (non-parking) operations since the last transition
}

type transition struct {
	t       *Task
	variant int   // select case index / choose value / -1
	partner *Task // rendezvous receiver (or nil)
	pcase   int   // partner's select case index (-1 if plain recv)
}

// Point is one scheduling decision with at least two options.
type Point struct {
	N              int    // number of options
	Desc           uint64 // hash of the option list (replay divergence check)
	Running        int    // running task id before the decision (-1 none)
	RunningEnabled bool
	PreBefore      int      // preemptions spent before this point
	Costs          []uint8  // per option: 1 if it is a preemption
	PreKeys        []sigKey // per option: cache key of (state, option)
	OptTasks       []int
}

type sigKey struct{ a, b uint64 }

// Exec is one execution of a harness under a given choice sequence.
type Exec struct {
	tasks      []*Task
	cur        *Task
	yieldCh    chan *Task
	chans      map[uintptr]*chanState
	locks      map[uintptr]*lockState
	ctxVer     uint64
	memVer     map[string]uint64
	sig        sigKey
	steps      int64
	horizon    int64
	prefix     []int
	expect     []uint64 // recorded option-set hashes of the prefix (replay divergence check)
	Choices    []int
	Points     []Point
	pre        int
	idCtr      map[string]int
	H          *H
	fails      []Failure
	outcomes   []string
	hitCap     bool
	diverged   string
	visit      func(post sigKey, pre int) bool // called after every decision at or beyond the end of the prefix; true = state already expanded with at least this budget: stop
	clockVer   uint64
	eager      []*Task
	flatMode   bool // deviation = any choice other than the default one
	delayMode  bool // deviation = delay w.r.t. the deterministic default scheduler (instead of preemption)
	keyRunning bool // bounded search: the running task is part of the state (it decides what is a preemption)
	aborted    bool
	cleanups   []func()
	ending     bool
	log        []string
	wantLog    bool
	watchdog   *time.Timer
}

type Failure struct {
	Signature string
	Detail    string
}

var cur *Exec // the execution in progress (one per process at a time)

func curTask() *Task {
	e := cur
	if e == nil || e.cur == nil {
		panic("vsched: operation outside a scheduled task")
	}
	if e.cur.killed {
		runtime.Goexit()
	}
	return e.cur
}

// ---------------------------------------------------------------- hashing

func mix(h uint64, x uint64) uint64 {
	h ^= x + 0x9e3779b97f4a7c15 + (h << 6) + (h >> 2)
	h *= 0xff51afd7ed558ccd
	h ^= h >> 33
	return h
}

func hstr(seed uint64, s string) uint64 {
	h := seed
	for i := 0; i < len(s); i++ {
		h = (h ^ uint64(s[i])) * 0x100000001b3
	}
	return h
}

// evHash hashes one event (task, local step, what, variant, objects with versions) into a
// 128-bit value; the signature of a prefix is the SUM of its event hashes, so it is independent
// of the order of commuting events and changes whenever any (object, version) pair changes.
func evHash(task string, step int, what string, variant int, objs []string, vers []uint64) sigKey {
	a := hstr(0xcbf29ce484222325, task)
	b := hstr(0x84222325cbf29ce4, task)
	a = mix(a, uint64(step))
	b = mix(b, uint64(step)*31+7)
	a = hstr(a, what)
	b = hstr(b, what)
	a = mix(a, uint64(variant+2))
	b = mix(b, uint64(variant+5))
	for i, o := range objs {
		a = hstr(a, o)
		b = hstr(b, o)
		a = mix(a, vers[i])
		b = mix(b, vers[i]+0x1234567)
	}
	return sigKey{a, b}
}

func (k sigKey) add(o sigKey) sigKey { return sigKey{k.a + o.a, k.b + o.b} }

// ---------------------------------------------------------------- object registry

func (e *Exec) objName(t *Task) string {
	t.nobj++
	return fmt.Sprintf("%s@%d.%d", t.Name, t.step, t.nobj)
}

func (e *Exec) chanOf(ptr uintptr, capacity int, pin any, doneProbe func() bool, isStructElem bool) *chanState {
	if ptr == 0 {
		return nil
	}
	if cs, ok := e.chans[ptr]; ok {
		return cs
	}
	t := e.cur
	cs := &chanState{name: e.objName(t), cap: capacity, pin: pin}
	if doneProbe != nil && isStructElem {
		// not created by instrumented code and element type struct{}: a std context's Done channel
		cs.foreign = true
		cs.probe = doneProbe
		cs.name = "ctx"
	}
	e.chans[ptr] = cs
	return cs
}

func (e *Exec) lockOf(up unsafe.Pointer) *lockState {
	p := uintptr(up)
	if ls, ok := e.locks[p]; ok {
		return ls
	}
	ls := &lockState{name: e.objName(e.cur), pin: up}
	e.locks[p] = ls
	return ls
}

// ---------------------------------------------------------------- parking

// inline records a non-blocking operation performed as local code (unlock, close without
// scheduling, wait-group add/done, object creation) in the happens-before signature.
func (e *Exec) inline(what string, obj string, ver *uint64) {
	t := e.cur
	t.step++
	// counted in the signature when the task takes its next transition: a parked task's trailing
	// local operations are a deterministic consequence of its last transition, so leaving them out
	// until then keeps "equal signature => equal state" and makes the successor key of
	// (state, option) computable before the option is executed.
	t.acc = t.acc.add(evHash(t.Name, t.step, what, -1, []string{obj}, []uint64{*ver}))
	*ver++
}

func (e *Exec) park(o *op) {
	t := e.cur
	if t.killed {
		runtime.Goexit()
	}
	var pcs [1]uintptr
	runtime.Callers(3, pcs[:])
	o.pc = pcs[0]
	t.pend = o
	e.yieldCh <- t
	<-t.wake
	if t.killed {
		runtime.Goexit()
	}
}

func siteOf(pc uintptr) string {
	if pc == 0 {
		return "?"
	}
	fr, _ := runtime.CallersFrames([]uintptr{pc}).Next()
	f := fr.File
	if i := strings.LastIndexByte(f, '/'); i >= 0 {
		f = f[i+1:]
	}
	fn := fr.Function
	if i := strings.LastIndexByte(fn, '/'); i >= 0 {
		fn = fn[i+1:]
	}
	return fmt.Sprintf("%s:%d(%s)", f, fr.Line, fn)
}

func (e *Exec) spawn(parent *Task, free bool, f func()) *Task {
	t := &Task{ID: len(e.tasks), Parent: parent, Free: free, wake: make(chan struct{})}
	if parent == nil {
		t.Name = "r"
	} else {
		parent.nchild++
		t.Name = fmt.Sprintf("%s.%d", parent.Name, parent.nchild)
	}
	t.pend = &op{kind: opStart}
	e.tasks = append(e.tasks, t)
	if free {
		// an environment task runs up to its first scheduling point as part of the transition that
		// spawned it: only its visible action is a schedulable choice, not its start
		e.eager = append(e.eager, t)
	}
	go func() {
		<-t.wake
		defer func() {
			if r := recover(); r != nil && !t.killed { // (a task unwinding at teardown may trip over state it no longer owns)
				buf := make([]byte, 4096)
				n := runtime.Stack(buf, false)
				e.fails = append(e.fails, Failure{Signature: "panic in task: " + firstLine(fmt.Sprint(r)), Detail: fmt.Sprintf("task %s panicked: %v\n%s", t.Name, r, buf[:n])})
				e.ending = true
			}
			t.done = true
			t.pend = nil
			e.yieldCh <- t
		}()
		if t.killed {
			return
		}
		f()
	}()
	return t
}

func firstLine(s string) string {
	if i := strings.IndexByte(s, '\n'); i >= 0 {
		s = s[:i]
	}
	if len(s) > 160 {
		s = s[:160]
	}
	return s
}

// ---------------------------------------------------------------- enabledness

func (cs *chanState) recvReady() bool {
	if cs == nil {
		return false
	}
	if cs.foreign {
		if cs.dead {
			return false
		}
		return cs.probe()
	}
	return len(cs.buf) > 0 || cs.closed
}

// receivers parked on cs (plain recv or select case), excluding task self.
func (e *Exec) receiversOn(cs *chanState, self *Task) (ts []*Task, cases []int) {
	for _, t := range e.tasks {
		if t == self || t.done || t.pend == nil {
			continue
		}
		switch t.pend.kind {
		case opRecv:
			if t.pend.ch == cs {
				ts = append(ts, t)
				cases = append(cases, -1)
			}
		case opSelect:
			for i, c := range t.pend.cases {
				if !c.send && c.ch == cs {
					ts = append(ts, t)
					cases = append(cases, i)
					break
				}
			}
		}
	}
	return
}

func (e *Exec) sendOptions(t *Task, cs *chanState, variant int, out []transition) []transition {
	if cs == nil || cs.foreign {
		return out
	}
	if cs.closed {
		return append(out, transition{t: t, variant: variant, pcase: -2}) // will panic like Go
	}
	if cs.cap > 0 {
		if len(cs.buf) < cs.cap {
			out = append(out, transition{t: t, variant: variant, pcase: -1})
		}
		return out
	}
	rs, cases := e.receiversOn(cs, t)
	for i, r := range rs {
		out = append(out, transition{t: t, variant: variant, partner: r, pcase: cases[i]})
	}
	return out
}

func (e *Exec) optionsOf(t *Task, out []transition) []transition {
	o := t.pend
	if o == nil {
		return out
	}
	switch o.kind {
	case opStart, opYield:
		out = append(out, transition{t: t, variant: -1, pcase: -1})
	case opChoose:
		for i := 0; i < o.n; i++ {
			out = append(out, transition{t: t, variant: i, pcase: -1})
		}
	case opSend:
		out = e.sendOptions(t, o.ch, -1, out)
	case opRecv:
		if o.ch.recvReady() {
			out = append(out, transition{t: t, variant: -1, pcase: -1})
		}
	case opSelect:
		n0 := len(out)
		for i, c := range o.cases {
			if c.send {
				out = e.sendOptions(t, c.ch, i, out)
			} else if c.ch.recvReady() {
				out = append(out, transition{t: t, variant: i, pcase: -1})
			}
		}
		if len(out) == n0 && o.hasDf {
			// default is taken only if no case can proceed; a rendezvous offered by a parked
			// sender counts as "can proceed"
			if !e.senderWaitingFor(t) {
				out = append(out, transition{t: t, variant: -1, pcase: -1})
			}
		}
	case opLock:
		if o.mu.writer == nil && o.mu.readers == 0 {
			out = append(out, transition{t: t, variant: -1, pcase: -1})
		}
	case opRLock:
		// sync.RWMutex gives a blocked writer precedence: once a writer waits for the readers to
		// leave, new readers queue behind it (which is why recursive read locking can deadlock)
		if o.mu.writer == nil && !e.writerBlockedOn(o.mu, t) {
			out = append(out, transition{t: t, variant: -1, pcase: -1})
		}
	case opWaitZero:
		if o.mu.count == 0 {
			out = append(out, transition{t: t, variant: -1, pcase: -1})
		}
	case opOnceWait:
		if o.mu.onceDone {
			out = append(out, transition{t: t, variant: -1, pcase: -1})
		}
	}
	return out
}

// writerBlockedOn: is some other task parked in Lock() on mu while mu is held (by readers or a writer)?
func (e *Exec) writerBlockedOn(mu *lockState, self *Task) bool {
	if mu.readers == 0 && mu.writer == nil {
		return false
	}
	for _, t := range e.tasks {
		if t != self && !t.done && t.pend != nil && t.pend.kind == opLock && t.pend.mu == mu {
			return true
		}
	}
	return false
}

// senderWaitingFor: is some other task parked on a send to an unbuffered channel that one of
// t's select receive cases listens on?
func (e *Exec) senderWaitingFor(t *Task) bool {
	for _, c := range t.pend.cases {
		if c.send || c.ch == nil || c.ch.foreign || c.ch.cap > 0 {
			continue
		}
		for _, s := range e.tasks {
			if s == t || s.done || s.pend == nil {
				continue
			}
			if s.pend.kind == opSend && s.pend.ch == c.ch {
				return true
			}
			if s.pend.kind == opSelect {
				for _, sc := range s.pend.cases {
					if sc.send && sc.ch == c.ch {
						return true
					}
				}
			}
		}
	}
	return false
}

// enabled returns the enabled transitions in canonical order: those of the running task first,
// then by ascending task id; within a task by case index / partner id / choice value.
func (e *Exec) enabled() []transition {
	var out []transition
	if e.cur != nil && !e.cur.done {
		out = e.optionsOf(e.cur, out)
	}
	for _, t := range e.tasks {
		if t == e.cur || t.done {
			continue
		}
		out = e.optionsOf(t, out)
	}
	if len(out) == 0 {
		for _, t := range e.tasks {
			if !t.done && t.pend != nil && t.pend.kind == opQuiescent {
				out = append(out, transition{t: t, variant: -1, pcase: -1})
				break
			}
		}
	}
	return out
}

// ---------------------------------------------------------------- applying a transition

func (e *Exec) touch(objs *[]string, vers *[]uint64, name string, ver *uint64) {
	*objs = append(*objs, name)
	*vers = append(*vers, *ver)
}

// describe returns the event hash of a transition in the current state without applying it.
func (e *Exec) describe(tr transition) sigKey {
	var objs []string
	var vers []uint64
	t := tr.t
	o := t.pend
	what := opNames[o.kind]
	switch o.kind {
	case opSend:
		objs, vers = append(objs, o.ch.name), append(vers, o.ch.ver)
	case opRecv:
		if o.ch.foreign {
			objs, vers = append(objs, "ctx"), append(vers, e.ctxVer)
		} else {
			objs, vers = append(objs, o.ch.name), append(vers, o.ch.ver)
		}
	case opSelect:
		if tr.variant >= 0 {
			c := o.cases[tr.variant]
			if c.ch.foreign {
				objs, vers = append(objs, "ctx"), append(vers, e.ctxVer)
			} else {
				objs, vers = append(objs, c.ch.name), append(vers, c.ch.ver)
			}
		} else {
			// default: depends on the state of every channel of the select
			for _, c := range o.cases {
				if c.ch == nil {
					continue
				}
				if c.ch.foreign {
					objs, vers = append(objs, "ctx"), append(vers, e.ctxVer)
				} else {
					objs, vers = append(objs, c.ch.name), append(vers, c.ch.ver)
				}
			}
		}
	case opLock, opRLock, opWaitZero, opOnceWait:
		objs, vers = append(objs, o.mu.name), append(vers, o.mu.ver)
	case opYield:
		if o.obj == "ctx" {
			objs, vers = append(objs, "ctx"), append(vers, e.ctxVer)
		} else if o.obj != "" {
			objs, vers = append(objs, o.obj), append(vers, e.memVer[o.obj])
		}
	}
	h := evHash(t.Name, t.step+1, what, tr.variant, objs, vers).add(t.acc)
	if tr.partner != nil {
		h = h.add(evHash(tr.partner.Name, tr.partner.step+1, "rdv", tr.pcase, objs, vers)).add(tr.partner.acc)
	}
	return h
}

func (e *Exec) apply(tr transition) (resume []*Task) {
	e.sig = e.sig.add(e.describe(tr))
	t := tr.t
	t.acc = sigKey{}
	if tr.partner != nil {
		tr.partner.acc = sigKey{}
	}
	o := t.pend
	t.step++
	deliver := func(cs *chanState, val any, r *Task, rcase int) {
		r.step++
		r.got, r.gotOK = val, true
		r.selIdx = rcase
		r.pend = nil
	}
	switch o.kind {
	case opStart, opQuiescent:
	case opYield:
		if o.obj == "ctx" {
			e.ctxVer++
		} else if o.obj != "" {
			e.memVer[o.obj]++
		}
	case opChoose:
		t.chosen = tr.variant
	case opSend, opSelect:
		var cs *chanState
		var val any
		issend := o.kind == opSend
		if issend {
			cs, val = o.ch, o.val
		} else if tr.variant >= 0 && o.cases[tr.variant].send {
			cs, val = o.cases[tr.variant].ch, o.cases[tr.variant].val
			issend = true
		}
		t.selIdx = tr.variant
		if issend {
			cs.ver++
			if tr.pcase == -2 {
				t.got = errSendClosed
			} else if tr.partner != nil {
				deliver(cs, val, tr.partner, tr.pcase)
				resume = append(resume, t, tr.partner)
				t.pend = nil
				return resume
			} else {
				cs.buf = append(cs.buf, val)
			}
		} else if tr.variant >= 0 {
			e.doRecv(t, o.cases[tr.variant].ch)
		}
	case opRecv:
		e.doRecv(t, o.ch)
	case opLock:
		o.mu.writer = t
		o.mu.ver++
	case opRLock:
		o.mu.readers++
		o.mu.ver++
	case opWaitZero, opOnceWait:
		o.mu.ver++
	}
	t.pend = nil
	return append(resume, t)
}

var errSendClosed = &struct{ s string }{"send on closed channel"}

func (e *Exec) doRecv(t *Task, cs *chanState) {
	if cs.foreign {
		t.got, t.gotOK = nil, false
		return
	}
	cs.ver++
	if len(cs.buf) > 0 {
		t.got, t.gotOK = cs.buf[0], true
		cs.buf = cs.buf[1:]
		return
	}
	t.got, t.gotOK = nil, false // closed
}

func (e *Exec) resume(t *Task) {
	e.cur = t
	t.wake <- struct{}{}
	got := <-e.yieldCh
	if got != t {
		panic(fmt.Sprintf("vsched: baton confusion: woke %s, %s yielded", t.Name, got.Name))
	}
}

// ---------------------------------------------------------------- main loop

func (e *Exec) optDesc(trs []transition) uint64 {
	h := uint64(1469598103934665603)
	for _, tr := range trs {
		h = mix(h, uint64(tr.t.ID)*131+uint64(tr.variant+3))
		if tr.partner != nil {
			h = mix(h, uint64(tr.partner.ID)+977)
		}
	}
	return h
}

func (e *Exec) run(harness func(*H)) {
	cur = e
	defer func() { cur = nil }()
	root := e.spawn(nil, false, func() { harness(e.H) })
	_ = root
	var running *Task
	for !e.ending {
		if root.done {
			break
		}
		trs := e.enabled()
		if len(trs) == 0 {
			e.deadlock()
			break
		}
		e.steps++
		if e.steps > e.horizon {
			e.hitCap = true
			// an execution of a closed harness that is still taking steps after the horizon has a task
			// that keeps running without ever waiting (a spin on a closed channel, a retry loop)
			who := map[string]bool{}
			for _, tr := range trs {
				who[e.trString(tr)] = true
			}
			var ws []string
			for w := range who {
				ws = append(ws, w)
			}
			sort.Strings(ws)
			e.fails = append(e.fails, Failure{
				Signature: "livelock: the execution is still taking steps after the step horizon (a task keeps running without ever waiting)",
				Detail:    fmt.Sprintf("horizon %d steps; enabled at the horizon: %s", e.horizon, strings.Join(ws, " | ")),
			})
			break
		}
		idx := 0
		if len(trs) > 1 {
			pi := len(e.Points)
			p := Point{N: len(trs), Desc: e.optDesc(trs), Running: -1, PreBefore: e.pre}
			runEnabled := false
			if running != nil && !running.done {
				p.Running = running.ID
				for _, tr := range trs {
					if tr.t == running {
						runEnabled = true
						break
					}
				}
			}
			p.RunningEnabled = runEnabled
			p.Costs = make([]uint8, len(trs))
			p.PreKeys = make([]sigKey, len(trs))
			p.OptTasks = make([]int, len(trs))
			skipped := 0
			for i, tr := range trs {
				if e.flatMode {
					// deviation bounding: the first option of a non-environment task is the default schedule,
					// every other one (whatever its position) is one deviation; options of environment
					// tasks are free wherever they stand (an environment task with a low id must not
					// turn "let the system run on" into a deviation at every step)
					if !tr.t.Free {
						if skipped > 0 {
							p.Costs[i] = 1
						}
						skipped++
					}
				} else if e.delayMode {
					// delay bounding: the default scheduler takes the first option of the canonical
					// order; option i costs the number of non-environment options it skips
					if !tr.t.Free {
						if skipped > 250 {
							skipped = 250
						}
						p.Costs[i] = uint8(skipped)
						skipped++
					}
				} else if runEnabled && tr.t != running && !tr.t.Free && !running.Free {
					p.Costs[i] = 1
				}
				k := e.sig.add(e.describe(tr))
				if e.keyRunning {
					k.a = mix(k.a, uint64(tr.t.ID)+11)
				}
				p.PreKeys[i] = k
				p.OptTasks[i] = tr.t.ID
			}
			if pi < len(e.prefix) {
				idx = e.prefix[pi]
				if pi < len(e.expect) && e.expect[pi] != p.Desc {
					e.diverged = fmt.Sprintf("replay divergence at point %d: the enabled set differs from the recorded one (nondeterminism outside the scheduler's control)", pi)
					break
				}
				if idx >= len(trs) {
					e.diverged = fmt.Sprintf("replay divergence at point %d: choice %d of %d options", pi, idx, len(trs))
					break
				}
			}
			e.pre += int(p.Costs[idx])
			e.Points = append(e.Points, p)
			e.Choices = append(e.Choices, idx)
			if pi >= len(e.prefix) && e.visit != nil {
				// default continuation: stop as soon as it enters a state already expanded with at
				// least this budget (its alternatives at this point are still explored by the caller)
				if e.visit(p.PreKeys[idx], e.pre) {
					e.aborted = true
					break
				}
			}
		}
		tr := trs[idx]
		if e.wantLog {
			e.log = append(e.log, e.trString(tr))
		}
		running = tr.t
		for _, r := range e.apply(tr) {
			e.resume(r)
			if e.ending {
				break
			}
		}
		for len(e.eager) > 0 && !e.ending {
			t := e.eager[0]
			e.eager = e.eager[1:]
			if t.done || t.pend == nil || t.pend.kind != opStart {
				continue
			}
			e.sig = e.sig.add(evHash(t.Name, t.step+1, "start", -1, nil, nil))
			t.step++
			t.pend = nil
			e.resume(t)
		}
		e.cur = nil
	}
	e.teardown()
	// resources registered with H.Cleanup are released outside the scheduler, after every task is gone
	for i := len(e.cleanups) - 1; i >= 0; i-- {
		e.cleanups[i]()
	}
	e.cleanups = nil
}

func (e *Exec) trString(tr transition) string {
	o := tr.t.pend
	s := fmt.Sprintf("%s %s@%s", tr.t.Name, opNames[o.kind], siteOf(o.pc))
	if tr.variant >= 0 {
		s += fmt.Sprintf(" case=%d", tr.variant)
	}
	if tr.partner != nil {
		s += " ->" + tr.partner.Name
	}
	return s
}

func (e *Exec) blockedDesc() []string {
	var out []string
	for _, t := range e.tasks {
		if !t.done && t.pend != nil {
			out = append(out, fmt.Sprintf("%s:%s@%s", t.Name, opNames[t.pend.kind], siteOf(t.pend.pc)))
		}
	}
	return out
}

func (e *Exec) deadlock() {
	bl := e.blockedDesc()
	var sites []string
	for _, t := range e.tasks {
		if !t.done && t.pend != nil {
			sites = append(sites, siteOf(t.pend.pc))
		}
	}
	sort.Strings(sites)
	e.fails = append(e.fails, Failure{
		Signature: "deadlock: no enabled transition, blocked at " + strings.Join(uniq(sites), " "),
		Detail:    "blocked tasks: " + strings.Join(bl, "; "),
	})
}

func uniq(s []string) []string {
	var out []string
	for i, x := range s {
		if i == 0 || x != s[i-1] {
			out = append(out, x)
		}
	}
	return out
}

func (e *Exec) teardown() {
	// release every parked task: it unwinds with runtime.Goexit(); deferred calls that reach
	// the scheduler again exit immediately.
	for _, t := range e.tasks {
		if t.done {
			continue
		}
		t.killed = true
	}
	for _, t := range e.tasks {
		if t.done {
			continue
		}
		e.cur = t
		t.wake <- struct{}{}
		for {
			got := <-e.yieldCh
			if got == t && t.done {
				break
			}
		}
	}
	e.cur = nil
}

// ---------------------------------------------------------------- operations (called by instrumented code)

func chanPtr(ch any) uintptr { return reflect.ValueOf(ch).Pointer() }

// Go starts f as a new task.
func Go(f func()) {
	e := cur
	e.spawn(curTask(), false, f)
}

// GoFree starts an environment task (scheduled at no preemption cost).
func GoFree(f func()) {
	e := cur
	e.spawn(curTask(), true, f)
}

// Made registers a channel created by instrumented code and returns it unchanged.
func Made[C any](c C) C {
	e := cur
	v := reflect.ValueOf(c)
	if v.Kind() == reflect.Chan && !v.IsNil() {
		if _, ok := e.chans[v.Pointer()]; !ok {
			e.cur.step++
			cs := &chanState{name: e.objName(e.cur), cap: v.Cap(), pin: c}
			e.chans[v.Pointer()] = cs
		}
	}
	return c
}

func isStructElem[T any]() bool {
	var z T
	_, ok := any(z).(struct{})
	return ok
}

func stateOfRecv[T any](ch <-chan T) *chanState {
	if ch == nil {
		return nil
	}
	e := cur
	p := chanPtr(ch)
	if cs, ok := e.chans[p]; ok {
		return cs
	}
	return e.chanOf(p, cap(ch), ch, func() bool {
		select {
		case <-ch:
			return true
		default:
			return false
		}
	}, isStructElem[T]())
}

func stateOfSend[T any](ch chan<- T) *chanState {
	if ch == nil {
		return nil
	}
	e := cur
	p := chanPtr(ch)
	if cs, ok := e.chans[p]; ok {
		if cs.foreign { // instrumented code sends on it: it is ours after all
			cs.foreign, cs.dead, cs.probe = false, false, nil
			cs.name = e.objName(e.cur)
		}
		return cs
	}
	// a channel first seen on its send side was not created by instrumented code; adopt it
	if len(ch) != 0 {
		panic("vsched: adopting a non-empty foreign channel")
	}
	return e.chanOf(p, cap(ch), ch, nil, false)
}

func SendTo[T any](ch chan<- T) func(T) {
	return func(v T) {
		e := cur
		t := curTask()
		cs := stateOfSend(ch)
		e.park(&op{kind: opSend, ch: cs, val: any(v)})
		if t.got == any(errSendClosed) {
			t.got = nil
			panic("send on closed channel")
		}
	}
}

func conv[T any](v any) T {
	if v == nil {
		var z T
		return z
	}
	return v.(T)
}

func Recv[T any](ch <-chan T) T {
	e := cur
	t := curTask()
	e.park(&op{kind: opRecv, ch: stateOfRecv(ch)})
	return conv[T](t.got)
}

func Recv2[T any](ch <-chan T) (T, bool) {
	e := cur
	t := curTask()
	e.park(&op{kind: opRecv, ch: stateOfRecv(ch)})
	return conv[T](t.got), t.gotOK
}

// Caser is one communication clause of a select.
type Caser interface{ selCase() selCase }

type RecvCase[T any] struct{ c selCase }

func (r *RecvCase[T]) selCase() selCase { return r.c }

// Got / Got2 return the value received when this case was selected.
func (r *RecvCase[T]) Got() T { return conv[T](curTask().got) }

func (r *RecvCase[T]) Got2() (T, bool) { t := curTask(); return conv[T](t.got), t.gotOK }

type SendCase struct{ c selCase }

func (s *SendCase) selCase() selCase { return s.c }

func CaseRecv[T any](ch <-chan T) *RecvCase[T] {
	return &RecvCase[T]{selCase{ch: stateOfRecv(ch)}}
}

func CaseSend[T any](ch chan<- T) func(T) *SendCase {
	return func(v T) *SendCase {
		return &SendCase{selCase{send: true, ch: stateOfSend(ch), val: any(v)}}
	}
}

// Select parks until one case can proceed and returns its index, or -1 for default.
func Select(hasDefault bool, cases ...Caser) int {
	e := cur
	t := curTask()
	o := &op{kind: opSelect, hasDf: hasDefault, cases: make([]selCase, len(cases))}
	for i, c := range cases {
		o.cases[i] = c.selCase()
	}
	e.park(o)
	if t.got == any(errSendClosed) {
		t.got = nil
		panic("send on closed channel")
	}
	return t.selIdx
}

func Close[T any](ch chan<- T) {
	e := cur
	curTask()
	if ch == nil {
		panic("close of nil channel")
	}
	cs := stateOfSend(ch)
	// closing is visible to everyone parked on the channel: make it a scheduling point
	e.park(&op{kind: opYield})
	if cs.closed {
		panic("close of closed channel")
	}
	e.inline("close", cs.name, &cs.ver)
	cs.closed = true
}

// Len is len(ch) for a channel of any direction (the scheduler owns the buffer).
func Len(ch any) int {
	v := reflect.ValueOf(ch)
	if v.Kind() != reflect.Chan || v.IsNil() {
		return 0
	}
	e := cur
	curTask()
	if cs, ok := e.chans[v.Pointer()]; ok && !cs.foreign {
		return len(cs.buf)
	}
	return v.Len()
}

// Cancel is a context.CancelFunc call: a scheduling point, then the real cancel as local code.
func Cancel(c func()) {
	e := cur
	curTask()
	e.park(&op{kind: opYield, obj: "ctx"})
	c()
}

// Yield is an explicit scheduling point.
func Yield() { cur.park(&op{kind: opYield}) }

// Mem is a statement point (C15 mode): a scheduling point that counts as an access to one
// pseudo-object, so that code between two lock operations is no longer atomic.
func Mem(obj string) { cur.park(&op{kind: opYield, obj: obj}) }

func choose(n int) int {
	if n <= 1 {
		return 0
	}
	e := cur
	t := curTask()
	e.park(&op{kind: opChoose, n: n})
	return t.chosen
}

// SortedKeys returns the keys of m in a canonical order (statement-point mode: map iteration
// order must not influence the sequence of scheduling points). Pointer keys are ordered by the
// value they point to, never by address.
func SortedKeys[K comparable, V any](m map[K]V) []K {
	keys := make([]K, 0, len(m))
	strs := make(map[K]string, len(m))
	for k := range m {
		keys = append(keys, k)
		v := reflect.ValueOf(k)
		if v.Kind() == reflect.Pointer && !v.IsNil() {
			strs[k] = fmt.Sprintf("%+v", v.Elem().Interface())
		} else {
			strs[k] = fmt.Sprintf("%+v", k)
		}
	}
	sort.Slice(keys, func(i, j int) bool { return strs[keys[i]] < strs[keys[j]] })
	return keys
}

// RangeKeys returns the keys of m in an order that is an explorer choice (all permutations).
func RangeKeys[K comparable, V any](m map[K]V) []K {
	keys := make([]K, 0, len(m))
	for k := range m {
		keys = append(keys, k)
	}
	sort.Slice(keys, func(i, j int) bool { return fmt.Sprint(keys[i]) < fmt.Sprint(keys[j]) })
	// Lehmer-code permutation chosen by the explorer
	out := make([]K, 0, len(keys))
	for len(keys) > 0 {
		i := choose(len(keys))
		out = append(out, keys[i])
		keys = append(keys[:i], keys[i+1:]...)
	}
	return out
}

var t0 = time.Unix(1700000000, 0)

func Now() time.Time                  { return t0 }
func Since(t time.Time) time.Duration { return t0.Sub(t) }
func Until(t time.Time) time.Duration { return t.Sub(t0) }

// NewID replaces uuid.NewString: canonical per task.
func NewID() string {
	e := cur
	t := curTask()
	e.idCtr[t.Name]++
	return fmt.Sprintf("id-%s-%d", t.Name, e.idCtr[t.Name])
}

// ---------------------------------------------------------------- locks (used by vsync)

func LockOp(p unsafe.Pointer, read bool) {
	e := cur
	curTask()
	ls := e.lockOf(p)
	if read {
		e.park(&op{kind: opRLock, mu: ls})
	} else {
		e.park(&op{kind: opLock, mu: ls})
	}
}

func UnlockOp(p unsafe.Pointer, read bool) {
	e := cur
	t := curTask()
	ls := e.lockOf(p)
	if read {
		if ls.readers <= 0 {
			panic("sync: RUnlock of unlocked RWMutex")
		}
		ls.readers--
	} else {
		if ls.writer == nil {
			panic("sync: unlock of unlocked mutex")
		}
		_ = t
		ls.writer = nil
	}
	e.inline("unlock", ls.name, &ls.ver)
}

func TryLockOp(p unsafe.Pointer, read bool) bool {
	e := cur
	curTask()
	ls := e.lockOf(p)
	e.park(&op{kind: opYield})
	ok := false
	if read {
		if ls.writer == nil {
			ls.readers++
			ok = true
		}
	} else if ls.writer == nil && ls.readers == 0 {
		ls.writer = e.cur
		ok = true
	}
	e.inline("trylock", ls.name, &ls.ver)
	return ok
}

func WGAdd(p unsafe.Pointer, n int) {
	e := cur
	curTask()
	ls := e.lockOf(p)
	ls.count += n
	if ls.count < 0 {
		panic("sync: negative WaitGroup counter")
	}
	e.inline("wgadd", ls.name, &ls.ver)
}

func WGWait(p unsafe.Pointer) {
	e := cur
	curTask()
	ls := e.lockOf(p)
	e.park(&op{kind: opWaitZero, mu: ls})
}

func OnceDo(p unsafe.Pointer, f func()) {
	e := cur
	t := curTask()
	ls := e.lockOf(p)
	if ls.onceDone {
		return
	}
	if ls.onceRunning != nil {
		e.park(&op{kind: opOnceWait, mu: ls})
		return
	}
	e.park(&op{kind: opYield})
	if ls.onceDone {
		return
	}
	if ls.onceRunning != nil {
		e.park(&op{kind: opOnceWait, mu: ls})
		return
	}
	ls.onceRunning = t
	e.inline("oncebegin", ls.name, &ls.ver)
	defer func() {
		ls.onceDone = true
		ls.onceRunning = nil
		e.inline("onceend", ls.name, &ls.ver)
	}()
	f()
}
