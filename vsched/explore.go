//go:build !vpass

package vsched

import (
	"fmt"
	"os"
	"sort"
	"strconv"
	"strings"
	"sync/atomic"
	"time"
)

// Config bounds one exploration.
type Config struct {
	Bound    int   // maximal number of preemptions; <0 = unbounded (complete up to state caching)
	Horizon  int64 // maximal scheduler steps per execution
	MaxExecs int64 // stop after this many executions (0 = no cap); a hit cap is reported, never hidden
	Deadline time.Time
	Params   map[string]int
	Shard    int // this process explores the level-1 alternatives with index % NShards == Shard
	NShards  int
	NoCache  bool
	Flat     bool // Bound counts deviations: any non-default choice costs one
	Delay    bool // Bound counts delays (deviations from the deterministic default scheduler) instead of preemptions
	KeepLog  bool
}

type Found struct {
	Signature string   `json:"signature"`
	Detail    string   `json:"detail"`
	Choices   []int    `json:"choices"`
	Pre       int      `json:"preemptions"`
	Log       []string `json:"log,omitempty"`
}

type Result struct {
	Executions  int64 // runs of the implementation (complete + aborted at an already expanded state)
	Complete    int64 // runs that reached the end of the harness and had all oracles evaluated
	Transitions int64
	States      int64 // distinct happens-before signatures seen at decision points
	Pruned      int64 // alternatives skipped because (state, option) was already expanded with >= budget
	MaxPoints   int
	MaxTasks    int
	Outcomes    map[string]int64
	Failures    []Found
	Capped      string
	Diverged    string
	HorizonHits int64
}

type explorer struct {
	cfg     Config
	harness func(*H)
	res     *Result
	pre     map[sigKey]int8
	post    map[sigKey]int8
	seenSig map[string]bool
	stop    bool
}

var progress atomic.Int64

func init() {
	// watchdog: a task that blocks on an operation the scheduler does not own would hang the
	// process; turn that into an infrastructure error instead.
	go func() {
		last := int64(-1)
		idle := 0
		for {
			time.Sleep(5 * time.Second)
			p := progress.Load()
			if cur != nil && p == last {
				idle++
				if idle >= 12 {
					fmt.Fprintf(os.Stderr, "INFRA: scheduler made no progress for 60s (a task is blocked outside the scheduler?)\n")
					if e := cur; e != nil {
						fmt.Fprintf(os.Stderr, "  parked: %v\n", e.blockedDesc())
					}
					os.Exit(2)
				}
			} else {
				idle = 0
			}
			last = p
		}
	}()
}

func (x *explorer) budget(pre int) int8 {
	if x.cfg.Bound < 0 {
		return 100
	}
	return int8(x.cfg.Bound - pre)
}

func (x *explorer) runOnce(prefix []int, expect []uint64, keepLog bool) *Exec {
	e := &Exec{
		yieldCh:    make(chan *Task),
		chans:      map[uintptr]*chanState{},
		locks:      map[uintptr]*lockState{},
		memVer:     map[string]uint64{},
		idCtr:      map[string]int{},
		horizon:    x.cfg.Horizon,
		prefix:     prefix,
		wantLog:    keepLog,
		keyRunning: x.cfg.Bound >= 0,
		delayMode:  x.cfg.Delay && x.cfg.Bound >= 0,
		flatMode:   x.cfg.Flat && x.cfg.Bound >= 0,
	}
	e.H = &H{e: e, params: x.cfg.Params}
	if !x.cfg.NoCache && x.post != nil {
		e.visit = func(k sigKey, pre int) bool {
			b := x.budget(pre)
			if v, ok := x.post[k]; ok && v >= b {
				return true
			}
			if _, ok := x.post[k]; !ok {
				x.res.States++
			}
			x.post[k] = b
			return false
		}
	}
	e.run(x.harness)
	progress.Add(1)
	return e
}

func (x *explorer) record(e *Exec) {
	r := x.res
	r.Executions++
	r.Transitions += e.steps
	if len(e.Points) > r.MaxPoints {
		r.MaxPoints = len(e.Points)
	}
	if len(e.tasks) > r.MaxTasks {
		r.MaxTasks = len(e.tasks)
	}
	if e.diverged != "" && r.Diverged == "" {
		r.Diverged = e.diverged
		x.stop = true
	}
	if e.hitCap {
		r.HorizonHits++
	}
	if !e.aborted {
		r.Complete++
		for _, o := range e.outcomes {
			r.Outcomes[o]++
		}
	}
	for _, f := range e.fails {
		if x.seenSig[f.Signature] {
			continue
		}
		x.seenSig[f.Signature] = true
		// confirm by replaying the recorded schedule twice: identical observations required
		ch := append([]int{}, e.Choices...)
		ok := true
		var log []string
		for rep := 0; rep < 2; rep++ {
			save := x.post
			x.post = nil
			e2 := x.runOnce(ch, descs(e), true)
			x.post = save
			r.Executions++
			r.Transitions += e2.steps
			same := false
			for _, f2 := range e2.fails {
				if f2.Signature == f.Signature {
					same = true
				}
			}
			if !same || e2.diverged != "" {
				ok = false
			}
			log = e2.log
		}
		if !ok {
			r.Diverged = fmt.Sprintf("failure %q did not reproduce when its schedule was replayed", f.Signature)
			x.stop = true
			continue
		}
		r.Failures = append(r.Failures, Found{Signature: f.Signature, Detail: f.Detail, Choices: ch, Pre: e.pre, Log: log})
	}
}

func (x *explorer) capped() bool {
	if x.stop {
		return true
	}
	if x.cfg.MaxExecs > 0 && x.res.Executions >= x.cfg.MaxExecs {
		x.res.Capped = fmt.Sprintf("execution cap %d reached", x.cfg.MaxExecs)
		return true
	}
	if !x.cfg.Deadline.IsZero() && x.res.Executions%64 == 0 && time.Now().After(x.cfg.Deadline) {
		x.res.Capped = "time budget reached"
		return true
	}
	if x.res.Executions%256 == 0 && rssMB() > rssLimitMB {
		x.res.Capped = fmt.Sprintf("memory budget of the worker process (%d MB) reached", rssLimitMB)
		return true
	}
	return false
}

// rssLimitMB: a worker that grows beyond this ends its job as capped (not exhaustive) instead of
// being killed by the kernel. VERIF_WORKER_RSS_MB overrides.
var rssLimitMB = func() int {
	if v, err := strconv.Atoi(os.Getenv("VERIF_WORKER_RSS_MB")); err == nil && v > 0 {
		return v
	}
	return 3000
}()

func rssMB() int {
	b, err := os.ReadFile("/proc/self/statm")
	if err != nil {
		return 0
	}
	f := strings.Fields(string(b))
	if len(f) < 2 {
		return 0
	}
	pages, _ := strconv.Atoi(f[1])
	return pages * os.Getpagesize() >> 20
}

func descs(e *Exec) []uint64 {
	d := make([]uint64, len(e.Points))
	for i := range e.Points {
		d[i] = e.Points[i].Desc
	}
	return d
}

func (x *explorer) explore(prefix []int, expect []uint64, depth int) {
	if x.capped() {
		return
	}
	e := x.runOnce(prefix, expect, false)
	x.record(e)
	if e.diverged != "" {
		return
	}
	unit := 0
	for i := len(prefix); i < len(e.Points); i++ {
		p := &e.Points[i]
		for alt := 1; alt < p.N; alt++ {
			cost := p.PreBefore + int(p.Costs[alt])
			if x.cfg.Bound >= 0 && cost > x.cfg.Bound {
				continue
			}
			if depth == 0 && x.cfg.NShards > 1 {
				unit++
				if unit%x.cfg.NShards != x.cfg.Shard {
					continue
				}
			}
			if !x.cfg.NoCache {
				b := x.budget(cost)
				if v, ok := x.post[p.PreKeys[alt]]; ok && v >= b {
					x.res.Pruned++
					continue
				}
				if _, ok := x.post[p.PreKeys[alt]]; !ok {
					x.res.States++
				}
				x.post[p.PreKeys[alt]] = b
			}
			np := make([]int, i+1)
			copy(np, e.Choices[:i])
			np[i] = alt
			x.explore(np, descs(e)[:i+1], depth+1)
			if x.capped() {
				return
			}
		}
	}
}

// Explore runs the harness under every schedule within cfg's bounds.
func Explore(cfg Config, harness func(*H)) *Result {
	if cfg.Horizon == 0 {
		cfg.Horizon = 20000
	}
	x := &explorer{cfg: cfg, harness: harness, res: &Result{Outcomes: map[string]int64{}},
		pre: map[sigKey]int8{}, post: map[sigKey]int8{}, seenSig: map[string]bool{}}
	x.explore(nil, nil, 0)
	sort.Slice(x.res.Failures, func(i, j int) bool { return x.res.Failures[i].Signature < x.res.Failures[j].Signature })
	return x.res
}

// Replay runs one recorded schedule and returns its failures and transition log.
func Replay(cfg Config, harness func(*H), choices []int) (fails []Failure, log []string, diverged string) {
	if cfg.Horizon == 0 {
		cfg.Horizon = 20000
	}
	x := &explorer{cfg: cfg, harness: harness, res: &Result{Outcomes: map[string]int64{}}}
	e := x.runOnce(choices, nil, true)
	return e.fails, e.log, e.diverged
}
