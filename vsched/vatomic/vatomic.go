//go:build !vpass

// Package vatomic replaces package sync/atomic in instrumented files: same API, every operation
// is a scheduling point (an access to one pseudo-object), then a plain memory operation - tasks
// run one at a time. The pinned tree does not use sync/atomic; seeded changes did (a memo shared
// between sessions that is checked, stored and loaded again).
package vatomic

import "verifkit/vsched"

// point brackets every operation with two scheduling points: one before it (the operation itself is
// indivisible) and one after it, so that whatever un-instrumented code follows (e.g. publishing the
// value just obtained to a metrics gauge) is a step of its own and other tasks can run in between.
func point() func() { vsched.Mem("atomic"); return after }

func after() { vsched.Mem("atomic") }

type Int32 struct{ v int32 }

func (x *Int32) Load() int32        { defer point()(); return x.v }
func (x *Int32) Store(v int32)      { defer point()(); x.v = v }
func (x *Int32) Add(d int32) int32  { defer point()(); x.v += d; return x.v }
func (x *Int32) Swap(v int32) int32 { defer point()(); o := x.v; x.v = v; return o }
func (x *Int32) CompareAndSwap(o, n int32) bool {
	defer point()()
	if x.v == o {
		x.v = n
		return true
	}
	return false
}

type Int64 struct{ v int64 }

func (x *Int64) Load() int64        { defer point()(); return x.v }
func (x *Int64) Store(v int64)      { defer point()(); x.v = v }
func (x *Int64) Add(d int64) int64  { defer point()(); x.v += d; return x.v }
func (x *Int64) Swap(v int64) int64 { defer point()(); o := x.v; x.v = v; return o }
func (x *Int64) CompareAndSwap(o, n int64) bool {
	defer point()()
	if x.v == o {
		x.v = n
		return true
	}
	return false
}

type Uint32 struct{ v uint32 }

func (x *Uint32) Load() uint32         { defer point()(); return x.v }
func (x *Uint32) Store(v uint32)       { defer point()(); x.v = v }
func (x *Uint32) Add(d uint32) uint32  { defer point()(); x.v += d; return x.v }
func (x *Uint32) Swap(v uint32) uint32 { defer point()(); o := x.v; x.v = v; return o }
func (x *Uint32) CompareAndSwap(o, n uint32) bool {
	defer point()()
	if x.v == o {
		x.v = n
		return true
	}
	return false
}

type Uint64 struct{ v uint64 }

func (x *Uint64) Load() uint64         { defer point()(); return x.v }
func (x *Uint64) Store(v uint64)       { defer point()(); x.v = v }
func (x *Uint64) Add(d uint64) uint64  { defer point()(); x.v += d; return x.v }
func (x *Uint64) Swap(v uint64) uint64 { defer point()(); o := x.v; x.v = v; return o }
func (x *Uint64) CompareAndSwap(o, n uint64) bool {
	defer point()()
	if x.v == o {
		x.v = n
		return true
	}
	return false
}

type Bool struct{ v bool }

func (x *Bool) Load() bool       { defer point()(); return x.v }
func (x *Bool) Store(v bool)     { defer point()(); x.v = v }
func (x *Bool) Swap(v bool) bool { defer point()(); o := x.v; x.v = v; return o }
func (x *Bool) CompareAndSwap(o, n bool) bool {
	defer point()()
	if x.v == o {
		x.v = n
		return true
	}
	return false
}

type Pointer[T any] struct{ p *T }

func (x *Pointer[T]) Load() *T     { defer point()(); return x.p }
func (x *Pointer[T]) Store(v *T)   { defer point()(); x.p = v }
func (x *Pointer[T]) Swap(v *T) *T { defer point()(); o := x.p; x.p = v; return o }
func (x *Pointer[T]) CompareAndSwap(o, n *T) bool {
	defer point()()
	if x.p == o {
		x.p = n
		return true
	}
	return false
}

type Value struct{ v any }

func (x *Value) Load() any      { defer point()(); return x.v }
func (x *Value) Store(v any)    { defer point()(); x.v = v }
func (x *Value) Swap(v any) any { defer point()(); o := x.v; x.v = v; return o }
func (x *Value) CompareAndSwap(o, n any) bool {
	defer point()()
	if x.v == o {
		x.v = n
		return true
	}
	return false
}

func AddInt32(p *int32, d int32) int32     { defer point()(); *p += d; return *p }
func AddInt64(p *int64, d int64) int64     { defer point()(); *p += d; return *p }
func AddUint32(p *uint32, d uint32) uint32 { defer point()(); *p += d; return *p }
func AddUint64(p *uint64, d uint64) uint64 { defer point()(); *p += d; return *p }
func LoadInt32(p *int32) int32             { defer point()(); return *p }
func LoadInt64(p *int64) int64             { defer point()(); return *p }
func LoadUint32(p *uint32) uint32          { defer point()(); return *p }
func LoadUint64(p *uint64) uint64          { defer point()(); return *p }
func StoreInt32(p *int32, v int32)         { defer point()(); *p = v }
func StoreInt64(p *int64, v int64)         { defer point()(); *p = v }
func StoreUint32(p *uint32, v uint32)      { defer point()(); *p = v }
func StoreUint64(p *uint64, v uint64)      { defer point()(); *p = v }
func SwapInt32(p *int32, v int32) int32    { defer point()(); o := *p; *p = v; return o }
func SwapInt64(p *int64, v int64) int64    { defer point()(); o := *p; *p = v; return o }
func CompareAndSwapInt32(p *int32, o, n int32) bool {
	defer point()()
	if *p == o {
		*p = n
		return true
	}
	return false
}
func CompareAndSwapInt64(p *int64, o, n int64) bool {
	defer point()()
	if *p == o {
		*p = n
		return true
	}
	return false
}
func CompareAndSwapUint32(p *uint32, o, n uint32) bool {
	defer point()()
	if *p == o {
		*p = n
		return true
	}
	return false
}
func CompareAndSwapUint64(p *uint64, o, n uint64) bool {
	defer point()()
	if *p == o {
		*p = n
		return true
	}
	return false
}
