//go:build vpass

// Passthrough implementation of the harness API for the free-running race pass: harness bodies
// are compiled UN-instrumented (plain goroutines, real channels, real sync) and run under the Go
// race detector. A cooperative scheduler's hand-offs are happens-before edges and would blind the
// detector, hence this separate build. Only harnesses that spawn their tasks through H.Spawn are
// meaningful here (quiescence = all spawned tasks have returned).
package vsched

import (
	"fmt"
	"runtime"
	"strings"
	"sync"
	"sync/atomic"
	"time"
)

type Task struct{ done atomic.Bool }

func (t *Task) Done() bool { return t == nil || t.done.Load() }

type Failure struct {
	Signature string
	Detail    string
}

type H struct {
	Params   map[string]int
	mu       sync.Mutex
	Fails    []Failure
	Outcomes []string
	wg       sync.WaitGroup
	clock    atomic.Int64
	cleanups []func()
}

func (h *H) Cleanup(f func()) { h.mu.Lock(); h.cleanups = append(h.cleanups, f); h.mu.Unlock() }

// RunCleanups is called by the free-running driver after the harness body returned.
func (h *H) RunCleanups() {
	for i := len(h.cleanups) - 1; i >= 0; i-- {
		h.cleanups[i]()
	}
	h.cleanups = nil
}

func (h *H) Param(name string, def int) int {
	if v, ok := h.Params[name]; ok {
		return v
	}
	return def
}

func (h *H) Fail(signature, detail string) {
	h.mu.Lock()
	h.Fails = append(h.Fails, Failure{signature, detail})
	h.mu.Unlock()
}

func (h *H) Failf(signature, format string, a ...any) { h.Fail(signature, fmt.Sprintf(format, a...)) }

func (h *H) Observe(o string) { h.mu.Lock(); h.Outcomes = append(h.Outcomes, o); h.mu.Unlock() }

func (h *H) WaitQuiescent() { h.wg.Wait() }

func (h *H) Stamp() int64 { return h.clock.Add(1) }

func (h *H) Choose(n int) int { return 0 }

// Yield: a pure scheduling point under the scheduler; here the Go scheduler's.
func Yield() { runtime.Gosched() }

func (h *H) Spawn(f func()) *Task {
	t := &Task{}
	h.wg.Add(1)
	go func() {
		defer h.wg.Done()
		defer t.done.Store(true)
		f()
	}()
	return t
}

func (h *H) SpawnFree(f func()) *Task { return h.Spawn(f) }

func (h *H) LiveUnder(root *Task) []string { return nil }

func (h *H) Live() []string { return nil }

func JoinSites(s []string) string { return strings.Join(s, " ") }

// The virtual clock of the scheduled build (harness code may name it).
var t0 = time.Unix(1700000000, 0)

func Now() time.Time                  { return t0 }
func Since(t time.Time) time.Duration { return t0.Sub(t) }
func Until(t time.Time) time.Duration { return t.Sub(t0) }
