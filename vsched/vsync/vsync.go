//go:build !vpass

// Package vsync replaces package sync in instrumented files: same API, implemented on the
// cooperative scheduler (lock acquisition and waiting are scheduling points).
package vsync

import (
	"sync"
	"unsafe"

	"verifkit/vsched"
)

type Locker = sync.Locker
type Map = sync.Map

// Pool is a deterministic sync.Pool: a LIFO free list that is never cleared by the collector, so an
// object put back is exactly what the next Get hands out - in every execution and every replay
// (the real pool's per-P caches and GC clearing are nondeterminism the scheduler does not own;
// handing an object out again as soon as possible is the behaviour that exposes premature reuse).
// No locking: tasks run one at a time.
type Pool struct {
	New   func() any
	items []any
}

func (p *Pool) Get() any {
	if n := len(p.items); n > 0 {
		x := p.items[n-1]
		p.items = p.items[:n-1]
		return x
	}
	if p.New != nil {
		return p.New()
	}
	return nil
}

func (p *Pool) Put(x any) {
	if x != nil {
		p.items = append(p.items, x)
	}
}

type Mutex struct{ _ byte }

func (m *Mutex) Lock()         { vsched.LockOp(unsafe.Pointer(m), false) }
func (m *Mutex) Unlock()       { vsched.UnlockOp(unsafe.Pointer(m), false) }
func (m *Mutex) TryLock() bool { return vsched.TryLockOp(unsafe.Pointer(m), false) }

type RWMutex struct{ _ byte }

func (m *RWMutex) Lock()          { vsched.LockOp(unsafe.Pointer(m), false) }
func (m *RWMutex) Unlock()        { vsched.UnlockOp(unsafe.Pointer(m), false) }
func (m *RWMutex) RLock()         { vsched.LockOp(unsafe.Pointer(m), true) }
func (m *RWMutex) RUnlock()       { vsched.UnlockOp(unsafe.Pointer(m), true) }
func (m *RWMutex) TryLock() bool  { return vsched.TryLockOp(unsafe.Pointer(m), false) }
func (m *RWMutex) TryRLock() bool { return vsched.TryLockOp(unsafe.Pointer(m), true) }

type WaitGroup struct{ _ byte }

func (w *WaitGroup) Add(n int) { vsched.WGAdd(unsafe.Pointer(w), n) }
func (w *WaitGroup) Done()     { vsched.WGAdd(unsafe.Pointer(w), -1) }
func (w *WaitGroup) Wait()     { vsched.WGWait(unsafe.Pointer(w)) }
func (w *WaitGroup) Go(f func()) {
	w.Add(1)
	vsched.Go(func() { defer w.Done(); f() })
}

type Once struct{ _ byte }

func (o *Once) Do(f func()) { vsched.OnceDo(unsafe.Pointer(o), f) }

func OnceFunc(f func()) func() {
	var o Once
	return func() { o.Do(f) }
}
