#!/bin/sh
# Builds the driver and warms the Go build cache for every build kind (offline; files on disk only).
cd "$(dirname "$0")" || exit 1
export PATH=/opt/veriftools/go1.26.8/bin:$PATH GOFLAGS=-mod=mod GOPROXY=off GOSUMDB=off GOTOOLCHAIN=local CGO_ENABLED=1
mkdir -p bin evidence
go1.26.8 build -o bin/vcheckd ./cmd/vcheckd || exit 1
bin/vcheckd build ${VERIF_BUILD_KINDS:-plain p:c01 p:c10 p:c11 p:c20 p:cache p:sqlite p:ws inst stmt race} || exit 1
echo "setup ok"
