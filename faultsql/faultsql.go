// Package faultsql is engine E4: a database/sql driver that wraps mattn/go-sqlite3, counts every
// driver call made while a Plan is armed (Conn.BeginTx, each Conn.PrepareContext, each
// Stmt.ExecContext / Stmt.QueryContext, Conn.ExecContext / Conn.QueryContext, Tx.Commit,
// Tx.Rollback) and makes exactly one chosen call fail in a chosen way.
//
// Failure modes (what the code under test sees is always a plain error, never driver.ErrBadConn,
// so that database/sql does not transparently retry the call on another connection):
//
//	ModeError  the call is not executed and an error is returned. For Tx.Commit this models a
//	           failing COMMIT the way go-sqlite3 itself behaves (SQLiteTx.Commit rolls the
//	           transaction back when COMMIT fails): the underlying transaction is rolled back
//	           and the error is returned. Returning an error from Commit while leaving the
//	           underlying transaction open would be an artefact of the wrapper.
//	ModeDrop   the connection is lost while the transaction is open: all statements of the
//	           connection are finalized, the underlying connection is closed (SQLite rolls the
//	           open transaction back), the call and every later call on that connection return an
//	           error and the pool discards the connection (driver.Validator).
//	ModeKill   the process sends itself SIGKILL at the call (used in a child process; the parent
//	           reopens the database file).
//
// Each *sql.DB gets its own Plan (OpenDB), so explorations can run in parallel. The name
// "sqlite3-fault" is registered as well and uses the package-level DefaultPlan.
package faultsql

import (
	"context"
	"database/sql"
	"database/sql/driver"
	"encoding/hex"
	"errors"
	"fmt"
	"os"
	"strings"
	"sync"
	"syscall"
	"time"

	sqlite3 "github.com/mattn/go-sqlite3"
)

type Mode int

const (
	ModeNone Mode = iota
	ModeError
	ModeDrop
	ModeKill
)

func (m Mode) String() string {
	switch m {
	case ModeError:
		return "error"
	case ModeDrop:
		return "drop"
	case ModeKill:
		return "kill"
	}
	return "none"
}

// ErrInjected is what a failed call returns.
var ErrInjected = errors.New("faultsql: injected failure")

// ErrDropped is what every call on a dropped connection returns.
var ErrDropped = errors.New("faultsql: connection dropped")

// Plan counts calls while armed and fails the call with index FailAt (0-based) once.
type Plan struct {
	mu     sync.Mutex
	armed  bool
	failAt int
	mode   Mode
	n      int
	log    []string
	fired  string // kind of the failed call ("" = not fired)
	// schedule mode (ArmFunc): decide is asked for every call; records keeps every call with
	// the time.Now() of the calling goroutine (virtual time inside a synctest bubble)
	decide  func(CallInfo) Mode
	records []CallRecord
	attempt int
	inAtt   int
	// BeforeKill, when set, runs just before the process kills itself (tests only).
	BeforeKill func()
}

// CallInfo identifies one driver call. Attempt counts the `begin` calls seen so far minus one
// (every insertion attempt of the store starts with exactly one BeginTx); calls before the first
// begin have Attempt -1.
type CallInfo struct {
	Index          int
	Attempt        int
	IndexInAttempt int
	Kind           string
	// Tag is the hex form of the first []byte argument of a Stmt.ExecContext call (for the
	// `events` statement that is the event id): it tells which batch an attempt carries.
	Tag string
}

// CallRecord is one observed call.
type CallRecord struct {
	CallInfo
	At     time.Time
	Failed Mode
}

func NewPlan() *Plan { return &Plan{failAt: -1, attempt: -1} }

// ArmFunc starts counting from zero and lets decide choose, for every call, whether and how it
// fails (any number of faults; ModeNone = let it through). decide runs under the plan's lock.
func (p *Plan) ArmFunc(decide func(CallInfo) Mode) {
	p.mu.Lock()
	p.armed, p.failAt, p.mode, p.n, p.log, p.fired = true, -1, ModeNone, 0, nil, ""
	p.decide, p.records, p.attempt, p.inAtt = decide, nil, -1, 0
	p.mu.Unlock()
}

// Records returns every call seen since the last Arm/ArmFunc.
func (p *Plan) Records() []CallRecord {
	p.mu.Lock()
	defer p.mu.Unlock()
	return append([]CallRecord(nil), p.records...)
}

// Arm starts counting from zero; failAt < 0 only counts.
func (p *Plan) Arm(failAt int, mode Mode) {
	p.mu.Lock()
	p.armed, p.failAt, p.mode, p.n, p.log, p.fired = true, failAt, mode, 0, nil, ""
	p.decide, p.records, p.attempt, p.inAtt = nil, nil, -1, 0
	p.mu.Unlock()
}

// Disarm stops counting and returns the number of calls seen, their kinds, and the kind of the
// call that was failed ("" when none was).
func (p *Plan) Disarm() (n int, kinds []string, fired string) {
	p.mu.Lock()
	defer p.mu.Unlock()
	p.armed = false
	return p.n, append([]string(nil), p.log...), p.fired
}

// step registers one driver call; it returns the mode in which this call has to fail.
func (p *Plan) step(kind string, tag ...string) Mode {
	if p == nil {
		return ModeNone
	}
	p.mu.Lock()
	defer p.mu.Unlock()
	if !p.armed {
		return ModeNone
	}
	i := p.n
	p.n++
	p.log = append(p.log, kind)
	if kind == "begin" {
		p.attempt++
		p.inAtt = 0
	}
	ci := CallInfo{Index: i, Attempt: p.attempt, IndexInAttempt: p.inAtt, Kind: kind}
	if len(tag) > 0 {
		ci.Tag = tag[0]
	}
	p.inAtt++
	if p.decide != nil {
		m := p.decide(ci)
		p.records = append(p.records, CallRecord{CallInfo: ci, At: time.Now(), Failed: m})
		if m != ModeNone && p.fired == "" {
			p.fired = kind
		}
		if m == ModeKill {
			if p.BeforeKill != nil {
				p.BeforeKill()
			}
			syscall.Kill(os.Getpid(), syscall.SIGKILL)
			select {}
		}
		return m
	}
	p.records = append(p.records, CallRecord{CallInfo: ci, At: time.Now()})
	if i == p.failAt && p.fired == "" && p.mode != ModeNone {
		p.fired = kind
		if p.mode == ModeKill {
			if p.BeforeKill != nil {
				p.BeforeKill()
			}
			syscall.Kill(os.Getpid(), syscall.SIGKILL)
			select {} // never continue past the crash point
		}
		return p.mode
	}
	return ModeNone
}

// DefaultPlan serves connections opened through sql.Open("sqlite3-fault", dsn).
var DefaultPlan = NewPlan()

// Driver is the registered driver.
type Driver struct {
	Plan *Plan
	base sqlite3.SQLiteDriver
}

func init() { sql.Register("sqlite3-fault", &Driver{Plan: DefaultPlan}) }

func (d *Driver) Open(dsn string) (driver.Conn, error) {
	c, err := d.base.Open(dsn)
	if err != nil {
		return nil, err
	}
	return &conn{c: c.(*sqlite3.SQLiteConn), plan: d.Plan, stmts: map[*stmt]struct{}{}}, nil
}

type connector struct {
	dsn string
	d   *Driver
}

func (c *connector) Connect(context.Context) (driver.Conn, error) { return c.d.Open(c.dsn) }
func (c *connector) Driver() driver.Driver                        { return c.d }

// OpenDB returns a *sql.DB on the wrapped sqlite3 driver whose connections all obey plan.
func OpenDB(dsn string, plan *Plan) *sql.DB {
	return sql.OpenDB(&connector{dsn: dsn, d: &Driver{Plan: plan}})
}

type conn struct {
	c    *sqlite3.SQLiteConn
	plan *Plan

	mu      sync.Mutex
	dropped bool
	stmts   map[*stmt]struct{}
}

var (
	_ driver.Conn               = (*conn)(nil)
	_ driver.ConnBeginTx        = (*conn)(nil)
	_ driver.ConnPrepareContext = (*conn)(nil)
	_ driver.ExecerContext      = (*conn)(nil)
	_ driver.QueryerContext     = (*conn)(nil)
	_ driver.Pinger             = (*conn)(nil)
	_ driver.Validator          = (*conn)(nil)
	_ driver.SessionResetter    = (*conn)(nil)
)

func (c *conn) isDropped() bool {
	c.mu.Lock()
	defer c.mu.Unlock()
	return c.dropped
}

// drop loses the connection: finalize its statements (go-sqlite3 refuses to finalize a statement
// once its connection is closed, which would leave a zombie connection holding the write lock),
// then close it; SQLite rolls back the open transaction.
func (c *conn) drop() {
	c.mu.Lock()
	if c.dropped {
		c.mu.Unlock()
		return
	}
	c.dropped = true
	ss := make([]*stmt, 0, len(c.stmts))
	for s := range c.stmts {
		ss = append(ss, s)
	}
	c.stmts = map[*stmt]struct{}{}
	c.mu.Unlock()
	for _, s := range ss {
		s.s.Close()
	}
	c.c.Close()
}

// fail applies the failure mode of a call; it returns the error the call has to return.
func (c *conn) fail(m Mode, kind string) error {
	switch m {
	case ModeDrop:
		c.drop()
		return fmt.Errorf("%w (at %s)", ErrDropped, kind)
	default:
		return fmt.Errorf("%w (at %s)", ErrInjected, kind)
	}
}

func (c *conn) Prepare(q string) (driver.Stmt, error) {
	return c.PrepareContext(context.Background(), q)
}

func (c *conn) PrepareContext(ctx context.Context, q string) (driver.Stmt, error) {
	if c.isDropped() {
		return nil, ErrDropped
	}
	lbl := label(q)
	if m := c.plan.step("prepare(" + lbl + ")"); m != ModeNone {
		return nil, c.fail(m, "prepare("+lbl+")")
	}
	s, err := c.c.PrepareContext(ctx, q)
	if err != nil {
		return nil, err
	}
	st := &stmt{s: s.(*sqlite3.SQLiteStmt), c: c, lbl: lbl}
	c.mu.Lock()
	c.stmts[st] = struct{}{}
	c.mu.Unlock()
	return st, nil
}

func (c *conn) Close() error {
	if c.isDropped() {
		return nil
	}
	return c.c.Close()
}

func (c *conn) Begin() (driver.Tx, error) {
	return c.BeginTx(context.Background(), driver.TxOptions{})
}

func (c *conn) BeginTx(ctx context.Context, opts driver.TxOptions) (driver.Tx, error) {
	if c.isDropped() {
		return nil, ErrDropped
	}
	if m := c.plan.step("begin"); m != ModeNone {
		return nil, c.fail(m, "begin")
	}
	t, err := c.c.BeginTx(ctx, opts)
	if err != nil {
		return nil, err
	}
	return &tx{t: t, c: c}, nil
}

func (c *conn) ExecContext(ctx context.Context, q string, args []driver.NamedValue) (driver.Result, error) {
	if c.isDropped() {
		return nil, ErrDropped
	}
	if m := c.plan.step("conn-exec"); m != ModeNone {
		return nil, c.fail(m, "conn-exec")
	}
	return c.c.ExecContext(ctx, q, args)
}

func (c *conn) QueryContext(ctx context.Context, q string, args []driver.NamedValue) (driver.Rows, error) {
	if c.isDropped() {
		return nil, ErrDropped
	}
	if m := c.plan.step("conn-query"); m != ModeNone {
		return nil, c.fail(m, "conn-query")
	}
	return c.c.QueryContext(ctx, q, args)
}

func (c *conn) Ping(ctx context.Context) error {
	if c.isDropped() {
		return ErrDropped
	}
	return c.c.Ping(ctx)
}

func (c *conn) IsValid() bool                      { return !c.isDropped() }
func (c *conn) ResetSession(context.Context) error { return nil }

type stmt struct {
	s   *sqlite3.SQLiteStmt
	c   *conn
	lbl string
}

// label names a statement by the table it writes ("insert into <table>"), else by its first word.
func label(q string) string {
	f := strings.Fields(strings.ToLower(q))
	for i := 0; i+2 < len(f); i++ {
		if f[i] == "insert" && f[i+1] == "into" {
			return strings.TrimRight(f[i+2], "(")
		}
	}
	if len(f) > 0 {
		return f[0]
	}
	return "?"
}

var (
	_ driver.Stmt             = (*stmt)(nil)
	_ driver.StmtExecContext  = (*stmt)(nil)
	_ driver.StmtQueryContext = (*stmt)(nil)
)

func (s *stmt) Close() error {
	s.c.mu.Lock()
	_, open := s.c.stmts[s]
	delete(s.c.stmts, s)
	s.c.mu.Unlock()
	if !open { // finalized by drop(), or closed twice
		return nil
	}
	return s.s.Close()
}

func (s *stmt) NumInput() int {
	if s.c.isDropped() {
		return -1
	}
	return s.s.NumInput()
}

func named(args []driver.Value) []driver.NamedValue {
	nv := make([]driver.NamedValue, len(args))
	for i, a := range args {
		nv[i] = driver.NamedValue{Ordinal: i + 1, Value: a}
	}
	return nv
}

func (s *stmt) Exec(args []driver.Value) (driver.Result, error) {
	return s.ExecContext(context.Background(), named(args))
}

func (s *stmt) Query(args []driver.Value) (driver.Rows, error) {
	return s.QueryContext(context.Background(), named(args))
}

func (s *stmt) ExecContext(ctx context.Context, args []driver.NamedValue) (driver.Result, error) {
	if s.c.isDropped() {
		return nil, ErrDropped
	}
	tag := ""
	for _, a := range args {
		if b, ok := a.Value.([]byte); ok {
			tag = hex.EncodeToString(b)
			break
		}
	}
	if m := s.c.plan.step("exec("+s.lbl+")", tag); m != ModeNone {
		return nil, s.c.fail(m, "exec("+s.lbl+")")
	}
	return s.s.ExecContext(ctx, args)
}

func (s *stmt) QueryContext(ctx context.Context, args []driver.NamedValue) (driver.Rows, error) {
	if s.c.isDropped() {
		return nil, ErrDropped
	}
	if m := s.c.plan.step("stmt-query"); m != ModeNone {
		return nil, s.c.fail(m, "stmt-query")
	}
	return s.s.QueryContext(ctx, args)
}

type tx struct {
	t driver.Tx
	c *conn
}

func (t *tx) Commit() error {
	if t.c.isDropped() {
		return ErrDropped
	}
	switch m := t.c.plan.step("commit"); m {
	case ModeNone:
		return t.t.Commit()
	case ModeError:
		// a failing COMMIT: go-sqlite3 rolls the transaction back and reports the error
		t.t.Rollback()
		return t.c.fail(m, "commit")
	default:
		return t.c.fail(m, "commit")
	}
}

func (t *tx) Rollback() error {
	if t.c.isDropped() {
		return ErrDropped
	}
	switch m := t.c.plan.step("rollback"); m {
	case ModeNone:
		return t.t.Rollback()
	default:
		// a ROLLBACK that fails leaves nothing sensible behind: treat it as a lost connection
		return t.c.fail(ModeDrop, "rollback")
	}
}
